import Mathlib.Tactic
import Sentinel.Model.Hot
import Sentinel.Lemmas.Hot
import Sentinel.Lemmas.HotSV
import Sentinel.Lemmas.HotSim
import Sentinel.Lemmas.HotEntry
/-!
# C05 — hot-parameter QPS rules shape each parameter value independently

All statements are about `Sentinel.Hot` (`rejectCheck`, `throttleCheck`, `LRU`, `extract`, `slotCheck`), the
definitions the compiled driver runs against `core/hotspot` line by line.

Reading of the property made explicit here:

* *per value, per residency episode.*  With a capacity below the number of live values the LRU evicts a value
  and its next request starts a fresh bucket.  The per-value bounds are therefore stated for histories during
  which the value is not evicted (`NotEvictedR/T`); while the live values fit into the capacity nothing is ever
  evicted (`independence_*`), so then they hold for the whole history.
* *a history* is a list of `PerformChecking` calls `(clock reading, value, batch)` with non-decreasing clock
  readings; which calls reach a controller (earlier rules may block, a queued request sleeps) is the slot's
  business (`slotCheck`) and irrelevant to the statements, which quantify over all such lists.
* *reloads.*  `reload` models `hotspot.LoadRules` on a module that already holds rules (controller / statistic reuse);
  `reload_no_shared_statistic` shows that no statistic is shared between two rules of a generation, so every rule in
  force is, at any time, a controller with caches of its own to which the per-controller theorems apply (for a rule that
  inherits a statistic with *changed* limits the bounds restart from the inherited cells: `Sync`/`TokOk`-style
  hypotheses are about the state, not about how it came to be).
* *int64.*  The model wraps where Go wraps; each theorem carries the decidable no-wrap guard it needs.
* *known finding `hot-throttle-floor`.*  The throttling interval is `⌊batch·D·1000/T⌋` whole ms.  `pacing` is
  proved for that interval; it is the property's real-valued `batch·D/T` exactly when `T ∣ batch·D·1000`
  (`pacing_real_partial`), and is 0 — nothing is paced — when `T > batch·D·1000` (`pacing_real_witness`).
-/
namespace Sentinel.C05
open Sentinel.Hot

/-! ## configuration -/

theorem capOf_pos (r : Rule) : 0 < capOf r := by
  unfold capOf
  split
  · omega
  · dsimp only; split <;> split <;> omega

/-- a positive `ParamsMaxCapacity` is used as is; otherwise `min(20000, 4000·D)` -/
theorem capOf_explicit (r : Rule) (h : 0 < r.cap) : (capOf r : Int) = r.cap := by
  unfold capOf; rw [if_pos h]; omega

theorem capOf_default (r : Rule) (h : r.cap ≤ 0) (hD : 0 < r.D) :
    (capOf r : Int) = min 20000 (4000 * r.D) := by
  unfold capOf
  have : ¬ 0 < r.cap := by omega
  rw [if_neg this]
  dsimp only
  split <;> split <;> omega

/-- fresh caches of a rule are in step -/
theorem fresh_sync (r : Rule) : Sync (mkCtl 0 r).time (mkCtl 0 r).token :=
  ⟨rfl, rfl, capOf_pos r⟩

/-! ## LRU facts -/

/-- an access never leaves more keys than the capacity, keeps the keys distinct … -/
theorem lru_length_le (c : LRU) (u : Val) (x : Int) (hs : 0 < c.size) (h : c.keys.length ≤ c.size) :
    (c.addIfAbsent u x).1.keys.length ≤ c.size := by
  rw [(LRU.acc_addIfAbsent c u x).keys]; exact LRU.accKeys_length hs h

theorem lru_nodup (c : LRU) (u : Val) (x : Int) (h : c.keys.Nodup) : (c.addIfAbsent u x).1.keys.Nodup := by
  rw [(LRU.acc_addIfAbsent c u x).keys]; exact LRU.accKeys_nodup h

/-- … and when a new key arrives at a full cache exactly the least recently used key (the tail) goes -/
theorem lru_evicts_lru (c : LRU) (u : Val) (x : Int) (hs : 0 < c.size) (hu : u ∉ c.keys)
    (hfull : c.keys.length = c.size) : (c.addIfAbsent u x).1.keys = u :: c.keys.dropLast := by
  rw [(LRU.acc_addIfAbsent c u x).keys]; exact LRU.accKeys_evicts_lru hs hu hfull

/-- nothing is evicted while there is room or the key is already there -/
theorem lru_no_eviction (c : LRU) (u : Val) (x : Int) (h : u ∈ c.keys ∨ c.keys.length < c.size) :
    ∀ k ∈ c.keys, k ∈ (c.addIfAbsent u x).1.keys := by
  rw [(LRU.acc_addIfAbsent c u x).keys]; exact LRU.accKeys_noevict h

/-- a present key is moved to the front (most recently used) and keeps its cell -/
theorem lru_hit (c : LRU) (u : Val) (x y : Int) (h : c.find u = some y) :
    (c.addIfAbsent u x).2 = some y ∧ (c.addIfAbsent u x).1.keys = u :: c.keys.filter (· != u) := by
  rw [LRU.addIfAbsent_some x h]; exact ⟨rfl, LRU.keys_touch c u y⟩

/-! ## the two caches stay in step; the retry loops never spin -/

theorem caches_in_sync (r : Rule) (tm tk : LRU) (hs : Sync tm tk) (qs : List Req) :
    Sync (endReject r tm tk qs).1 (endReject r tm tk qs).2 := sync_run r qs tm tk hs

theorem svReject_ne_spin (T maxC dms : Int) (cell : Option (Int × Int)) (now b : Int) :
    (svReject T maxC dms cell now b).2 ≠ .spin := by
  unfold svReject
  split
  · simp
  · split
    · simp
    · split
      · simp
      · dsimp only; split <;> split <;> simp

/-- sequentially every `for` loop of `PerformChecking` terminates in its first iteration -/
theorem never_spins (r : Rule) (tm tk : LRU) (hs : Sync tm tk) (now : Int) (u : Val) (b : Int) :
    (rejectCheck r tm tk now u b).2.2 ≠ .spin := by
  have h := congrArg Prod.snd (rejectCheck_spec r tm tk hs now u b).2.1
  simp only at h
  rw [h]; exact svReject_ne_spin _ _ _ _ _ _

/-! ## reject mode -/

theorem mono_weaken {p p' : Int} (h : p' ≤ p) : ∀ {qs : List Req}, Mono p qs → Mono p' qs
  | [], _ => trivial
  | _ :: _, ⟨h1, h2⟩ => ⟨le_trans h h1, h2⟩

theorem mono_reqsOf (v : Val) : ∀ (qs : List Req) (p : Int), Mono p qs → Mono p (reqsOf v qs) := by
  intro qs
  induction qs with
  | nil => intro _ _; trivial
  | cons q qs ih =>
    intro p hm
    obtain ⟨h1, h2⟩ := hm
    by_cases hv : q.v = v
    · have : reqsOf v (q :: qs) = q :: reqsOf v qs := by
        simp only [reqsOf, List.filter_cons, hv, decide_true, if_true]
      rw [this]; exact ⟨h1, ih _ h2⟩
    · have : reqsOf v (q :: qs) = reqsOf v qs := by
        simp only [reqsOf, List.filter_cons, hv, decide_false, Bool.false_eq_true, if_false]
      rw [this]; exact mono_weaken h1 (ih _ h2)

/-- **envelope.**  From the request that first sees `v` (absent from the cache) and as long as `v` is not
    evicted, the tokens admitted for `v` never exceed `(T_v + burst) + ⌊T_v · elapsed / D⌋`, whatever the other
    values do.  (`T_v` = the value's specific threshold if configured.) -/
theorem envelope (r : Rule) (v : Val) (tm tk : LRU) (hs : Sync tm tk) (hfresh : tm.find v = none)
    (q0 : Req) (hq0 : q0.v = v) (qs : List Req) (tEnd : Int)
    (hne : NotEvictedR r v tm tk (q0 :: qs)) (hmono : Mono q0.t qs)
    (hT : 0 ≤ tokenCount r v) (hburst : 0 ≤ r.burst) (hD : 0 < r.D)
    (hmax : maxCount r v = tokenCount r v + r.burst) (hdur : durMs r = r.D * 1000)
    (hall : ∀ q ∈ q0 :: qs, 0 ≤ q.b ∧ q.t ≤ tEnd ∧ (q.t - q0.t) * tokenCount r v + (tokenCount r v + r.burst) < two63) :
    admitted (forVal v (runReject r tm tk (q0 :: qs)))
      ≤ (tokenCount r v + r.burst) + (tEnd - q0.t) * tokenCount r v / (r.D * 1000) := by
  rw [sim_reject r v _ tm tk hs (keeps_of_notEvicted r v _ tm tk hs hne), cellR_none hfresh, hmax, hdur]
  have e : reqsOf v (q0 :: qs) = q0 :: reqsOf v qs := by
    simp only [reqsOf, List.filter_cons, hq0, decide_true, if_true]
  rw [e]
  apply sv_envelope hT (by omega) (by omega) q0 (reqsOf v qs) tEnd (mono_reqsOf v qs _ hmono)
  intro q hq
  rcases List.mem_cons.mp hq with rfl | hq
  · exact hall _ List.mem_cons_self
  · exact hall q (List.mem_cons_of_mem _ (List.mem_filter.mp hq).1)

/-- all token cells stay within `[0, T_v + burst]` -/
def TokOk (r : Rule) (tm tk : LRU) : Prop :=
  ∀ v a q, cellR tm tk v = some (a, q) → 0 ≤ q ∧ q ≤ maxCount r v

theorem svReject_range {T maxC dms now b : Int} {cell : Option (Int × Int)} (hb : 0 ≤ b)
    (hc : ∀ a q, cell = some (a, q) → 0 ≤ q ∧ q ≤ maxC) :
    ∀ a q, (svReject T maxC dms cell now b).1 = some (a, q) → 0 ≤ q ∧ q ≤ maxC := by
  unfold svReject
  intro a q
  split
  · exact hc a q
  split
  · exact hc a q
  split
  · intro h; cases h; omega
  · rename_i last rest
    have hr := hc last rest rfl
    dsimp only
    split
    · split
      · exact hc a q
      · intro h; cases h
        have := refill_le (T := T) (maxC := maxC) (dms := dms) (pt := now - last) (rest := rest) (b := b)
        omega
    · split
      · intro h; cases h; omega
      · exact hc a q

theorem tokOk_step (r : Rule) (tm tk : LRU) (hs : Sync tm tk) (h : TokOk r tm tk) (now : Int) (u : Val) (b : Int)
    (hb : 0 ≤ b) : TokOk r (rejectCheck r tm tk now u b).1 (rejectCheck r tm tk now u b).2.1 := by
  obtain ⟨s1, s2, s3⟩ := rejectCheck_spec r tm tk hs now u b
  intro v a q hv
  by_cases hvu : v = u
  · subst hvu
    have e := congrArg Prod.fst s2
    simp only at e
    rw [e] at hv
    exact svReject_range hb (fun a q hc => h v a q hc) a q hv
  · rcases s3 with ⟨e1, e2⟩ | ⟨a1, a2⟩
    · rw [e1, e2] at hv; exact h v a q hv
    · have hres : (rejectCheck r tm tk now u b).1.find v ≠ none := by
        intro hn; rw [cellR_none hn] at hv; cases hv
      rw [cellR_other s1 a1 a2 hvu hres] at hv
      exact h v a q hv

/-- `TokOk` (and `Sync`) hold along every history with non-negative batches, hence in every reachable state -/
theorem tokens_in_range (r : Rule) : ∀ (qs : List Req) (tm tk : LRU), Sync tm tk → TokOk r tm tk →
    (∀ q ∈ qs, 0 ≤ q.b) → TokOk r (endReject r tm tk qs).1 (endReject r tm tk qs).2 := by
  intro qs
  induction qs with
  | nil => intro _ _ _ h _; exact h
  | cons q qs ih =>
    intro tm tk hs h hall
    exact ih _ _ (rejectCheck_spec r tm tk hs q.t q.v q.b).1
      (tokOk_step r tm tk hs h q.t q.v q.b (hall q List.mem_cons_self))
      (fun x hx => hall x (List.mem_cons_of_mem _ hx))

theorem fresh_tokOk (r : Rule) : TokOk r (mkCtl 0 r).time (mkCtl 0 r).token := by
  intro v a q h; simp [mkCtl, cellR, LRU.find] at h

/-- **two_max_per_duration.**  Inside any closed window of one duration `[a, a + D]`, in any reachable state,
    while `v` is not evicted, at most `2·(T_v + burst)` tokens are admitted for `v`. -/
theorem two_max_per_duration (r : Rule) (v : Val) (tm tk : LRU) (hs : Sync tm tk) (htok : TokOk r tm tk)
    (qs : List Req) (a : Int) (hne : NotEvictedR r v tm tk qs)
    (hburst : 0 ≤ r.burst) (hT : 0 ≤ tokenCount r v) (hmax : maxCount r v = tokenCount r v + r.burst)
    (hall : ∀ q ∈ qs, a ≤ q.t ∧ q.t ≤ a + durMs r ∧ 0 ≤ q.b) :
    admitted (forVal v (runReject r tm tk qs)) ≤ 2 * (tokenCount r v + r.burst) := by
  rw [sim_reject r v _ tm tk hs (keeps_of_notEvicted r v _ tm tk hs hne)]
  have hr : 0 ≤ restOf (cellR tm tk v) ∧ restOf (cellR tm tk v) ≤ maxCount r v := by
    cases hc : cellR tm tk v with
    | none => simp only [restOf]; omega
    | some c => obtain ⟨x, y⟩ := c; exact htok v x y hc
  have := sv_window_aux (T := tokenCount r v) (maxC := maxCount r v) (dms := durMs r) (a := a) (by omega)
    (reqsOf v qs) (cellR tm tk v) hr.1 hr.2 (fun q hq => hall q (List.mem_filter.mp hq).1)
  omega

/-- **idle_grant.**  A value that is not resident, or whose bucket was last refilled more than one duration ago
    (in particular a value idle for longer than the duration: the refill time is the clock reading of one of the
    value's own earlier requests), is granted any batch up to its threshold, in every reachable state. -/
theorem idle_grant (r : Rule) (v : Val) (tm tk : LRU) (hs : Sync tm tk) (htok : TokOk r tm tk) (now b : Int)
    (hT : 0 < tokenCount r v) (hb0 : 0 ≤ b) (hbT : b ≤ tokenCount r v) (hburst : 0 ≤ r.burst) (hD : 0 < r.D)
    (hmax : maxCount r v = tokenCount r v + r.burst) (hdur : durMs r = r.D * 1000)
    (hidle : ∀ last, tm.find v = some last →
      now - last > r.D * 1000 ∧ (now - last) * tokenCount r v + (tokenCount r v + r.burst) < two63) :
    (rejectCheck r tm tk now v b).2.2 = .pass := by
  have h := congrArg Prod.snd (rejectCheck_spec r tm tk hs now v b).2.1
  simp only at h
  rw [h]
  apply sv_idle_grant hT (by rw [hdur]; omega) hb0 hbT (by omega)
  intro last rest hc
  have hl : tm.find v = some last := by
    unfold cellR at hc
    cases h1 : tm.find v with
    | none => rw [h1] at hc; cases hc
    | some x =>
      rw [h1] at hc
      cases h2 : tk.find v with
      | none => rw [h2] at hc; cases hc
      | some y => rw [h2] at hc; cases hc; rfl
  obtain ⟨i1, i2⟩ := hidle last hl
  obtain ⟨t1, t2⟩ := htok v last rest hc
  exact ⟨by rw [hdur]; exact i1, t1, t2, by rw [hmax]; exact i2⟩

theorem find_of_cellR {tm tk : LRU} {v : Val} {a q : Int} (hc : cellR tm tk v = some (a, q)) : tm.find v = some a := by
  unfold cellR at hc
  cases h1 : tm.find v with
  | none => rw [h1] at hc; cases hc
  | some x =>
    rw [h1] at hc
    cases h2 : tk.find v with
    | none => rw [h2] at hc; cases hc
    | some y => rw [h2] at hc; cases hc; rfl

theorem svReject_time {T maxC dms now b : Int} {cell : Option (Int × Int)} {a q : Int}
    (h : (svReject T maxC dms cell now b).1 = some (a, q)) : a = now ∨ ∃ q0, cell = some (a, q0) := by
  cases cell with
  | none =>
    unfold svReject at h
    split_ifs at h <;> first | (cases h; exact Or.inl rfl) | cases h
  | some c =>
    obtain ⟨last, rest⟩ := c
    unfold svReject at h
    dsimp only at h
    split_ifs at h <;> first | (cases h; exact Or.inl rfl) | (cases h; exact Or.inr ⟨_, rfl⟩)

/-- the refill time stored for a value is always the clock reading of one of that value's own requests:
    a step either leaves the time cell of `v` alone or (when the step is a request for `v`) sets it to `now` -/
theorem time_cell_step (r : Rule) (tm tk : LRU) (hs : Sync tm tk) (now : Int) (u : Val) (b : Int) (v : Val) (a : Int)
    (h : (rejectCheck r tm tk now u b).1.find v = some a) : (v = u ∧ a = now) ∨ tm.find v = some a := by
  obtain ⟨s1, s2, s3⟩ := rejectCheck_spec r tm tk hs now u b
  by_cases hvu : v = u
  · subst hvu
    cases h2 : (rejectCheck r tm tk now v b).2.1.find v with
    | none => rw [(s1.find_none v).mpr h2] at h; cases h
    | some q' =>
      have e := congrArg Prod.fst s2
      simp only at e
      rw [cellR_some h h2] at e
      rcases svReject_time e.symm with h3 | ⟨q0, h3⟩
      · exact Or.inl ⟨rfl, h3⟩
      · exact Or.inr (find_of_cellR h3)
  · rcases s3 with ⟨e1, _⟩ | ⟨a1, _⟩
    · right; rw [e1] at h; exact h
    · right; exact a1.other v hvu a h

theorem time_cell_le_run (r : Rule) (v : Val) (tl : Int) : ∀ (qs : List Req) (tm tk : LRU), Sync tm tk →
    (∀ a, tm.find v = some a → a ≤ tl) → (∀ q ∈ qs, q.v = v → q.t ≤ tl) →
    ∀ a, (endReject r tm tk qs).1.find v = some a → a ≤ tl := by
  intro qs
  induction qs with
  | nil => intro _ _ _ h _; exact h
  | cons q qs ih =>
    intro tm tk hs h0 hall
    apply ih _ _ (rejectCheck_spec r tm tk hs q.t q.v q.b).1
    · intro a ha
      rcases time_cell_step r tm tk hs q.t q.v q.b v a ha with ⟨e1, e2⟩ | h1
      · rw [e2]; exact hall q List.mem_cons_self e1.symm
      · exact h0 a h1
    · exact fun x hx => hall x (List.mem_cons_of_mem _ hx)

/-- **idle_grant**, history form: after any history in which the requests for `v` all came at or before `tl`,
    a request for `v` later than `tl + D` with a batch up to the threshold is granted. -/
theorem idle_grant_history (r : Rule) (v : Val) (tm tk : LRU) (hs : Sync tm tk) (htok : TokOk r tm tk)
    (qs : List Req) (tl now b : Int)
    (hcell0 : ∀ a, tm.find v = some a → a ≤ tl) (hreq : ∀ q ∈ qs, q.v = v → q.t ≤ tl) (hbs : ∀ q ∈ qs, 0 ≤ q.b)
    (hidle : now - tl > r.D * 1000)
    (hT : 0 < tokenCount r v) (hb0 : 0 ≤ b) (hbT : b ≤ tokenCount r v) (hburst : 0 ≤ r.burst) (hD : 0 < r.D)
    (hmax : maxCount r v = tokenCount r v + r.burst) (hdur : durMs r = r.D * 1000)
    (hfit : ∀ last, (endReject r tm tk qs).1.find v = some last →
      (now - last) * tokenCount r v + (tokenCount r v + r.burst) < two63) :
    (rejectCheck r (endReject r tm tk qs).1 (endReject r tm tk qs).2 now v b).2.2 = .pass := by
  apply idle_grant r v _ _ (caches_in_sync r tm tk hs qs) (tokens_in_range r qs tm tk hs htok hbs) now b
    hT hb0 hbT hburst hD hmax hdur
  intro last hl
  have := time_cell_le_run r v tl qs tm tk hs hcell0 hreq last hl
  exact ⟨by omega, hfit last hl⟩

/-! ## throttling mode -/

/-- **pacing** and **wait_lt_max.**  While `v` is not evicted, consecutive admitted requests for `v` are scheduled
    (clock reading + requested wait) at least the code's interval of the later request apart, and every
    requested wait is positive and strictly below `MaxQueueingTimeMs` — whatever the other values do.
    `H` bounds the clock readings (no-wrap guard). -/
theorem pacing (r : Rule) (v : Val) (tm : LRU) (hp : 0 < tm.size) (qs : List Req) (H : Int)
    (hne : NotEvictedT r v tm qs) (hmq : 0 ≤ r.mq)
    (hcell : ∀ s, tm.find v = some s → 0 ≤ s ∧ s ≤ H + r.mq)
    (hall : ∀ q ∈ qs, 0 ≤ q.t ∧ q.t ≤ H ∧ 0 ≤ interval (tokenCount r v) r.D q.b ∧
      H + r.mq + interval (tokenCount r v) r.D q.b < two63) :
    Paced (tokenCount r v) r.D (tm.find v) (forVal v (runThrottle r tm qs)) ∧
      WaitsBelow r.mq (forVal v (runThrottle r tm qs)) := by
  rw [sim_throttle r v _ tm hp (keepsT_of_notEvicted r v _ tm hp hne)]
  exact sv_pacing_aux hmq (reqsOf v qs) (tm.find v) hcell (fun q hq => hall q (List.mem_filter.mp hq).1)

theorem wait_lt_max (r : Rule) (v : Val) (tm : LRU) (hp : 0 < tm.size) (qs : List Req) (H : Int)
    (hne : NotEvictedT r v tm qs) (hmq : 0 ≤ r.mq)
    (hcell : ∀ s, tm.find v = some s → 0 ≤ s ∧ s ≤ H + r.mq)
    (hall : ∀ q ∈ qs, 0 ≤ q.t ∧ q.t ≤ H ∧ 0 ≤ interval (tokenCount r v) r.D q.b ∧
      H + r.mq + interval (tokenCount r v) r.D q.b < two63) :
    WaitsBelow r.mq (forVal v (runThrottle r tm qs)) := (pacing r v tm hp qs H hne hmq hcell hall).2

/-- the code's interval is the floor of the real-valued spacing, in whole ms -/
theorem interval_is_floor (T D b : Int) (hT : 0 < T) (hD : 0 ≤ D) (hb : 0 ≤ b) (hfit : b * D * 1000 < 9007199254740992) :
    interval T D b = b * D * 1000 / T := interval_floor hT hD hb hfit

/-- the property as worded: the enforced spacing is at least the real-valued `batch·D/T` seconds, i.e.
    `interval · T ≥ batch·D·1000` (ms·tokens) -/
def pacing_real_statement : Prop :=
  ∀ T D b : Int, 0 < T → 0 < D → 0 < b → b * D * 1000 < 9007199254740992 → b * D * 1000 ≤ interval T D b * T

/-- **pacing_real_partial**: true whenever the threshold divides `batch·D·1000` … -/
theorem pacing_real_partial (T D b : Int) (hT : 0 < T) (hD : 0 < D) (hb : 0 < b)
    (hfit : b * D * 1000 < 9007199254740992) (hdvd : T ∣ b * D * 1000) : b * D * 1000 ≤ interval T D b * T :=
  le_of_eq (interval_real_of_dvd hT (le_of_lt hD) (le_of_lt hb) hfit hdvd).symm

/-- … and otherwise missed by less than one ms·T -/
theorem pacing_real_gap (T D b : Int) (hT : 0 < T) (hD : 0 < D) (hb : 0 < b)
    (hfit : b * D * 1000 < 9007199254740992) : b * D * 1000 < (interval T D b + 1) * T := by
  rw [interval_floor hT (le_of_lt hD) (le_of_lt hb) hfit]
  have := Int.lt_ediv_add_one_mul_self (b * D * 1000) hT
  linarith

/-- **pacing_real, closed as an equivalence.**  What keeps `pacing_real_statement` partial is exactly one thing:
    `throttlingTrafficShapingController` computes the interval with an *integer* division
    (`batch*durationInSec*1000/tokenCount`, the `math.Round(float64(…))` around it is applied to an integer and does
    nothing).  Inside the no-wrap guard the code's spacing reaches the property's real-valued `batch·D/T`
    **if and only if** the threshold divides `batch·D·1000`; everywhere else it is short by less than 1 ms
    (`pacing_real_gap`), and it is 0 for `T > batch·D·1000` (`pacing_real_witness`).  So the finding's region is
    precisely `¬ T ∣ batch·D·1000`, and nothing else is missing. -/
theorem pacing_real_iff (T D b : Int) (hT : 0 < T) (hD : 0 < D) (hb : 0 < b)
    (hfit : b * D * 1000 < 9007199254740992) : b * D * 1000 ≤ interval T D b * T ↔ T ∣ b * D * 1000 := by
  constructor
  · intro h
    rw [interval_floor hT (le_of_lt hD) (le_of_lt hb) hfit] at h
    have h2 := Int.ediv_mul_le (b * D * 1000) (ne_of_gt hT)
    exact Dvd.intro_left _ (le_antisymm h2 h)
  · exact pacing_real_partial T D b hT hD hb hfit

/-- the real-valued pacing claim on decision lists: consecutive admitted requests are scheduled at least
    `batch·D/T` seconds apart (`gap·T ≥ batch·D·1000` in ms·tokens) -/
def PacedReal (T D : Int) : Option Int → List (Req × Res) → Prop
  | _, [] => True
  | last, p :: l =>
    match p.2 with
    | .pass => (∀ s, last = some s → p.1.b * D * 1000 ≤ (p.1.t - s) * T) ∧ PacedReal T D (some p.1.t) l
    | .wait ms => (∀ s, last = some s → p.1.b * D * 1000 ≤ (p.1.t + ms - s) * T) ∧ PacedReal T D (some (p.1.t + ms)) l
    | _ => PacedReal T D last l

theorem pacedReal_of_paced {T D : Int} (hT : 0 < T) : ∀ (l : List (Req × Res)) (last : Option Int),
    Paced T D last l → (∀ p ∈ l, interval T D p.1.b * T = p.1.b * D * 1000) → PacedReal T D last l := by
  intro l
  induction l with
  | nil => intro _ _ _; trivial
  | cons p l ih =>
    intro last hp hall
    have he := hall p List.mem_cons_self
    have hrest := fun x hx => hall x (List.mem_cons_of_mem _ hx)
    unfold Paced at hp
    unfold PacedReal
    cases hr : p.2 with
    | pass =>
      rw [hr] at hp
      refine ⟨fun s hs => ?_, ih _ hp.2 hrest⟩
      have := hp.1 s hs
      nlinarith
    | wait ms =>
      rw [hr] at hp
      refine ⟨fun s hs => ?_, ih _ hp.2 hrest⟩
      have := hp.1 s hs
      nlinarith
    | block => rw [hr] at hp; exact ih _ hp hrest
    | spin => rw [hr] at hp; exact ih _ hp hrest

theorem mem_runThrottle (r : Rule) : ∀ (qs : List Req) (tm : LRU) (p : Req × Res), p ∈ runThrottle r tm qs → p.1 ∈ qs := by
  intro qs
  induction qs with
  | nil => intro _ p hp; simp [runThrottle] at hp
  | cons q qs ih =>
    intro tm p hp
    simp only [runThrottle, List.mem_cons] at hp
    rcases hp with rfl | hp
    · exact List.mem_cons_self
    · exact List.mem_cons_of_mem _ (ih _ p hp)

/-- **pacing_real on histories** (the full property wording), for every multi-value history in which the batches of
    the requests for `v` satisfy `T_v ∣ batch·D·1000` — by `pacing_real_iff` this side condition cannot be weakened. -/
theorem pacing_real_history (r : Rule) (v : Val) (tm : LRU) (hp : 0 < tm.size) (qs : List Req) (H : Int)
    (hne : NotEvictedT r v tm qs) (hmq : 0 ≤ r.mq) (hT : 0 < tokenCount r v) (hD : 0 < r.D)
    (hcell : ∀ s, tm.find v = some s → 0 ≤ s ∧ s ≤ H + r.mq)
    (hall : ∀ q ∈ qs, 0 ≤ q.t ∧ q.t ≤ H ∧ 0 ≤ interval (tokenCount r v) r.D q.b ∧
      H + r.mq + interval (tokenCount r v) r.D q.b < two63)
    (hdvd : ∀ q ∈ qs, q.v = v → 0 < q.b ∧ q.b * r.D * 1000 < 9007199254740992 ∧ tokenCount r v ∣ q.b * r.D * 1000) :
    PacedReal (tokenCount r v) r.D (tm.find v) (forVal v (runThrottle r tm qs)) := by
  apply pacedReal_of_paced hT _ _ (pacing r v tm hp qs H hne hmq hcell hall).1
  intro p hpm
  obtain ⟨hp1, hp2⟩ := List.mem_filter.mp hpm
  have hq := mem_runThrottle r qs tm p hp1
  obtain ⟨d1, d2, d3⟩ := hdvd p.1 hq (by simpa using hp2)
  exact interval_real_of_dvd hT (le_of_lt hD) (le_of_lt d1) d2 d3

/-- **known finding `hot-throttle-floor`**: threshold 2000/s, batch 1, duration 1 s — the interval is 0 … -/
theorem pacing_real_witness : ¬ pacing_real_statement := by
  intro h
  have := h 2000 1 1 (by decide) (by decide) (by decide) (by decide)
  revert this
  decide

/-- … and on the model of the code nothing is paced: four requests for one value at the same millisecond are
    all admitted without any wait (threshold 2000/s; the real-valued spacing is 0.5 ms) -/
theorem zero_interval_witness :
    (runThrottle { res := "hz", cb := 1, T := 2000, D := 1 } ⟨20000, []⟩
      [⟨0, "v", 1⟩, ⟨0, "v", 1⟩, ⟨0, "v", 1⟩, ⟨0, "v", 1⟩]).map (·.2) = [.pass, .pass, .pass, .pass] := by
  decide

/-! ## no argument, no limit -/

/-- **no_arg_no_limit.**  If no rule of the resource extracts an argument from the call (no attachment under
    its key and no argument at its index, or a nil one), the slot passes it, asks for no sleep, and no
    controller state changes. -/
theorem no_arg_no_limit (res : String) (args : List Val) (atts : List (String × Val)) (b : Int) :
    ∀ (cs : List Ctl) (now : Int) (sl : List Int),
      (∀ c ∈ cs, c.rule.res = res → extract c.rule args atts = none) →
      slotCheck res args atts b cs now sl = (cs, now, { sleeps := sl }) := by
  intro cs
  induction cs with
  | nil => intro _ _ _; rfl
  | cons c cs ih =>
    intro now sl hall
    have ih' := ih now sl (fun x hx => hall x (List.mem_cons_of_mem _ hx))
    unfold slotCheck
    by_cases hr : c.rule.res ≠ res
    · simp only [ih']; rw [if_pos hr]
    · have hr' : c.rule.res = res := not_not.mp hr
      simp only [ih']; rw [if_neg hr, hall c List.mem_cons_self hr']

/-- the slot calls each controller of the resource at most once per entry, with the value the rule extracts:
    after `slotCheck` every controller is either untouched or the result of one `check` on that value (so the
    per-controller histories the theorems above quantify over are exactly what the slot produces) -/
theorem slotCheck_pointwise (res : String) (args : List Val) (atts : List (String × Val)) (b : Int) :
    ∀ (cs : List Ctl) (now : Int) (sl : List Int),
      List.Forall₂ (fun c c' => c' = c ∨ ∃ t v, c.rule.res = res ∧ extract c.rule args atts = some v ∧ c' = (check c t v b).1)
        cs (slotCheck res args atts b cs now sl).1 := by
  intro cs
  induction cs with
  | nil => intro _ _; unfold slotCheck; exact List.Forall₂.nil
  | cons c cs ih =>
    intro now sl
    have hrefl : List.Forall₂ (fun c c' => c' = c ∨ ∃ t v, c.rule.res = res ∧ extract c.rule args atts = some v ∧
        c' = (check c t v b).1) cs cs := by
      clear ih
      induction cs with
      | nil => exact List.Forall₂.nil
      | cons x xs ihx => exact List.Forall₂.cons (Or.inl rfl) ihx
    unfold slotCheck
    by_cases hr : c.rule.res ≠ res
    · rw [if_pos hr]; exact List.Forall₂.cons (Or.inl rfl) (ih now sl)
    · rw [if_neg hr]
      have hr' : c.rule.res = res := not_not.mp hr
      cases he : extract c.rule args atts with
      | none => exact List.Forall₂.cons (Or.inl rfl) (ih now sl)
      | some v =>
        dsimp only
        have hstep : ∀ c', c' = (check c (now / 1000000) v b).1 →
            (c' = c ∨ ∃ t v, c.rule.res = res ∧ extract c.rule args atts = some v ∧ c' = (check c t v b).1) :=
          fun c' h => Or.inr ⟨_, _, hr', he, h⟩
        cases hc : check c (now / 1000000) v b with
        | mk c' rr =>
          have hc' : c' = (check c (now / 1000000) v b).1 := by rw [hc]
          cases rr with
          | pass => exact List.Forall₂.cons (hstep c' hc') (ih now sl)
          | block => exact List.Forall₂.cons (hstep c' hc') hrefl
          | spin => exact List.Forall₂.cons (hstep c' hc') hrefl
          | wait ms =>
            dsimp only
            split
            · exact List.Forall₂.cons (hstep c' hc') (ih _ _)
            · exact List.Forall₂.cons (hstep c' hc') (ih now sl)

/-- the value's specific threshold is used when one is configured, the rule threshold otherwise -/
theorem tokenCount_specific (r : Rule) (v : Val) (t : Int) (h : r.items.lookup v = some t) : tokenCount r v = t := by
  simp [tokenCount, h]

theorem tokenCount_default (r : Rule) (v : Val) (h : r.items.lookup v = none) : tokenCount r v = r.T := by
  simp [tokenCount, h]

/-- extraction: the attachment under the rule's key wins, then the index counted from the end when negative;
    out-of-range indices and nil values give "no argument" -/
theorem extract_att (r : Rule) (args : List Val) (atts : List (String × Val)) (v : Val)
    (hk : r.key ≠ "") (hl : atts.lookup r.key = some v) (hv : v ≠ nilV) : extract r args atts = some v := by
  have : atts.isEmpty = false := by cases atts with
    | nil => simp at hl
    | cons _ _ => rfl
  simp [extract, extractAtt, this, hk, hl, nonNil, hv]

theorem extract_neg_index (r : Rule) (args : List Val) (k : Nat) (hk : r.idx = -((k : Int) + 1)) (hlen : k < args.length)
    (hkey : r.key = "") : extract r args [] = nonNil (args[args.length - 1 - k]'(by omega)) := by
  have h1 : extractAtt r [] = none := by simp [extractAtt]
  simp only [extract, h1, extractIdx]
  have hlt : r.idx < 0 := by omega
  simp only [hlt, if_true]
  have h2 : ¬ ((args.length : Int) + r.idx < 0) := by omega
  have h3 : ¬ ((args.length : Int) + r.idx ≥ args.length) := by omega
  simp only [h2, h3, if_false]
  have h4 : ((args.length : Int) + r.idx).toNat = args.length - 1 - k := by omega
  rw [h4, List.getElem?_eq_getElem (by omega)]

theorem extract_out_of_range (r : Rule) (args : List Val) (hkey : r.key = "")
    (h : (args.length : Int) ≤ r.idx ∨ r.idx < -(args.length : Int)) : extract r args [] = none := by
  have h1 : extractAtt r [] = none := by simp [extractAtt]
  simp only [extract, h1, extractIdx]
  rcases h with h | h
  · have hlt : ¬ r.idx < 0 := by omega
    have h2 : ¬ r.idx < 0 := hlt
    have h3 : r.idx ≥ (args.length : Int) := h
    simp [hlt, h3]
  · have hlt : r.idx < 0 := by omega
    have h2 : (args.length : Int) + r.idx < 0 := by omega
    simp [hlt, h2]

/-! ## independence -/

/-- **independence (reject).**  While the live values (those in the cache plus those of the history) fit into
    the capacity, the decisions for `v` are exactly the decisions of the same controller on the same requests
    with all other values' requests deleted. -/
theorem independence_reject (r : Rule) (v : Val) (tm tk : LRU) (hs : Sync tm tk) (hnd : tm.keys.Nodup)
    (qs : List Req) (hcap : (tm.keys ++ qs.map (·.v)).dedup.length ≤ tm.size) :
    forVal v (runReject r tm tk qs) = runReject r tm tk (reqsOf v qs) := by
  have hsub : tm.keys ⊆ (tm.keys ++ qs.map (·.v)).dedup := fun x hx =>
    List.mem_dedup.mpr (List.mem_append_left _ hx)
  have hall : ∀ q ∈ qs, q.v ∈ (tm.keys ++ qs.map (·.v)).dedup := fun q hq =>
    List.mem_dedup.mpr (List.mem_append_right _ (List.mem_map.mpr ⟨q, hq, rfl⟩))
  rw [sim_reject r v qs tm tk hs (keeps_of_cap r v _ qs tm tk hs hnd hsub hall hcap)]
  rw [← forVal_reqsOf_run r v qs tm tk]
  rw [sim_reject r v (reqsOf v qs) tm tk hs
    (keeps_of_cap r v _ (reqsOf v qs) tm tk hs hnd hsub (reqsOf_vals_subset v qs hall) hcap), reqsOf_idem]

/-- **independence (throttling).** -/
theorem independence_throttle (r : Rule) (v : Val) (tm : LRU) (hp : 0 < tm.size) (hnd : tm.keys.Nodup)
    (qs : List Req) (hcap : (tm.keys ++ qs.map (·.v)).dedup.length ≤ tm.size) :
    forVal v (runThrottle r tm qs) = runThrottle r tm (reqsOf v qs) := by
  have hsub : tm.keys ⊆ (tm.keys ++ qs.map (·.v)).dedup := fun x hx =>
    List.mem_dedup.mpr (List.mem_append_left _ hx)
  have hall : ∀ q ∈ qs, q.v ∈ (tm.keys ++ qs.map (·.v)).dedup := fun q hq =>
    List.mem_dedup.mpr (List.mem_append_right _ (List.mem_map.mpr ⟨q, hq, rfl⟩))
  rw [sim_throttle r v qs tm hp (keepsT_of_cap r v _ qs tm hp hnd hsub hall hcap)]
  rw [← forVal_reqsOf_runT r v qs tm]
  rw [sim_throttle r v (reqsOf v qs) tm hp
    (keepsT_of_cap r v _ (reqsOf v qs) tm hp hnd hsub (reqsOf_vals_subset v qs hall) hcap), reqsOf_idem]

/-- from a freshly loaded rule: as long as the history mentions at most `capOf r` distinct values -/
theorem independence_fresh (r : Rule) (v : Val) (qs : List Req) (hcap : (qs.map (·.v)).dedup.length ≤ capOf r) :
    forVal v (runReject r (mkCtl 0 r).time (mkCtl 0 r).token qs)
      = runReject r (mkCtl 0 r).time (mkCtl 0 r).token (reqsOf v qs) ∧
    forVal v (runThrottle r (mkCtl 0 r).time qs) = runThrottle r (mkCtl 0 r).time (reqsOf v qs) := by
  constructor
  · exact independence_reject r v _ _ (fresh_sync r) (by simp [mkCtl, LRU.keys]) qs (by simpa [mkCtl, LRU.keys] using hcap)
  · exact independence_throttle r v _ (capOf_pos r) (by simp [mkCtl, LRU.keys]) qs (by simpa [mkCtl, LRU.keys] using hcap)

/-- … and the one-value behaviour is the reference machine the oracle runs -/
theorem decisions_are_one_value_machine (r : Rule) (v : Val) (qs : List Req)
    (hcap : (qs.map (·.v)).dedup.length ≤ capOf r) :
    forVal v (runReject r (mkCtl 0 r).time (mkCtl 0 r).token qs)
      = svRunReject (tokenCount r v) (maxCount r v) (durMs r) none (reqsOf v qs) ∧
    forVal v (runThrottle r (mkCtl 0 r).time qs)
      = svRunThrottle (tokenCount r v) r.D r.mq none (reqsOf v qs) := by
  have hall : ∀ q ∈ qs, q.v ∈ (qs.map (·.v)).dedup := fun q hq =>
    List.mem_dedup.mpr (List.mem_map.mpr ⟨q, hq, rfl⟩)
  constructor
  · exact sim_reject r v qs _ _ (fresh_sync r)
      (keeps_of_cap r v _ qs _ _ (fresh_sync r) (by simp [mkCtl, LRU.keys]) (by simp [mkCtl, LRU.keys]) hall hcap)
  · exact sim_throttle r v qs _ (capOf_pos r)
      (keepsT_of_cap r v _ qs _ (capOf_pos r) (by simp [mkCtl, LRU.keys]) (by simp [mkCtl, LRU.keys]) hall hcap)

/-- independence is really lost above the capacity (so the hypothesis is needed): capacity 1, values a,b,a —
    the third request finds `a` evicted and starts a fresh bucket although `a` alone would have been refused -/
theorem over_capacity_witness :
    let r : Rule := { res := "r", cb := 0, T := 1, D := 1, cap := 1 }
    (forVal "a" (runReject r ⟨1, []⟩ ⟨1, []⟩ [⟨0, "a", 1⟩, ⟨0, "b", 1⟩, ⟨0, "a", 1⟩])).map (·.2) = [.pass, .pass] ∧
    (runReject r ⟨1, []⟩ ⟨1, []⟩ (reqsOf "a" [⟨0, "a", 1⟩, ⟨0, "b", 1⟩, ⟨0, "a", 1⟩])).map (·.2) = [.pass, .block] := by
  decide

/-! ## rule reload: per-value state is fresh or inherited from exactly one old rule, never shared

`reload` builds the new generation from the plan `planFrom` (the code's `Equals` / `IsStatReusable` scan):
each rule in force is a brand-new controller (`Origin.fresh`), an old controller taken over unchanged
(`Origin.same`), or a new controller on the statistic of one old controller (`Origin.stat`). -/

/-- **no shared statistic.**  The old controllers drawn on by a reload are pairwise different (and are old
    controllers): no `ParamsMetric` — no per-value bucket — is ever handed to two rules of the new generation, so the
    per-rule independence and envelope statements above keep applying to every rule after any reload. -/
theorem reload_no_shared_statistic (base : Nat) (old : List Ctl) (rs : List Rule)
    (hnd : (old.map (·.gid)).Nodup) :
    (planOlds (planFrom base (old.map fun c => (c.gid, c.rule)) 0 rs)).Nodup ∧
    ∀ g ∈ planOlds (planFrom base (old.map fun c => (c.gid, c.rule)) 0 rs), g ∈ old.map (·.gid) := by
  have e : (old.map fun c => (c.gid, c.rule)).map Prod.fst = old.map (·.gid) := by
    rw [List.map_map]; rfl
  have := plan_olds base rs (old.map fun c => (c.gid, c.rule)) 0 (by rw [e]; exact hnd)
  rw [e] at this
  exact this

/-- the first load of a module finds nothing to reuse: every rule in force starts with empty caches -/
theorem first_load_fresh (base : Nat) (rs : List Rule) :
    ∀ c ∈ reload base [] rs, c.time.items = [] ∧ c.token.items = [] := by
  have h : ∀ (i : Nat) (rs : List Rule), ∀ x ∈ planFrom base [] i rs, x.2.2 = Origin.fresh := by
    intro i rs
    induction rs generalizing i with
    | nil => intro x hx; simp [planFrom] at hx
    | cons r rs ih =>
      intro x hx
      unfold planFrom at hx
      split at hx
      · exact ih _ x hx
      · simp only [List.findIdx?_nil] at hx
        rcases List.mem_cons.mp hx with rfl | hx
        · rfl
        · exact ih _ x hx
  intro c hc
  unfold reload at hc
  obtain ⟨x, hx, rfl⟩ := List.mem_map.mp hc
  obtain ⟨g, r, o⟩ := x
  have := h 0 rs _ hx
  simp only at this
  subst this
  exact ⟨rfl, rfl⟩

/-- the reload shape of the seeded change C05-r2-1: one rule is split into two stat-reusable ones — the first
    inherits the statistic, the second gets its own -/
theorem reload_split_example :
    let g1 : Rule := { res := "r", cb := 0, idx := 0, T := 5, D := 1 }
    let p0 : Rule := { res := "r", cb := 0, idx := 0, T := 1, D := 1 }
    let p1 : Rule := { res := "r", cb := 0, idx := 1, T := 1, D := 1 }
    (planFrom 1000 [(0, g1)] 0 [p0, p1]).map (·.2.2) = [Origin.stat 0, Origin.fresh] := by
  decide

/-- **a reload while the request is queued is irrelevant to that request.**  `entryArmed` (a request during whose
    `util.Sleep` another goroutine calls `LoadRules`): the decision, the triggering rule, the requested sleeps and the
    clock are exactly those of `slotCheck` on the rule list the request started with — old or new, never a mixture —
    and the controllers afterwards are those of "finish the request, then reload" (to which
    `reload_no_shared_statistic` applies); without a sleep nothing is reloaded. -/
theorem reload_while_queued_irrelevant (base : Nat) (armed : Option (List Rule)) (res : String) (args : List Val)
    (atts : List (String × Val)) (b : Int) (cs : List Ctl) (now : Int) :
    (entryArmed base armed res args atts b cs now).2.2.1 = (slotCheck res args atts b cs now []).2.2 ∧
    (entryArmed base armed res args atts b cs now).2.1 = (slotCheck res args atts b cs now []).2.1 ∧
    ((entryArmed base armed res args atts b cs now).2.2.2 = false →
      (entryArmed base armed res args atts b cs now).1 = (slotCheck res args atts b cs now []).1) ∧
    ((entryArmed base armed res args atts b cs now).2.2.2 = true →
      (slotCheck res args atts b cs now []).2.2.sleeps ≠ [] ∧
      ∃ rs, armed = some rs ∧
        (entryArmed base armed res args atts b cs now).1 = reload base (slotCheck res args atts b cs now []).1 rs) := by
  unfold entryArmed
  cases armed with
  | none => simp
  | some rs =>
    dsimp only
    by_cases h : (slotCheck res args atts b cs now []).2.2.sleeps.isEmpty = true
    · simp [h]
    · simp only [h]
      refine ⟨rfl, rfl, by simp, fun _ => ⟨?_, rs, rfl, rfl⟩⟩
      intro hn; rw [hn] at h; simp at h

/-! ## history-level value independence at the level of entries

A history is a list of `Entry` calls on a resource (`TEntry`: clock reading, the arguments of all `WithArgs` options
appended, the attachments the call's options resolve to, batch).  The theorems quantify over *arbitrary* `args` / `atts`
lists, so whatever the driver's `parseEntry` / `resolveAtts` produce (several `WithArgs` options, caller-owned maps,
single `WithAttachment` options, ParamKey with ParamIndex fallback — all inside `extract`) is an instance.

Two things are *not* claimed, because they are false, and why:
* on a resource with several hotspot rules, whether an entry reaches rule `k` depends on what the earlier rules decide
  about *their* values, and a queued entry reaches the later rules at a later clock reading.  Deleting other values'
  entries therefore changes which calls rule `k` sees.  For such resources independence is the per-controller statement
  (`independence_reject/throttle` about the calls the controller receives; `slotCheck_pointwise` says the slot gives
  each controller at most one call per entry, on the extracted value).  The entry-level deletion form below is for a
  resource whose only hotspot rule is `c`.
* the clock readings are part of the history (`TEntry.now`): in the single-threaded driver a queued request advances
  the virtual clock for everybody after it, which is an artefact of driving the code sequentially, not of the code.
-/

theorem outcomesFor_all (res : String) (r : Rule) (v : Val) : ∀ (es : List TEntry) (cs : List Ctl),
    (∀ e ∈ es, carries r v e = true) → outcomesFor r v (runRes res cs es) = (runRes res cs es).map (·.2) := by
  intro es
  induction es with
  | nil => intro _ _; rfl
  | cons e es ih =>
    intro cs h
    have he := h e List.mem_cons_self
    have ih' := ih (slotCheck res e.args e.atts e.b cs e.now []).1 (fun x hx => h x (List.mem_cons_of_mem _ hx))
    unfold outcomesFor at ih' ⊢
    simp only [runRes, List.filter_cons, he, if_true, List.map_cons]
    rw [ih']

/-- **independence, entry level.**  `res` has the single hotspot rule `c` (reject or throttling, any ParamIndex /
    ParamKey / specific items), in any reachable state; `es` is any history of entries on `res`.  While the live values
    fit into the rule's capacity, the outcomes (pass / block + triggering rule / requested sleeps) of the entries that
    carry `v` are exactly the outcomes of the history from which every entry not carrying `v` has been deleted. -/
theorem entries_independence (res : String) (v : Val) (pre post : List Ctl) (c : Ctl) (hc : c.rule.res = res)
    (hpre : ∀ d ∈ pre, d.rule.res ≠ res) (hpost : ∀ d ∈ post, d.rule.res ≠ res)
    (hs : c.rule.cb = 0 → Sync c.time c.token) (hp : 0 < c.time.size) (hnd : c.time.keys.Nodup)
    (es : List TEntry)
    (hcap : (c.time.keys ++ (callsOf c.rule es).map (·.v)).dedup.length ≤ c.time.size) :
    (runRes res (pre ++ c :: post) (es.filter (carries c.rule v))).map (·.2)
      = outcomesFor c.rule v (runRes res (pre ++ c :: post) es) := by
  rw [← outcomesFor_all res c.rule v _ _ (fun e he => (List.mem_filter.mp he).2)]
  rw [decisions_single res v pre post hpre hpost _ c hc, decisions_single res v pre post hpre hpost _ c hc,
    callsOf_filter]
  by_cases h0 : c.rule.cb = 0
  · rw [runCtl_reject _ c h0, runCtl_reject _ c h0, forVal_reqsOf_run,
      independence_reject c.rule v c.time c.token (hs h0) hnd _ hcap]
  · rw [runCtl_throttle _ c h0, runCtl_throttle _ c h0, forVal_reqsOf_runT,
      independence_throttle c.rule v c.time hp hnd _ hcap]

/-- the same, read as "the decisions for `v` are a function of the sub-history of `v` alone": two histories with the
    same entries carrying `v` (whatever else they contain, within the capacity) give `v` the same outcomes -/
theorem entries_depend_only_on_own_subhistory (res : String) (v : Val) (pre post : List Ctl) (c : Ctl)
    (hc : c.rule.res = res) (hpre : ∀ d ∈ pre, d.rule.res ≠ res) (hpost : ∀ d ∈ post, d.rule.res ≠ res)
    (hs : c.rule.cb = 0 → Sync c.time c.token) (hp : 0 < c.time.size) (hnd : c.time.keys.Nodup)
    (es₁ es₂ : List TEntry) (hsame : es₁.filter (carries c.rule v) = es₂.filter (carries c.rule v))
    (hcap₁ : (c.time.keys ++ (callsOf c.rule es₁).map (·.v)).dedup.length ≤ c.time.size)
    (hcap₂ : (c.time.keys ++ (callsOf c.rule es₂).map (·.v)).dedup.length ≤ c.time.size) :
    outcomesFor c.rule v (runRes res (pre ++ c :: post) es₁) = outcomesFor c.rule v (runRes res (pre ++ c :: post) es₂) := by
  rw [← entries_independence res v pre post c hc hpre hpost hs hp hnd es₁ hcap₁,
    ← entries_independence res v pre post c hc hpre hpost hs hp hnd es₂ hcap₂, hsame]

/-- **through reloads** (`load`, and `onsleep` = `entryArmed`, which by `reload_while_queued_irrelevant` is "finish the
    entry on the old rules, then `reload`"): every controller of the new generation has fresh caches or exactly the
    caches of one old controller, so `Sync` / distinct keys / capacity — the hypotheses of `entries_independence` and of
    the per-controller theorems, which are about the state only — carry over and the theorems apply again from there,
    generation by generation, with the reload events kept in place. -/
theorem reload_caches (base : Nat) (old : List Ctl) (rs : List Rule) :
    ∀ c ∈ reload base old rs,
      (∃ o ∈ old, c.time = o.time ∧ c.token = o.token) ∨
      (c.time = ⟨capOf c.rule, []⟩ ∧ c.token = ⟨capOf c.rule, []⟩) := by
  intro c hc
  unfold reload at hc
  obtain ⟨x, _, rfl⟩ := List.mem_map.mp hc
  obtain ⟨g, r, o⟩ := x
  cases o with
  | fresh => exact Or.inr ⟨rfl, rfl⟩
  | same og =>
    dsimp only
    cases hf : old.find? (fun c => c.gid == og) with
    | none => exact Or.inr ⟨rfl, rfl⟩
    | some o' => exact Or.inl ⟨o', List.mem_of_find?_eq_some hf, rfl, rfl⟩
  | stat og =>
    dsimp only
    cases hf : old.find? (fun c => c.gid == og) with
    | none => exact Or.inr ⟨rfl, rfl⟩
    | some o' => exact Or.inl ⟨o', List.mem_of_find?_eq_some hf, rfl, rfl⟩

/-! ## the hypotheses are satisfiable (non-vacuity): the theorems applied to concrete histories -/

section examples

private def rj : Rule := { res := "r", cb := 0, T := 2, burst := 1, D := 1, cap := 2 }
private def th : Rule := { res := "r", cb := 1, T := 4, D := 1, mq := 600, cap := 2 }

/-- envelope on a two-value history (a at 0, b at 0, a at 1500 ms): at most 3 + ⌊1500·2/1000⌋ = 6 tokens for `a` -/
example : admitted (forVal "a" (runReject rj ⟨2, []⟩ ⟨2, []⟩ [⟨0, "a", 1⟩, ⟨0, "b", 3⟩, ⟨1500, "a", 2⟩])) ≤ 6 :=
  envelope rj "a" ⟨2, []⟩ ⟨2, []⟩ ⟨rfl, rfl, by decide⟩ (by decide) ⟨0, "a", 1⟩ rfl [⟨0, "b", 3⟩, ⟨1500, "a", 2⟩] 1500
    ⟨by decide, by decide, by decide, trivial⟩ ⟨by decide, by decide, trivial⟩
    (by decide) (by decide) (by decide) (by decide) (by decide) (by decide)

/-- two-max in the window [0, 1000] -/
example : admitted (forVal "a" (runReject rj ⟨2, []⟩ ⟨2, []⟩ [⟨0, "a", 3⟩, ⟨0, "b", 3⟩, ⟨1000, "a", 1⟩])) ≤ 6 :=
  two_max_per_duration rj "a" ⟨2, []⟩ ⟨2, []⟩ ⟨rfl, rfl, by decide⟩ (fresh_tokOk rj) _ 0
    ⟨by decide, by decide, by decide, trivial⟩ (by decide) (by decide) (by decide) (by decide)

/-- idle grant after a history -/
example : (rejectCheck rj (endReject rj ⟨2, []⟩ ⟨2, []⟩ [⟨0, "a", 3⟩, ⟨5, "a", 1⟩]).1
    (endReject rj ⟨2, []⟩ ⟨2, []⟩ [⟨0, "a", 3⟩, ⟨5, "a", 1⟩]).2 1006 "a" 2).2.2 = .pass :=
  idle_grant_history rj "a" ⟨2, []⟩ ⟨2, []⟩ ⟨rfl, rfl, by decide⟩ (fresh_tokOk rj) _ 5 1006 2
    (by decide) (by decide) (by decide) (by decide) (by decide) (by decide) (by decide) (by decide) (by decide)
    (by decide) (by decide) (by decide)

/-- pacing / wait bound on a two-value throttled history -/
example : WaitsBelow 600 (forVal "a" (runThrottle th ⟨2, []⟩ [⟨0, "a", 1⟩, ⟨0, "a", 1⟩, ⟨0, "b", 1⟩, ⟨0, "a", 1⟩])) :=
  wait_lt_max th "a" ⟨2, []⟩ (by decide) _ 1000 ⟨by decide, by decide, by decide, by decide, trivial⟩ (by decide)
    (by decide) (by decide)

/-- independence below the capacity -/
example : forVal "a" (runReject rj ⟨2, []⟩ ⟨2, []⟩ [⟨0, "a", 1⟩, ⟨0, "b", 3⟩, ⟨1500, "a", 2⟩])
    = runReject rj ⟨2, []⟩ ⟨2, []⟩ (reqsOf "a" [⟨0, "a", 1⟩, ⟨0, "b", 3⟩, ⟨1500, "a", 2⟩]) :=
  independence_reject rj "a" ⟨2, []⟩ ⟨2, []⟩ ⟨rfl, rfl, by decide⟩ (by decide) _ (by decide)

/-- entry-level independence on a history with a ParamKey rule falling back to a negative index: attachments under the
    key, arguments of two `WithArgs` options appended, an entry without the argument -/
example :
    let c : Ctl := mkCtl 0 { res := "r", cb := 0, idx := -1, key := "uid", T := 1, D := 1, cap := 3 }
    let es : List TEntry := [⟨0, ["x", "a"], [], 1⟩, ⟨0, ["x"], [("uid", "b")], 1⟩, ⟨0, [], [("tenant", "t")], 1⟩,
      ⟨0, ["y"], [("uid", "a"), ("tenant", "t")], 1⟩, ⟨0, ["a", "b"], [], 1⟩]
    (runRes "r" ([] ++ c :: []) (es.filter (carries c.rule "a"))).map (·.2)
      = outcomesFor c.rule "a" (runRes "r" ([] ++ c :: []) es) :=
  entries_independence "r" "a" [] [] _ rfl (by simp) (by simp) (fun _ => ⟨rfl, rfl, by decide⟩) (by decide) (by decide) _
    (by decide)

end examples

end Sentinel.C05
