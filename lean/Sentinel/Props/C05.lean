import Sentinel.Model.Hot
/-! placeholder, replaced below -/
namespace Sentinel.C05
open Sentinel.Hot
theorem capOf_pos (r : Rule) : 0 < capOf r := by
  unfold capOf
  split
  · omega
  · dsimp only; split <;> split <;> omega
end Sentinel.C05
