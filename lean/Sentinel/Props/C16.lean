import Sentinel.Lemmas.Chain
/-! # C16 — Slot chain runs in order, short-circuits on first block, and fails open -/
namespace Sentinel.C16
open Sentinel.Chain

/-- after any sequence of `Add…Slot` calls the slice is sorted by `Order()` and slots with equal order values are in
    insertion order -/
theorem insertion_sorted_stable {α : Type} (ord : α → Nat) (ins : List α) :
    (addAll ord ins).Pairwise (fun a b => ord a ≤ ord b) ∧
    ∀ k, (addAll ord ins).filter (fun a => ord a = k) = ins.filter (fun a => ord a = k) :=
  addAll_sorted_stable ord ins

end Sentinel.C16
