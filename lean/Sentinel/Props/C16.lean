import Sentinel.Lemmas.ChainExtra
import Sentinel.Drv.C16
/-!
# C16 — Slot chain runs in order, short-circuits on first block, and fails open
(property theorems only; helper lemmas live in `Sentinel/Lemmas/Chain.lean`)

Reading guide.  `Sentinel/Model/Chain.lean` is the code-shaped model the driver executes against the real packages:
`insertSlot`/`addAll` (= `Add…Slot`), `chainEntry` (= `SlotChain.Entry` under its recover), `apiEntry` (= `api.entry`:
pooled context, nil ⇒ pass, blocked ⇒ deep copy + internal `Exit`), `exitBody` (= `SentinelEntry.Exit`), the heap of
pooled `*BlockError` / `*TokenResult` / `*EntryContext` objects with the `sync.Pool` discipline, and `step` over the op
language.  `Sentinel/Model/ChainSpec.lean` is the abstract reference (`stableSort`, `stopper`, `specVerdict`,
`specEntryLog`, `specExitLog`, `sstep`) the spec run evaluates against the implementation.
`entryPanics ch` says "a panic is raised inside `SlotChain.Entry` on chain `ch`" (`entry_panics_iff`).
All statements are for arbitrary chains (any number of slots, any order values, any behaviour table), arbitrary heaps /
pool contents and arbitrary op histories.
-/
namespace Sentinel.C16
open Sentinel.Chain

/-! ## 1. insertion gives the stable sort -/

/-- after any sequence of `Add…Slot` calls the slice is sorted by `Order()` and slots with equal order values are in
    insertion order -/
theorem insertion_sorted_stable {α : Type} (ord : α → Nat) (ins : List α) :
    (addAll ord ins).Pairwise (fun a b => ord a ≤ ord b) ∧
    ∀ k, (addAll ord ins).filter (fun a => ord a = k) = ins.filter (fun a => ord a = k) :=
  addAll_sorted_stable ord ins

/-- … and that determines the list: it is *the* stable sort (merge sort by `≤` on order values) of the insertion sequence -/
theorem insertion_gives_stable_sort {α : Type} (ord : α → Nat) (ins : List α) :
    addAll ord ins = stableSort ord ins :=
  addAll_eq_stableSort ord ins

/-- the two clauses of `insertion_sorted_stable` characterise one list only -/
theorem stable_sort_unique {α : Type} (ord : α → Nat) (ins l : List α)
    (h1 : l.Pairwise (fun a b => ord a ≤ ord b))
    (h2 : ∀ k, l.filter (fun a => ord a = k) = ins.filter (fun a => ord a = k)) : l = stableSort ord ins :=
  stable_unique ord _ _ h1 (stableSort_spec ord ins).1 (fun k => (h2 k).trans ((stableSort_spec ord ins).2 k).symm)

/-- for every op history the chains held by the model state are the stable sorts of their insertion histories (as kept
    by the reference state); `core` forgets the address of a slot-owned result object -/
theorem chains_are_stable_sorts (ops : List Op) (n : String) :
    (findChain (runOps {} ops) n).map ChainDef.core =
      ((srunOps {} ops).findChain n).map (fun ins => (specChain ins).core) := by
  have := runOps_agree ops {} {} init_agree n
  rw [this]
  cases (srunOps {} ops).findChain n with
  | none => rfl
  | some ins => simp [pureChain_eq_spec]

example : addAll (fun p : Nat × Nat => p.2) [(1, 7), (2, 3), (3, 7), (4, 3), (5, 0)] = [(5, 0), (2, 3), (4, 3), (1, 7), (3, 7)] := by
  decide

/-! ## 2. slots run in list (= ascending, insertion order on ties) order -/

/-- the calls `Entry` would make without panics: every prepare slot, the rule slots up to and including the first one that
    does not pass, every statistic slot — each list in its sorted order -/
theorem full_calls_shape (ch : ChainDef) :
    specEntryCalls ch = ch.ps.map (fun s => Call.prep s.id) ++
      (ch.rs.takeWhile (·.beh.passes) ++ (stopper ch.rs).toList).map (fun s => Call.check s.id) ++
      ch.ss.map (statCall (stopOf ch.rs).blk) := rfl

/-- whatever panics: the calls made by `SlotChain.Entry` are a prefix of that list — nothing runs out of order, nothing
    runs twice, no rule slot after the first non-passing one, no statistic slot before the rule phase is over -/
theorem runs_in_order (ch : ChainDef) (c : Nat) (h : Heap) :
    (chainEntry ch c h).2.1 <+: specEntryCalls ch :=
  chainEntry_prefix ch c h

/-- absent panics it is the whole list -/
theorem runs_in_order_complete (ch : ChainDef) (h : Heap) (hp : entryPanics ch = false) :
    specEntryCalls ch <+: (apiEntry ch h).2.1 := by
  cases hs : stopOf ch.rs with
  | allPass => rw [(apiEntry_pass ch h hp hs).1]
  | block s typ => rw [(apiEntry_block ch h s typ hp hs).1]; exact List.prefix_append _ _
  | panic => have := (entryPanics_false ch hp).2.1; simp [hs, Stop.isPanic] at this

/-- the first non-passing rule slot really is the first: everything before it passes -/
theorem stopper_is_first (rs : List RSlot) (s : RSlot) (h : stopper rs = some s) :
    s.beh.passes = false ∧ ∃ pre post, rs = pre ++ s :: post ∧ ∀ x ∈ pre, x.beh.passes = true := by
  unfold stopper at h
  obtain ⟨h1, pre, post, h2, h3⟩ := List.find?_eq_some_iff_append.mp h
  exact ⟨by simpa using h1, pre, post, h2, fun x hx => by simpa using h3 x hx⟩

/-! ## 3. first block wins -/

/-- the verdict `api.Entry` hands to the caller is the reference verdict, for every chain, heap and pool content:
    admitted if a panic was raised or nothing blocked, otherwise the block error of the first blocking rule slot -/
theorem verdict_matches_spec (ch : ChainDef) (h : Heap) :
    (apiEntry ch h).2.2.verdict = specVerdict ch :=
  apiEntry_verdict ch h

/-- the same over histories: in the state reached by *any* op sequence, the model's `entry` op answers exactly what the
    reference (stable sort of the insertion history, first non-passing rule slot, panic ⇒ admitted) answers, and whenever
    the reference claims a call log the model produces that log -/
theorem entry_matches_reference (pre : List Op) (e n : String) :
    (stepEntry (runOps {} pre) e n).2 = (sstep (srunOps {} pre) (.entry e n)).2 ∧
    ∀ l, (sstep (srunOps {} pre) (.entry e n)).1.lastLog = some l →
      (stepEntry (runOps {} pre) e n).1.lastLog = l ∨ (stepEntry (runOps {} pre) e n).2 = .bad := by
  obtain ⟨hc, hn⟩ := runOps_agree_names pre {} {} init_agree rfl
  obtain ⟨h1, h2, _⟩ := stepEntry_matches _ _ e n hc hn
  exact ⟨h1, h2⟩

/-- absent panics: if `s` is the first rule slot (in sorted order) that does not pass and it blocks with type `typ`, the
    caller gets exactly `s`'s block error — whatever way `s` produced its result object and whatever the recycled
    context carried — the rule slots that ran are those before `s` and `s` itself, and every statistic slot was told
    "blocked" with that same error -/
theorem first_block_wins (ch : ChainDef) (h : Heap) (s : RSlot) (st : Style) (typ : Nat)
    (hp : entryPanics ch = false) (hs : stopper ch.rs = some s) (hb : s.beh = .block st typ) :
    (∃ c a, (apiEntry ch h).2.2 = .blocked c a (blockVal s typ)) ∧
    (apiEntry ch h).2.1 = ch.ps.map (fun s => Call.prep s.id) ++
      (ch.rs.takeWhile (·.beh.passes) ++ [s]).map (fun s => Call.check s.id) ++
      ch.ss.map (fun x => Call.blocked x.id (some (blockVal s typ))) ++ (runHandlers (specHooks ch)).1 := by
  have hst : stopOf ch.rs = .block s typ := by simp [stopOf, hs, stopOfSlot, hb]
  obtain ⟨h1, a, h2, _⟩ := apiEntry_block ch h s typ hp hst
  refine ⟨⟨_, a, h2⟩, ?_⟩
  rw [h1, full_calls_shape, hs, hst]
  rfl

/-- nothing blocked and no panic: the caller gets the entry, all rule slots ran, every statistic slot was told "passed" -/
theorem all_pass (ch : ChainDef) (h : Heap) (hp : entryPanics ch = false) (hs : stopper ch.rs = none) :
    (∃ c, (apiEntry ch h).2.2 = .passed c (specHooks ch)) ∧
    (apiEntry ch h).2.1 = ch.ps.map (fun s => Call.prep s.id) ++ ch.rs.map (fun s => Call.check s.id) ++
      ch.ss.map (fun x => Call.passed x.id) := by
  have hst : stopOf ch.rs = .allPass := by simp [stopOf, hs]
  obtain ⟨h1, h2, _⟩ := apiEntry_pass ch h hp hst
  refine ⟨⟨_, h2⟩, ?_⟩
  rw [h1, full_calls_shape, hs, hst]
  have tw : ∀ l : List RSlot, (∀ x ∈ l, x.beh.passes = true) → l.takeWhile (·.beh.passes) = l := by
    intro l
    induction l with
    | nil => intro _; rfl
    | cons y ys ih =>
      intro hall
      rw [List.takeWhile_cons, hall y (List.mem_cons_self ..), if_pos rfl, ih (fun x hx => hall x (List.mem_cons_of_mem _ hx))]
  have : ch.rs.takeWhile (·.beh.passes) = ch.rs := tw _ (fun x hx => by
    have := List.find?_eq_none.mp hs x hx
    simpa using this)
  simp [this, Stop.blk, statCall]

example : ∃ ch : ChainDef, entryPanics ch = false ∧ ∃ s, stopper ch.rs = some s ∧ ∃ st typ, s.beh = .block st typ :=
  ⟨{ rs := [{ id := 1, order := 0, beh := .pass }, { id := 2, order := 0, beh := .block .ctx 3 }] },
   by decide, _, rfl, _, _, rfl⟩


/-- a first blocker built with `NewTokenResult(ResultStatusBlocked)` (no option at all) still yields a block error — of type
    `BlockTypeUnknown`, no message / rule / snapshot — for the statistic slots and for the caller (`first_block_wins`),
    and nothing escapes `api.Entry` (`no_panic_escapes_entry`) -/
example : blockVal { id := 7, order := 3, beh := .block .bare 0 } 0 = {} := rfl

def bareChain : ChainDef :=
  { rs := [{ id := 7, order := 3, beh := .block .bare 0 }], ss := [{ id := 8, order := 0, beh := .ok }] }

example (h : Heap) : ∃ c a, (apiEntry bareChain h).2.2 = .blocked c a {} :=
  (first_block_wins bareChain h { id := 7, order := 3, beh := .block .bare 0 } .bare 0 (by decide) rfl rfl).1

/-! ## 4. statistic slots are told once, and told of completion exactly for passed entries -/

def isStat : Call → Bool
  | .passed _ => true
  | .blocked _ _ => true
  | _ => false

def isCompleted : Call → Bool
  | .completed _ => true
  | _ => false

theorem handlers_no_stat (k : Hooks) : ∀ c ∈ (runHandlers k).1, isStat c = false ∧ isCompleted c = false := by
  induction k with
  | nil => simp [runHandlers]
  | cons x r ih =>
    obtain ⟨id, b⟩ := x
    unfold runHandlers
    split_ifs
    · simp [isStat, isCompleted]
    · intro c hc
      simp only [List.mem_cons] at hc
      rcases hc with rfl | hc
      · simp [isStat, isCompleted]
      · exact ih c hc

/-- absent panics, the outcome notifications in the log of `api.Entry` are: one per statistic slot, in chain order, all
    saying the final outcome (`passed`, or `blocked` with the returned error); and `Entry` tells nobody of completion.
    (With distinct slots this is "exactly once each".) -/
theorem stat_told_once (ch : ChainDef) (h : Heap) (hp : entryPanics ch = false) :
    (apiEntry ch h).2.1.filter isStat = ch.ss.map (statCall (stopOf ch.rs).blk) ∧
    (apiEntry ch h).2.1.filter isCompleted = [] := by
  have hall : ∀ {α : Type} (l : List α) (f : α → Call) (p : Call → Bool), (∀ x, p (f x) = true) → (l.map f).filter p = l.map f := by
    intro α l f p hp
    rw [List.filter_eq_self]
    intro c hc
    obtain ⟨x, _, rfl⟩ := List.mem_map.mp hc
    exact hp x
  have hnone : ∀ {α : Type} (l : List α) (f : α → Call) (p : Call → Bool), (∀ x, p (f x) = false) → (l.map f).filter p = [] := by
    intro α l f p hp
    rw [List.filter_eq_nil_iff]
    intro c hc
    obtain ⟨x, _, rfl⟩ := List.mem_map.mp hc
    simp [hp x]
  have key : (specEntryCalls ch).filter isStat = ch.ss.map (statCall (stopOf ch.rs).blk) ∧
      (specEntryCalls ch).filter isCompleted = [] := by
    rw [full_calls_shape]
    simp only [List.filter_append]
    refine ⟨?_, ?_⟩
    · rw [hnone _ _ isStat (fun _ => rfl), hnone _ _ isStat (fun _ => rfl),
        hall _ _ isStat (fun x => by cases (stopOf ch.rs).blk <;> rfl)]
      simp
    · rw [hnone _ _ isCompleted (fun _ => rfl), hnone _ _ isCompleted (fun _ => rfl),
        hnone _ _ isCompleted (fun x => by cases (stopOf ch.rs).blk <;> rfl)]
      simp
  cases hs : stopOf ch.rs with
  | allPass => rw [(apiEntry_pass ch h hp hs).1, ← hs]; exact key
  | panic => have := (entryPanics_false ch hp).2.1; simp [hs, Stop.isPanic] at this
  | block s typ =>
    rw [(apiEntry_block ch h s typ hp hs).1, ← hs, List.filter_append, List.filter_append, key.1, key.2]
    have hn := handlers_no_stat (specHooks ch)
    have e1 : (runHandlers (specHooks ch)).1.filter isStat = [] := by
      rw [List.filter_eq_nil_iff]; intro c hc; simp [(hn c hc).1]
    have e2 : (runHandlers (specHooks ch)).1.filter isCompleted = [] := by
      rw [List.filter_eq_nil_iff]; intro c hc; simp [(hn c hc).2]
    simp [e1, e2]

/-- completion, passed side: on a heap where no pooled result is left marked blocked (`Quiet`, kept by every op except an
    `Entry` in which a statistic slot panics after a block — `quiet_kept`), the first `Exit` of an admitted entry runs its
    exit handlers and then tells every statistic slot of completion, once each, in chain order (absent panics in `Exit`) -/
theorem completion_told (s : State) (e : String) (r : EntryRec) (ch : ChainDef) (hq : s.h.Quiet)
    (hr : findEntry s e = some r) (hnb : r.blockAt = none) (hne : r.exited = false)
    (hc : findChain s r.chain = some ch) (hk : hooksPanic r.hooks = false)
    (hs : ch.ss.any (fun x => x.beh = .pCompleted) = false) :
    (stepExit s e).2 = .ok ∧
    (stepExit s e).1.lastLog = r.hooks.map (fun x => Call.handler x.1) ++ ch.ss.map (fun x => Call.completed x.id) := by
  have hl : specExitLog ch.ss r.hooks = some (r.hooks.map (fun x => Call.handler x.1) ++ ch.ss.map (fun x => Call.completed x.id)) := by
    simp [specExitLog, hk, hs]
  exact (stepExit_log s e r ch _ hq hr hnb hne hc hl).symm

/-- completion, blocked side: the caller of a blocked `Entry` has no entry to exit, and the internal `Exit` made by
    `api.Entry` told nobody of completion (`stat_told_once`, second clause); a second `Exit` of any entry does nothing -/
theorem no_completion_twice (s : State) (e : String) (r : EntryRec) (hr : findEntry s e = some r)
    (hnb : r.blockAt = none) (hex : r.exited = true) : (stepExit s e).1.lastLog = [] := by
  simp [stepExit, hr, hnb, hex]

theorem blocked_has_no_exit (s : State) (e : String) (r : EntryRec) (hr : findEntry s e = some r)
    (hb : r.blockAt.isSome = true) : stepExit s e = (s, .bad) := by
  simp [stepExit, hr, hb]

/-- `Quiet` holds initially and is kept by every op other than an `Entry` on a chain where a statistic slot panics in
    `OnEntryBlocked` after a rule slot blocked -/
theorem quiet_kept (ops : List Op) (s : State) (hq : s.h.Quiet)
    (hops : ∀ pre o post, ops = pre ++ o :: post → o.blockPanicFree (runOps s pre)) : (runOps s ops).h.Quiet := by
  induction ops using List.reverseRecOn with
  | nil => exact hq
  | append_singleton r o ih =>
    have h1 : (runOps s r).h.Quiet := ih (fun pre o' post e => hops pre o' (post ++ [o]) (by simp [e]))
    have h2 := hops r o [] rfl
    simp only [runOps, List.foldl_append, List.foldl_cons, List.foldl_nil]
    exact step_quiet _ o h1 h2

theorem quiet_init : ({} : State).h.Quiet := init_quiet

/-! ## 5. fail open -/

/-- `entryPanics` is exactly "a panic was raised and recovered inside `SlotChain.Entry`" (the chain returned nil) -/
theorem entry_panics_iff (ch : ChainDef) (c : Nat) (h : Heap) :
    (chainEntry ch c h).2.2.2 = none ↔ entryPanics ch = true := by
  constructor
  · intro hn
    by_contra hp
    simp only [Bool.not_eq_true] at hp
    obtain ⟨h1, h2, h3⟩ := entryPanics_false ch hp
    cases hs : stopOf ch.rs with
    | allPass => rw [hs] at h3; rw [(chainEntry_pass ch c h h1 hs h3).2.2.1] at hn; simp at hn
    | block s typ => rw [hs] at h3; rw [(chainEntry_block ch c h s typ h1 hs h3).2.2.1] at hn; simp at hn
    | panic => simp [hs, Stop.isPanic] at h2
  · exact chainEntry_panics ch c h

/-- a panic raised by any prepare slot, rule slot or statistic slot ⇒ the caller gets an entry and no block error -/
theorem fail_open (ch : ChainDef) (h : Heap) (hp : entryPanics ch = true) :
    ∃ c ks, (apiEntry ch h).2.2 = .passed c ks :=
  apiEntry_panics ch h hp

/-- no panic reaches the caller of `api.Entry`: the only place outside the recovers — the nil dereference in the deep
    copy of the block error — is never reached, whatever the chain, the heap and the pool hold -/
theorem no_panic_escapes_entry (ch : ChainDef) (h : Heap) : (apiEntry ch h).2.2 ≠ .escaped :=
  apiEntry_no_escape ch h

theorem entry_op_never_escapes (s : State) (e n : String) : (stepEntry s e n).2 ≠ .escaped := by
  unfold stepEntry
  cases findEntry s e with
  | some _ => simp
  | none =>
    cases findChain s n with
    | none => simp
    | some ch =>
      have := apiEntry_no_escape ch s.h
      simp only [recordEntry]
      cases hr : (apiEntry ch s.h).2.2 with
      | passed c ks => simp
      | blocked c a b => simp
      | escaped => exact absurd hr this

/-- no panic reaches the caller of `Exit` (panicking exit handlers and `OnCompleted` are swallowed: the op always answers) -/
theorem exit_op_never_escapes (s : State) (e : String) : (stepExit s e).2 = .ok ∨ (stepExit s e).2 = .bad := by
  unfold stepExit
  cases findEntry s e with
  | none => simp
  | some r =>
    dsimp only
    split_ifs
    · simp
    · simp
    · cases findChain s r.chain <;> simp

example : ∃ ch : ChainDef, entryPanics ch = true ∧ (stopOf ch.rs).verdict.isSome = true :=
  ⟨{ rs := [{ id := 1, order := 0, beh := .block .own 3 }], ss := [{ id := 2, order := 0, beh := .pBlocked }] }, by decide, by decide⟩

/-! ## 6. the block error handed to the caller is immutable -/

/-- the heap invariant (no pooled `TokenResult` refers to a block error held by a caller) holds in every reachable state -/
theorem reachable_inv (ops : List Op) : (runOps {} ops).h.Inv :=
  (runOps_ext ops {} init_inv).1

/-- no later op — entries on any chain, exits, slot additions, pool recycling — writes a block error a caller holds -/
theorem block_error_immutable (s : State) (hi : s.h.Inv) (ops : List Op) :
    ∀ a ∈ s.h.held, a ∈ (runOps s ops).h.held ∧ (runOps s ops).h.bes a = s.h.bes a :=
  (runOps_ext ops s hi).2

/-- end to end: if `entry e n` answers `block b` in a reachable state, then after any further ops `blockerr e` answers `b` -/
theorem blockerr_stable (pre : List Op) (e n : String) (b : BErr) (post : List Op)
    (hb : (stepEntry (runOps {} pre) e n).2 = .block b) :
    stepBlockErr (runOps (stepEntry (runOps {} pre) e n).1 post) e =
      (runOps (stepEntry (runOps {} pre) e n).1 post, .berr b) := by
  obtain ⟨a, hat, hheld, hval⟩ := stepEntry_block _ e n b hb
  have hinv : (stepEntry (runOps {} pre) e n).1.h.Inv := by
    have := reachable_inv (pre ++ [.entry e n])
    simpa [runOps, List.foldl_append, step] using this
  obtain ⟨r, hr1, hr2⟩ := runOps_blockedAt post _ e a hat
  have := (block_error_immutable _ hinv post a hheld).2
  apply stepBlockErr_eq
  simp [blockErrOf, hr1, hr2, this, hval]

/-! ## 7. the built-in chain -/

/-- `api/slot_chain.go` + the `Order()` constants (tied to the code on every run by the `globalorder` op): rule checks run
    system < flow < isolation < hotspot < circuit breaker; statistics run stat < log < flow standalone < hotspot
    concurrency < circuit-breaker metric -/
theorem default_chain_order :
    addAll (·.2) defaultPrepIns = [("stat.ResourceNodePrepareSlot", 1000)] ∧
    addAll (·.2) defaultRuleIns =
      [("system.AdaptiveSlot", 1000), ("flow.Slot", 2000), ("isolation.Slot", 3000), ("hotspot.Slot", 4000),
       ("circuitbreaker.Slot", 5000)] ∧
    addAll (·.2) defaultStatIns =
      [("stat.Slot", 1000), ("log.Slot", 2000), ("flow.StandaloneStatSlot", 3000),
       ("hotspot.ConcurrencyStatSlot", 4000), ("circuitbreaker.MetricStatSlot", 5000)] := by
  decide

/-- what the `globalorder` op of the model prints is those three lists -/
theorem default_order_out :
    defaultOrder = .gorder (addAll (·.2) defaultPrepIns) (addAll (·.2) defaultRuleIns) (addAll (·.2) defaultStatIns) := rfl

theorem default_rule_orders_strict :
    (defaultRuleIns.map (·.2)).Pairwise (· < ·) ∧ (defaultStatIns.map (·.2)).Pairwise (· < ·) := by
  decide


/-! ## 8. the model refines the reference over whole op histories

`Sim` (in `Sentinel/Lemmas/ChainSim.lean`) is the simulation relation between the pooled model state and the reference
state: same chains up to the addresses of slot-owned results, entries paired by name with equal chain / exited / blocked
flags, equal exit handlers unless `Entry` panicked, every caller-held block error still holding the reference's value,
pool and live contexts pairwise distinct, contexts ↦ results injective as long as no slot owns a shared result, and every
pooled result still marked blocked belongs to a live entry admitted by a panic after a block.  The *own-result-hazard
region* of an `exit e` is the decidable predicate `SState.hazard s' e` (a `Bool` computed from the reference state: some
rule slot of the case reuses one result object **and** another admitted, not yet exited entry panicked after a block);
inside it, or when `e`'s own `Entry` / `Exit` panics, the reference answers `?` for the call log and nothing is claimed. -/

theorem sstep_exit_out (s' : SState) (e : String) :
    (sstep s' (.exit e)).2 = .ok ∨ (sstep s' (.exit e)).2 = .bad := by
  simp only [sstep]
  cases s'.findEntry e with
  | none => simp
  | some r =>
    dsimp only
    by_cases h1 : r.verdict.isSome = true
    · simp [h1]
    · by_cases h2 : r.exited = true
      · simp [h1, h2]
      · simp only [h1, h2, Bool.false_eq_true, if_false]
        cases s'.findChain r.chain <;> simp

/-- every reachable pair of states is in the simulation relation -/
theorem reachable_sim (pre : List Op) : Sim (runOps {} pre) (srunOps {} pre) :=
  (run_sim pre init_sim).1

/-- `exit`, for every reachable state: the model's answer is the reference's answer, whenever the reference claims a call
    log (i.e. outside the hazard region and absent panics of this entry) the model produces exactly that log, and the
    successor states are again related (so the state change — exited flag, context back in the pool, result reset — is
    the reference's) -/
theorem exit_matches_reference (pre : List Op) (e : String) :
    (stepExit (runOps {} pre) e).2 = (sstep (srunOps {} pre) (.exit e)).2 ∧
    (∀ l, (sstep (srunOps {} pre) (.exit e)).1.lastLog = some l → (stepExit (runOps {} pre) e).1.lastLog = l) ∧
    Sim (stepExit (runOps {} pre) e).1 (sstep (srunOps {} pre) (.exit e)).1 := by
  obtain ⟨x1, o1⟩ := step_sim (reachable_sim pre) (.exit e)
  simp only [step] at x1 o1
  refine ⟨?_, x1.log, x1⟩
  rcases o1 with h | h
  · rcases sstep_exit_out (srunOps {} pre) e with h' | h' <;> rw [h'] at h <;> simp at h
  · exact h

/-- the complement of the hazard region, spelled out: in any reachable state, for an admitted, not yet exited entry whose
    `Entry` raised no panic, outside `hazard` and with no panicking exit handler / `OnCompleted`, the first `Exit` runs the
    handlers in registration order and then tells every statistic slot (stable sort of the chain's insertion history at
    that moment) of completion, once each -/
theorem exit_log_outside_hazard (pre : List Op) (e : String) (r : SEntry) (ins : List SlotSpec)
    (hr : (srunOps {} pre).findEntry e = some r) (hv : r.verdict = none) (hx : r.exited = false)
    (hnp : r.panicked = false) (hz : (srunOps {} pre).hazard e = false)
    (hc : (srunOps {} pre).findChain r.chain = some ins) (hk : hooksPanic r.hooks = false)
    (hs : (specChain ins).ss.any (fun x => x.beh = .pCompleted) = false) :
    (stepExit (runOps {} pre) e).1.lastLog =
      r.hooks.map (fun x => Call.handler x.1) ++ (specChain ins).ss.map (fun x => Call.completed x.id) := by
  apply (exit_matches_reference pre e).2.1
  simp [sstep, hr, hv, hx, hc, hnp, hz, specExitLog, hk, hs, SState.setEntry]

/-- **refinement over whole histories**: for every op sequence, answer by answer, the pooled model (the one tied to the code
    by the correspondence run) says what the reference says wherever the reference makes a claim (`OutRel m r` is
    `r = ? ∨ m = r`), and the final states are related -/
theorem run_matches_reference (ops : List Op) :
    List.Forall₂ OutRel (runOuts {} ops) (srunOuts {} ops) ∧ Sim (runOps {} ops) (srunOps {} ops) :=
  ⟨(run_sim ops init_sim).2, (run_sim ops init_sim).1⟩

/-- the clock is not an input of the slot chain: moving it (to 0, to 1, backwards, …) between any two ops changes neither the
    state nor any answer — deleting all clock ops from a history leaves the final state unchanged and every other answer in place -/
theorem clock_irrelevant_step (s : State) (t : Nat) : step s (.clock t) = (s, .none) := rfl

def isClock : Op → Bool
  | .clock _ => true
  | _ => false

/-- every op of a history with the model's answer to it -/
def runTrace (s : State) : List Op → List (Op × Out)
  | [] => []
  | o :: r => (o, (step s o).2) :: runTrace (step s o).1 r

theorem clock_irrelevant (ops : List Op) (s : State) :
    runOps s (ops.filter (fun o => !isClock o)) = runOps s ops ∧
    runTrace s (ops.filter (fun o => !isClock o)) = (runTrace s ops).filter (fun p => !isClock p.1) := by
  induction ops generalizing s with
  | nil => exact ⟨rfl, rfl⟩
  | cons o r ih =>
    cases o with
    | clock t =>
      obtain ⟨h1, h2⟩ := ih s
      exact ⟨by simpa [isClock, runOps, step] using h1, by simpa [isClock, runTrace, step] using h2⟩
    | _ =>
      obtain ⟨h1, h2⟩ := ih (step s _).1
      exact ⟨by simpa [isClock, runOps] using h1, by simpa [isClock, runTrace] using h2⟩

example : ∃ s' : SState, s'.hazard "e1" = true :=
  ⟨{ chains := [("A", [.r { id := 1, order := 0, beh := .block .own 3 }])],
     entries := [{ name := "e2", chain := "A", blockPanic := true, panicked := true }] }, by decide⟩


/-! ## 9. pass-through rule slots and the own-result hazard (notes/C16.md, observation 5)

The built-in rule slots return `ctx.RuleCheckResult` untouched when they have nothing to limit.  `XSlot.thru` models that
behaviour in an extension (`runRulesX`, `apiEntryWith` in `Sentinel/Lemmas/ChainExtra.lean`) that the driver does **not** run.
`SState.entryHazard s'` is the decidable hazard region: some rule slot of the case re-arms one shared result object **and** an
entry admitted by a panic after a block has not exited yet. -/

/-- (a) outside the hazard, in every reachable state, an entry on **any** chain — also one whose rule slots hand the pooled result
    back untouched, like api's global chain `*` — is exactly the entry on the same chain with those slots returning nil: it is
    decided by its own chain's slots only (heap, call log and verdict coincide; `verdict_matches_spec` then gives the verdict) -/
theorem entry_decided_by_own_chain (pre : List Op) (ps : List PSlot) (xs : List XSlot) (ss : List SSlot)
    (hz : (srunOps {} pre).entryHazard = false) :
    apiEntryWith (fun c h => runRulesX c xs h) { ps := ps, rs := xs.map XSlot.toStd, ss := ss } (runOps {} pre).h =
      apiEntry { ps := ps, rs := xs.map XSlot.toStd, ss := ss } (runOps {} pre).h := by
  rw [← apiEntryWith_std]
  apply apiEntryWith_congr
  exact runRulesX_clean _ xs _ ((reachable_sim pre).pool_clean hz)

theorem entry_decided_by_own_chain_verdict (pre : List Op) (ps : List PSlot) (xs : List XSlot) (ss : List SSlot)
    (hz : (srunOps {} pre).entryHazard = false) :
    (apiEntryWith (fun c h => runRulesX c xs h) { ps := ps, rs := xs.map XSlot.toStd, ss := ss } (runOps {} pre).h).2.2.verdict =
      specVerdict { ps := ps, rs := xs.map XSlot.toStd, ss := ss } := by
  rw [entry_decided_by_own_chain pre ps xs ss hz]
  exact verdict_matches_spec _ _

/-- the history of the witness: chain `B` = an own-result blocker (id 32) + a stat slot panicking in `OnEntryBlocked`; two
    admitted entries leave two pooled contexts pointing at the slot's result object; `e9` is admitted the same way and leaves that
    object marked blocked -/
def hazardOps : List Op :=
  [.chain "B" [.r { id := 32, order := 0, beh := .block .own 2 }, .s { id := 76, order := 0, beh := .pBlocked }],
   .entry "e5" "B", .entry "e6" "B", .exit "e5", .exit "e6", .entry "e9" "B"]

/-- api's global chain as the harness sees it, with the built-in slots' pass-through made explicit -/
def globalX : List XSlot := [.thru 0]
def globalCh : ChainDef :=
  { ps := [{ id := 0, order := 0, beh := .ok }], rs := globalX.map XSlot.toStd, ss := [{ id := 0, order := 0, beh := .ok }] }

/-- (b) inside the hazard the pass-through slot turns the stale result into a block: the unrelated request on the global chain
    is refused with slot 32's block error, while on its own slots it passes — the situation the generator keeps `*` entries out of -/
theorem passthrough_hazard_witness :
    (apiEntryWith (fun c h => runRulesX c globalX h) globalCh (runOps {} hazardOps).h).2.2.verdict =
      some { typ := 2, msg := some 32, rule := some 32, snap := some 0 } ∧
    (apiEntry globalCh (runOps {} hazardOps).h).2.2.verdict = none := by
  decide

/-- … and that history is inside the hazard region: chain `B` re-arms a slot-owned result and admits by a panic after a block
    (`e9` is such an entry and has not exited) -/
theorem passthrough_hazard_in_region :
    blockPanics { rs := [{ id := 32, order := 0, beh := .block .own 2 }], ss := [{ id := 76, order := 0, beh := .pBlocked }] } = true ∧
    RB.needsOwn (.block .own 2) = true ∧
    (findEntry (runOps {} hazardOps) "e9").map (fun r => (r.exited, r.blockAt)) = some (false, none) := by
  decide

/-! ## 10. two `Exit` calls on one entry = one `Exit` and a no-op (`exit2` in the op language)

The interpreter's `exit2` runs two overlapping `Exit` calls; `sync.Once` serialises them, so the model (the driver maps `exit2`
to `exit`) has to say that the second call does nothing. -/

/-- `exit (exit s e) e = exit s e` up to the call log, which the second call leaves empty: same answer, same heap — hence same
    pool: the context is handed back once and keeps its identity for the next entry —, same entries, chains and context notes;
    no exit handler and no statistic slot is called a second time -/
theorem exit_idempotent (s : State) (e : String) :
    (stepExit (stepExit s e).1 e).2 = (stepExit s e).2 ∧
    (stepExit (stepExit s e).1 e).1.h = (stepExit s e).1.h ∧
    (stepExit (stepExit s e).1 e).1.entries = (stepExit s e).1.entries ∧
    (stepExit (stepExit s e).1 e).1.chains = (stepExit s e).1.chains ∧
    (stepExit (stepExit s e).1 e).1.cnote = (stepExit s e).1.cnote ∧
    ((stepExit s e).2 = .ok → (stepExit (stepExit s e).1 e).1.lastLog = []) ∧
    ((stepExit s e).2 = .bad → (stepExit (stepExit s e).1 e).1 = s) :=
  stepExit_idem s e

/-- consequently the next context the pool hands out is the same with one or two `Exit` calls -/
theorem exit_twice_same_pool (s : State) (e : String) :
    poolGet (stepExit (stepExit s e).1 e).1.h = poolGet (stepExit s e).1.h := by
  rw [(exit_idempotent s e).2.1]

/-! ## 11. the global-chain preamble changes nothing on the other chains -/

example : preamble = Sentinel.Drv.C16.globalChainOp := rfl

/-- both drivers start every case with `chain * p:0:0:ok r:0:0:nil s:0:0:ok`; for every op sequence that does not name `*`
    (no `chain *`, `add *`, `entry _ *`) all answers are the same with and without that preamble -/
theorem preamble_transparent (ops : List Op) (ha : ∀ o ∈ ops, avoidsStar o = true) :
    runOuts (step {} preamble).1 ops = runOuts {} ops :=
  runOuts_starExt ops preamble_starExt ha

end Sentinel.C16
