import Sentinel.Model.AdapterIR
import Sentinel.Model.AdapterIRKnown
import Sentinel.Gen.Adapters
/-!
# C19 — framework adapters honour the entry contract on every path

`Sentinel.Gen.adapters` is regenerated from the syntax trees of `pkg/adapters/**` on every run
(`go/cmd/extract19`); the table theorem below is therefore re-proved by the kernel against the current
source each time.  A removed `defer`, an inverted block test, a handler call without an entry, a new entry
point without `Exit`, or any construct the translator cannot classify (`.unknown`) makes
`all_rows_ok` — and with it `all_adapters_conform` — fail to build.

Only core Lean is used (no Mathlib): every statement is decided by kernel evaluation of the IR semantics
of `Sentinel.Model.AdapterIR`, the same definitions the compiled driver executes to predict the event
traces that the dynamic harnesses (`go/c19/*`) observe on the real adapters.
-/
namespace Sentinel.C19
open Sentinel.AdapterIR

/-! ## The scenario list is the whole scenario space -/

theorem scenarios_complete (s : Scenario) : s ∈ scenarios := by
  rcases s with ⟨b, h⟩
  cases b <;> cases h <;> decide

theorem conformsAll_iff (p : Prog) : conformsAll p = true ↔ ∀ s : Scenario, conforms p s = true := by
  constructor
  · intro h s
    exact (List.all_eq_true.mp h) s (scenarios_complete s)
  · intro h
    exact List.all_eq_true.mpr fun s _ => h s

/-! ## The table theorem (re-checked against the regenerated table on every run) -/

/-- every extracted entry point conforms in all six scenarios or is a recorded finding (same key, same body) -/
theorem all_rows_ok : Sentinel.Gen.adapters.all rowOk = true := by decide

/-- **C19** for every entry point of the current tree that is not a recorded finding:
entry asked before the handler; blocked ⇒ handler not run and the fallback / default rejection produced;
admitted ⇒ handler exactly once, exit exactly once and last on ok / err / panic, returned error traced. -/
theorem all_adapters_conform_exact :
    ∀ p ∈ Sentinel.Gen.adapters, isKnown p = false → ∀ s : Scenario, conforms p s = true := by
  intro p hp hk
  have h := (List.all_eq_true.mp all_rows_ok) p hp
  have h' : conformsAll p = true := by
    unfold rowOk at h
    rw [hk] at h
    simpa using h
  exact (conformsAll_iff p).mp h'

theorem isKnown_key {p : Prog} (h : isKnown p = true) : p.key ∈ knownKeys := by
  unfold isKnown at h
  obtain ⟨k, hk, hb⟩ := List.any_eq_true.mp h
  have hkey : k.key = p.key := by
    have := (Bool.and_eq_true _ _).mp hb
    exact beq_iff_eq.mp this.1
  exact hkey ▸ List.mem_map.mpr ⟨k, hk, rfl⟩

/-- the statement over the complement of the recorded keys (as in DESIGN.md 6.C19) -/
theorem all_adapters_conform :
    ∀ p ∈ Sentinel.Gen.adapters, p.key ∉ knownKeys → ∀ s ∈ scenarios, conforms p s = true := by
  intro p hp hk s _
  apply all_adapters_conform_exact p hp _ s
  cases h : isKnown p with
  | false => rfl
  | true => exact absurd (isKnown_key h) hk

/-- non-vacuity: the current table has entry points outside the recorded keys (and they conform) -/
example : ∃ p ∈ Sentinel.Gen.adapters, isKnown p = false := by decide

/-! ## Recorded findings: witnesses on literal copies of the generated terms -/

/-- no recorded program is there to quiet the check: each of them really fails some scenario -/
theorem known_all_nonconforming : ∀ k ∈ knownProgs, conformsAll k = false := by decide

/-- echo hands the handler's error back to the framework without `TraceError` -/
theorem echo_untraced_witness : conforms known_echo ⟨false, .err⟩ = false := by decide
/-- fiber: the same -/
theorem fiber_untraced_witness : conforms known_fiber ⟨false, .err⟩ = false := by decide
/-- gear: admitted request, the entry is exited although the handler has not run inside it -/
theorem gear_exit_before_handler_witness : conforms known_gear ⟨false, .ok⟩ = false := by decide
/-- micro `Call`, outlier arm, blocked request: the handler runs and `Exit` on the nil entry panics -/
theorem micro_outlier_nil_entry_witness :
    runProg ⟨true, .ok⟩ known_micro_call_outlier.body = [.entryAsked, .handlerRun, .nilDeref] ∧
    conforms known_micro_call_outlier ⟨true, .ok⟩ = false := by decide
theorem micro_stream_outlier_witness : conforms known_micro_stream_outlier ⟨true, .ok⟩ = false := by decide
/-- kitex outlier arm, blocked: `entry.Context()` on the nil entry, then the deferred `Exit` on it -/
theorem kitex_outlier_witness :
    runProg ⟨true, .ok⟩ known_kitex_outlier.body = [.entryAsked, .nilDeref, .nilDeref] ∧
    conforms known_kitex_outlier ⟨true, .ok⟩ = false := by decide
theorem kratos_outlier_witness : conforms known_kratos_outlier ⟨true, .ok⟩ = false := by decide
theorem kratos_outlier_md_witness : conforms known_kratos_outlier_md ⟨true, .ok⟩ = false := by decide
/-- micro `NewStreamWrapper`: admitted, exit happens with the stream not yet used -/
theorem micro_stream_wrapper_witness : conforms known_micro_stream_wrapper ⟨false, .ok⟩ = false := by decide

/-- outside their failing scenarios the untraced-error adapters are fine (the `_partial` for echo / fiber) -/
theorem echo_fiber_partial : ∀ s : Scenario, s ≠ ⟨false, .err⟩ →
    conforms known_echo s = true ∧ conforms known_fiber s = true := by
  intro s hs
  rcases s with ⟨b, h⟩
  cases b <;> cases h <;> first | (exact absurd rfl hs) | decide

/-- the outlier arms are fine when the request is admitted and the handler does not fail -/
theorem outlier_arms_partial : ∀ k ∈ [known_micro_call_outlier, known_micro_stream_outlier, known_kratos_outlier,
      known_kratos_outlier_md, known_kitex_outlier],
    conforms k ⟨false, .ok⟩ = true ∧ conforms k ⟨false, .panic⟩ = true := by decide

/-! ## General lemmas about the IR semantics (independent of the table) -/

theorem conforms_mk (k : String) (b : List Stmt) (s : Scenario) :
    conforms ⟨k, b⟩ s = conformsTrace s (runProg s b) := rfl

/-- the canonical shape conforms in every scenario, provided a handed-back error is traced -/
theorem canonical_conforms (key : String) (eb tr : Bool) (h : eb = true → tr = true) (s : Scenario) :
    conforms ⟨key, [.entry, .ifBlocked [.fallback, .ret], .deferExit, .callNext eb tr, .ret]⟩ s = true := by
  rcases s with ⟨b, hd⟩
  rw [conforms_mk]
  cases eb <;> cases tr <;> simp at h <;> cases b <;> cases hd <;> decide

/-- the same without the trailing `return` (void middlewares: gin, iris, goframe, go-zero, hertz server) -/
theorem canonical_void_conforms (key : String) (tr : Bool) (s : Scenario) :
    conforms ⟨key, [.entry, .ifBlocked [.fallback, .ret], .deferExit, .callNext false tr]⟩ s = true := by
  rcases s with ⟨b, hd⟩
  rw [conforms_mk]
  cases tr <;> cases b <;> cases hd <;> decide

/-- dropping the `defer` breaks the canonical shape exactly on the admitted paths -/
theorem canonical_without_defer_fails (key : String) (eb tr : Bool) (hd : Handler) :
    conforms ⟨key, [.entry, .ifBlocked [.fallback, .ret], .callNext eb tr, .ret]⟩ ⟨false, hd⟩ = false := by
  rw [conforms_mk]
  cases eb <;> cases tr <;> cases hd <;> decide

/-- an immediate `Exit` after the handler instead of `defer` leaks the entry when the handler panics -/
theorem exit_after_call_leaks_on_panic (key : String) (eb tr : Bool) :
    conforms ⟨key, [.entry, .ifBlocked [.fallback, .ret], .callNext eb tr, .exitNow, .ret]⟩ ⟨false, .panic⟩ = false := by
  rw [conforms_mk]
  cases eb <;> cases tr <;> decide

/-- a block branch that falls through runs the handler for a blocked request -/
theorem fallthrough_block_branch_fails (key : String) (eb tr : Bool) (hd : Handler) :
    conforms ⟨key, [.entry, .ifBlocked [.fallback], .deferExit, .callNext eb tr, .ret]⟩ ⟨true, hd⟩ = false := by
  rw [conforms_mk]
  cases eb <;> cases tr <;> cases hd <;> decide

theorem count_pos_of_mem {e : Ev} {tr : List Ev} (h : e ∈ tr) : count e tr ≠ 0 := by
  unfold count
  exact Nat.ne_of_gt (List.count_pos_iff.mpr h)

/-- fail closed: a trace that reached a construct the translator did not understand never conforms -/
theorem unknown_rejected (sc : Scenario) (tr : List Ev) (h : Ev.unknown ∈ tr) : conformsTrace sc tr = false := by
  have := count_pos_of_mem h
  unfold conformsTrace
  simp [this]

/-- a nil-pointer panic on the entry never conforms -/
theorem nilDeref_rejected (sc : Scenario) (tr : List Ev) (h : Ev.nilDeref ∈ tr) : conformsTrace sc tr = false := by
  have := count_pos_of_mem h
  unfold conformsTrace
  simp [this]

/-- a conforming trace starts by asking for the entry -/
theorem conforms_entry_first (sc : Scenario) (tr : List Ev) (h : conformsTrace sc tr = true) :
    tr.head? = some .entryAsked := by
  unfold conformsTrace at h
  simp only [Bool.and_eq_true, decide_eq_true_eq] at h
  exact h.1.1.1.1

/-- an admitted request whose entry is never exited does not conform -/
theorem admitted_needs_exit (hd : Handler) (tr : List Ev) (h : Ev.exit ∉ tr) : conformsTrace ⟨false, hd⟩ tr = false := by
  have : count .exit tr = 0 := by unfold count; exact List.count_eq_zero.mpr h
  unfold conformsTrace
  simp [this]

/-! ### Control flow: statements after a `return` are dead, whatever they are -/

theorem execList_stopped (sc : Scenario) (s : St) (l : List Stmt) (h : s.stopped = true) : execList sc s l = s := by
  cases l with
  | nil => simp [execList]
  | cons x r => simp [execList, h]

theorem execList_append (sc : Scenario) (a b : List Stmt) : ∀ s : St,
    execList sc s (a ++ b) = execList sc (execList sc s a) b := by
  induction a with
  | nil => intro s; simp [execList]
  | cons x r ih =>
    intro s
    by_cases hs : s.stopped = true
    · simp [execList, hs, execList_stopped]
    · simp [execList, hs, ih]

theorem dead_code_after_ret (sc : Scenario) (pre junk : List Stmt) :
    runProg sc (pre ++ .ret :: junk) = runProg sc (pre ++ [.ret]) := by
  have key : ∀ s : St, execList sc s (.ret :: junk) = execList sc s [.ret] := by
    intro s
    by_cases hs : s.stopped = true
    · simp [execList, hs]
    · simp [execList, hs, exec, execList_stopped]
  unfold runProg
  rw [execList_append, execList_append, key]

/-! ### Structural theorems (mutual induction over the nested IR): they hold for *every* body, not just the table -/

mutual
theorem exec_prefix (sc : Scenario) : ∀ (x : Stmt) (s : St), s.trace <+: (exec sc s x).trace
  | .entry, s => by simp [exec]
  | .ifBlocked th, s => by
      simp only [exec]
      split
      · exact execList_prefix sc th s
      · exact List.prefix_refl _
  | .fallback, s => by simp [exec]
  | .ret, s => by simp [exec]
  | .deferExit, s => by simp [exec]
  | .exitNow, s => by simp only [exec]; split <;> simp
  | .useEntry, s => by simp only [exec]; split <;> simp
  | .callNext eb tr, s => by
      simp only [exec]
      split
      · simp
      · split
        · split <;> simp [List.append_assoc]
        · simp
      · simp
  | .unknown, s => by simp [exec]
theorem execList_prefix (sc : Scenario) : ∀ (l : List Stmt) (s : St), s.trace <+: (execList sc s l).trace
  | [], s => by simp [execList]
  | x :: r, s => by
      simp only [execList]
      split
      · exact List.prefix_refl _
      · exact (exec_prefix sc x s).trans (execList_prefix sc r (exec sc s x))
end

theorem unwind_prefix (nil : Bool) : ∀ (n : Nat) (tr : List Ev), tr <+: unwind nil n tr
  | 0, tr => by simp [unwind]
  | n + 1, tr => by
      simp only [unwind]
      exact (List.prefix_append tr _).trans (unwind_prefix nil n _)

theorem runProg_prefix (sc : Scenario) (x : Stmt) (rest : List Stmt) :
    (exec sc {} x).trace <+: runProg sc (x :: rest) := by
  unfold runProg
  have h : execList sc {} (x :: rest) = execList sc (exec sc {} x) rest := by simp [execList]
  rw [h]
  exact (execList_prefix sc rest _).trans (unwind_prefix _ _ _)

theorem head?_of_prefix {α} {a : α} {l m : List α} (h : l <+: m) (hl : l.head? = some a) : m.head? = some a := by
  obtain ⟨t, rfl⟩ := h
  cases l with
  | nil => simp at hl
  | cons b r => simpa using hl

/-- whatever follows, a body whose first statement produces an event other than asking for the entry
(handler call, fallback, exit, unknown construct …) does not conform in any scenario -/
theorem first_event_must_be_entry (k : String) (sc : Scenario) (x : Stmt) (rest : List Stmt) (e : Ev)
    (h : (exec sc {} x).trace.head? = some e) (he : e ≠ .entryAsked) :
    conforms ⟨k, x :: rest⟩ sc = false := by
  have hp := head?_of_prefix (runProg_prefix sc x rest) h
  show conformsTrace sc (runProg sc (x :: rest)) = false
  unfold conformsTrace
  rw [hp]
  have : (some e = some Ev.entryAsked) = False := by simp [he]
  simp [this]

theorem handler_before_entry_never_conforms (k : String) (sc : Scenario) (eb tr : Bool) (rest : List Stmt) :
    conforms ⟨k, .callNext eb tr :: rest⟩ sc = false := by
  apply first_event_must_be_entry k sc _ rest .handlerRun
  · rcases sc with ⟨b, h⟩; cases h <;> cases eb <;> cases tr <;> simp [exec]
  · decide

theorem unwind_nil_mem : ∀ (n : Nat) (tr : List Ev), Ev.nilDeref ∈ unwind true (n + 1) tr
  | 0, tr => by simp [unwind]
  | n + 1, tr => by
      have := unwind_nil_mem n (tr ++ [Ev.nilDeref])
      simpa [unwind] using this

/-- a deferred `Exit` still pending on a nil entry when the body ends panics: never conforms -/
theorem pending_defer_on_nil_entry_never_conforms (k : String) (sc : Scenario) (body : List Stmt)
    (hn : (execList sc {} body).entryNil = true) (hd : (execList sc {} body).deferred ≠ 0) :
    conforms ⟨k, body⟩ sc = false := by
  show conformsTrace sc (runProg sc body) = false
  apply nilDeref_rejected
  unfold runProg
  obtain ⟨n, hn'⟩ := Nat.exists_eq_succ_of_ne_zero hd
  simp only [hn, hn']
  exact unwind_nil_mem n _

mutual
theorem exec_blocked_inv (sc : Scenario) (hb : sc.blocked = true) :
    ∀ (x : Stmt) (s : St), s.entryNil = true → (exec sc s x).entryNil = true ∧ s.deferred ≤ (exec sc s x).deferred
  | .entry, s, _ => by simp [exec, hb]
  | .ifBlocked th, s, h => by
      simp only [exec, hb, if_true]
      exact execList_blocked_inv sc hb th s h
  | .fallback, s, h => by simp [exec, h]
  | .ret, s, h => by simp [exec, h]
  | .deferExit, s, h => by simp [exec, h]
  | .exitNow, s, h => by simp [exec, h]
  | .useEntry, s, h => by simp [exec, h]
  | .callNext eb tr, s, h => by
      simp only [exec]
      split
      · simp [h]
      · split
        · split <;> simp [h]
        · simp [h]
      · simp [h]
  | .unknown, s, h => by simp [exec, h]
theorem execList_blocked_inv (sc : Scenario) (hb : sc.blocked = true) :
    ∀ (l : List Stmt) (s : St), s.entryNil = true → (execList sc s l).entryNil = true ∧ s.deferred ≤ (execList sc s l).deferred
  | [], s, h => by simp [execList, h]
  | x :: r, s, h => by
      simp only [execList]
      split
      · simp [h]
      · have h1 := exec_blocked_inv sc hb x s h
        have h2 := execList_blocked_inv sc hb r (exec sc s x) h1.1
        exact ⟨h2.1, Nat.le_trans h1.2 h2.2⟩
end

/-- **ignoring the block result is never right**: a body that defers `Exit` straight after `Entry`, without
testing the block error, fails every blocked scenario — whatever statements follow -/
theorem unchecked_defer_never_conforms_blocked (k : String) (hd : Handler) (rest : List Stmt) :
    conforms ⟨k, .entry :: .deferExit :: rest⟩ ⟨true, hd⟩ = false := by
  have h0 : execList ⟨true, hd⟩ {} (.entry :: .deferExit :: rest) =
      execList ⟨true, hd⟩ { trace := [.entryAsked], deferred := 1, entryNil := true, stopped := false } rest := by
    simp [execList, exec]
  have inv := execList_blocked_inv ⟨true, hd⟩ rfl rest
    { trace := [.entryAsked], deferred := 1, entryNil := true, stopped := false } rfl
  apply pending_defer_on_nil_entry_never_conforms
  · rw [h0]; exact inv.1
  · rw [h0]; have := inv.2; simp at this; omega

theorem exec_admitted_plain (sc : Scenario) (hb : sc.blocked = false) (x : Stmt) (hx : plainStmt x = true) (s : St) :
    (exec sc s x).deferred = s.deferred ∧ count .handlerRun (exec sc s x).trace = count .handlerRun s.trace := by
  cases x with
  | deferExit => simp [plainStmt] at hx
  | callNext eb tr => simp [plainStmt] at hx
  | ifBlocked th => simp [exec, hb]
  | exitNow => simp only [exec]; split <;> simp [count]
  | useEntry => simp only [exec]; split <;> simp [count]
  | _ => simp [exec, count]

theorem execList_admitted_plain (sc : Scenario) (hb : sc.blocked = false) :
    ∀ (pre : List Stmt), (∀ x ∈ pre, plainStmt x = true) → ∀ s : St,
      (execList sc s pre).deferred = s.deferred ∧ count .handlerRun (execList sc s pre).trace = count .handlerRun s.trace
  | [], _, s => by simp [execList]
  | x :: r, h, s => by
      simp only [execList]
      split
      · simp
      · have h1 := exec_admitted_plain sc hb x (h x (by simp)) s
        have h2 := execList_admitted_plain sc hb r (fun y hy => h y (by simp [hy])) (exec sc s x)
        exact ⟨h2.1.trans h1.1, h2.2.trans h1.2⟩

/-- **panic safety needs `defer`**: if no `defer e.Exit()` precedes the (first) handler call, the admitted request
whose handler panics is never exited properly — whatever comes before (tests, immediate exits, unknown constructs)
and after the call -/
theorem handler_panic_needs_defer (k : String) (pre post : List Stmt) (eb tr : Bool)
    (hpre : ∀ x ∈ pre, plainStmt x = true) :
    conforms ⟨k, pre ++ .callNext eb tr :: post⟩ ⟨false, .panic⟩ = false := by
  show conformsTrace ⟨false, .panic⟩ (runProg ⟨false, .panic⟩ (pre ++ .callNext eb tr :: post)) = false
  have hp := execList_admitted_plain ⟨false, .panic⟩ rfl pre hpre {}
  unfold runProg
  rw [execList_append]
  generalize execList ⟨false, .panic⟩ {} pre = s1 at hp
  have hd : s1.deferred = 0 := hp.1
  have hc : count .handlerRun s1.trace = 0 := by simpa [count] using hp.2
  by_cases hs : s1.stopped = true
  · rw [execList_stopped _ _ _ hs]
    simp only [hd, unwind]
    unfold conformsTrace
    simp [hc]
  · have : execList ⟨false, .panic⟩ s1 (.callNext eb tr :: post) =
        { s1 with trace := s1.trace ++ [.handlerRun], stopped := true } := by
      simp [execList, hs, exec, execList_stopped]
    rw [this]
    simp only [hd, unwind]
    unfold conformsTrace
    simp

end Sentinel.C19
