import Sentinel.Model.AdapterIR
import Sentinel.Model.AdapterIRKnown
import Sentinel.Gen.Adapters
/-!
# C19 — framework adapters honour the entry contract on every path

`Sentinel.Gen.adapters` is regenerated from the syntax trees of `pkg/adapters/**` on every run
(`go/cmd/extract19`); the table theorem below is therefore re-proved by the kernel against the current
source each time.  A removed `defer`, an inverted block test, a handler call without an entry, a new entry
point without `Exit`, a block branch that does not stop the handler chain of a framework in which returning alone
does not (gin, hertz, iris under forced execution rules, gear), or any construct the translator cannot classify (`.unknown`) makes
`all_rows_ok` — and with it `all_adapters_conform` — fail to build.

Only core Lean is used (no Mathlib): every statement is decided by kernel evaluation of the IR semantics
of `Sentinel.Model.AdapterIR`, the same definitions the compiled driver executes to predict the event
traces that the dynamic harnesses (`go/c19/*`) observe on the real adapters.
-/
namespace Sentinel.C19
open Sentinel.AdapterIR

/-! ## The scenario list is the whole scenario space -/

theorem scenarios_complete (s : Scenario) : s ∈ scenarios := by
  rcases s with ⟨b, h⟩
  cases b <;> cases h <;> decide

theorem conformsAll_iff (p : Prog) : conformsAll p = true ↔ ∀ s : Scenario, conforms p s = true := by
  constructor
  · intro h s
    exact (List.all_eq_true.mp h) s (scenarios_complete s)
  · intro h
    exact List.all_eq_true.mpr fun s _ => h s

/-! ## The table theorem (re-checked against the regenerated table on every run) -/

/-- every extracted entry point conforms in all six scenarios or is a recorded finding (same key, same body) -/
theorem all_rows_ok : Sentinel.Gen.adapters.all rowOk = true := by decide

/-- **C19** for every entry point of the current tree that is not a recorded finding:
entry asked before the handler; blocked ⇒ handler not run and the fallback / default rejection produced;
admitted ⇒ handler exactly once, exit exactly once and last on ok / err / panic, returned error traced. -/
theorem all_adapters_conform_exact :
    ∀ p ∈ Sentinel.Gen.adapters, isKnown p = false → ∀ s : Scenario, conforms p s = true := by
  intro p hp hk
  have h := (List.all_eq_true.mp all_rows_ok) p hp
  have h' : conformsAll p = true := by
    unfold rowOk at h
    rw [hk] at h
    simpa using h
  exact (conformsAll_iff p).mp h'

theorem isKnown_key {p : Prog} (h : isKnown p = true) : p.key ∈ knownKeys := by
  unfold isKnown at h
  obtain ⟨k, hk, hb⟩ := List.any_eq_true.mp h
  have hkey : k.key = p.key := by
    simp only [Bool.and_eq_true, beq_iff_eq] at hb
    exact hb.1.1.1
  exact hkey ▸ List.mem_map.mpr ⟨k, hk, rfl⟩

/-- the statement over the complement of the recorded keys (as in DESIGN.md 6.C19) -/
theorem all_adapters_conform :
    ∀ p ∈ Sentinel.Gen.adapters, p.key ∉ knownKeys → ∀ s ∈ scenarios, conforms p s = true := by
  intro p hp hk s _
  apply all_adapters_conform_exact p hp _ s
  cases h : isKnown p with
  | false => rfl
  | true => exact absurd (isKnown_key h) hk

/-- non-vacuity: the current table has entry points outside the recorded keys (and they conform) -/
example : ∃ p ∈ Sentinel.Gen.adapters, isKnown p = false := by decide

/-! ## Recorded findings: witnesses on literal copies of the generated terms -/

/-- no recorded program is there to quiet the check: each of them really fails some scenario -/
theorem known_all_nonconforming : ∀ k ∈ knownProgs, conformsAll k = false := by decide

/-- echo hands the handler's error back to the framework without `TraceError` -/
theorem echo_untraced_witness : conforms known_echo ⟨false, .err⟩ = false := by decide
/-- fiber: the same -/
theorem fiber_untraced_witness : conforms known_fiber ⟨false, .err⟩ = false := by decide
/-- gear: admitted request, the entry is exited and only then does gear go on to the handler -/
theorem gear_exit_before_handler_witness :
    known_gear.run ⟨false, .ok⟩ = [.entryAsked, .exit, .handlerRun] ∧
    conforms known_gear ⟨false, .ok⟩ = false := by decide
/-- micro `Call`, outlier arm, blocked request: the handler runs and `Exit` on the nil entry panics -/
theorem micro_outlier_nil_entry_witness :
    known_micro_call_outlier.run ⟨true, .ok⟩ = [.entryAsked, .handlerRun, .nilDeref] ∧
    conforms known_micro_call_outlier ⟨true, .ok⟩ = false := by decide
theorem micro_stream_outlier_witness : conforms known_micro_stream_outlier ⟨true, .ok⟩ = false := by decide
/-- kitex outlier arm, blocked: `entry.Context()` on the nil entry, then the deferred `Exit` on it -/
theorem kitex_outlier_witness :
    known_kitex_outlier.run ⟨true, .ok⟩ = [.entryAsked, .nilDeref, .nilDeref] ∧
    conforms known_kitex_outlier ⟨true, .ok⟩ = false := by decide
theorem kratos_outlier_witness : conforms known_kratos_outlier ⟨true, .ok⟩ = false := by decide
theorem kratos_outlier_md_witness : conforms known_kratos_outlier_md ⟨true, .ok⟩ = false := by decide
/-- micro `NewStreamWrapper`: admitted, exit happens with the stream not yet used -/
theorem micro_stream_wrapper_witness : conforms known_micro_stream_wrapper ⟨false, .ok⟩ = false := by decide

/-- outside their failing scenarios the untraced-error adapters are fine (the `_partial` for echo / fiber) -/
theorem echo_fiber_partial : ∀ s : Scenario, s ≠ ⟨false, .err⟩ →
    conforms known_echo s = true ∧ conforms known_fiber s = true := by
  intro s hs
  rcases s with ⟨b, h⟩
  cases b <;> cases h <;> first | (exact absurd rfl hs) | decide

/-- the outlier arms are fine when the request is admitted and the handler does not fail -/
theorem outlier_arms_partial : ∀ k ∈ [known_micro_call_outlier, known_micro_stream_outlier, known_kratos_outlier,
      known_kratos_outlier_md, known_kitex_outlier],
    conforms k ⟨false, .ok⟩ = true ∧ conforms k ⟨false, .panic⟩ = true := by decide

/-- gear's block branch is fine (`End` stops gear's middleware loop): only the admitted paths fail -/
theorem gear_partial : ∀ hd : Handler, conforms known_gear ⟨true, hd⟩ = true := by
  intro hd; cases hd <;> decide

/-! ## What stops the handler chain is framework-dependent (seeded change C19-r3-3) -/

/-- the iris middleware as it is: the default rejection sets the status **and** stops the execution -/
def irisAsIs : Prog := ⟨"iris/middleware.go:SentinelMiddleware.func1", "iris", ["Next"],
  [.entry, .ifBlocked [.reject [["option"], ["StatusCode", "StopExecution"]], .ret], .deferExit, .callNext false false]⟩
/-- … with `c.StopExecution()` dropped as "redundant" -/
def irisNoStop : Prog := ⟨"iris/middleware.go:SentinelMiddleware.func1", "iris", ["Next"],
  [.entry, .ifBlocked [.reject [["option"], ["StatusCode"]], .ret], .deferExit, .callNext false false]⟩

theorem iris_as_is_conforms : ∀ s : Scenario, conforms irisAsIs s = true := by
  intro s; rcases s with ⟨b, h⟩; cases b <;> cases h <;> decide

/-- returning without `ctx.Next()` does not end an iris chain under forced execution rules: the blocked request
reaches the handler -/
theorem iris_return_without_stop_witness :
    irisNoStop.run ⟨true, .ok⟩ = [.entryAsked, .fallback, .handlerRun] ∧
    conforms irisNoStop ⟨true, .ok⟩ = false := by decide

/-- gin: `c.Status(429); return` instead of `c.AbortWithStatus(429)` lets the `Next` loop run the handler -/
theorem gin_return_without_abort_witness :
    conforms ⟨"gin/middleware.go:SentinelMiddleware.func1", "gin", ["Next"],
      [.entry, .ifBlocked [.reject [["option"], ["Status"]], .ret], .deferExit, .callNext false false]⟩ ⟨true, .ok⟩ = false := by
  decide

/-- the same body is fine in a wrapping framework, where only the middleware holds `next` -/
theorem wrapping_return_stops :
    ∀ s : Scenario, conforms ⟨"go-zero/x.go:f", "go-zero", ["param"],
      [.entry, .ifBlocked [.reject [["http.Error"]], .ret], .deferExit, .callNext false false]⟩ s = true := by
  intro s; rcases s with ⟨b, h⟩; cases b <;> cases h <;> decide

/-- an adapter package without a row in the framework table is rejected as soon as it calls a handler -/
theorem unknown_framework_rejected (p : Prog) (s : Scenario) (hv : p.nextVia ≠ [])
    (hf : (frameworkOf p.fw).nextCalls = []) : conforms p s = false := by
  unfold conforms Prog.nextOk
  cases h : p.nextVia with
  | nil => exact absurd h hv
  | cons v r => simp [hf]

/-! ## Option guards (the defect repaired by /repo d41329a must not hide inside a recorded finding) -/

/-- micro `NewStreamWrapper` with the guards as they were before d41329a: `serverResourceExtract` tested,
`streamServerResourceExtract` called; `serverBlockFallback` tested, `streamServerBlockFallback` called -/
def microStreamWrapperMisguarded : Prog := ⟨"micro/server.go:NewStreamWrapper.func1", "micro", [],
  [.badGuard, .entry, .ifBlocked [.reject [["misguarded"], ["Send"]], .ret], .exitNow, .ret]⟩

/-- the reverted function is **not** a recorded finding (the recorded copy is the repaired body, whose only defect is
the early `Exit`) and it fails every scenario: the check reports it -/
theorem option_guards_witness :
    isKnown microStreamWrapperMisguarded = false ∧
    ∀ s : Scenario, conforms microStreamWrapperMisguarded s = false := by
  refine ⟨by decide, ?_⟩
  intro s; rcases s with ⟨b, h⟩; cases b <;> cases h <;> decide

/-- a trace with a mis-guarded option call never conforms -/
theorem badGuard_rejected (sc : Scenario) (tr : List Ev) (h : Ev.badGuard ∈ tr) : conformsTrace sc tr = false := by
  have : count .badGuard tr ≠ 0 := by unfold count; exact Nat.ne_of_gt (List.count_pos_iff.mpr h)
  unfold conformsTrace
  simp [this]

/-- an alternative with a mis-guarded option call is never a good rejection, for any framework and whatever else it calls -/
theorem misguarded_never_good (alts : List (List String)) (f : String → Bool) (a : List String)
    (ha : a ∈ alts) (hm : "misguarded" ∈ a) : allAlts alts f = false := by
  unfold allAlts
  have : (alts.all fun a => !a.contains "misguarded" && a.any f) = false := by
    apply Bool.eq_false_iff.mpr
    intro hall
    have := (List.all_eq_true.mp hall) _ ha
    simp [hm] at this
  rw [this]
  simp

/-- recorded means *exactly* a recorded copy: key, framework, handler-call kinds and the whole body -/
theorem isKnown_exact {p : Prog} (h : isKnown p = true) :
    ∃ k ∈ knownProgs, k.key = p.key ∧ k.fw = p.fw ∧ k.nextVia = p.nextVia ∧ beqList k.body p.body = true := by
  unfold isKnown at h
  obtain ⟨k, hk, hb⟩ := List.any_eq_true.mp h
  simp only [Bool.and_eq_true, beq_iff_eq] at hb
  exact ⟨k, hk, hb.1.1.1, hb.1.1.2, hb.1.2, hb.2⟩

/-! ## General lemmas about the IR semantics (independent of the table, for every chain `ch`) -/

theorem conforms_mk (k fw : String) (via : List String) (b : List Stmt) (s : Scenario) :
    conforms ⟨k, fw, via, b⟩ s =
      ((⟨k, fw, via, b⟩ : Prog).nextOk && conformsTrace s (runProg (⟨k, fw, via, b⟩ : Prog).chain s b)) := rfl

/-- the rejection of the block branch is good for chain `ch`: every alternative produces the rejection, and
stops the chain where returning alone does not -/
def goodReject (ch : Chain) (alts : List (List String)) : Bool :=
  allAlts alts ch.isResponse && (ch.returnStops || allAlts alts ch.isStop)

/-- the canonical shape conforms in every scenario and every framework, provided a handed-back error is traced
and the rejection is good for the framework's chain -/
theorem canonical_conforms (ch : Chain) (alts : List (List String)) (eb tr : Bool) (h : eb = true → tr = true)
    (hr : goodReject ch alts = true) (s : Scenario) :
    conformsTrace s (runProg ch s [.entry, .ifBlocked [.reject alts, .ret], .deferExit, .callNext eb tr, .ret]) = true := by
  unfold goodReject at hr
  simp only [Bool.and_eq_true, Bool.or_eq_true] at hr
  rcases s with ⟨b, hd⟩
  cases eb <;> cases tr <;> simp at h <;> cases b <;> cases hd <;>
    simp [runProg, execList, exec, unwind, frameworkAdvances, conformsTrace, count, hr.1] <;>
    (rcases hr.2 with h2 | h2 <;> simp [h2])

/-- the same without the trailing `return` (void middlewares: gin, iris, goframe, go-zero, hertz server) -/
theorem canonical_void_conforms (ch : Chain) (alts : List (List String)) (tr : Bool)
    (hr : goodReject ch alts = true) (s : Scenario) :
    conformsTrace s (runProg ch s [.entry, .ifBlocked [.reject alts, .ret], .deferExit, .callNext false tr]) = true := by
  unfold goodReject at hr
  simp only [Bool.and_eq_true, Bool.or_eq_true] at hr
  rcases s with ⟨b, hd⟩
  cases tr <;> cases b <;> cases hd <;>
    simp [runProg, execList, exec, unwind, frameworkAdvances, conformsTrace, count, hr.1] <;>
    (rcases hr.2 with h2 | h2 <;> simp [h2])

/-- **return alone does not stop every chain**: in a framework where returning does not end the chain, a block
branch none of whose calls stops it lets the blocked request reach the handler — whatever the rejection writes -/
theorem return_without_stop_fails (ch : Chain) (alts : List (List String)) (eb tr : Bool) (hd : Handler)
    (hret : ch.returnStops = false) (hstop : allAlts alts ch.isStop = false) :
    conformsTrace ⟨true, hd⟩
      (runProg ch ⟨true, hd⟩ [.entry, .ifBlocked [.reject alts, .ret], .deferExit, .callNext eb tr, .ret]) = false := by
  cases h : allAlts alts ch.isResponse <;>
    simp [runProg, execList, exec, unwind, frameworkAdvances, conformsTrace, count, hret, hstop, h]

/-- dropping the `defer` breaks the canonical shape exactly on the admitted paths -/
theorem canonical_without_defer_fails (ch : Chain) (alts : List (List String)) (eb tr : Bool) (hd : Handler) :
    conformsTrace ⟨false, hd⟩
      (runProg ch ⟨false, hd⟩ [.entry, .ifBlocked [.reject alts, .ret], .callNext eb tr, .ret]) = false := by
  cases eb <;> cases tr <;> cases hd <;>
    simp [runProg, execList, exec, unwind, frameworkAdvances, conformsTrace, count]

/-- an immediate `Exit` after the handler instead of `defer` leaks the entry when the handler panics -/
theorem exit_after_call_leaks_on_panic (ch : Chain) (alts : List (List String)) (eb tr : Bool) :
    conformsTrace ⟨false, .panic⟩
      (runProg ch ⟨false, .panic⟩ [.entry, .ifBlocked [.reject alts, .ret], .callNext eb tr, .exitNow, .ret]) = false := by
  cases eb <;> cases tr <;>
    simp [runProg, execList, exec, unwind, frameworkAdvances, conformsTrace, count]

/-- a block branch that falls through runs the handler for a blocked request -/
theorem fallthrough_block_branch_fails (ch : Chain) (alts : List (List String)) (eb tr : Bool) (hd : Handler) :
    conformsTrace ⟨true, hd⟩
      (runProg ch ⟨true, hd⟩ [.entry, .ifBlocked [.reject alts], .deferExit, .callNext eb tr, .ret]) = false := by
  cases h : allAlts alts ch.isResponse <;> cases eb <;> cases tr <;> cases hd <;>
    simp [runProg, execList, exec, unwind, frameworkAdvances, conformsTrace, count, h]

theorem count_pos_of_mem {e : Ev} {tr : List Ev} (h : e ∈ tr) : count e tr ≠ 0 := by
  unfold count
  exact Nat.ne_of_gt (List.count_pos_iff.mpr h)

/-- fail closed: a trace that reached a construct the translator did not understand never conforms -/
theorem unknown_rejected (sc : Scenario) (tr : List Ev) (h : Ev.unknown ∈ tr) : conformsTrace sc tr = false := by
  have := count_pos_of_mem h
  unfold conformsTrace
  simp [this]

/-- a nil-pointer panic on the entry never conforms -/
theorem nilDeref_rejected (sc : Scenario) (tr : List Ev) (h : Ev.nilDeref ∈ tr) : conformsTrace sc tr = false := by
  have := count_pos_of_mem h
  unfold conformsTrace
  simp [this]

/-- a conforming trace starts by asking for the entry -/
theorem conforms_entry_first (sc : Scenario) (tr : List Ev) (h : conformsTrace sc tr = true) :
    tr.head? = some .entryAsked := by
  unfold conformsTrace at h
  simp only [Bool.and_eq_true, decide_eq_true_eq] at h
  exact h.1.1.1.1.1

/-- an admitted request whose entry is never exited does not conform -/
theorem admitted_needs_exit (hd : Handler) (tr : List Ev) (h : Ev.exit ∉ tr) : conformsTrace ⟨false, hd⟩ tr = false := by
  have : count .exit tr = 0 := by unfold count; exact List.count_eq_zero.mpr h
  unfold conformsTrace
  simp [this]

/-- a blocked request that reaches the handler — inside the body or because the framework went on — does not conform -/
theorem blocked_handler_rejected (hd : Handler) (tr : List Ev) (h : Ev.handlerRun ∈ tr) :
    conformsTrace ⟨true, hd⟩ tr = false := by
  have := count_pos_of_mem h
  unfold conformsTrace
  simp [this]

/-! ### Control flow: statements after a `return` are dead, whatever they are -/

theorem execList_stopped (ch : Chain) (sc : Scenario) (s : St) (l : List Stmt) (h : s.stopped = true) :
    execList ch sc s l = s := by
  cases l with
  | nil => simp [execList]
  | cons x r => simp [execList, h]

theorem execList_append (ch : Chain) (sc : Scenario) (a b : List Stmt) : ∀ s : St,
    execList ch sc s (a ++ b) = execList ch sc (execList ch sc s a) b := by
  induction a with
  | nil => intro s; simp [execList]
  | cons x r ih =>
    intro s
    by_cases hs : s.stopped = true
    · simp [execList, hs, execList_stopped]
    · simp [execList, hs, ih]

theorem dead_code_after_ret (ch : Chain) (sc : Scenario) (pre junk : List Stmt) :
    runProg ch sc (pre ++ .ret :: junk) = runProg ch sc (pre ++ [.ret]) := by
  have key : ∀ s : St, execList ch sc s (.ret :: junk) = execList ch sc s [.ret] := by
    intro s
    by_cases hs : s.stopped = true
    · simp [execList, hs]
    · simp [execList, hs, exec, execList_stopped]
  unfold runProg
  rw [execList_append, execList_append, key]

/-! ### Structural theorems (mutual induction over the nested IR): they hold for *every* body and chain -/

mutual
theorem exec_prefix (ch : Chain) (sc : Scenario) : ∀ (x : Stmt) (s : St), s.trace <+: (exec ch sc s x).trace
  | .entry, s => by simp [exec]
  | .ifBlocked th, s => by
      simp only [exec]
      split
      · exact execList_prefix ch sc th s
      · exact List.prefix_refl _
  | .reject alts, s => by simp only [exec]; split <;> simp
  | .ret, s => by simp [exec]
  | .deferExit, s => by simp [exec]
  | .exitNow, s => by simp only [exec]; split <;> simp
  | .useEntry, s => by simp only [exec]; split <;> simp
  | .callNext eb tr, s => by
      simp only [exec]
      split
      · simp
      · split
        · split <;> simp [List.append_assoc]
        · simp
      · simp
  | .unknown, s => by simp [exec]
  | .badGuard, s => by simp [exec]
theorem execList_prefix (ch : Chain) (sc : Scenario) : ∀ (l : List Stmt) (s : St), s.trace <+: (execList ch sc s l).trace
  | [], s => by simp [execList]
  | x :: r, s => by
      simp only [execList]
      split
      · exact List.prefix_refl _
      · exact (exec_prefix ch sc x s).trans (execList_prefix ch sc r (exec ch sc s x))
end

theorem unwind_prefix (nil : Bool) : ∀ (n : Nat) (tr : List Ev), tr <+: unwind nil n tr
  | 0, tr => by simp [unwind]
  | n + 1, tr => by
      simp only [unwind]
      exact (List.prefix_append tr _).trans (unwind_prefix nil n _)

theorem runProg_prefix (ch : Chain) (sc : Scenario) (x : Stmt) (rest : List Stmt) :
    (exec ch sc {} x).trace <+: runProg ch sc (x :: rest) := by
  unfold runProg
  have h : execList ch sc {} (x :: rest) = execList ch sc (exec ch sc {} x) rest := by simp [execList]
  rw [h]
  have h0 := execList_prefix ch sc rest (exec ch sc {} x)
  generalize execList ch sc (exec ch sc {} x) rest = s at h0 ⊢
  have h1 := h0.trans (unwind_prefix s.entryNil s.deferred s.trace)
  dsimp only
  split
  · exact h1.trans (List.prefix_append _ _)
  · exact h1

theorem head?_of_prefix {α} {a : α} {l m : List α} (h : l <+: m) (hl : l.head? = some a) : m.head? = some a := by
  obtain ⟨t, rfl⟩ := h
  cases l with
  | nil => simp at hl
  | cons b r => simpa using hl

/-- whatever follows, a body whose first statement produces an event other than asking for the entry
(handler call, rejection, exit, unknown construct …) does not conform in any scenario -/
theorem first_event_must_be_entry (ch : Chain) (sc : Scenario) (x : Stmt) (rest : List Stmt) (e : Ev)
    (h : (exec ch sc {} x).trace.head? = some e) (he : e ≠ .entryAsked) :
    conformsTrace sc (runProg ch sc (x :: rest)) = false := by
  have hp := head?_of_prefix (runProg_prefix ch sc x rest) h
  unfold conformsTrace
  rw [hp]
  have : (some e = some Ev.entryAsked) = False := by simp [he]
  simp [this]

theorem handler_before_entry_never_conforms (ch : Chain) (sc : Scenario) (eb tr : Bool) (rest : List Stmt) :
    conformsTrace sc (runProg ch sc (.callNext eb tr :: rest)) = false := by
  apply first_event_must_be_entry ch sc _ rest .handlerRun
  · rcases sc with ⟨b, h⟩; cases h <;> cases eb <;> cases tr <;> simp [exec]
  · decide

theorem unwind_nil_mem : ∀ (n : Nat) (tr : List Ev), Ev.nilDeref ∈ unwind true (n + 1) tr
  | 0, tr => by simp [unwind]
  | n + 1, tr => by
      have := unwind_nil_mem n (tr ++ [Ev.nilDeref])
      simpa [unwind] using this

/-- a deferred `Exit` still pending on a nil entry when the body ends panics: never conforms -/
theorem pending_defer_on_nil_entry_never_conforms (ch : Chain) (sc : Scenario) (body : List Stmt)
    (hn : (execList ch sc {} body).entryNil = true) (hd : (execList ch sc {} body).deferred ≠ 0) :
    conformsTrace sc (runProg ch sc body) = false := by
  apply nilDeref_rejected
  unfold runProg
  obtain ⟨n, hn'⟩ := Nat.exists_eq_succ_of_ne_zero hd
  have hm := unwind_nil_mem n (execList ch sc {} body).trace
  dsimp only
  rw [hn, hn']
  split
  · exact List.mem_append_left _ hm
  · exact hm

mutual
theorem exec_blocked_inv (ch : Chain) (sc : Scenario) (hb : sc.blocked = true) :
    ∀ (x : Stmt) (s : St), s.entryNil = true → (exec ch sc s x).entryNil = true ∧ s.deferred ≤ (exec ch sc s x).deferred
  | .entry, s, _ => by simp [exec, hb]
  | .ifBlocked th, s, h => by
      simp only [exec, hb, if_true]
      exact execList_blocked_inv ch sc hb th s h
  | .reject alts, s, h => by simp [exec, h]
  | .ret, s, h => by simp [exec, h]
  | .deferExit, s, h => by simp [exec, h]
  | .exitNow, s, h => by simp [exec, h]
  | .useEntry, s, h => by simp [exec, h]
  | .callNext eb tr, s, h => by
      simp only [exec]
      split
      · simp [h]
      · split
        · split <;> simp [h]
        · simp [h]
      · simp [h]
  | .unknown, s, h => by simp [exec, h]
  | .badGuard, s, h => by simp [exec, h]
theorem execList_blocked_inv (ch : Chain) (sc : Scenario) (hb : sc.blocked = true) :
    ∀ (l : List Stmt) (s : St), s.entryNil = true →
      (execList ch sc s l).entryNil = true ∧ s.deferred ≤ (execList ch sc s l).deferred
  | [], s, h => by simp [execList, h]
  | x :: r, s, h => by
      simp only [execList]
      split
      · simp [h]
      · have h1 := exec_blocked_inv ch sc hb x s h
        have h2 := execList_blocked_inv ch sc hb r (exec ch sc s x) h1.1
        exact ⟨h2.1, Nat.le_trans h1.2 h2.2⟩
end

/-- **ignoring the block result is never right**: a body that defers `Exit` straight after `Entry`, without
testing the block error, fails every blocked scenario — whatever statements follow, in every framework -/
theorem unchecked_defer_never_conforms_blocked (ch : Chain) (hd : Handler) (rest : List Stmt) :
    conformsTrace ⟨true, hd⟩ (runProg ch ⟨true, hd⟩ (.entry :: .deferExit :: rest)) = false := by
  have h0 : execList ch ⟨true, hd⟩ {} (.entry :: .deferExit :: rest) =
      execList ch ⟨true, hd⟩ { trace := [.entryAsked], deferred := 1, entryNil := true } rest := by
    simp [execList, exec]
  have inv := execList_blocked_inv ch ⟨true, hd⟩ rfl rest
    { trace := [.entryAsked], deferred := 1, entryNil := true } rfl
  apply pending_defer_on_nil_entry_never_conforms
  · rw [h0]; exact inv.1
  · rw [h0]; have := inv.2; simp at this; omega

theorem exec_admitted_plain (ch : Chain) (sc : Scenario) (hb : sc.blocked = false) (x : Stmt) (hx : plainStmt x = true) (s : St) :
    (exec ch sc s x).deferred = s.deferred ∧ count .handlerRun (exec ch sc s x).trace = count .handlerRun s.trace := by
  cases x with
  | deferExit => simp [plainStmt] at hx
  | callNext eb tr => simp [plainStmt] at hx
  | ifBlocked th => simp [exec, hb]
  | reject alts => simp only [exec]; split <;> simp [count]
  | exitNow => simp only [exec]; split <;> simp [count]
  | useEntry => simp only [exec]; split <;> simp [count]
  | _ => simp [exec, count]

theorem execList_admitted_plain (ch : Chain) (sc : Scenario) (hb : sc.blocked = false) :
    ∀ (pre : List Stmt), (∀ x ∈ pre, plainStmt x = true) → ∀ s : St,
      (execList ch sc s pre).deferred = s.deferred ∧
      count .handlerRun (execList ch sc s pre).trace = count .handlerRun s.trace
  | [], _, s => by simp [execList]
  | x :: r, h, s => by
      simp only [execList]
      split
      · simp
      · have h1 := exec_admitted_plain ch sc hb x (h x (by simp)) s
        have h2 := execList_admitted_plain ch sc hb r (fun y hy => h y (by simp [hy])) (exec ch sc s x)
        exact ⟨h2.1.trans h1.1, h2.2.trans h1.2⟩

/-- **panic safety needs `defer`**: if no `defer e.Exit()` precedes the (first) handler call, the admitted request
whose handler panics is never exited properly — whatever comes before (tests, immediate exits, unknown constructs)
and after the call, in every framework -/
theorem handler_panic_needs_defer (ch : Chain) (pre post : List Stmt) (eb tr : Bool)
    (hpre : ∀ x ∈ pre, plainStmt x = true) :
    conformsTrace ⟨false, .panic⟩ (runProg ch ⟨false, .panic⟩ (pre ++ .callNext eb tr :: post)) = false := by
  have hp := execList_admitted_plain ch ⟨false, .panic⟩ rfl pre hpre {}
  unfold runProg
  rw [execList_append]
  generalize execList ch ⟨false, .panic⟩ {} pre = s1 at hp
  have hd : s1.deferred = 0 := hp.1
  have hc : count .handlerRun s1.trace = 0 := by simpa [count] using hp.2
  by_cases hs : s1.stopped = true
  · rw [execList_stopped _ _ _ _ hs]
    simp only [hd, unwind]
    split
    · -- the framework went on to the handler after the body returned: the handler is the last event, not the exit
      unfold conformsTrace
      simp
    · unfold conformsTrace
      simp [hc]
  · have : execList ch ⟨false, .panic⟩ s1 (.callNext eb tr :: post) =
        { s1 with trace := s1.trace ++ [.handlerRun], advanced := true, stopped := true, panicking := true } := by
      simp [execList, hs, exec, execList_stopped]
    rw [this]
    simp only [hd, unwind, frameworkAdvances]
    unfold conformsTrace
    simp


/-! ## Exactness: the recorded findings are precisely the non-conforming pairs of the current table -/

/-- (entry point, scenario) fails `conforms` **iff** a recorded copy with that key fails that scenario; and every
recorded copy is still in the table verbatim.  Re-decided by the kernel against the regenerated table on every run:
a new defect (a failing pair that is not recorded), a repaired adapter (a recorded failing pair that now conforms) and a
recorded entry point that changed or vanished all break it. -/
def exactTable : Bool :=
  (Sentinel.Gen.adapters.all fun p => scenarios.all fun s =>
      (!conforms p s) == knownProgs.any fun k => k.key == p.key && !conforms k s) &&
  (knownProgs.all fun k => Sentinel.Gen.adapters.any fun p =>
      k.key == p.key && k.fw == p.fw && k.nextVia == p.nextVia && beqList k.body p.body)

theorem recorded_findings_exact : exactTable = true := by decide

/-- the readable form of the first half -/
theorem nonconforming_iff_recorded (p : Prog) (hp : p ∈ Sentinel.Gen.adapters) (s : Scenario) :
    conforms p s = false ↔ ∃ k ∈ knownProgs, k.key = p.key ∧ conforms k s = false := by
  have h := recorded_findings_exact
  unfold exactTable at h
  have h1 := (Bool.and_eq_true _ _).mp h |>.1
  have h2 := (List.all_eq_true.mp ((List.all_eq_true.mp h1) p hp)) s (scenarios_complete s)
  have h3 : (!conforms p s) = knownProgs.any fun k => k.key == p.key && !conforms k s := by simpa using h2
  constructor
  · intro hc
    rw [hc] at h3
    obtain ⟨k, hk, hb⟩ := List.any_eq_true.mp h3.symm
    simp only [Bool.and_eq_true, beq_iff_eq, Bool.not_eq_true'] at hb
    exact ⟨k, hk, hb.1, hb.2⟩
  · rintro ⟨k, hk, hkey, hf⟩
    have : (knownProgs.any fun k => k.key == p.key && !conforms k s) = true :=
      List.any_eq_true.mpr ⟨k, hk, by simp [hkey, hf]⟩
    rw [this] at h3
    simpa using h3

/-- every recorded finding is still present, verbatim, in the current table (a finding that stops reproducing is visible) -/
theorem recorded_still_present : ∀ k ∈ knownProgs, ∃ p ∈ Sentinel.Gen.adapters, isKnown p = true ∧ p.key = k.key := by
  decide

/-! ## Semantic lemmas about `defer` and `exit`, for every body, chain and handler -/

mutual
theorem exec_admitted_inv (ch : Chain) (sc : Scenario) (hb : sc.blocked = false) :
    ∀ (x : Stmt) (s : St), s.entryNil = false → (exec ch sc s x).entryNil = false ∧ s.deferred ≤ (exec ch sc s x).deferred
  | .entry, s, _ => by simp [exec, hb]
  | .ifBlocked th, s, h => by simp [exec, hb, h]
  | .reject alts, s, h => by simp [exec, h]
  | .ret, s, h => by simp [exec, h]
  | .deferExit, s, h => by simp [exec, h]
  | .exitNow, s, h => by simp [exec, h]
  | .useEntry, s, h => by simp [exec, h]
  | .callNext eb tr, s, h => by
      simp only [exec]
      split
      · simp [h]
      · split
        · split <;> simp [h]
        · simp [h]
      · simp [h]
  | .unknown, s, h => by simp [exec, h]
  | .badGuard, s, h => by simp [exec, h]
theorem execList_admitted_inv (ch : Chain) (sc : Scenario) (hb : sc.blocked = false) :
    ∀ (l : List Stmt) (s : St), s.entryNil = false →
      (execList ch sc s l).entryNil = false ∧ s.deferred ≤ (execList ch sc s l).deferred
  | [], s, h => by simp [execList, h]
  | x :: r, s, h => by
      simp only [execList]
      split
      · simp [h]
      · have h1 := exec_admitted_inv ch sc hb x s h
        have h2 := execList_admitted_inv ch sc hb r (exec ch sc s x) h1.1
        exact ⟨h2.1, Nat.le_trans h1.2 h2.2⟩
end

/-- statements that cannot end an admitted activation (no `return`, no handler call that may panic) -/
def cannotStop : Stmt → Bool
  | .ret => false
  | .callNext _ _ => false
  | _ => true

theorem exec_admitted_cannotStop (ch : Chain) (sc : Scenario) (hb : sc.blocked = false) (x : Stmt)
    (hx : cannotStop x = true) (s : St) (hn : s.entryNil = false) (hs : s.stopped = false) :
    (exec ch sc s x).stopped = false ∧ (exec ch sc s x).entryNil = false := by
  cases x with
  | ret => simp [cannotStop] at hx
  | callNext eb tr => simp [cannotStop] at hx
  | ifBlocked th => simp [exec, hb, hn, hs]
  | _ => simp [exec, hn, hs, hb]

theorem execList_admitted_cannotStop (ch : Chain) (sc : Scenario) (hb : sc.blocked = false) :
    ∀ (pre : List Stmt), (∀ x ∈ pre, cannotStop x = true) → ∀ s : St, s.entryNil = false → s.stopped = false →
      (execList ch sc s pre).stopped = false ∧ (execList ch sc s pre).entryNil = false
  | [], _, s, hn, hs => by simp [execList, hn, hs]
  | x :: r, h, s, hn, hs => by
      simp only [execList, hs]
      have h1 := exec_admitted_cannotStop ch sc hb x (h x (by simp)) s hn hs
      exact execList_admitted_cannotStop ch sc hb r (fun y hy => h y (by simp [hy])) _ h1.2 h1.1

theorem unwind_exit_mem : ∀ (n : Nat) (tr : List Ev), Ev.exit ∈ unwind false (n + 1) tr
  | 0, tr => by simp [unwind]
  | n + 1, tr => by
      have := unwind_exit_mem n (tr ++ [Ev.exit])
      simpa [unwind] using this

/-- **`defer e.Exit()` placed before anything that can return or panic guarantees the exit on every admitted path**:
whatever follows the `defer` (handler ok / error / panic, early returns, unknown constructs …), in every framework -/
theorem defer_before_stop_guarantees_exit (ch : Chain) (hd : Handler) (pre rest : List Stmt)
    (hpre : ∀ x ∈ pre, cannotStop x = true) :
    Ev.exit ∈ runProg ch ⟨false, hd⟩ (pre ++ .deferExit :: rest) := by
  have h1 := execList_admitted_cannotStop ch ⟨false, hd⟩ rfl pre hpre {} rfl rfl
  unfold runProg
  rw [execList_append]
  generalize execList ch ⟨false, hd⟩ {} pre = s1 at h1
  have hstep : execList ch ⟨false, hd⟩ s1 (.deferExit :: rest) =
      execList ch ⟨false, hd⟩ { s1 with deferred := s1.deferred + 1 } rest := by
    simp [execList, h1.1, exec]
  rw [hstep]
  have inv := execList_admitted_inv ch ⟨false, hd⟩ rfl rest { s1 with deferred := s1.deferred + 1 } h1.2
  generalize execList ch ⟨false, hd⟩ { s1 with deferred := s1.deferred + 1 } rest = s2 at inv
  have hpos : s2.deferred ≠ 0 := by have := inv.2; simp at this; omega
  obtain ⟨n, hn⟩ := Nat.exists_eq_succ_of_ne_zero hpos
  have hm := unwind_exit_mem n s2.trace
  dsimp only
  rw [inv.1, hn]
  split
  · exact List.mem_append_left _ hm
  · exact hm

/-- statements that never exit the entry -/
def neverExits : Stmt → Bool
  | .deferExit => false
  | .exitNow => false
  | _ => true

theorem exec_admitted_neverExits (ch : Chain) (sc : Scenario) (hb : sc.blocked = false) (x : Stmt)
    (hx : neverExits x = true) (s : St) (he : Ev.exit ∉ s.trace) :
    (exec ch sc s x).deferred = s.deferred ∧ Ev.exit ∉ (exec ch sc s x).trace := by
  cases x with
  | deferExit => simp [neverExits] at hx
  | exitNow => simp [neverExits] at hx
  | ifBlocked th => simp [exec, hb, he]
  | reject alts => simp only [exec]; split <;> simp [he]
  | useEntry => simp only [exec]; split <;> simp [he]
  | callNext eb tr =>
      simp only [exec]
      split
      · simp [he]
      · split
        · split <;> simp [he]
        · simp [he]
      · simp [he]
  | _ => simp [exec, he]

theorem execList_admitted_neverExits (ch : Chain) (sc : Scenario) (hb : sc.blocked = false) :
    ∀ (body : List Stmt), (∀ x ∈ body, neverExits x = true) → ∀ s : St, Ev.exit ∉ s.trace →
      (execList ch sc s body).deferred = s.deferred ∧ Ev.exit ∉ (execList ch sc s body).trace
  | [], _, s, he => by simp [execList, he]
  | x :: r, h, s, he => by
      simp only [execList]
      split
      · exact ⟨rfl, he⟩
      · have h1 := exec_admitted_neverExits ch sc hb x (h x (by simp)) s he
        have h2 := execList_admitted_neverExits ch sc hb r (fun y hy => h y (by simp [hy])) _ h1.2
        exact ⟨h2.1.trans h1.1, h2.2⟩

/-- **no reachable `Exit`, no conformance**: a body whose top-level statements (the ones an admitted request can reach:
the block branch is skipped) contain neither `defer e.Exit()` nor `e.Exit()` fails every admitted scenario, in every framework -/
theorem no_exit_never_conforms_admitted (ch : Chain) (hd : Handler) (body : List Stmt)
    (hb : ∀ x ∈ body, neverExits x = true) :
    conformsTrace ⟨false, hd⟩ (runProg ch ⟨false, hd⟩ body) = false := by
  apply admitted_needs_exit
  have h := execList_admitted_neverExits ch ⟨false, hd⟩ rfl body hb {} (by simp)
  unfold runProg
  generalize execList ch ⟨false, hd⟩ {} body = s at h
  have hd0 : s.deferred = 0 := h.1
  dsimp only
  rw [hd0]
  simp only [unwind]
  split
  · simp [h.2]
  · exact h.2

end Sentinel.C19
