import Mathlib.Tactic
import Sentinel.Model.Isolation
import Sentinel.Lemmas.Isolation
/-!
# C04 — Isolation rule caps in-flight requests at the threshold

All statements are about `Sentinel.Iso.checkPass` / `step` / `stepT` — the definitions the driver executes.
-/
namespace Sentinel.C04
open Sentinel.Iso

/-- **admit_iff_nat** (repaired arithmetic): for every rule list, every in-flight number the `int32` gauge can
    hold and every `uint32` batch and threshold, `checkPass` passes iff `inflight + b ≤ N` **over ℕ** for every rule. -/
theorem admit_iff_nat (rules : List Rule) (n : Nat) (hn : n < 2147483648) (b : UInt32) :
    checkPass rules (n : Int) b = none ↔ ∀ r ∈ rules, n + b.toNat ≤ r.thr.toNat := by
  rw [checkPass_eq_spec rules n (by omega) b, Option.map_eq_none_iff, specCheck_none_iff]

/-- a block carries the **first** violated rule (load order) and the in-flight number as triggered value -/
theorem block_reports_first_violated (rules : List Rule) (n : Nat) (hn : n < 2147483648) (b : UInt32) (r : Rule) (tv : UInt32)
    (h : checkPass rules (n : Int) b = some (r, tv)) :
    tv.toNat = n ∧ ∃ pre post, rules = pre ++ r :: post ∧ (∀ q ∈ pre, n + b.toNat ≤ q.thr.toNat) ∧ r.thr.toNat < n + b.toNat := by
  rw [checkPass_eq_spec rules n (by omega) b] at h
  obtain ⟨⟨r', m⟩, hs, he⟩ := Option.map_eq_some_iff.mp h
  simp only [Prod.mk.injEq] at he
  obtain ⟨rfl, rfl⟩ := he
  obtain ⟨rfl, hx⟩ := (specCheck_some_iff rules n b r' m).mp hs
  exact ⟨UInt32.toNat_ofNat_of_lt' (by simp only [UInt32.size]; omega), hx⟩

/-- the negative-gauge clamp: a negative gauge is read as 0 -/
theorem negative_gauge_clamped (rules : List Rule) (g : Int) (hg : g < 0) (b : UInt32) :
    checkPass rules g b = checkPass rules 0 b := by
  induction rules with
  | nil => rfl
  | cons r rs ih =>
    unfold checkPass
    rw [curCount_neg g hg, ih]
    rfl

/-- **witness for the fixed finding `isolation-u32-wrap`** (about the pinned `uint32` arithmetic): threshold 2, one entry
    in flight, batch 4294967295: `1 + 4294967295` wraps to 0 and the request is admitted. -/
theorem isolation_u32_wrap_witness : checkPassU32 [{ idx := 0, thr := 2 }] 1 4294967295 = none := by decide

/-- … and the repaired comparison blocks it, naming rule 0 with triggered value 1 -/
theorem isolation_u32_wrap_repaired : checkPass [{ idx := 0, thr := 2 }] 1 4294967295 = some ({ idx := 0, thr := 2 }, 1) := by decide

/-- outside the wrap region the two arithmetics agree (what was true of the pinned code) -/
theorem u32_agrees_without_wrap_partial (rules : List Rule) (n : Nat) (hn : n < 2147483648) (b : UInt32)
    (hw : n + b.toNat < 4294967296) : checkPassU32 rules (n : Int) b = checkPass rules (n : Int) b := by
  induction rules with
  | nil => rfl
  | cons r rs ih =>
    unfold checkPassU32 checkPass
    have h1 := cmp32_iff (curCount (n : Int)) b r.thr
    have h2 := cmp64_iff (curCount (n : Int)) b r.thr
    rw [curCount_nat n (by omega)] at h1 h2
    rw [Nat.mod_eq_of_lt hw] at h1
    by_cases hc : n + b.toNat > r.thr.toNat
    · rw [if_pos (h1.mpr hc), if_pos (h2.mpr hc)]
    · rw [if_neg (fun x => hc (h1.mp x)), if_neg (fun x => hc (h2.mp x))]; exact ih

end Sentinel.C04
