import Mathlib.Tactic
import Sentinel.Model.Isolation
import Sentinel.Lemmas.Isolation
/-!
# C04 — Isolation rule caps in-flight requests at the threshold

All statements are about `Sentinel.Iso.checkPass` / `step` / `stepT` — the definitions the driver executes.
-/
namespace Sentinel.C04
open Sentinel.Iso

/-- **admit_iff_nat** (repaired arithmetic): for every rule list, every in-flight number the `int32` gauge can
    hold and every `uint32` batch and threshold, `checkPass` passes iff `inflight + b ≤ N` **over ℕ** for every rule. -/
theorem admit_iff_nat (rules : List Rule) (n : Nat) (hn : n < 2147483648) (b : UInt32) :
    checkPass rules (n : Int) b = none ↔ ∀ r ∈ rules, n + b.toNat ≤ r.thr.toNat := by
  rw [checkPass_eq_spec rules n (by omega) b, Option.map_eq_none_iff, specCheck_none_iff]

/-- a block carries the **first** violated rule (load order) and the in-flight number as triggered value -/
theorem block_reports_first_violated (rules : List Rule) (n : Nat) (hn : n < 2147483648) (b : UInt32) (r : Rule) (tv : UInt32)
    (h : checkPass rules (n : Int) b = some (r, tv)) :
    tv.toNat = n ∧ ∃ pre post, rules = pre ++ r :: post ∧ (∀ q ∈ pre, n + b.toNat ≤ q.thr.toNat) ∧ r.thr.toNat < n + b.toNat := by
  rw [checkPass_eq_spec rules n (by omega) b] at h
  obtain ⟨⟨r', m⟩, hs, he⟩ := Option.map_eq_some_iff.mp h
  simp only [Prod.mk.injEq] at he
  obtain ⟨rfl, rfl⟩ := he
  obtain ⟨rfl, hx⟩ := (specCheck_some_iff rules n b r' m).mp hs
  exact ⟨UInt32.toNat_ofNat_of_lt' (by simp only [UInt32.size]; omega), hx⟩

/-- the negative-gauge clamp: a negative gauge is read as 0 -/
theorem negative_gauge_clamped (rules : List Rule) (g : Int) (hg : g < 0) (b : UInt32) :
    checkPass rules g b = checkPass rules 0 b := by
  induction rules with
  | nil => rfl
  | cons r rs ih =>
    unfold checkPass
    rw [curCount_neg g hg, ih]
    rfl

/-- **witness for the fixed finding `isolation-u32-wrap`** (about the pinned `uint32` arithmetic): threshold 2, one entry
    in flight, batch 4294967295: `1 + 4294967295` wraps to 0 and the request is admitted. -/
theorem isolation_u32_wrap_witness : checkPassU32 [{ idx := 0, thr := 2 }] 1 4294967295 = none := by decide

/-- … and the repaired comparison blocks it, naming rule 0 with triggered value 1 -/
theorem isolation_u32_wrap_repaired : checkPass [{ idx := 0, thr := 2 }] 1 4294967295 = some ({ idx := 0, thr := 2 }, 1) := by decide

/-- outside the wrap region the two arithmetics agree (what was true of the pinned code) -/
theorem u32_agrees_without_wrap_partial (rules : List Rule) (n : Nat) (hn : n < 2147483648) (b : UInt32)
    (hw : n + b.toNat < 4294967296) : checkPassU32 rules (n : Int) b = checkPass rules (n : Int) b := by
  induction rules with
  | nil => rfl
  | cons r rs ih =>
    unfold checkPassU32 checkPass
    have h1 := cmp32_iff (curCount (n : Int)) b r.thr
    have h2 := cmp64_iff (curCount (n : Int)) b r.thr
    rw [curCount_nat n (by omega)] at h1 h2
    rw [Nat.mod_eq_of_lt hw] at h1
    by_cases hc : n + b.toNat > r.thr.toNat
    · rw [if_pos (h1.mpr hc), if_pos (h2.mpr hc)]
    · rw [if_neg (fun x => hc (h1.mp x)), if_neg (fun x => hc (h2.mp x))]; exact ih

end Sentinel.C04

namespace Sentinel.C04
open Sentinel.Iso

/-! ## Histories: the gauge machine against the reference that recomputes in-flight from the history

`histSize h` = number of entry attempts in `h` (a schedule op counts its threads).  The only hypothesis on a history is
`histSize h < 2^31`: the gauge is an `int32` in the code and an integer in the model. -/

/-- **refinement**: for every history (any resources, rules, reloads, batches, exit orders, schedule ops) every output of the
    gauge machine (`checkPass` on the gauge, +1 on pass, −1 at Exit of a passed entry) equals the output of the reference
    (in-flight = number of admitted and not yet exited entries, recounted from the handles; admission decided over ℕ). -/
theorem model_eq_reference (h : List Op) (hb : histSize h < 2147483648) :
    (run {} h).2 = (specRun {} h).2 :=
  (run_refines h _ _ (R_init []) (by simpa using hb)).1

/-- the gauge of every resource is the number of admitted and not yet exited entries, after every history -/
theorem gauge_eq_inflight (h : List Op) (hb : histSize h < 2147483648) (res : String) :
    (run {} h).1.gauge res = inflight (run {} h).1.live res := by
  obtain ⟨⟨_, hl, hg, _⟩, _⟩ := reach h [] hb
  rw [hg, hl]

/-- **the property's first sentence, history form**: after any history, a request of batch `b` on `res` is admitted iff
    (number of admitted-but-not-yet-exited entries of `res`) + `b` ≤ `N` for every rule of `res` — over ℕ, whatever the exit order. -/
theorem admitted_iff_inflight (h : List Op) (hb : histSize h + 1 < 2147483648) (id : Nat) (res : String) (b : UInt32)
    (hid : isLive (run {} h).1.live id = false) :
    (step (run {} h).1 (.entry id res b)).2 = .pass ↔
      ∀ r ∈ rulesOf (run {} h).1.rules res, inflight (run {} h).1.live res + b.toNat ≤ r.thr.toNat := by
  obtain ⟨⟨_, hl, hg, _⟩, hlen⟩ := reach h [] (by omega)
  have hle := inflight_le (specRun {} h).1.live res
  rw [← admit_iff_nat _ _ (by rw [hl]; omega) b]
  simp only [step, hid, Bool.false_eq_true, if_false]
  rw [hg, hl]
  cases checkPass (rulesOf (run {} h).1.rules res) (↑(inflight (specRun {} h).1.live res)) b with
  | none => simp
  | some p => simp

/-- **cap on every prefix of every history, every exit order** (rules fixed by the initial `load`, sequential ops).
    `z = 0` if every batch is ≥ 1, `z = 1` otherwise: the gauge of `res` never exceeds `N + z` for **every** rule `N` of `res`. -/
theorem cap (rs : List (String × UInt32)) (h : List Op) (z : Nat)
    (hseq : ∀ o ∈ h, seqOp o = true) (hz : ∀ id res b, Op.entry id res b ∈ h → 1 ≤ b.toNat + z)
    (hb : histSize h < 2147483648) :
    ∀ p, p <+: h → ∀ res, ∀ r ∈ rulesOf (loadRules rs) res,
      (run { rules := loadRules rs } p).1.gauge res ≤ (r.thr.toNat + z : Nat) := by
  intro p hp res r hr
  obtain ⟨t, rfl⟩ := hp
  rw [histSize_append] at hb
  obtain ⟨⟨_, _, hg, _⟩, _⟩ := reach p (loadRules rs) (by omega)
  have hc := specRun_cap z p { rules := loadRules rs }
    (fun o ho => hseq o (List.mem_append_left _ ho))
    (fun id res b hm => hz id res b (List.mem_append_left _ hm))
    (fun res r _ => by simp [inflight])
  rw [hg]
  have := hc.1 res r (by rw [hc.2]; exact hr)
  exact_mod_cast this

/-- batches ≥ 1: in-flight entries never exceed `N` -/
theorem cap_batch_pos (rs : List (String × UInt32)) (h : List Op)
    (hseq : ∀ o ∈ h, seqOp o = true) (hz : ∀ id res b, Op.entry id res b ∈ h → 1 ≤ b.toNat)
    (hb : histSize h < 2147483648) :
    ∀ p, p <+: h → ∀ res, ∀ r ∈ rulesOf (loadRules rs) res,
      (run { rules := loadRules rs } p).1.gauge res ≤ r.thr.toNat := by
  simpa using cap rs h 0 hseq (by simpa using hz) hb

/-- any batches (batch 0 allowed): in-flight entries never exceed `N + 1` … -/
theorem cap_any_batch (rs : List (String × UInt32)) (h : List Op)
    (hseq : ∀ o ∈ h, seqOp o = true) (hb : histSize h < 2147483648) :
    ∀ p, p <+: h → ∀ res, ∀ r ∈ rulesOf (loadRules rs) res,
      (run { rules := loadRules rs } p).1.gauge res ≤ (r.thr.toNat + 1 : Nat) :=
  cap rs h 1 hseq (fun _ _ _ _ => by omega) hb

/-- … and `N + 1` is reached: a batch-0 request is admitted while `inflight ≤ N` (it satisfies `inflight + 0 ≤ N`) and still
    takes one unit of the gauge.  Threshold 2: two unit entries, then batch 0 ⇒ 3 entries in flight. -/
theorem cap_batch0_witness :
    (run {} [.load [("a", 2)], .entry 1 "a" 1, .entry 2 "a" 1, .entry 3 "a" 0]).2 = [.none, .pass, .pass, .pass] ∧
    (run {} [.load [("a", 2)], .entry 1 "a" 1, .entry 2 "a" 1, .entry 3 "a" 0]).1.gauge "a" = 3 := by
  decide

/-- **capacity freed by an Exit is immediately reusable**: exiting any live entry of `res` (in any order) lowers the gauge by
    exactly one, and the very next request of batch `b` is admitted iff `(inflight − 1) + b ≤ N` for every rule. -/
theorem freed_capacity_reusable (h : List Op) (hb : histSize h + 1 < 2147483648) (id : Nat) (res : String)
    (hlive : (id, res) ∈ (run {} h).1.live) (id' : Nat) (b : UInt32)
    (hid : isLive (step (run {} h).1 (.exit id)).1.live id' = false) :
    (step (run {} h).1 (.exit id)).1.gauge res = (run {} h).1.gauge res - 1 ∧
    ((step (step (run {} h).1 (.exit id)).1 (.entry id' res b)).2 = .pass ↔
      ∀ r ∈ rulesOf (run {} h).1.rules res, (inflight (run {} h).1.live res - 1) + b.toNat ≤ r.thr.toNat) := by
  have hrun := run_snoc {} h (.exit id)
  obtain ⟨⟨_, hl, hg, hn⟩, hlen⟩ := reach h [] (by omega)
  have hres := resOfId_of_mem _ id res (by rw [hl]; exact hn) hlive
  have hg1 : (step (run {} h).1 (.exit id)).1.gauge res = (run {} h).1.gauge res - 1 := by
    simp only [step, hres, if_true]
  refine ⟨hg1, ?_⟩
  have hsz : histSize (h ++ [.exit id]) = histSize h := by simp [histSize, opSize]
  have key := admitted_iff_inflight (h ++ [.exit id]) (by rw [hsz]; exact hb) id' res b (by rw [hrun]; exact hid)
  rw [hrun] at key
  simp only at key
  rw [key]
  have hrules : (step (run {} h).1 (.exit id)).1.rules = (run {} h).1.rules := by
    simp only [step, hres]
  have hcount : inflight (step (run {} h).1 (.exit id)).1.live res = inflight (run {} h).1.live res - 1 := by
    simp only [step, hres]
    have := inflight_filter (run {} h).1.live id res res (by rw [hl]; exact hn) hlive
    simp only [if_true] at this
    omega
  rw [hrules, hcount]

/-- **rejected requests never occupy capacity**: a blocked request leaves the whole state (every gauge, every handle) unchanged,
    and exiting its id afterwards is a no-op. -/
theorem rejected_holds_nothing (s : St) (id : Nat) (res : String) (b : UInt32) (idx : Nat) (tv : UInt32)
    (hblk : (step s (.entry id res b)).2 = .block idx tv) :
    (step s (.entry id res b)).1 = s ∧ (step s (.exit id)).1 = s := by
  simp only [step] at hblk ⊢
  by_cases hd : isLive s.live id = true
  · simp only [hd, if_true] at hblk; cases hblk
  · simp only [hd, Bool.false_eq_true, if_false] at hblk ⊢
    have hnone : resOfId s.live id = none := by
      unfold resOfId
      simp only [Option.map_eq_none_iff, List.find?_eq_none, decide_eq_true_eq]
      intro p hp e
      apply hd
      rw [isLive_iff]
      exact List.mem_map.mpr ⟨p, hp, e⟩
    cases hc : checkPass (rulesOf s.rules res) (s.gauge res) b with
    | none => rw [hc] at hblk; cases hblk
    | some p => simp only [hnone, and_self]

end Sentinel.C04

namespace Sentinel.C04
open Sentinel.Iso

/-! ## The admission path in small steps: check | `chain.between-check-and-stat` | record | exit

`runT rules bs c s`: threads `0 … bs.length-1` (thread `i` asks for batch `bs[i]`), `s` = the schedule (a list of thread ids; one
entry = one atomic step of that thread: rule check, statistic recording, or Exit).  `cfg0 n0 m` = `n0` entries already in flight,
`m` threads that have not started.  Number of threads and schedule are universally quantified; exits happen in any order. -/

/-- **overshoot ≤ k − 1**: if at no point of the schedule more than `k` threads are between check and record, then at every point
    the gauge (and hence the largest value the harness ever observes, `mx`) is at most `max n0 (N + z) + (k − 1)` for every rule `N`;
    `z = 0` when all batches are ≥ 1, else 1. -/
theorem overshoot (rules : List Rule) (bs : List UInt32) (n0 : Nat) (hb : n0 + bs.length < 2147483648)
    (N z k : Nat) (hN : ∃ r ∈ rules, r.thr.toNat = N) (hz : ∀ b ∈ bs, 1 ≤ b.toNat + z) (s : List Nat)
    (hw : ∀ p, p <+: s → nChecked (runT rules bs (cfg0 n0 bs.length) p).th ≤ k) :
    ∀ p, p <+: s →
      (runT rules bs (cfg0 n0 bs.length) p).g ≤ (max n0 (N + z) + (k - 1) : Nat) ∧
      (runT rules bs (cfg0 n0 bs.length) p).mx ≤ (max n0 (N + z) + (k - 1) : Nat) := by
  have href : ∀ q, RT (runT rules bs (cfg0 n0 bs.length) q)
      (specRunT rules bs { base := n0, mx := n0, th := List.replicate bs.length .idle } q) :=
    fun q => runT_refines rules bs q _ _ (RT_init n0 bs.length) (by simpa using hb)
  have hpot := specRunT_pot rules bs N z (max n0 (N + z)) k hN hz (le_max_right _ _) s
    { base := n0, mx := n0, th := List.replicate bs.length .idle }
    (fun q hq => by rw [← (href q).th]; exact hw q hq)
    ⟨by simp only [nInflight_replicate_idle, nChecked, List.countP_replicate]; simp; omega, by simp only; omega⟩
  intro p hp
  obtain ⟨h1, h2⟩ := hpot p hp
  obtain ⟨_, hg, hmx⟩ := href p
  rw [specRunT_base] at h1 hg
  have e1 : n0 + nInflight (specRunT rules bs { base := n0, mx := n0, th := List.replicate bs.length .idle } p).th
      ≤ max n0 (N + z) + (k - 1) := le_trans (Nat.le_add_right _ _) h1
  constructor
  · rw [hg]; exact_mod_cast e1
  · rw [hmx]; exact_mod_cast h2

/-- with `m` threads at most `m` can be between check and record, so **every** schedule is within `N + (m − 1)` (batches ≥ 1, `n0 ≤ N`) -/
theorem overshoot_any_schedule (rules : List Rule) (bs : List UInt32) (n0 : Nat) (hb : n0 + bs.length < 2147483648)
    (N z : Nat) (hN : ∃ r ∈ rules, r.thr.toNat = N) (hz : ∀ b ∈ bs, 1 ≤ b.toNat + z) (s : List Nat) :
    (runT rules bs (cfg0 n0 bs.length) s).g ≤ (max n0 (N + z) + (bs.length - 1) : Nat) ∧
    (runT rules bs (cfg0 n0 bs.length) s).mx ≤ (max n0 (N + z) + (bs.length - 1) : Nat) := by
  have href : ∀ q, RT (runT rules bs (cfg0 n0 bs.length) q)
      (specRunT rules bs { base := n0, mx := n0, th := List.replicate bs.length .idle } q) :=
    fun q => runT_refines rules bs q _ _ (RT_init n0 bs.length) (by simpa using hb)
  refine overshoot rules bs n0 hb N z bs.length hN hz s ?_ s (List.prefix_refl s)
  intro p _
  rw [(href p).th]
  refine le_trans (nChecked_le _) ?_
  rw [specRunT_length]; simp

/-- the bound is attained: threshold 2, one entry in flight, three callers check before any of them records ⇒ 4 = N + (k − 1) -/
theorem overshoot_tight_witness :
    (runT [{ idx := 0, thr := 2 }] [1, 1, 1] (cfg0 1 3) [0, 1, 2, 0, 1, 2]).g = 4 := by decide

/-- when check and record are not interleaved (`k = 1`) nothing overshoots, whatever the exit order -/
theorem no_overshoot_when_atomic (rules : List Rule) (bs : List UInt32) (n0 : Nat) (hb : n0 + bs.length < 2147483648)
    (N : Nat) (hN : ∃ r ∈ rules, r.thr.toNat = N) (hn0 : n0 ≤ N) (hz : ∀ b ∈ bs, 1 ≤ b.toNat) (s : List Nat)
    (hw : ∀ p, p <+: s → nChecked (runT rules bs (cfg0 n0 bs.length) p).th ≤ 1) :
    ∀ p, p <+: s → (runT rules bs (cfg0 n0 bs.length) p).g ≤ N := by
  intro p hp
  have := (overshoot rules bs n0 hb N 0 1 hN (by simpa using hz) s hw p hp).1
  simpa [max_eq_right hn0] using this

/-- the schedule op of the sequential machine (what `par` / `sched` execute against `api.Entry`): the gauge it leaves and the
    largest gauge it reports are within `max inflight (N + z) + (threads − 1)` -/
theorem sched_op_overshoot (st : St) (id0 : Nat) (res : String) (bs : List UInt32) (sch : List Nat) (n0 : Nat)
    (hg : st.gauge res = n0) (hb : n0 + bs.length < 2147483648)
    (N z : Nat) (hN : ∃ r ∈ rulesOf st.rules res, r.thr.toNat = N) (hz : ∀ b ∈ bs, 1 ≤ b.toNat + z) :
    (step st (.sched id0 res bs sch)).1.gauge res ≤ (max n0 (N + z) + (bs.length - 1) : Nat) ∧
    ∀ th mx, (step st (.sched id0 res bs sch)).2 = .sched th mx → mx ≤ (max n0 (N + z) + (bs.length - 1) : Nat) := by
  simp only [step]
  by_cases hd : ((List.range bs.length).any fun i => isLive st.live (id0 + i)) = true
  · simp only [hd, if_true]
    refine ⟨?_, fun th mx h => by cases h⟩
    rw [hg]; exact_mod_cast (by omega : n0 ≤ max n0 (N + z) + (bs.length - 1))
  · simp only [hd, Bool.false_eq_true, if_false, if_true]
    rw [hg]
    unfold runDrain
    simp only
    rw [← runT_append]
    have := overshoot_any_schedule (rulesOf st.rules res) bs n0 hb N z hN hz
      (sch ++ drainSched (runT (rulesOf st.rules res) bs (cfg0 n0 bs.length) sch).th)
    refine ⟨this.1, ?_⟩
    intro th mx h
    simp only [Out.sched.injEq] at h
    rw [← h.2]; exact this.2

/-- the hypotheses of `overshoot` are satisfiable with `k` smaller than the number of threads -/
example : ∀ p ∈ [0, 0, 1, 1, 2, 0, 2].inits,
    nChecked (runT [{ idx := 0, thr := 2 }] [1, 1, 1] (cfg0 0 3) p).th ≤ 1 := by decide

end Sentinel.C04

namespace Sentinel.C04
open Sentinel.Iso

/-! ## Non-vacuity: the hypotheses above are satisfiable, on concrete histories of the executed model -/

/-- a history `cap` / `cap_batch_pos` apply to (sequential ops, batches ≥ 1): full, blocked, freed out of order, reused -/
example :
    let h : List Op := [.entry 1 "a" 1, .entry 2 "a" 1, .entry 3 "a" 1, .exit 1, .entry 4 "a" 1, .conc "a"]
    (∀ o ∈ h, seqOp o = true) ∧ (h.all fun o => match o with | .entry _ _ b => decide (1 ≤ b.toNat) | _ => true) = true ∧
    histSize h < 2147483648 ∧
    (run { rules := loadRules [("a", 2)] } h).2 = [.pass, .pass, .block 0 2, .none, .pass, .val 2] := by
  decide

/-- `freed_capacity_reusable`: a live entry exists, and the id used next is free -/
example : (1, "a") ∈ (run {} [.load [("a", 1)], .entry 1 "a" 1]).1.live ∧
    isLive (step (run {} [.load [("a", 1)], .entry 1 "a" 1]).1 (.exit 1)).1.live 2 = false := by decide

/-- `rejected_holds_nothing`: a blocked request exists -/
example : (step (run {} [.load [("a", 1)], .entry 1 "a" 1]).1 (.entry 2 "a" 1)).2 = .block 0 1 := by decide

/-- rules with threshold 0 are dropped by `IsValidRule` (so `load a:0` means "no rule"), several rules keep their load positions -/
example : loadRules [("a", 0), ("b", 3), ("a", 5), ("a", 2)] =
    [("b", { idx := 1, thr := 3 }), ("a", { idx := 2, thr := 5 }), ("a", { idx := 3, thr := 2 })] := by decide

end Sentinel.C04

namespace Sentinel.C04
open Sentinel.Iso

/-- **the bound the soak op is judged by**: `G` goroutines looping Entry/Exit with batch `b` are `m = G·rounds` callers of which at
    most `G` are ever between check and record; so whatever the interleaving the gauge (and every value a worker reads right after
    its own admission) stays within `soakBound` = `max n0 (N + z) + (G − 1)`, `N` the tightest threshold of the resource. -/
theorem soak_bound (rules : List Rule) (b : UInt32) (m G n0 N : Nat) (hb : n0 + m < 2147483648)
    (hmin : minThr rules = some N) (s : List Nat)
    (hw : ∀ p, p <+: s → nChecked (runT rules (List.replicate m b) (cfg0 n0 (List.replicate m b).length) p).th ≤ G) :
    ∀ p, p <+: s →
      (runT rules (List.replicate m b) (cfg0 n0 (List.replicate m b).length) p).g ≤ soakBound rules n0 G b ∧
      (runT rules (List.replicate m b) (cfg0 n0 (List.replicate m b).length) p).mx ≤ soakBound rules n0 G b := by
  intro p hp
  have h := overshoot rules (List.replicate m b) n0 (by simpa using hb) N (if b = 0 then 1 else 0) G
    (minThr_mem rules N hmin)
    (fun x hx => by rw [List.eq_of_mem_replicate hx]; exact batch_pos_or_zero b) s hw p hp
  unfold soakBound
  rw [hmin]
  simp only
  push_cast at h ⊢
  exact h

end Sentinel.C04

namespace Sentinel.C04
open Sentinel.Iso

/-- **caller writes after a load**: the rule manager keeps the caller's rule *objects* (its slices are its own), so the only caller write
    that reaches the check is an in-place edit of a loaded rule object (`poke`); it replaces exactly that rule's threshold — every other
    rule of every resource, the gauges and the handles are untouched, and `admitted_iff_inflight` / `model_eq_reference` then speak
    about the edited list like about any loaded list.  Overwriting the elements of the slice passed to a load (`sload`, `sloadres`) is
    not an op of the model at all: the enforced rules are those of the load. -/
theorem poke_changes_only_that_threshold (rules : List (String × Rule)) (res : String) (idx : Nat) (t : UInt32) (res' : String) :
    rulesOf (pokeRules rules res idx t) res' =
      (rulesOf rules res').map fun r => if res' = res ∧ r.idx = idx then { r with thr := t } else r := by
  unfold rulesOf pokeRules
  rw [List.filter_map, List.map_map, List.map_map]
  have hfil : (List.filter ((fun p : String × Rule => decide (p.1 = res')) ∘
      fun p => if p.1 = res ∧ p.2.idx = idx then (p.1, { p.2 with thr := t }) else p) rules) =
      List.filter (fun p => decide (p.1 = res')) rules := by
    congr 1
    funext p
    simp only [Function.comp]
    split <;> rfl
  rw [hfil]
  apply List.map_congr_left
  intro p hp
  have hp1 : p.1 = res' := by simpa using (List.mem_filter.mp hp).2
  simp only [Function.comp]
  by_cases h1 : p.1 = res ∧ p.2.idx = idx
  · have h2 : res' = res ∧ p.2.idx = idx := by rw [← hp1]; exact h1
    rw [if_pos h1, if_pos h2]
  · have h2 : ¬ (res' = res ∧ p.2.idx = idx) := by rw [← hp1]; exact h1
    rw [if_neg h1, if_neg h2]

end Sentinel.C04

namespace Sentinel.C04
open Sentinel.Iso

/-! ## Which list is enforced: the latest load, whatever slice the caller used (fixed finding `loadres-raw-slice-alias`, `26e3af6`)

`SpecSt.ideal` is the list the property means: every `load` / `loadres` replaces what it says it replaces, in-place edits (`poke`) apply.
`Op.loadres true …` is a call through the caller's one reused slice (`sloadres`), `false` a fresh slice per call. -/

/-- **enforced_is_latest_load** (full strength, repaired code): after every history — including reloads of a resource through one
    reused caller slice, with any number of rules, interleaved with other resources, clears, `LoadRules` and in-place edits — the rule
    list the gauge machine checks against is the list of the latest loads. -/
theorem enforced_is_latest_load (h : List Op) (hb : histSize h < 2147483648) :
    (run {} h).1.rules = (specRun {} h).1.ideal := by
  obtain ⟨⟨hr, _, _, _⟩, _⟩ := reach h [] hb
  rw [hr]
  exact specRun_ideal h {} rfl

/-- in particular a reload through the reused slice with the same number of rules takes effect: the case the pinned code ignored -/
theorem slice_reuse_reload_takes_effect :
    (run {} [.loadres true "d" [2], .entry 1 "d" 1, .loadres true "d" [1], .entry 2 "d" 1]).2 = [.none, .pass, .none, .block 0 1] := by
  decide

/-- **witness for the fixed finding `loadres-raw-slice-alias`** (about the code before `26e3af6`, `rmLoadResOld`): threshold 2 loaded
    through the caller's slice, then threshold 1 through the same slice: the second load was compared with itself, reported "unchanged"
    and ignored — threshold 2 stayed enforced. -/
theorem loadres_alias_witness :
    rulesOf (rmLoadResOld (rmLoadResOld { rules := [], raw := [], ali := [] } true "d" [2]) true "d" [1]).rules "d"
      = [{ idx := 0, thr := 2 }] := by
  decide

/-- … while with a fresh slice per call the pinned code did update (what was true of it) -/
theorem loadres_alias_fresh_slice_partial (m : RM) (res : String) (ths : List UInt32) :
    (rmLoadResOld m false res ths).rules = loadResRules m.rules res ths := by
  unfold rmLoadResOld
  by_cases h : ths.isEmpty = true <;> simp [h]

end Sentinel.C04

namespace Sentinel.C04
open Sentinel.Iso

/-! ## The `N + (P − 1)` bound over whole histories of the driver's full model

`pre` is an arbitrary history (reloads, `poke` edits, ghosts of panicking exit handlers, earlier bursts, …); `body` continues it with
anything **except** rule changes (`ruleOp`: `load`, `loadres`, `poke`): entries of any batch / resource type / traffic direction, exits in
any order (with or without error, by one or two goroutines, after `when ok|err` handlers — all the same `Op.exit`), `pexit` ghosts, reads,
and any number of bursts (`sched`/`par`) of at most `P` goroutines each, arbitrarily scheduled.  The gauge counts **entries** (one unit per
admitted entry whatever its batch), so the allowance of the `P` goroutines between check and commit is `P − 1` units, not
`(P − 1)·maxBatch`; `z = 0` when all batches are ≥ 1, `z = 1` otherwise. -/

/-- **history-level overshoot bound**: if the bound `N + z + (P − 1)` holds for every rule `N` of every resource when `body` starts (e.g.
    right after a load on an idle resource), it holds after every prefix of `body` — bursts do **not** compound — and the rule list is
    the one `body` started with.  Many rules per resource: the bound holds for each of them, hence for the minimum. -/
theorem overshoot_history (pre body : List Op) (z P : Nat) (hb : histSize (pre ++ body) < 2147483648)
    (hrule : ∀ o ∈ body, ruleOp o = false) (hz : ∀ o ∈ body, batchOK z o) (hP : ∀ o ∈ body, burstWidth o ≤ P)
    (h0 : ∀ res, ∀ r ∈ rulesOf (run {} pre).1.rules res, (run {} pre).1.gauge res ≤ (r.thr.toNat + z + (P - 1) : Nat)) :
    ∀ p, p <+: body →
      (run {} (pre ++ p)).1.rules = (run {} pre).1.rules ∧
      ∀ res, ∀ r ∈ rulesOf (run {} pre).1.rules res, (run {} (pre ++ p)).1.gauge res ≤ (r.thr.toNat + z + (P - 1) : Nat) := by
  intro p hp
  obtain ⟨t, rfl⟩ := hp
  have hb1 : histSize pre < 2147483648 := by rw [histSize_append] at hb; omega
  have hb2 : histSize (pre ++ p) < 2147483648 := by rw [← List.append_assoc, histSize_append] at hb; omega
  obtain ⟨⟨hr0, _, hg0, _⟩, _⟩ := reach pre [] hb1
  obtain ⟨⟨hr1, _, hg1, _⟩, _⟩ := reach (pre ++ p) [] hb2
  have hinv : BndInv z P (specRun {} pre).1 := by
    intro res r hr
    have := h0 res r (by rw [hr0]; exact hr)
    rw [hg0] at this
    exact_mod_cast this
  have hsub : ∀ o ∈ p, o ∈ p ++ t := fun o ho => List.mem_append_left _ ho
  obtain ⟨h1, h2⟩ := specRun_bnd z P p (specRun {} pre).1 (fun o ho => hrule o (hsub o ho))
    (fun o ho => hz o (hsub o ho)) (fun o ho => hP o (hsub o ho)) hinv
  rw [← specRun_append] at h1 h2
  refine ⟨by rw [hr1, h2, hr0], ?_⟩
  intro res r hr
  rw [hg1]
  have := h1 res r (by rw [h2, ← hr0]; exact hr)
  exact_mod_cast this

/-- the hypotheses are satisfiable: threshold 2, a reload and an in-place edit in `pre`, then a burst of 3, a ghost, exits, another burst -/
example :
    let pre : List Op := [.load [("a", 5)], .entry 1 "a" 1, .loadres true "a" [7, 3], .poke "a" 1 2]
    let body : List Op := [.sched 10 "a" [1, 1, 1] [0, 1, 2, 0, 1, 2], .ghost 10, .exit 11, .exit 1, .sched 20 "a" [1, 1] [0, 1], .conc "a"]
    (∀ o ∈ body, ruleOp o = true → False) ∧ (∀ o ∈ body, burstWidth o ≤ 3) ∧
    rulesOf (run {} pre).1.rules "a" = [{ idx := 0, thr := 7 }, { idx := 1, thr := 2 }] ∧ (run {} pre).1.gauge "a" = 1 ∧
    (run {} (pre ++ body)).2.getLast? = some (.val 2) := by
  decide

end Sentinel.C04

namespace Sentinel.C04
open Sentinel.Iso

/-! ## `pexit`: Exit with a panicking exit handler — exactly what the code (as it is) does, and its complement

The gauge counts entries, so the leak is **one unit** per `pexit` (not the batch). `Op.ghost id` is what the driver runs for `pexit <id>`. -/

/-- **as-is consequence, one step**: after any history, `pexit` of a live entry of `res` changes *nothing* observable except that the
    handle is finished: every gauge keeps its value (so, compared with a normal `Exit` of the same entry, exactly one unit of `res` is
    not given back and no other resource differs), the rules are untouched, nothing is printed. -/
theorem pexit_leaks_exactly_one (h : List Op) (hb : histSize h < 2147483648) (id : Nat) (res : String)
    (hlive : (id, res) ∈ (run {} h).1.live) :
    (step (run {} h).1 (.ghost id)).1.gauge = (run {} h).1.gauge ∧
    (step (run {} h).1 (.ghost id)).1.rules = (run {} h).1.rules ∧
    (step (run {} h).1 (.ghost id)).2 = .none ∧
    isLive (step (run {} h).1 (.ghost id)).1.live id = false ∧
    (step (run {} h).1 (.ghost id)).1.gauge res = (step (run {} h).1 (.exit id)).1.gauge res + 1 ∧
    (∀ x, x ≠ res → (step (run {} h).1 (.ghost id)).1.gauge x = (step (run {} h).1 (.exit id)).1.gauge x) := by
  obtain ⟨⟨_, hl, _, hn⟩, _⟩ := reach h [] hb
  have hres := resOfId_of_mem _ id res (by rw [hl]; exact hn) hlive
  refine ⟨rfl, rfl, rfl, isLive_ghost _ _, ?_, ?_⟩
  · simp only [step, hres, if_true]; omega
  · intro x hx
    simp only [step, hres, hx, if_false]

/-- **for ever**: whatever happens afterwards — any ops on any resources, reloads, bursts, further ghosts — as long as no op names the
    ghost's own id (the driver cannot: harness ids are below 2^40, `freshId` is not), the entry is still counted in flight. -/
theorem pexit_leak_is_permanent (h later : List Op) (id : Nat) (res : String) (hlive : (id, res) ∈ (run {} h).1.live)
    (hn : ∀ o ∈ later, namesId (freshId (run {} h).1.live) o = false) :
    (freshId (run {} h).1.live, res) ∈ (run (step (run {} h).1 (.ghost id)).1 later).1.live := by
  apply mem_run later _ _ _ _ hn
  simp only [step, ghostLive]
  exact List.mem_map.mpr ⟨(id, res), hlive, by simp⟩

/-- the ghost's id really is out of the harness' reach -/
theorem ghost_id_not_nameable (live : List (Nat × String)) : 1099511627776 ≤ freshId live := (foldl_max_ge live _).1

/-- **complement**: on histories without `pexit` (all other ops of the driver: entries of any batch/type/direction, `exit [err]`,
    `dexit`, `when ok|err` and `trace`/`clock`/`manyres` — no-ops of the model —, `load`/`sload`/`loadres`/`sloadres`/`clearres`/`poke`,
    reads, `sched`/`par`/`soak`) the gauge of every resource is the number of live handles of that resource, and every one of them
    is a handle the caller can still name and exit (its id is below the bound the harness' ids respect). -/
theorem no_pexit_gauge_is_live_handles (h : List Op) (hb : histSize h < 2147483648) (B : Nat)
    (hg : ∀ o ∈ h, isGhostOp o = false) (hi : ∀ o ∈ h, idsBelow B o) :
    (∀ res, (run {} h).1.gauge res = inflight (run {} h).1.live res) ∧ ∀ p ∈ (run {} h).1.live, p.1 < B := by
  refine ⟨fun res => gauge_eq_inflight h hb res, ?_⟩
  obtain ⟨⟨_, hl, _, _⟩, _⟩ := reach h [] hb
  rw [hl]
  exact specRun_ids B h {} hg hi (by intro p hp; cases hp)

/-! ## The repaired comparison agrees with ℕ unconditionally -/

/-- **for ALL `uint32` gauge readings, batches and thresholds** the comparison of `35bb456` (`uint64(cur)+uint64(batch) > uint64(threshold)`)
    is the comparison over ℕ — no side condition (the pinned `uint32` sum needed `cur + batch < 2^32`: `u32_agrees_without_wrap_partial`). -/
theorem repaired_comparison_is_nat (c b t : UInt32) :
    (c.toUInt64 + b.toUInt64 > t.toUInt64) ↔ c.toNat + b.toNat > t.toNat := cmp64_iff c b t

/-- `checkPass` for **every** integer gauge below 2^32 (in particular the whole `int32` range, negative values included: they are clamped
    to 0), every batch, every threshold, every rule list: pass ⇔ `max(g,0) + b ≤ N` over ℕ for all rules. -/
theorem admit_iff_nat_any_gauge (rules : List Rule) (g : Int) (hg : g < 4294967296) (b : UInt32) :
    checkPass rules g b = none ↔ ∀ r ∈ rules, g.toNat + b.toNat ≤ r.thr.toNat := by
  by_cases h0 : 0 ≤ g
  · obtain ⟨n, rfl⟩ := Int.eq_ofNat_of_zero_le h0
    rw [checkPass_eq_spec rules n (by omega) b, Option.map_eq_none_iff, specCheck_none_iff]
    simp
  · have hneg : g < 0 := by omega
    rw [negative_gauge_clamped rules g hneg b]
    have : g.toNat = 0 := Int.toNat_of_nonpos (by omega)
    rw [this]
    have h := checkPass_eq_spec rules 0 (by omega) b
    simp only [Nat.cast_zero] at h
    rw [h, Option.map_eq_none_iff, specCheck_none_iff]

end Sentinel.C04
