import Mathlib.Tactic
import Sentinel.Model.Aggregator
namespace Sentinel.AGG
open Sentinel.LA Sentinel.MetricLog Sentinel.Agg

theorem runWrites_append (w : Writer) (a b : List (Nat × List Item)) :
    runWrites w (a ++ b) = runWrites (runWrites w a) b := by
  simp [runWrites, List.foldl_append]

/-- the writer state is the fold of `Write` over the ghost history `written` -/
theorem step_written (w0 : Writer) (s : St) (ev : Agg.Ev) (h : s.w = runWrites w0 s.written) :
    (step s ev).w = runWrites w0 (step s ev).written := by
  cases ev with
  | rcd t res cls x => simpa [step, record] using h
  | tick t =>
    unfold step aggregate
    dsimp only
    split_ifs
    · exact h
    · simp only [runWrites_append, h]

theorem run_written (w0 : Writer) (s : St) (evs : List Agg.Ev) (h : s.w = runWrites w0 s.written) :
    (run s evs).w = runWrites w0 (run s evs).written := by
  induction evs generalizing s with
  | nil => exact h
  | cons ev r ih => exact ih (step s ev) (step_written w0 s ev h)

end Sentinel.AGG
