import Mathlib.Tactic
import Sentinel.Lemmas.AggregatorLog
import Sentinel.Props.C17
import Sentinel.Model.Aggregator
/-!
# AGG — the metric aggregator bridge: what happened on a resource in a second is what the metric log says
(an internal check reported under C17; property-level statements only, helpers in `Sentinel/Lemmas/Aggregator*.lean`)

Reading guide.  `evs : List Agg.Ev` is a history of recordings `rcd t res cls x` (resource, classification given at the
first use, payload `x` as in C08) and aggregator ticks `tick t` (`doAggregate()` at clock reading `t`, then the drained map
written as `writeTaskLoop` does).  `run (St.new n L T0 maxSize maxFiles) evs` is the state of the code-shaped model the
driver executes (`Model/Aggregator.lean`, which *is* C08's `Arr Bucket` / `secondItems` per node and C17's
`Writer`): created at `T0` with node geometry `n × L`, the inbound node, no fetch yet, a fresh writer.
`fin.written` is the list of all `metricWriter.Write(t, items)` calls, `allItems` their items in order.

* `MonoEv T0 evs`       — time never goes backwards;
* `TicksOK n L T0 s evs` — every fetching tick arrives while its window is still inside the arrays:
  `t < max lastFetch (second of T0) + n·L` — **the exact bound the code needs** (`ticksOK_of_gap`: implied by ticks at most
  `n·L − 1000` ms apart; `gap_bound_tight_witness`: one millisecond more loses data);
* `L ∣ 1000`            — buckets tile the second (library default 500; `nonaligned_bucket_witness` otherwise);
* the reference of `(res, sec)` is `secRef (eventsOf res evs) sec`: the sum of the payloads recorded on `res` with a time stamp in
  that second; `refItem` is the `MetricItem` built from it (`toItem`: counters, `avgRt`, peak concurrency, name, classification).
-/
namespace Sentinel.AGG
open Sentinel.LA Sentinel.MetricLog Sentinel.Agg Sentinel.C17

section main
variable (n L T0 maxSize maxFiles : Nat) (hn : 0 < n) (hL : 0 < L) (hd : L ∣ 1000) (hT0 : 0 < T0)
  (evs : List Agg.Ev) (mono : MonoEv T0 evs) (ok : TicksOK n L T0 (St.new n L T0 maxSize maxFiles) evs)
include hn hL hd hT0 mono ok

theorem final_inv : ∃ now, SysInv n L T0 (run (St.new n L T0 maxSize maxFiles) evs) evs now := by
  obtain ⟨now, _, h⟩ := sysInv_run n L T0 hn hL hd hT0 _ [] T0 (sysInv_new n L T0 maxSize maxFiles) evs mono ok
  exact ⟨now, by simpa using h⟩

/-- **(1) + (2) every active (resource, second) before the latest fetch is logged exactly once, with the reference's fields;
    nothing else is logged**: among all items ever handed to the writer, those of resource `res` and second `sec` are the one
    reference item when `sec` lies strictly before the latest aggregate's current second and the second was active — and none
    otherwise (inactive seconds, seconds not yet covered, seconds and resources without recordings). -/
theorem each_second_logged_once (res : Bytes) (sec : Nat) :
    let fin := run (St.new n L T0 maxSize maxFiles) evs
    (allItems fin.written).filter (fun it => decide (it.ts = sec) && decide (it.res = res)) =
      if sec < fin.lastFetch.getD 0 ∧ active (secRef (eventsOf res evs) sec) = true
      then [refItem fin.nodes evs res sec] else [] := by
  obtain ⟨now, inv⟩ := final_inv n L T0 maxSize maxFiles hn hL hd hT0 evs mono ok
  exact inv.log res sec

/-- **(2) the fields of the logged item**: counters are the sums over the recorded events of that second, `AvgRt` the total
    RT over the completions (the plain total without completions), `Concurrency` the peak; time stamp, name, classification -/
theorem logged_item_eq_reference (res : Bytes) (sec : Nat) (it : Item)
    (hit : it ∈ allItems (run (St.new n L T0 maxSize maxFiles) evs).written) (hr : it.res = res) (hs : it.ts = sec) :
    let ref := secRef (eventsOf res evs) sec
    it.pass = ref.pass ∧ it.block = ref.block ∧ it.complete = ref.complete ∧ it.error = ref.error ∧
    it.rt = (if ref.complete > 0 then ref.rt / ref.complete else ref.rt) ∧ it.conc = ref.mc ∧ it.occ = 0 ∧
    it.cls = clsIn (run (St.new n L T0 maxSize maxFiles) evs).nodes res ∧ active ref = true ∧
    sec < (run (St.new n L T0 maxSize maxFiles) evs).lastFetch.getD 0 := by
  intro ref
  have h := each_second_logged_once n L T0 maxSize maxFiles hn hL hd hT0 evs mono ok res sec
  have hm : it ∈ (allItems (run (St.new n L T0 maxSize maxFiles) evs).written).filter
      (fun it => decide (it.ts = sec) && decide (it.res = res)) := List.mem_filter.mpr ⟨hit, by simp [hr, hs]⟩
  rw [h] at hm
  split_ifs at hm with hc
  · simp only [List.mem_singleton] at hm
    subst hm
    exact ⟨rfl, rfl, rfl, rfl, rfl, rfl, rfl, rfl, hc.2, hc.1⟩
  · simp at hm

/-- **inactive seconds are not logged** (nor seconds the latest fetch has not covered yet) -/
theorem inactive_not_logged (res : Bytes) (sec : Nat)
    (h : active (secRef (eventsOf res evs) sec) = false ∨ (run (St.new n L T0 maxSize maxFiles) evs).lastFetch.getD 0 ≤ sec) :
    ∀ it ∈ allItems (run (St.new n L T0 maxSize maxFiles) evs).written, ¬ (it.ts = sec ∧ it.res = res) := by
  intro it hit hc
  have := logged_item_eq_reference n L T0 maxSize maxFiles hn hL hd hT0 evs mono ok res sec it hit hc.2 hc.1
  dsimp only at this
  rcases h with h | h
  · rw [h] at this; exact Bool.noConfusion this.2.2.2.2.2.2.2.2.1
  · omega

/-- **(3) the writer's preconditions hold for every aggregator-produced history**: the writer state is the fold of `Write`
    over the calls made; their seconds increase **strictly** across all fetches (the half-open windows
    `[lastFetch, curSec)` partition time: no second is ever handed over twice); none is before the second in which the
    writer was created; every call carries a non-empty list of items of exactly that second. -/
theorem writer_preconditions_met :
    let fin := run (St.new n L T0 maxSize maxFiles) evs
    fin.w = runWrites (Writer.new T0 maxSize maxFiles) fin.written ∧
    (fin.written.map (·.1)).Pairwise (· < ·) ∧
    ∀ b ∈ fin.written, T0 / 1000 ≤ b.1 / 1000 ∧ 1000 ∣ b.1 ∧ b.1 < fin.lastFetch.getD 0 ∧ b.2 ≠ [] ∧ ∀ it ∈ b.2, it.ts = b.1 := by
  obtain ⟨now, inv⟩ := final_inv n L T0 maxSize maxFiles hn hL hd hT0 evs mono ok
  refine ⟨run_written _ _ evs rfl, inv.wsorted, ?_⟩
  intro b hb
  obtain ⟨h1, h2, h3, h4, h5⟩ := inv.wbound b hb
  refine ⟨?_, h3, h2, h4, h5⟩
  unfold secOf at h1
  omega

/-- **no call is ignored**: every `Write` the aggregator issues passes the writer's `timeSec < latestOpSec → ignore` test
    (`Accepted`: checked against the writer state at the moment of each call) — nothing the aggregator hands over is dropped
    silently by the writer -/
theorem every_write_accepted :
    Accepted (Writer.new T0 maxSize maxFiles) (run (St.new n L T0 maxSize maxFiles) evs).written := by
  obtain ⟨_, hs, hb⟩ := writer_preconditions_met n L T0 maxSize maxFiles hn hL hd hT0 evs mono ok
  apply accepted_of_sorted _ _ _ hs
  intro p hp
  have := (hb p hp).1
  simpa [Writer.new] using this

/-- every item handed to the writer is the reference item of its own (resource, second) -/
theorem written_item_is_ref (it : Item) (hit : it ∈ allItems (run (St.new n L T0 maxSize maxFiles) evs).written) :
    it = refItem (run (St.new n L T0 maxSize maxFiles) evs).nodes evs it.res it.ts ∧
      active (secRef (eventsOf it.res evs) it.ts) = true := by
  have h := each_second_logged_once n L T0 maxSize maxFiles hn hL hd hT0 evs mono ok it.res it.ts
  have hm : it ∈ (allItems (run (St.new n L T0 maxSize maxFiles) evs).written).filter
      (fun x => decide (x.ts = it.ts) && decide (x.res = it.res)) := List.mem_filter.mpr ⟨hit, by simp⟩
  rw [h] at hm
  split_ifs at hm with hc
  · exact ⟨by simpa using hm, hc.2⟩
  · simp at hm

/-- **end to end** (composition with C17's `search_complete_partial`): provided the reference items fit the wire format
    (`hfit`: counters below `2^64`, concurrency below `2^32`, names without `|`, LF, CR — C17's `Valid`), a query
    `FindByTimeAndResource(b, e, res)` on a fresh searcher returns exactly the retained items in range with that resource, in time
    order; the retained items are a sub-list of the items handed over (each at most once, nothing invented), and every one of
    them is the active per-second reference item of its resource and second.  `Covered` is C17's hypothesis (the query does not
    reach into an unindexed head of the log: the regions of `metriclog-first-second` / `-orphan-head`); the creation second of
    the writer **is** written by the aggregator (`first_second_end_to_end_witness`), so that finding bites end to end. -/
theorem end_to_end (hT : T0 / 1000 < 2 ^ 64)
    (hfit : ∀ res sec, active (secRef (eventsOf res evs) sec) = true →
      Valid (refItem (run (St.new n L T0 maxSize maxFiles) evs).nodes evs res sec))
    (b e : Nat) (res : Bytes)
    (hsize : ∀ f ∈ (run (St.new n L T0 maxSize maxFiles) evs).w.files, f.data.length < 2 ^ 64)
    (hcov : Covered (run (St.new n L T0 maxSize maxFiles) evs).w.files b) :
    let fin := run (St.new n L T0 maxSize maxFiles) evs
    (find fin.w.files {} b e res).2 = specFind (retained fin.w.files) b e res ∧
    (retained fin.w.files).Sublist (allItems fin.written) ∧
    ∀ x ∈ (find fin.w.files {} b e res).2,
      x = refItem fin.nodes evs x.res x.ts ∧ active (secRef (eventsOf x.res evs) x.ts) = true ∧
        inRange b e x = true ∧ resMatch res x = true := by
  intro fin
  obtain ⟨hw, _, hwb⟩ := writer_preconditions_met n L T0 maxSize maxFiles hn hL hd hT0 evs mono ok
  have hvalid : ∀ it ∈ allItems fin.written, Valid it := by
    intro it hit
    obtain ⟨h1, h2⟩ := written_item_is_ref n L T0 maxSize maxFiles hn hL hd hT0 evs mono ok it hit
    rw [h1]; exact hfit it.res it.ts h2
  have hmemAll : ∀ p ∈ fin.written, ∀ it ∈ p.2, it ∈ allItems fin.written := by
    intro p hp it hit
    exact List.mem_flatMap.mpr ⟨p, hp, hit⟩
  have hv : HistValid fin.written := by
    intro p hp
    obtain ⟨_, _, _, hne, hts⟩ := hwb p hp
    obtain ⟨it, hit⟩ := List.exists_mem_of_ne_nil _ hne
    refine ⟨?_, fun x hx => hvalid x (hmemAll p hp x hx)⟩
    rw [← hts it hit]
    exact (hvalid it (hmemAll p hp it hit)).ts
  have hsub : (retained fin.w.files).Sublist (allItems fin.written) := by
    have h := retained_runWrites_sublist (Writer.new T0 maxSize maxFiles) fin.written
    rw [retained_new, List.nil_append] at h
    have heq : (fin.written.flatMap fun p => normItems p.1 p.2) = allItems fin.written := by
      unfold allItems
      apply List.flatMap_congr
      intro p hp
      apply normItems_id
      intro it hit
      refine ⟨(hwb p hp).2.2.2.2 it hit, ?_⟩
      intro hbar
      exact ((hvalid it (hmemAll p hp it hit)).res BAR hbar).1 rfl
    rw [heq] at h
    rw [hw]; exact h
  have hfind : (find fin.w.files {} b e res).2 = specFind (retained fin.w.files) b e res := by
    have := search_complete_partial T0 maxSize maxFiles hT fin.written hv b e res (hw ▸ hsize) (hw ▸ hcov)
    rw [hw]; exact this
  refine ⟨hfind, hsub, ?_⟩
  intro x hx
  rw [hfind] at hx
  obtain ⟨hx1, hx2⟩ := List.mem_filter.mp hx
  have hx3 := hsub.subset hx1
  obtain ⟨h1, h2⟩ := written_item_is_ref n L T0 maxSize maxFiles hn hL hd hT0 evs mono ok x hx3
  simp only [Bool.and_eq_true] at hx2
  exact ⟨h1, h2, hx2.1, hx2.2⟩

end main

/-! ## "in the aggregate that first covers it, never again" -/

theorem run_append (s : St) (a b : List Agg.Ev) : run s (a ++ b) = run (run s a) b := by
  simp [run, List.foldl_append]

theorem step_written_grows (s : St) (ev : Agg.Ev) : ∃ bs, (step s ev).written = s.written ++ bs := by
  cases ev with
  | rcd t res cls x => exact ⟨[], by simp [step, record]⟩
  | tick t =>
    unfold step aggregate
    dsimp only
    split_ifs
    · exact ⟨[], by simp⟩
    · exact ⟨_, rfl⟩

theorem run_written_grows (s : St) (evs : List Agg.Ev) : ∃ bs, (run s evs).written = s.written ++ bs := by
  induction evs generalizing s with
  | nil => exact ⟨[], by simp [run]⟩
  | cons ev r ih =>
    obtain ⟨b1, h1⟩ := step_written_grows s ev
    obtain ⟨b2, h2⟩ := ih (step s ev)
    exact ⟨b1 ++ b2, by rw [run_cons, h2, h1, List.append_assoc]⟩

theorem monoEv_prefix (now : Nat) (a b : List Agg.Ev) (h : MonoEv now (a ++ b)) : MonoEv now a := by
  induction a generalizing now with
  | nil => trivial
  | cons e r ih => exact ⟨h.1, ih e.time h.2⟩

theorem ticksOK_prefix (n L T0 : Nat) (s : St) (a b : List Agg.Ev) (h : TicksOK n L T0 s (a ++ b)) : TicksOK n L T0 s a := by
  induction a generalizing s with
  | nil => trivial
  | cons e r ih => exact ⟨h.1, ih (step s e) h.2⟩

/-- **once, in the aggregate that first covers it, never again**: the hypotheses are closed under prefixes, so
    `each_second_logged_once` holds after every prefix `pre` of the history — the item of an active `(res, sec)` is in the log as
    soon as some tick of `pre` has moved `lastFetch` beyond `sec` —, the list of `Write` calls only ever grows by appending
    (`written` of the prefix is a prefix of the final one), and by `writer_preconditions_met` its seconds increase strictly: no
    later aggregate hands second `sec` over again. -/
theorem logged_by_first_covering_tick (n L T0 maxSize maxFiles : Nat) (pre post : List Agg.Ev)
    (mono : MonoEv T0 (pre ++ post)) (ok : TicksOK n L T0 (St.new n L T0 maxSize maxFiles) (pre ++ post)) :
    MonoEv T0 pre ∧ TicksOK n L T0 (St.new n L T0 maxSize maxFiles) pre ∧
    (run (St.new n L T0 maxSize maxFiles) pre).written <+: (run (St.new n L T0 maxSize maxFiles) (pre ++ post)).written := by
  refine ⟨monoEv_prefix T0 pre post mono, ticksOK_prefix n L T0 _ pre post ok, ?_⟩
  rw [run_append]
  obtain ⟨bs, h⟩ := run_written_grows (run (St.new n L T0 maxSize maxFiles) pre) post
  exact ⟨bs, h.symm⟩

/-! ## the bound in terms of the distance between ticks -/

/-- consecutive ticks are at most `g` ms apart, the first one at most `g` ms after `prev` -/
def TickGap (g : Nat) : Nat → List Agg.Ev → Prop
  | _, [] => True
  | prev, .tick t :: r => t ≤ prev + g ∧ TickGap g t r
  | prev, .rcd _ _ _ _ :: r => TickGap g prev r

theorem ticksOK_of_gap_aux (n L T0 : Nat) (hnl : 1000 ≤ n * L) (s : St) (prev : Nat) (evs : List Agg.Ev)
    (hprev : prev < max (s.lastFetch.getD 0) (secOf T0) + 1000) (gap : TickGap (n * L - 1000) prev evs) :
    TicksOK n L T0 s evs := by
  induction evs generalizing s prev with
  | nil => trivial
  | cons ev r ih =>
    cases ev with
    | rcd t res cls x => exact ⟨trivial, ih (step s (.rcd t res cls x)) prev hprev gap⟩
    | tick t =>
      obtain ⟨hg, hrest⟩ := gap
      refine ⟨Or.inr (by omega), ih _ t ?_ hrest⟩
      show t < max ((aggregate s t).1.lastFetch.getD 0) (secOf T0) + 1000
      have ht : t < secOf t + 1000 := by unfold secOf; omega
      unfold aggregate
      dsimp only
      split_ifs with hsk
      · cases hlf : s.lastFetch with
        | none => rw [hlf] at hsk; simp [skips] at hsk
        | some f =>
          rw [hlf] at hsk
          simp only [skips, decide_eq_true_eq] at hsk
          simp only [Option.getD_some]
          have := le_max_left f (secOf T0)
          omega
      · simp only [Option.getD_some]
        have := le_max_left (secOf t) (secOf T0)
        omega

/-- **the bound, as a distance between ticks**: if the array interval is at least one second, the first tick comes at most
    `n·L − 1000` ms after the start and consecutive ticks are at most `n·L − 1000` ms apart (library default: 9 s; the ticker of
    `InitTask` fires every `flushIntervalSec` = 1 s), every tick finds its fetch window inside the arrays. -/
theorem ticksOK_of_gap (n L T0 maxSize maxFiles : Nat) (hnl : 1000 ≤ n * L) (evs : List Agg.Ev)
    (gap : TickGap (n * L - 1000) T0 evs) : TicksOK n L T0 (St.new n L T0 maxSize maxFiles) evs := by
  apply ticksOK_of_gap_aux n L T0 hnl _ T0 evs _ gap
  have : T0 < secOf T0 + 1000 := by unfold secOf; omega
  have := le_max_right ((St.new n L T0 maxSize maxFiles).lastFetch.getD 0) (secOf T0)
  omega

/-! ## witnesses (`decide` on the model the driver runs) -/

def wa : Bytes := [97]

/-- array `4 × 500 ms` (interval 2 s) created at 1000: a pass at 1000, three passes at 2100, a tick at 2999, one more pass at
    4000 **and then** the tick at 4000 — `1001 = n·L − 999` ms after the previous one -/
def lossHist : List Agg.Ev :=
  [.rcd 1000 wa 0 (evBucket .pass 1), .rcd 2100 wa 0 (evBucket .pass 3), .tick 2999,
   .rcd 4000 wa 0 (evBucket .pass 1), .tick 4000]

/-- **the bound is tight**: with ticks `n·L − 999` ms apart (`t = lastFetch + n·L`) the recording at 4000 has already recycled
    the slot of bucket 2000 when the fetch window `[2000, 4000)` is read: second 2000 was active (3 passes), lies strictly before
    the latest fetch, and is **never logged**.  One millisecond earlier (`ticksOK_of_gap`) nothing can be lost. -/
theorem gap_bound_tight_witness :
    (run (St.new 4 500 1000 100000 3) lossHist).lastFetch = some 4000 ∧
    active (secRef (eventsOf wa lossHist) 2000) = true ∧
    (allItems (run (St.new 4 500 1000 100000 3) lossHist).written).filter
      (fun it => decide (it.ts = 2000) && decide (it.res = wa)) = [] ∧
    ¬ (4000 < max 2000 (secOf 1000) + 4 * 500) := by decide

/-- the same history with the second tick at 3999 (`n·L − 1000` ms after the previous one) logs second 2000 -/
theorem gap_bound_ok_example :
    ((allItems (run (St.new 4 500 1000 100000 3)
        [.rcd 1000 wa 0 (evBucket .pass 1), .rcd 2100 wa 0 (evBucket .pass 3), .tick 2999, .tick 3999]).written).filter
      (fun it => decide (it.ts = 2000) && decide (it.res = wa))).map (·.pass) = [3] := by decide

/-- C08's known finding `items-boundary-bucket` **cannot surface** under `TicksOK` (the bucket one whole interval old starts
    before `lastFetch`, the time predicate excludes it: `each_second_logged_once` holds with the plain reference); beyond the
    bound it surfaces *in the aggregator's favour*: a tick exactly at `lastFetch + n·L` with the current bucket untouched still
    receives the bucket that the array-wide aligned window has already dropped -/
theorem boundary_bucket_rescues_example :
    ((allItems (run (St.new 4 500 1000 100000 3)
        [.rcd 1000 wa 0 (evBucket .pass 1), .rcd 2100 wa 0 (evBucket .pass 3), .tick 2999, .tick 4000]).written).filter
      (fun it => decide (it.ts = 2000) && decide (it.res = wa))).map (·.pass) = [3] := by decide

/-- buckets that do not tile the second (`16 × 625 ms`): the bucket `[625, 1250)` is labelled second 0 and is fetched by the tick
    at 1000 while it is still filling; the two passes recorded at 1100 land in it afterwards and are **never logged** (the next
    window starts at 1000).  Hence the hypothesis `L ∣ 1000`. -/
theorem nonaligned_bucket_witness :
    let h : List Agg.Ev := [.rcd 700 wa 0 (evBucket .pass 1), .tick 1000, .rcd 1100 wa 0 (evBucket .pass 2), .tick 2000, .tick 3000]
    ((allItems (run (St.new 16 625 700 100000 3) h).written).map fun it => (it.ts, it.pass)) = [(0, 1)] ∧
    active (secRef (eventsOf wa h) 1000) = true := by decide

/-- **`metriclog-first-second` bites end to end**: the writer is created at 1000200 (second 1000000); traffic in the rest of
    that second is handed to the writer by the first tick (window `[−1, curSec)`) under the creation second itself, gets no index
    entry, and a query from that second on returns only the later second although both items are in the retained file -/
theorem first_second_end_to_end_witness :
    let fin := run (St.new 20 500 1000200 100000 3)
      [.rcd 1000300 wa 0 (evBucket .pass 3), .tick 1001100, .rcd 1001200 wa 0 (evBucket .pass 2), .tick 1002000]
    (fin.written.map (·.1)) = [1000000, 1001000] ∧
    ((find fin.w.files {} 1000000 1009000 wa).2.map fun it => (it.ts, it.pass)) = [(1001000, 2)] ∧
    ((retained fin.w.files).map fun it => (it.ts, it.pass)) = [(1000000, 3), (1001000, 2)] := by decide

/-! ## non-vacuity: the hypotheses are satisfiable by a history that logs something -/

example : MonoEv 1000 lossHist := by simp [MonoEv, lossHist, Agg.Ev.time]
example : TickGap (4 * 500 - 1000) 1000
    [.rcd 1000 wa 0 (evBucket .pass 1), .rcd 2100 wa 0 (evBucket .pass 3), .tick 1999, .tick 2999, .tick 3999] := by
  simp [TickGap]
example : ¬ TickGap (4 * 500 - 1000) 1000 lossHist := by simp [TickGap, lossHist]

end Sentinel.AGG
