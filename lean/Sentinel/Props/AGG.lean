import Mathlib.Tactic
import Sentinel.Lemmas.AggregatorLog
import Sentinel.Props.C17
import Sentinel.Model.Aggregator
/-!
# AGG — the metric aggregator bridge: what happened on a resource in a second is what the metric log says
(an internal check reported under C17; property-level statements only, helpers in `Sentinel/Lemmas/Aggregator*.lean`)

Reading guide.  `evs : List Agg.Ev` is a history of recordings `rcd t res cls x` (resource, classification given at the
first use, payload `x` as in C08) and aggregator ticks `tick t` (`doAggregate()` at clock reading `t`, then the drained map
written as `writeTaskLoop` does).  `run (St.new n L T0 maxSize maxFiles) evs` is the state of the code-shaped model the
driver executes (`Model/Aggregator.lean`, which *is* C08's `Arr Bucket` / `secondItems` per node and C17's
`Writer`): created at `T0` with node geometry `n × L`, the inbound node, no fetch yet, a fresh writer.
`fin.written` is the list of all `metricWriter.Write(t, items)` calls, `allItems` their items in order.

* `MonoEv T0 evs`       — time never goes backwards;
* `TicksOK n L T0 s evs` — every fetching tick arrives while its window is still inside the arrays:
  `t < max lastFetch (second of T0) + n·L` — **the exact bound the code needs** (`ticksOK_of_gap`: implied by ticks at most
  `n·L − 1000` ms apart; `gap_bound_tight_witness`: one millisecond more loses data);
* `L ∣ 1000`            — buckets tile the second (library default 500; `nonaligned_bucket_witness` otherwise);
* the reference of `(res, sec)` is `secRef (eventsOf res evs) sec`: the sum of the payloads recorded on `res` with a time stamp in
  that second; `refItem` is the `MetricItem` built from it (`toItem`: counters, `avgRt`, peak concurrency, name, classification).
-/
namespace Sentinel.AGG
open Sentinel.LA Sentinel.MetricLog Sentinel.Agg Sentinel.C17

section main
variable (n L T0 maxSize maxFiles : Nat) (hn : 0 < n) (hL : 0 < L) (hd : L ∣ 1000) (hT0 : 0 < T0)
  (evs : List Agg.Ev) (mono : MonoEv T0 evs) (ok : TicksOK n L T0 (St.new n L T0 maxSize maxFiles) evs)
include hn hL hd hT0 mono ok

theorem final_inv : ∃ now, SysInv n L T0 (run (St.new n L T0 maxSize maxFiles) evs) evs now := by
  obtain ⟨now, _, h⟩ := sysInv_run n L T0 hn hL hd hT0 _ [] T0 (sysInv_new n L T0 maxSize maxFiles) evs mono ok
  exact ⟨now, by simpa using h⟩

/-- **(1) + (2) every active (resource, second) before the latest fetch is logged exactly once, with the reference's fields;
    nothing else is logged**: among all items ever handed to the writer, those of resource `res` and second `sec` are the one
    reference item when `sec` lies strictly before the latest aggregate's current second and the second was active — and none
    otherwise (inactive seconds, seconds not yet covered, seconds and resources without recordings). -/
theorem each_second_logged_once (res : Bytes) (sec : Nat) :
    let fin := run (St.new n L T0 maxSize maxFiles) evs
    (allItems fin.written).filter (fun it => decide (it.ts = sec) && decide (it.res = res)) =
      if sec < fin.lastFetch.getD 0 ∧ active (secRef (eventsOf res evs) sec) = true
      then [refItem fin.nodes evs res sec] else [] := by
  obtain ⟨now, inv⟩ := final_inv n L T0 maxSize maxFiles hn hL hd hT0 evs mono ok
  exact inv.log res sec

/-- **(2) the fields of the logged item**: counters are the sums over the recorded events of that second, `AvgRt` the total
    RT over the completions (the plain total without completions), `Concurrency` the peak; time stamp, name, classification -/
theorem logged_item_eq_reference (res : Bytes) (sec : Nat) (it : Item)
    (hit : it ∈ allItems (run (St.new n L T0 maxSize maxFiles) evs).written) (hr : it.res = res) (hs : it.ts = sec) :
    let ref := secRef (eventsOf res evs) sec
    it.pass = ref.pass ∧ it.block = ref.block ∧ it.complete = ref.complete ∧ it.error = ref.error ∧
    it.rt = (if ref.complete > 0 then ref.rt / ref.complete else ref.rt) ∧ it.conc = ref.mc ∧ it.occ = 0 ∧
    it.cls = clsIn (run (St.new n L T0 maxSize maxFiles) evs).nodes res ∧ active ref = true ∧
    sec < (run (St.new n L T0 maxSize maxFiles) evs).lastFetch.getD 0 := by
  intro ref
  have h := each_second_logged_once n L T0 maxSize maxFiles hn hL hd hT0 evs mono ok res sec
  have hm : it ∈ (allItems (run (St.new n L T0 maxSize maxFiles) evs).written).filter
      (fun it => decide (it.ts = sec) && decide (it.res = res)) := List.mem_filter.mpr ⟨hit, by simp [hr, hs]⟩
  rw [h] at hm
  split_ifs at hm with hc
  · simp only [List.mem_singleton] at hm
    subst hm
    exact ⟨rfl, rfl, rfl, rfl, rfl, rfl, rfl, rfl, hc.2, hc.1⟩
  · simp at hm

/-- **inactive seconds are not logged** (nor seconds the latest fetch has not covered yet) -/
theorem inactive_not_logged (res : Bytes) (sec : Nat)
    (h : active (secRef (eventsOf res evs) sec) = false ∨ (run (St.new n L T0 maxSize maxFiles) evs).lastFetch.getD 0 ≤ sec) :
    ∀ it ∈ allItems (run (St.new n L T0 maxSize maxFiles) evs).written, ¬ (it.ts = sec ∧ it.res = res) := by
  intro it hit hc
  have := logged_item_eq_reference n L T0 maxSize maxFiles hn hL hd hT0 evs mono ok res sec it hit hc.2 hc.1
  dsimp only at this
  rcases h with h | h
  · rw [h] at this; exact Bool.noConfusion this.2.2.2.2.2.2.2.2.1
  · omega

/-- **(3) the writer's preconditions hold for every aggregator-produced history**: the writer state is the fold of `Write`
    over the calls made; their seconds increase **strictly** across all fetches (the half-open windows
    `[lastFetch, curSec)` partition time: no second is ever handed over twice); none is before the second in which the
    writer was created; every call carries a non-empty list of items of exactly that second. -/
theorem writer_preconditions_met :
    let fin := run (St.new n L T0 maxSize maxFiles) evs
    fin.w = runWrites (Writer.new T0 maxSize maxFiles) fin.written ∧
    (fin.written.map (·.1)).Pairwise (· < ·) ∧
    ∀ b ∈ fin.written, T0 / 1000 ≤ b.1 / 1000 ∧ 1000 ∣ b.1 ∧ b.1 < fin.lastFetch.getD 0 ∧ b.2 ≠ [] ∧ ∀ it ∈ b.2, it.ts = b.1 := by
  obtain ⟨now, inv⟩ := final_inv n L T0 maxSize maxFiles hn hL hd hT0 evs mono ok
  refine ⟨run_written _ _ evs rfl, inv.wsorted, ?_⟩
  intro b hb
  obtain ⟨h1, h2, h3, h4, h5⟩ := inv.wbound b hb
  refine ⟨?_, h3, h2, h4, h5⟩
  unfold secOf at h1
  omega

/-- every item handed to the writer is the reference item of its own (resource, second) -/
theorem written_item_is_ref (it : Item) (hit : it ∈ allItems (run (St.new n L T0 maxSize maxFiles) evs).written) :
    it = refItem (run (St.new n L T0 maxSize maxFiles) evs).nodes evs it.res it.ts ∧
      active (secRef (eventsOf it.res evs) it.ts) = true := by
  have h := each_second_logged_once n L T0 maxSize maxFiles hn hL hd hT0 evs mono ok it.res it.ts
  have hm : it ∈ (allItems (run (St.new n L T0 maxSize maxFiles) evs).written).filter
      (fun x => decide (x.ts = it.ts) && decide (x.res = it.res)) := List.mem_filter.mpr ⟨hit, by simp⟩
  rw [h] at hm
  split_ifs at hm with hc
  · exact ⟨by simpa using hm, hc.2⟩
  · simp at hm

/-- **end to end** (composition with C17's `search_complete_partial`): provided the reference items fit the wire format
    (`hfit`: counters below `2^64`, concurrency below `2^32`, names without `|`, LF, CR — C17's `Valid`), a query
    `FindByTimeAndResource(b, e, res)` on a fresh searcher returns exactly the retained items in range with that resource, in time
    order; the retained items are a sub-list of the items handed over (each at most once, nothing invented), and every one of
    them is the active per-second reference item of its resource and second.  `Covered` is C17's hypothesis (the query does not
    reach into an unindexed head of the log: the regions of `metriclog-first-second` / `-orphan-head`); the creation second of
    the writer **is** written by the aggregator (`first_second_end_to_end_witness`), so that finding bites end to end. -/
theorem end_to_end (hT : T0 / 1000 < 2 ^ 64)
    (hfit : ∀ res sec, active (secRef (eventsOf res evs) sec) = true →
      Valid (refItem (run (St.new n L T0 maxSize maxFiles) evs).nodes evs res sec))
    (b e : Nat) (res : Bytes)
    (hsize : ∀ f ∈ (run (St.new n L T0 maxSize maxFiles) evs).w.files, f.data.length < 2 ^ 64)
    (hcov : Covered (run (St.new n L T0 maxSize maxFiles) evs).w.files b) :
    let fin := run (St.new n L T0 maxSize maxFiles) evs
    (find fin.w.files {} b e res).2 = specFind (retained fin.w.files) b e res ∧
    (retained fin.w.files).Sublist (allItems fin.written) ∧
    ∀ x ∈ (find fin.w.files {} b e res).2,
      x = refItem fin.nodes evs x.res x.ts ∧ active (secRef (eventsOf x.res evs) x.ts) = true ∧
        inRange b e x = true ∧ resMatch res x = true := by
  intro fin
  obtain ⟨hw, _, hwb⟩ := writer_preconditions_met n L T0 maxSize maxFiles hn hL hd hT0 evs mono ok
  have hvalid : ∀ it ∈ allItems fin.written, Valid it := by
    intro it hit
    obtain ⟨h1, h2⟩ := written_item_is_ref n L T0 maxSize maxFiles hn hL hd hT0 evs mono ok it hit
    rw [h1]; exact hfit it.res it.ts h2
  have hmemAll : ∀ p ∈ fin.written, ∀ it ∈ p.2, it ∈ allItems fin.written := by
    intro p hp it hit
    exact List.mem_flatMap.mpr ⟨p, hp, hit⟩
  have hv : HistValid fin.written := by
    intro p hp
    obtain ⟨_, _, _, hne, hts⟩ := hwb p hp
    obtain ⟨it, hit⟩ := List.exists_mem_of_ne_nil _ hne
    refine ⟨?_, fun x hx => hvalid x (hmemAll p hp x hx)⟩
    rw [← hts it hit]
    exact (hvalid it (hmemAll p hp it hit)).ts
  have hsub : (retained fin.w.files).Sublist (allItems fin.written) := by
    have h := retained_runWrites_sublist (Writer.new T0 maxSize maxFiles) fin.written
    rw [retained_new, List.nil_append] at h
    have heq : (fin.written.flatMap fun p => normItems p.1 p.2) = allItems fin.written := by
      unfold allItems
      apply List.flatMap_congr
      intro p hp
      apply normItems_id
      intro it hit
      refine ⟨(hwb p hp).2.2.2.2 it hit, ?_⟩
      intro hbar
      exact ((hvalid it (hmemAll p hp it hit)).res BAR hbar).1 rfl
    rw [heq] at h
    rw [hw]; exact h
  have hfind : (find fin.w.files {} b e res).2 = specFind (retained fin.w.files) b e res := by
    have := search_complete_partial T0 maxSize maxFiles hT fin.written hv b e res (hw ▸ hsize) (hw ▸ hcov)
    rw [hw]; exact this
  refine ⟨hfind, hsub, ?_⟩
  intro x hx
  rw [hfind] at hx
  obtain ⟨hx1, hx2⟩ := List.mem_filter.mp hx
  have hx3 := hsub.subset hx1
  obtain ⟨h1, h2⟩ := written_item_is_ref n L T0 maxSize maxFiles hn hL hd hT0 evs mono ok x hx3
  simp only [Bool.and_eq_true] at hx2
  exact ⟨h1, h2, hx2.1, hx2.2⟩

end main

end Sentinel.AGG
