/-!
# Model of `core/flow/tc_throttling.go` (`ThrottlingChecker.DoCheck`) — core Lean only

Time is virtual nanoseconds (`Int`, as the code's `int64`; the sums of the code stay far below 2⁶³:
`intervalNs ≤ statIntervalNs ≤ 2³²·10⁶`).  The only inexact expression,
`intervalNs = ⌈batch / threshold · statIntervalNs⌉`, is evaluated by the driver (Lean `Float`, the same
binary64 operations as Go) and enters the model as the parameter `iv` of `Req.norm`; the threshold
comparisons (`threshold ≤ 0`, `batch > threshold`) decide the request class `Req`.

Two presentations of the same code:
* `doCheck` — one whole call, for sequential callers (`runSeq` = a history of calls);
* `stepTh` / `Cfg.sched` / `runSched` — the call cut at the five yield hooks `th.load`, `th.cas`, `th.reload`,
  `th.add`, `th.rollback` (each immediately before the atomic access): one `sched` entry = that atomic
  access plus the thread-local code up to the next hook or the return, exactly what
  `go/internal/sched` grants per schedule entry.
`Sentinel.C10.solo_eq_doCheck` proves that a thread run alone to completion is `doCheck`.
-/
namespace Sentinel.Throttle

/-- what the float part of `DoCheck` decides before touching the shared state -/
inductive Req where
  | zero                 -- batchCount = 0: pass, no state change
  | excess                 -- threshold ≤ 0 or batchCount > threshold: blocked, no state change
  | norm (iv : Int)      -- intervalNs
deriving DecidableEq, Repr

inductive Res where
  | pass                 -- nil or ShouldWait(0)
  | wait (ns : Int)      -- ShouldWait(ns), ns > 0: the slot sleeps ns
  | block
deriving DecidableEq, Repr

/-- scheduled pass time of an admitted request = arrival time + wait -/
def Res.passAt (now : Int) : Res → Option Int
  | .pass => some now
  | .wait w => some (now + w)
  | .block => none

/-- `DoCheck` executed without interference; `last` = `lastPassedTime`; returns the new `last`. -/
def doCheck (maxQ last now : Int) : Req → Int × Res
  | .zero => (last, .pass)
  | .excess => (last, .block)
  | .norm iv =>
    if last + iv ≤ now then (now, .pass)                        -- CAS(last → now) succeeds
    else if last + iv - now > maxQ then (last, .block)          -- estimate over the limit
    else
      let new := last + iv                                      -- atomic add
      let est := new - now
      if est > maxQ then (new - iv, .block)                     -- re-estimate, roll back
      else if est > 0 then (new, .wait est) else (new, .pass)

/-- a sequential history: arrival time and request class of each call -/
def runSeq (maxQ : Int) : Int → List (Int × Req) → Int × List Res
  | last, [] => (last, [])
  | last, (now, r) :: h =>
    let (l1, o) := doCheck maxQ last now r
    let (l2, os) := runSeq maxQ l1 h
    (l2, o :: os)

/-! ## several rules on one resource, and reloading (`core/flow/slot.go`, `rule_manager.go`)

`flow.Slot.Check` walks the resource's controllers in order: a `nil`/zero wait continues, a positive wait is slept
(so the next controller reads a later clock), a block ends the walk — the controllers visited before keep what they
have added to their timestamps.  `buildResourceTrafficShapingController` rebuilds the list on every real reload: for
each new rule, in order, the **first** remaining old controller whose bound rule `isEqualsTo` the new rule is moved
over unchanged (bound rule, checker and `lastPassedTime` included); otherwise a fresh controller is generated
(`lastPassedTime = 0`).  A Direct+Throttling rule never shares statistics (`needStatistic` is false), so the
stat-reuse branch does not concern these rules.  The equality is a parameter `eq old new` (the driver transcribes
the throttling-relevant fields of `Rule.isEqualsTo`: `StatIntervalInMs`, `MaxQueueingTimeMs`, `Float64Equals` on the
threshold). -/

/-- one request against the controllers `(maxQ, lastPassedTime, request class)` in order, arriving at `now`;
    returns the new timestamps (same length) and the results of the controllers that were visited -/
def chain (now : Int) : List (Int × Int × Req) → List Int × List Res
  | [] => ([], [])
  | (maxQ, last, q) :: rest =>
    match doCheck maxQ last now q with
    | (l', .block) => (l' :: rest.map (·.2.1), [.block])
    | (l', .pass) => let r := chain now rest; (l' :: r.1, .pass :: r.2)
    | (l', .wait w) => let r := chain (now + w) rest; (l' :: r.1, .wait w :: r.2)

/-- a controller: its identity (controllers are shared by reference between the old and the new list), the rule it was
    built for, and its checker's `lastPassedTime` -/
structure Ctl (ρ : Type) where
  id : Nat
  rule : ρ
  last : Int
deriving Repr

/-- index of the first controller whose bound rule equals `r` -/
def findEq {ρ : Type} (eq : ρ → ρ → Bool) (r : ρ) : List (Ctl ρ) → Option Nat
  | [] => none
  | c :: cs => if eq c.rule r then some 0 else (findEq eq r cs).map (· + 1)

/-- `buildResourceTrafficShapingController` for throttling rules; `next` = first unused identity -/
def reload {ρ : Type} (eq : ρ → ρ → Bool) : Nat → List (Ctl ρ) → List ρ → List (Ctl ρ)
  | _, _, [] => []
  | next, old, r :: rs =>
    match findEq eq r old with
    | some i =>
      match old[i]? with
      | some c => c :: reload eq (next + 1) (old.eraseIdx i) rs
      | none => ⟨next, r, 0⟩ :: reload eq (next + 1) old rs          -- unreachable
    | none => ⟨next, r, 0⟩ :: reload eq (next + 1) old rs

/-! ### a reload while a request sleeps

`Slot.Check` fetches the controller slice once; a `LoadRules` that runs while the request sleeps for one rule replaces
the map entry, the request goes on over the slice it holds.  The controllers that the reload moved over to the new
list are the same objects, so whatever the rest of the walk adds to their timestamps is seen in the new list; a
controller that was not moved over is dropped together with what the walk adds to it.
`Sentinel.C10.chainReload_results`: the sleeping request answers as the plain walk over the controllers it started with;
`Sentinel.C10.chainReload_ctls`: what is in force afterwards is what a reload after the request would have built. -/

/-- the walk up to and including the first sleep: new timestamps (all positions; the ones not visited unchanged), the
    results of the visited controllers, and the clock after the sleep if it stopped at one -/
def chainHead (now : Int) : List (Int × Int × Req) → List Int × List Res × Option Int
  | [] => ([], [], none)
  | (maxQ, last, q) :: rest =>
    match doCheck maxQ last now q with
    | (l', .block) => (l' :: rest.map (·.2.1), [.block], none)
    | (l', .pass) => let r := chainHead now rest; (l' :: r.1, .pass :: r.2.1, r.2.2)
    | (l', .wait w) => (l' :: rest.map (·.2.1), [.wait w], some (now + w))

def Ctl.setLast {ρ : Type} (upd : List (Nat × Int)) (c : Ctl ρ) : Ctl ρ :=
  match upd.lookup c.id with
  | some l => { c with last := l }
  | none => c

/-- one request over `ctls` (`par` = limit and request class per rule) whose first sleep is used by a reload to `rules`
    (`none`: nothing armed, or the rule manager skips the load).  Returns the controllers in force afterwards, the results
    of the visited controllers, and whether the reload happened. -/
def chainReload {ρ : Type} (eq : ρ → ρ → Bool) (next : Nat) (now : Int) (ctls : List (Ctl ρ)) (par : ρ → Int × Req)
    (rules : Option (List ρ)) : List (Ctl ρ) × List Res × Bool :=
  let inp := fun (cs : List (Ctl ρ)) => cs.map fun c => ((par c.rule).1, c.last, (par c.rule).2)
  let withLasts := fun (cs : List (Ctl ρ)) (ls : List Int) => (cs.zip ls).map fun (c, l) => { c with last := l }
  let h := chainHead now (inp ctls)
  match h.2.2, rules with
  | some now1, some rules =>
    let old1 := withLasts ctls h.1                       -- what the reload sees
    let k := h.2.1.length
    let mid := reload eq next old1 rules
    let rest := ctls.drop k                              -- the request goes on over the slice it holds (not yet visited: untouched)
    let t := chain now1 (inp rest)
    (mid.map (Ctl.setLast ((rest.map (·.id)).zip t.1)), h.2.1 ++ t.2, true)
  | _, _ =>
    let t := chain now (inp ctls)
    (withLasts ctls t.1, t.2, false)

/-! ## small-step version -/

inductive Pc where
  | load                 -- parked at th.load
  | cas (loaded : Int)   -- parked at th.cas (only reached when loaded + iv ≤ now)
  | reload               -- parked at th.reload
  | add                  -- parked at th.add
  | rollback             -- parked at th.rollback (its interval is already added)
  | done (r : Res)
deriving DecidableEq, Repr

structure Th where
  now : Int              -- the clock value the call read (before its first hook)
  iv : Int
  pc : Pc
deriving DecidableEq, Repr

/-- a worker advanced to its first yield point (or to completion when it meets none) -/
def Th.init (now : Int) : Req → Th
  | .zero => ⟨now, 0, .done .pass⟩
  | .excess => ⟨now, 0, .done .block⟩
  | .norm iv => ⟨now, iv, .load⟩

def Th.isDone (t : Th) : Bool := match t.pc with | .done _ => true | _ => false
def Th.isRb (t : Th) : Bool := match t.pc with | .rollback => true | _ => false

/-- one granted step of thread `t`: the atomic access it is parked at + local code up to the next hook -/
def stepTh (maxQ last : Int) (t : Th) : Int × Th :=
  match t.pc with
  | .load => (last, { t with pc := if last + t.iv ≤ t.now then .cas last else .reload })
  | .cas l => if last = l then (t.now, { t with pc := .done .pass }) else (last, { t with pc := .reload })
  | .reload => (last, { t with pc := if last + t.iv - t.now > maxQ then .done .block else .add })
  | .add =>
    let new := last + t.iv
    let est := new - t.now
    if est > maxQ then (new, { t with pc := .rollback })
    else (new, { t with pc := .done (if est > 0 then .wait est else .pass) })
  | .rollback => (last - t.iv, { t with pc := .done .block })
  | .done _ => (last, t)

/-- (pass time, interval) of a thread that has been admitted -/
def Th.passOf (t : Th) : Option (Int × Int) :=
  match t.pc with
  | .done r => (r.passAt t.now).map fun p => (p, t.iv)
  | _ => none

def rbCount (ths : List Th) : Nat := (ths.filter Th.isRb).length

/-- Configuration. `rb`, `stale` and `log` are ghost fields: they do not influence `last`/`ths`.
* `rb`    — classifier of the known finding `throttle-rollback-collision`: some thread took a step while
            *another* thread was parked at `th.rollback` (its phantom interval was visible to, or
            covered, an access of somebody else);
* `stale` — classifier of `throttle-stale-add`: an `add` left `lastPassedTime` *behind* the caller's own
            clock (`last + iv < now`; only possible after a lost CAS), so the caller passes at `now`
            while the shared timestamp stays earlier;
* `log`   — admitted requests `(pass time, interval)` in the order in which they were admitted;
* `rej`   — rejections decided on the shared timestamp (at `th.reload`, or at `th.add` when the re-estimate sends the
            caller to the rollback): `(clock, interval, admission log at that moment)`. -/
structure Cfg where
  maxQ : Int
  last : Int
  ths : List Th
  rb : Bool := false
  stale : Bool := false
  log : List (Int × Int) := []
  rej : List (Int × Int × List (Int × Int)) := []
deriving Repr

/-- the configuration after every worker has been advanced to its first yield point -/
def Cfg.start (maxQ last : Int) (ws : List (Int × Req)) : Cfg :=
  { maxQ := maxQ, last := last, ths := ws.map fun w => Th.init w.1 w.2 }

def Cfg.sched (c : Cfg) (i : Nat) : Cfg :=
  match c.ths[i]? with
  | none => c                                   -- unknown thread: entry skipped
  | some t =>
    if t.isDone then c                          -- finished thread: entry skipped
    else
      let r := stepTh c.maxQ c.last t
      { c with
        last := r.1
        ths := c.ths.set i r.2
        rb := c.rb || (if t.isRb then decide (2 ≤ rbCount c.ths) else decide (1 ≤ rbCount c.ths))
        stale := c.stale || (match t.pc with | .add => decide (c.last + t.iv < t.now) | _ => false)
        log := match r.2.passOf with | some e => c.log ++ [e] | none => c.log
        rej := match t.pc, r.2.pc with
          | .reload, .done .block => c.rej ++ [(t.now, t.iv, c.log)]
          | .add, .rollback => c.rej ++ [(t.now, t.iv, c.log)]
          | _, _ => c.rej }

def Cfg.run (c : Cfg) : List Nat → Cfg
  | [] => c
  | i :: r => (c.sched i).run r

/-- one drain round: every thread that is still alive gets one step, in thread-id order -/
def Cfg.round (c : Cfg) : Cfg := c.run (List.range c.ths.length)

/-- the schedule, then round-robin draining (a call has at most five hooks, so five rounds finish everybody) -/
def Cfg.runSched (c : Cfg) (s : List Nat) : Cfg := (c.run s).round.round.round.round.round

def Cfg.results (c : Cfg) : List (Option Res) :=
  c.ths.map fun t => match t.pc with | .done r => some r | _ => none

end Sentinel.Throttle
