/-!
# Hot-parameter concurrency (C06): code-shaped model (core Lean only, executable)

Models, for rules with `MetricType == Concurrency`:

* `core/hotspot/cache/lru.go` — the per-rule counter cache `ConcurrencyCounter`, an LRU of capacity
  `ParamsMaxCapacity` (default `ConcurrencyMaxCount = 4000`): `AddIfAbsent`, `Get` (both move the key to the
  front) and the eviction of the least recently used key when a new key overflows the capacity;
* `core/hotspot/traffic_shaping.go` — `ExtractArgs` (attachment by `ParamKey` first, then `ParamIndex`,
  negative = from the end) and `performCheckingForConcurrencyMetric` (`AddIfAbsent` creates the cell with 0 on
  the first access of a value; then `cell + 1 <= threshold(v)` with the specific item taking precedence over
  the general threshold — also on the first access: repaired tree, commit 9ba0999; the old shortcut "first
  access passes without comparison" is kept as `Tc.violatesFT`/`entryFT` for the witness only);
* `core/hotspot/slot.go` — rules of the resource checked in order, first block wins;
* `core/hotspot/concurrency_stat_slot.go` — on pass `+1`, on completion `-1`, each time on the cell of the
  argument **re-extracted from the entry's context**, and only if the cell is (still) in the cache;
* `api/api.go` / `core/base/slot_chain.go` as far as they matter here: an entry blocked by an earlier slot
  (a flow rule) never reaches the hotspot slot; a blocked entry runs neither `OnEntryPassed` nor
  `OnCompleted`; the entry's arguments are copied into its own context (repaired tree, commit 3ae3ba7).

QPS rules are carried as inert controllers (`conc := false`): the harness loads them only with parameters under which
they never block — a Reject rule with 10^9 tokens per second, and a Throttling rule with one token per second and
`MaxQueueingTimeMs = 10^9`, which *queues* every request that follows the previous one for the value within `batch`
seconds (the slot sleeps on the virtual clock and goes on with the next rule) — for batch counts ≤ 5; their behaviour is
property C05 (`Sentinel.Model.Hot`).  That they are inert, wherever they stand among the concurrency rules of a resource,
is checked by the correspondence run on every generated case.  `BatchCount` is not a parameter of the model: no modelled
step reads it (a cell moves by exactly one unit per admitted entry whatever the batch).
-/
namespace Sentinel.HotConc

/-- an argument value; Go compares `interface{}` map keys by dynamic type and value, so `int 1`,
    `long 1` (an `int64`) and `str "1"` are three different values. `nil` is "no argument". -/
inductive Val where
  | nil
  | int (i : Int)
  | long (i : Int)
  | str (s : String)
  | bool (b : Bool)
  deriving DecidableEq, Repr, Inhabited

structure Rule where
  res : String
  conc : Bool := true          -- MetricType == Concurrency (false: a QPS rule, inert here)
  cb : Nat := 0                -- ControlBehavior (0 Reject, 1 Throttling): irrelevant for the concurrency check (both
                               -- controllers call `performCheckingForConcurrencyMetric`), relevant for statistic reuse
  idx : Int := 0               -- ParamIndex
  key : String := ""           -- ParamKey ("" = none)
  thr : Int := 0               -- Threshold
  pmc : Int := 0               -- ParamsMaxCapacity
  items : List (Val × Int) := []   -- SpecificItems
  deriving DecidableEq, Repr, Inhabited

/-- `IsValidRule` (the clauses that can fail for the rules of this op language) -/
def Rule.valid (r : Rule) : Bool :=
  !(r.res == "") && decide (0 ≤ r.thr) && !(decide (0 < r.idx) && !(r.key == ""))

/-- capacity of the concurrency counter cache (`newBaseTrafficShapingController`) -/
def Rule.cap (r : Rule) : Nat := if 0 < r.pmc then r.pmc.toNat else 4000

/-- threshold in force for value `v`: the specific item if there is one, else the general threshold -/
def Rule.thrOf (r : Rule) (v : Val) : Int := (r.items.lookup v).getD r.thr

/-- `baseTrafficShapingController.ExtractArgs` -/
def extract (r : Rule) (args : List Val) (atts : List (String × Val)) : Val :=
  let a := if r.key == "" then Val.nil else (atts.lookup r.key).getD Val.nil
  if a ≠ Val.nil then a else
  let n : Int := args.length
  let i := if r.idx < 0 then n + r.idx else r.idx
  if i < 0 then Val.nil else (args[i.toNat]?).getD Val.nil

/-! ## the LRU counter cache: front = most recently used -/

abbrev Cache := List (Val × Int)

/-- move `v` to the front with counter `n` -/
def touch (c : Cache) (v : Val) (n : Int) : Cache := (v, n) :: c.filter (fun p => !(p.1 == v))

/-- `AddIfAbsent(v, &0)`: (new cache, prior counter if the key existed, whether a key was evicted) -/
def addIfAbsent (cap : Nat) (c : Cache) (v : Val) : Cache × Option Int × Bool :=
  match c.lookup v with
  | some n => (touch c v n, some n, false)
  | none =>
    let c' := (v, 0) :: c
    if cap < c'.length then (c'.dropLast, none, true) else (c', none, false)

/-- `Get(v)` followed by `atomic.AddInt64(ptr, d)` when found -/
def getAdd (c : Cache) (v : Val) (d : Int) : Cache :=
  match c.lookup v with
  | some n => touch c v (n + d)
  | none => c

/-- the counter the code would read for `v` (absent = no counter = nothing in flight is recorded) -/
def cellOf (c : Cache) (v : Val) : Int := (c.lookup v).getD 0

/-! ## traffic shaping controllers -/

structure Tc where
  rule : Rule
  cache : Cache := []
  ev : Bool := false           -- ghost: this controller's cache has evicted a key at least once
  deriving Repr, Inhabited, DecidableEq

/-- does the rule apply to an entry on `res` and which value does it select (`nil` = not limited) -/
def Rule.sel (r : Rule) (res : String) (args : List Val) (atts : List (String × Val)) : Val :=
  if r.res == res && r.conc then extract r args atts else Val.nil

def Tc.sel (t : Tc) (res : String) (args : List Val) (atts : List (String × Val)) : Val :=
  t.rule.sel res args atts

/-- the check's side effect on the controller: `AddIfAbsent` of the selected value -/
def Tc.touchFor (t : Tc) (res : String) (args : List Val) (atts : List (String × Val)) : Tc :=
  let v := t.sel res args atts
  if v = Val.nil then t else
  let r := addIfAbsent t.rule.cap t.cache v
  { t with cache := r.1, ev := t.ev || r.2.2 }

/-- the check's verdict (repaired tree, commit 9ba0999): blocked iff `cell + 1 > threshold(v)`, where a value
    without a cell counts as 0 in flight -/
def Tc.violates (t : Tc) (res : String) (args : List Val) (atts : List (String × Val)) : Bool :=
  let v := t.sel res args atts
  if v = Val.nil then false else !decide (cellOf t.cache v + 1 ≤ t.rule.thrOf v)

/-- `hotspot.Slot.Check`: controllers in order, the first violated one blocks and ends the loop -/
def checkTcs (res : String) (args : List Val) (atts : List (String × Val)) : List Tc → List Tc × Bool
  | [] => ([], false)
  | t :: ts =>
    if t.violates res args atts then (t.touchFor res args atts :: ts, true)
    else
      let r := checkTcs res args atts ts
      (t.touchFor res args atts :: r.1, r.2)

/-- `ConcurrencyStatSlot.OnEntryPassed` (`d = 1`) / `OnCompleted` (`d = -1`) for one controller -/
def Tc.bump (t : Tc) (res : String) (args : List Val) (atts : List (String × Val)) (d : Int) : Tc :=
  let v := t.sel res args atts
  if v = Val.nil then t else { t with cache := getAdd t.cache v d }

/-! ## entries -/

structure Live where
  id : String
  res : String
  args : List Val
  atts : List (String × Val)
  deriving Repr, Inhabited

inductive Res where
  | pass
  | blockFlow
  | blockHot
  deriving DecidableEq, Repr, Inhabited

/-- an `api.Entry` call of another goroutine that has run the rule-check slots and is parked at the yield point
    `chain.between-check-and-stat` (its statistic slots have not run yet) -/
structure Pend where
  id : String
  res : String
  args : List Val
  atts : List (String × Val)
  verdict : Res
  deriving Repr, Inhabited

structure St where
  tcs : List Tc := []
  live : List Live := []
  fb : List String := []       -- resources with a flow rule of threshold 0 (every entry blocked by the flow slot)
  pend : List Pend := []
  deriving Repr, Inhabited

/-- `hotspot.ClearRules(); hotspot.LoadRules(rules)`: fresh controllers for the valid rules -/
def load (s : St) (rules : List Rule) : St :=
  { s with tcs := (rules.filter Rule.valid).map fun r => { rule := r } }

/-- `api.Entry(res, WithArgs(args...), WithAttachments(atts))` -/
def entry (s : St) (id res : String) (args : List Val) (atts : List (String × Val)) : St × Res :=
  if s.fb.contains res then (s, Res.blockFlow) else
  let r := checkTcs res args atts s.tcs
  if r.2 then ({ s with tcs := r.1 }, Res.blockHot)
  else
    ({ s with tcs := r.1.map (fun t => t.bump res args atts 1),
              live := { id := id, res := res, args := args, atts := atts } :: s.live }, Res.pass)

/-- `e.Exit()` of a live entry (anything else is a no-op: `sync.Once`) -/
def exit (s : St) (id : String) : St :=
  match s.live.find? (fun e => e.id == id) with
  | none => s
  | some e =>
    { s with tcs := s.tcs.map (fun t => t.bump e.res e.args e.atts (-1)),
             live := s.live.eraseP (fun e => e.id == id) }

/-! ## schedules: `api.Entry` in two steps

Between goroutines the only interleaving that matters for the cells is at the yield point between the rule-check
loop and the statistic loop of `SlotChain.Entry` (each cache operation is under the cache's lock, each counter
update is one atomic add): `check` is the first half (flow slot, hotspot slot: cells touched, verdict fixed), `commit`
the second (`OnEntryPassed`: `+1` when the verdict was pass).  A sequential `entry` is `check` immediately followed by
`commit` (`entry_eq_check_commit`); a schedule is any interleaving of `check`/`commit`/`exit` steps. -/

def check (s : St) (id res : String) (args : List Val) (atts : List (String × Val)) : St :=
  if s.fb.contains res then
    { s with pend := { id := id, res := res, args := args, atts := atts, verdict := Res.blockFlow } :: s.pend }
  else
    let r := checkTcs res args atts s.tcs
    { s with tcs := r.1,
             pend := { id := id, res := res, args := args, atts := atts,
                       verdict := if r.2 then Res.blockHot else Res.pass } :: s.pend }

def commit (s : St) (id : String) : St × Option Res :=
  match s.pend.find? (fun p => p.id == id) with
  | none => (s, none)
  | some p =>
    if p.verdict = Res.pass then
      ({ s with tcs := s.tcs.map (fun t => t.bump p.res p.args p.atts 1),
                live := { id := p.id, res := p.res, args := p.args, atts := p.atts } :: s.live,
                pend := s.pend.eraseP (fun p => p.id == id) }, some Res.pass)
    else ({ s with pend := s.pend.eraseP (fun p => p.id == id) }, some p.verdict)

/-! ## reloading rules while entries are alive (`hotspot.LoadRules` without a preceding clear)

`buildResourceTrafficShapingController`: for each new rule in order, the first old controller of the resource whose rule
`Equals` it is kept as it is; otherwise the first old controller that `IsStatReusable` lends its statistics (here: its
counter cache, together with the ghost eviction flag) to a new controller for the new rule; otherwise a fresh controller.
A used old controller is removed from the candidates, so two new rules never share cells.  Outside the quantifier of C06
(the theorems are about histories under one rule set; what a reload does to the statistics is C14): part of the executable
model so that histories with reloads correspond. -/

/-- `reflect.DeepEqual` of two `SpecificItems` maps (the lists have unique keys) -/
def itemsEq (a b : List (Val × Int)) : Bool := a.length == b.length && a.all (fun p => b.contains p)

/-- `Rule.Equals` (burst count / queueing time are fixed by the rule kind in this op language) -/
def Rule.equals (a b : Rule) : Bool :=
  a.res == b.res && a.conc == b.conc && a.cb == b.cb && a.pmc == b.pmc && a.idx == b.idx && a.key == b.key &&
    a.thr == b.thr && itemsEq a.items b.items

/-- `Rule.IsStatReusable` (every rule of this op language has `DurationInSec = 1`, so a rule whose metric type alone is
    switched by a reload differs from the old one in exactly the field compared last here) -/
def Rule.statReusable (a b : Rule) : Bool :=
  a.res == b.res && a.cb == b.cb && a.pmc == b.pmc && a.conc == b.conc

/-- `calculateReuseIndexFor`: (index of the first equal old rule, index of the first stat-reusable one before it) -/
def findReuse {α : Type} (ruleOf : α → Rule) (r : Rule) : List α → Nat → Option Nat → Option Nat × Option Nat
  | [], _, ru => (none, ru)
  | o :: os, i, ru =>
    if (ruleOf o).equals r then (some i, ru)
    else if (ruleOf o).statReusable r && ru.isNone then findReuse ruleOf r os (i + 1) (some i)
    else findReuse ruleOf r os (i + 1) ru

/-- `buildResourceTrafficShapingController` over the flat controller list (equality and reusability both require the
    same resource, so scanning the flat list is scanning the resource's own list) -/
def reuseBuild {α : Type} (ruleOf : α → Rule) (mk : Rule → Option α → α) : List Rule → List α → List α
  | [], _ => []
  | r :: rs, old =>
    match findReuse ruleOf r old 0 none with
    | (some i, _) =>
      match old[i]? with
      | some o => o :: reuseBuild ruleOf mk rs (old.eraseIdx i)
      | none => mk r none :: reuseBuild ruleOf mk rs old
    | (none, some i) =>
      match old[i]? with
      | some o => mk r (some o) :: reuseBuild ruleOf mk rs (old.eraseIdx i)
      | none => mk r none :: reuseBuild ruleOf mk rs old
    | (none, none) => mk r none :: reuseBuild ruleOf mk rs old

def Tc.inherit (r : Rule) : Option Tc → Tc
  | some t => { t with rule := r }
  | none => { rule := r }

/-- `hotspot.LoadRules(rules)` on top of the controllers in force -/
def reload (s : St) (rules : List Rule) : St :=
  { s with tcs := reuseBuild (fun t => t.rule) Tc.inherit (rules.filter Rule.valid) s.tcs }

/-- `hotspot.LoadRulesOfResource(res, rules)`: the controllers of the other resources stay; an empty list (or one without a
    valid rule of this resource) leaves the resource without rules — its cells are gone, a later load builds fresh
    controllers; rules naming another resource are skipped ("unmatched resource name") -/
def reloadRes (s : St) (res : String) (rules : List Rule) : St :=
  let others := s.tcs.filter (fun t => !(t.rule.res == res))
  let mine := s.tcs.filter (fun t => t.rule.res == res)
  let new := rules.filter (fun r => r.valid && r.res == res)
  { s with tcs := others ++ reuseBuild (fun t => t.rule) Tc.inherit new mine }

/-- the op language of the correspondence driver, as data (what the theorems quantify over) -/
inductive Op where
  | entry (id res : String) (args : List Val) (atts : List (String × Val))
  | exit (id : String)
  | flowBlock (res : String)
  | check (id res : String) (args : List Val) (atts : List (String × Val))
  | commit (id : String)
  deriving Repr

/-- is the id in use (alive or parked)?  Re-using it is not a well-formed op (the drivers answer `bad-op`) -/
def St.used (s : St) (id : String) : Bool := s.live.any (fun e => e.id == id) || s.pend.any (fun p => p.id == id)

def step (s : St) : Op → St
  | .check id res args atts => if s.used id then s else check s id res args atts
  | .commit id => (commit s id).1
  | .entry id res args atts =>
    if s.used id then s else (entry s id res args atts).1
  | .exit id => exit s id
  | .flowBlock res => { s with fb := res :: s.fb }

def run (s : St) (ops : List Op) : St := ops.foldl step s

/-- the state right after `LoadRules(rules)` -/
def init (rules : List Rule) : St := load {} rules

/-! ## the pinned tree's first-touch shortcut (only for the `first-touch-unchecked` witness)

Before commit 9ba0999 `performCheckingForConcurrencyMetric` returned "pass" without comparing when `AddIfAbsent`
had just created the value's cell. -/
def Tc.violatesFT (t : Tc) (res : String) (args : List Val) (atts : List (String × Val)) : Bool :=
  let v := t.sel res args atts
  if v = Val.nil then false else
  match t.cache.lookup v with
  | some n => !decide (n + 1 ≤ t.rule.thrOf v)
  | none => false

def checkTcsFT (res : String) (args : List Val) (atts : List (String × Val)) : List Tc → List Tc × Bool
  | [] => ([], false)
  | t :: ts =>
    if t.violatesFT res args atts then (t.touchFor res args atts :: ts, true)
    else
      let r := checkTcsFT res args atts ts
      (t.touchFor res args atts :: r.1, r.2)

def entryFT (s : St) (id res : String) (args : List Val) (atts : List (String × Val)) : St × Res :=
  if s.fb.contains res then (s, Res.blockFlow) else
  let r := checkTcsFT res args atts s.tcs
  if r.2 then ({ s with tcs := r.1 }, Res.blockHot)
  else
    ({ s with tcs := r.1.map (fun t => t.bump res args atts 1),
              live := { id := id, res := res, args := args, atts := atts } :: s.live }, Res.pass)

/-! ## the pinned tree's aliasing semantics (only for the `args-alias` witness)

Before commit 3ae3ba7 the context's `Input.Args` aliased the pooled `EntryOptions.args` slice: the next
`Entry` with the same number of arguments overwrote the arguments of every entry still alive that had
been created through the same pooled options object (on one P: all of them). -/
def entryAliased (s : St) (id res : String) (args : List Val) (atts : List (String × Val)) : St × Res :=
  let s' : St := { s with live := s.live.map fun e =>
    if e.args.length = args.length && !args.isEmpty then { e with args := args } else e }
  entry s' id res args atts

def stepAliased (s : St) : Op → St
  | .check _ _ _ _ => s
  | .commit _ => s
  | .entry id res args atts =>
    if s.used id then s else (entryAliased s id res args atts).1
  | .exit id => exit s id
  | .flowBlock res => { s with fb := res :: s.fb }

def runAliased (s : St) (ops : List Op) : St := ops.foldl stepAliased s

end Sentinel.HotConc
