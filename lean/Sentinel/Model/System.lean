import Sentinel.Model.Bucket
/-!
# M-SYS — system adaptive protection (core Lean only, executable)

Mirrors `core/system/slot.go` (`AdaptiveSlot.Check`, `doCheckRule`, `checkBbrSimple`),
`core/system/rule_manager.go` (`IsValidSystemRule`, `buildRuleMap`), and what
`core/stat/stat_slot.go` records on the package-level inbound node (`stat.InboundNode()`,
a `BaseStatNode` with the default geometry: array 20 × 500 ms, default view 2 × 500 ms = 1000 ms).

`float64` values (triggers, load, cpu usage and the handful of float expressions the slot evaluates)
live in an abstract carrier `R` with the comparisons the code uses (`<`, and `>` = flipped `<`);
the float expressions are the fields of `Arith R`.  The driver instantiates `R := Float` (same binary64
operations as Go), the theorems are proved for every linearly ordered `R` (a `NaN` is not a member of a
linear order: see the finding `nan-trigger`, witnessed on the carrier `NanNat`).
-/
namespace Sentinel.System
open Sentinel.LA

/-! ## geometry of the inbound node (config defaults, `core/base/constant.go`) -/
def gN : Nat := 20        -- DefaultSampleCountTotal
def gL : Nat := 500       -- DefaultIntervalMsTotal / DefaultSampleCountTotal
def vI : Nat := 1000      -- DefaultIntervalMs (view interval)
def vS : Nat := 2         -- DefaultSampleCount

/-- the `float64` expressions evaluated by the slot and by `IsValidSystemRule` -/
structure Arith (R : Type) where
  zero : R                    -- 0.0
  one  : R                    -- 1.0
  qps  : Nat → R              -- `float64(sum) / (float64(intervalMs)/1000.0)`
  conc : Int → R              -- `float64(int32)`
  avgRt : Nat → R             -- `float64(int64)`
  cap  : Nat → Nat → R        -- `GetMaxAvg(complete) * MinRT / 1000.0` from (max complete per bucket, minRt)
  isNaN : R → Bool := fun _ => false   -- `math.IsNaN`

/-- `system.Rule` (the ID plays no role) -/
structure Rule (R : Type) where
  metric : Nat        -- MetricType: 0 load, 1 avgRT, 2 concurrency, 3 inboundQPS, 4 cpuUsage
  strategy : Int      -- AdaptiveStrategy: -1 none, 1 BBR (`BBR = iota` in the second position)
  trigger : R

/-- the inputs of the predicate: inbound aggregates + last sampled load / cpu -/
structure View (R : Type) where
  pass : Nat           -- GetSum(pass) of the default view
  conc : Int           -- CurrentConcurrency (the gauge, not time based)
  rt : Nat             -- GetSum(rt)
  complete : Nat       -- GetSum(complete)
  minRt : Nat          -- MinRT (clamped to ≥ 1; 60000 when the window has no completion)
  maxComplete : Nat    -- GetMaxOfSingleBucket(complete)
  load : R
  cpu : R

/-- `BaseStatNode.AvgRT`: whole milliseconds, 0 without completions -/
def avgRtOf {R} (v : View R) : Nat := if v.complete = 0 then 0 else v.rt / v.complete

section code
variable {R : Type} [LT R] [∀ a b : R, Decidable (a < b)]

/-- `IsValidSystemRule` as **pinned** (before the repair `faf0578` of finding `nan-trigger`): a NaN trigger
    passes every test (`NaN < 0` and `NaN > 1` are false) -/
def validRulePinned (A : Arith R) (r : Rule R) : Bool :=
  if r.trigger < A.zero then false
  else if r.metric ≥ 5 then false
  else if r.metric = 4 ∧ r.trigger > A.one then false
  else true

/-- `IsValidSystemRule` (repaired: a NaN `TriggerCount` is invalid) -/
def validRule (A : Arith R) (r : Rule R) : Bool :=
  if A.isNaN r.trigger then false else validRulePinned A r

/-- `buildRuleMap`: the invalid rules are dropped; the map is flattened by `getRules` in an
    unspecified order of the metric types, so the rule list is only determined up to permutation -/
def loadRules (A : Arith R) (rs : List (Rule R)) : List (Rule R) := rs.filter (validRule A)

/-- `checkBbrSimple` (`true` = admit) -/
def bbrOk (A : Arith R) (v : View R) : Bool :=
  if v.conc > 1 ∧ A.conc v.conc > A.cap v.maxComplete v.minRt then false else true

/-- `doCheckRule` (`true` = passed) -/
def ruleOk (A : Arith R) (v : View R) (r : Rule R) : Bool :=
  match r.metric with
  | 3 => decide (A.qps v.pass < r.trigger)
  | 2 => decide (A.conc v.conc < r.trigger)
  | 1 => decide (A.avgRt (avgRtOf v) < r.trigger)
  | 0 => if v.load > r.trigger then
           (if r.strategy ≠ 1 ∨ !bbrOk A v then false else true)
         else true
  | 4 => if v.cpu > r.trigger then
           (if r.strategy ≠ 1 ∨ !bbrOk A v then false else true)
         else true
  | _ => true

/-- `AdaptiveSlot.Check`: `none` = not blocked by this slot, `some r` = blocked, `r` reported -/
def check (A : Arith R) (inbound : Bool) (rules : List (Rule R)) (v : View R) : Option (Rule R) :=
  if !inbound then none else rules.find? fun r => !ruleOk A v r

end code

/-! ## the property's predicate (Spec) -/
section spec
variable {R : Type} [LT R] [LE R]

/-- the in-flight count exceeds the estimated capacity: the estimate (peak completion rate ×
    minimum RT) applies only when more than one request is in flight -/
def overCapacity (A : Arith R) (v : View R) : Prop :=
  1 < v.conc ∧ A.cap v.maxComplete v.minRt < A.conc v.conc

/-- **rule `r` is violated at this moment** — to be read against the property text:
    QPS / in-flight count / average RT *has reached* its trigger (`≥`), load / cpu usage *is above* its
    trigger (`>`) and, for the BBR strategy, the in-flight count exceeds the estimated capacity -/
def violated (A : Arith R) (v : View R) (r : Rule R) : Prop :=
  (r.metric = 3 ∧ r.trigger ≤ A.qps v.pass) ∨
  (r.metric = 2 ∧ r.trigger ≤ A.conc v.conc) ∨
  (r.metric = 1 ∧ r.trigger ≤ A.avgRt (avgRtOf v)) ∨
  (r.metric = 0 ∧ r.trigger < v.load ∧ (r.strategy = 1 → overCapacity A v)) ∨
  (r.metric = 4 ∧ r.trigger < v.cpu ∧ (r.strategy = 1 → overCapacity A v))

instance [∀ a b : R, Decidable (a < b)] [∀ a b : R, Decidable (a ≤ b)] (A : Arith R) (v : View R) :
    Decidable (overCapacity A v) := by unfold overCapacity; exact inferInstance

instance [∀ a b : R, Decidable (a < b)] [∀ a b : R, Decidable (a ≤ b)] (A : Arith R) (v : View R) (r : Rule R) :
    Decidable (violated A v r) := by unfold violated; exact inferInstance

/-- the decision the property demands: rejected iff inbound and some loaded rule is violated -/
def specBlocked [∀ a b : R, Decidable (a < b)] [∀ a b : R, Decidable (a ≤ b)]
    (A : Arith R) (inbound : Bool) (rules : List (Rule R)) (v : View R) : Bool :=
  inbound && rules.any fun r => decide (violated A v r)

end spec

/-! ## the inbound node: what the view reads, code-shaped and as a reference over the history -/

/-- the getters the slot calls on `stat.InboundNode()` at time `now` -/
def modelView {R} (a : Arr Bucket) (conc : Int) (now : Nat) (load cpu : R) : View R :=
  { pass := vSum a vI now .pass, conc := conc, rt := vSum a vI now .rt, complete := vSum a vI now .complete,
    minRt := vMinRt a vI now, maxComplete := vMaxBucket a vI now .complete, load := load, cpu := cpu }

/-- reference payload of the single bucket starting at `b` -/
def refBucket (h : List (Nat × Bucket)) (b : Nat) : Bucket := refW gL h b b

/-- the same inputs recomputed from the *history* of what was recorded on the inbound node: the window
    of the default view at `now` is the current bucket and the one before it -/
def refView {R} (h : List (Nat × Bucket)) (conc : Int) (now : Nat) (load cpu : R) : View R :=
  let e := cbs gL now
  let w := refW gL h (e + gL - vI) e
  { pass := w.pass, conc := conc, rt := w.rt, complete := w.complete, minRt := max 1 w.minRt,
    maxComplete := max (refBucket h (e - gL)).complete (refBucket h e).complete, load := load, cpu := cpu }

/-! ## the state machine driven by the op lines -/

structure Entry where
  id : String
  inbound : Bool
  start : Nat
  batch : Nat
deriving Repr

structure St (R : Type) where
  rules : List (Rule R) := []
  load : R
  cpu : R
  arr : Arr Bucket := { n := gN, L := gL, slots := [] }
  conc : Int := 0
  now : Nat := 0
  t0 : Nat := 0
  started : Bool := false
  live : List Entry := []
  hist : List (Nat × Bucket) := []     -- ghost: everything recorded on the inbound node, in order

inductive Op (R : Type) where
  | load (rs : List (Rule R))
  | sysLoad (x : R)
  | sysCpu (x : R)
  | clock (t : Nat)
  | entry (id : String) (inbound : Bool) (batch : Nat)
  | exit (id : String)
  | exitErr (id : String)               -- `Exit(WithError(e))`
  | sysMem (x : Int)                    -- `SetSystemMemoryUsage`: not an input of any system rule
  | config (sc iv : Nat)                -- `config.ResetGlobalConfig` with another (valid) metric statistic shape

/-- `AddCount` / `UpdateConcurrency` on the inbound node at the current time -/
def record {R} (s : St R) (x : Bucket) : St R :=
  { s with arr := (addAt s.arr s.now x).1, hist := s.hist ++ [(s.now, x)] }

/-- the gauge as the history determines it: inbound entries admitted and not yet exited -/
def liveInbound {R} (s : St R) : Int := ((s.live.filter (·.inbound)).length : Nat)

/-- the inputs of the predicate: `spec = false` what the code reads (leap array, atomic gauge),
    `spec = true` recomputed from the history -/
def viewOf {R} (spec : Bool) (s : St R) : View R :=
  if spec then refView s.hist (liveInbound s) s.now s.load s.cpu
  else modelView s.arr s.conc s.now s.load s.cpu

inductive Res where
  | none | pass | blockSys | bad
deriving Repr, DecidableEq

section step
variable {R : Type} [LT R] [LE R] [∀ a b : R, Decidable (a < b)] [∀ a b : R, Decidable (a ≤ b)]

/-- the decision on an entry: `spec = false` the code (`check` over the code-shaped view),
    `spec = true` the property (`specBlocked` over the reference view) -/
def blockedBy (A : Arith R) (spec : Bool) (s : St R) (inbound : Bool) : Bool :=
  if spec then specBlocked A inbound s.rules (viewOf true s) else (check A inbound s.rules (viewOf false s)).isSome

/-- `OnEntryBlocked`: the block is counted on the inbound node (only inbound entries are ever blocked here) -/
def onBlocked (s : St R) (batch : Nat) : St R := record s (evBucket .block batch)

/-- `OnEntryPassed` → `recordPassFor(InboundNode())` for inbound entries: gauge +1, peak sample, pass += batch -/
def onPassed (s : St R) (e : Entry) : St R :=
  if e.inbound then
    let s := { s with conc := s.conc + 1 }
    let s := record s (concBucket s.conc)
    let s := record s (evBucket .pass e.batch)
    { s with live := e :: s.live }
  else { s with live := e :: s.live }

/-- `OnCompleted` → `recordCompleteFor(InboundNode())` for inbound entries: rt, complete += batch, gauge −1 -/
def onExit (s : St R) (e : Entry) : St R :=
  let s := { s with live := s.live.eraseP (·.id == e.id) }
  if e.inbound then
    let s := record s (evBucket .rt (s.now - e.start))
    let s := record s (evBucket .complete e.batch)
    { s with conc := s.conc - 1 }
  else s

/-- `OnCompleted` of an entry that ended with an error: `MetricEventError += batch` first (not an input of the
    predicate), then as `onExit` -/
def onExitErr (s : St R) (e : Entry) : St R :=
  onExit (if e.inbound then record s (evBucket .error e.batch) else s) e

/-- one op -/
def step (A : Arith R) (spec : Bool) (s : St R) : Op R → St R × Res
  | .load rs => ({ s with rules := loadRules A rs }, .none)
  | .sysLoad x => ({ s with load := x }, .none)
  | .sysCpu x => ({ s with cpu := x }, .none)
  | .clock t =>
      if t = 0 then (s, .bad)          -- time 0 is "no time" in this library (`now <= 0` guards)
      else if !s.started then
        ({ s with started := true, now := t, t0 := t, arr := mk gN gL t }, .none)
      else if t < s.now then (s, .bad)
      else ({ s with now := t }, .none)
  | .entry id inbound batch =>
      if !s.started || s.live.any (·.id == id) then (s, .bad)
      else if blockedBy A spec s inbound then (onBlocked s batch, .blockSys)
      else (onPassed s { id := id, inbound := inbound, start := s.now, batch := batch }, .pass)
  | .sysMem _ => (s, .none)
  -- the inbound node is created at package initialisation with the default shape (2 × 500 ms) and keeps it:
  -- a later change of the configured metric statistic shape only concerns resource nodes created afterwards
  | .config _ _ => (s, .none)
  | .exit id =>
      if !s.started then (s, .bad) else
      match s.live.find? (·.id == id) with
      | none => (s, .none)
      | some e => (onExit s e, .none)
  | .exitErr id =>
      if !s.started then (s, .bad) else
      match s.live.find? (·.id == id) with
      | none => (s, .none)
      | some e => (onExitErr s e, .none)

def run (A : Arith R) (spec : Bool) (s : St R) : List (Op R) → St R × List Res
  | [] => (s, [])
  | o :: r =>
    let (s', x) := step A spec s o
    let (s'', xs) := run A spec s' r
    (s'', x :: xs)

end step

/-! ## a carrier with a NaN, for the `nan-trigger` witness: `none` = NaN, every comparison with it is false -/
def NanNat := Option Nat
def NanNat.lt : NanNat → NanNat → Bool
  | some x, some y => decide (x < y)
  | _, _ => false
def NanNat.le : NanNat → NanNat → Bool
  | some x, some y => decide (x ≤ y)
  | _, _ => false
instance : LT NanNat := ⟨fun a b => NanNat.lt a b = true⟩
instance : LE NanNat := ⟨fun a b => NanNat.le a b = true⟩
instance (a b : NanNat) : Decidable (a < b) := inferInstanceAs (Decidable (NanNat.lt a b = true))
instance (a b : NanNat) : Decidable (a ≤ b) := inferInstanceAs (Decidable (NanNat.le a b = true))
def nanArith : Arith NanNat :=
  { zero := some 0, one := some 1, qps := fun n => some n, conc := fun c => some c.toNat,
    avgRt := fun n => some n, cap := fun m r => some (m * 2 * r / 1000), isNaN := fun x => x.isNone }

end Sentinel.System
