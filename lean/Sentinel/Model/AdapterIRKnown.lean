import Sentinel.Model.AdapterIR
/-!
# C19 — recorded non-conforming entry points (core Lean only)

Literal copies of the IR terms of the adapter entry points that do **not** honour the entry contract on the
pinned tree (DESIGN.md §7, `known/C19.jsonl`).  A generated program is *known* only if both its key and its
body equal one of these copies: a recorded entry point that changes shape is judged afresh.
-/
namespace Sentinel.AdapterIR

mutual
def Stmt.beq : Stmt → Stmt → Bool
  | .entry, .entry => true
  | .ifBlocked a, .ifBlocked b => beqList a b
  | .reject a, .reject b => a == b
  | .ret, .ret => true
  | .deferExit, .deferExit => true
  | .exitNow, .exitNow => true
  | .useEntry, .useEntry => true
  | .callNext a b, .callNext c d => a == c && b == d
  | .unknown, .unknown => true
  | .badGuard, .badGuard => true
  | _, _ => false
def beqList : List Stmt → List Stmt → Bool
  | [], [] => true
  | x :: r, y :: t => x.beq y && beqList r t
  | _, _ => false
end

/-- echo: the error returned by `next(c)` is passed on but never traced -/
def known_echo : Prog := ⟨"echo/middleware.go:SentinelMiddleware.func1.func1", "echo", ["param"],
  [.entry, .ifBlocked [.reject [["option"], ["JSON"]], .ret], .deferExit, .callNext true false, .ret]⟩
/-- fiber: `return ctx.Next()` — the error is never traced -/
def known_fiber : Prog := ⟨"fiber/middleware.go:SentinelMiddleware.func1", "fiber", ["Next"],
  [.entry, .ifBlocked [.reject [["option"], ["SendStatus"]], .ret], .deferExit, .callNext true false, .ret]⟩
/-- gear: the middleware returns (and the deferred Exit runs) before gear goes on to the handler -/
def known_gear : Prog := ⟨"gear/middleware.go:SentinelMiddleware.func1", "gear", [],
  [.entry, .ifBlocked [.reject [["option"], ["End"]], .ret], .deferExit, .ret]⟩
/-- kitex outlier arm: block result discarded, `defer entry.Exit()` and `entry.Context()` on a nil entry -/
def known_kitex_outlier : Prog := ⟨"kitex/client.go:SentinelClientMiddleware.func1.func1:E", "kitex", ["param"],
  [.entry, .deferExit, .useEntry, .useEntry, .callNext true false, .ret]⟩
/-- kratos outlier arm without client metadata -/
def known_kratos_outlier : Prog := ⟨"kratos/client.go:SentinelClientMiddleware.func1.func1:EE", "kratos", ["param"],
  [.entry, .deferExit, .callNext true false, .ret]⟩
/-- kratos outlier arm with client metadata (`entry.Context()` on the nil entry as well) -/
def known_kratos_outlier_md : Prog := ⟨"kratos/client.go:SentinelClientMiddleware.func1.func1:ET", "kratos", ["param"],
  [.entry, .deferExit, .useEntry, .useEntry, .callNext true false, .ret]⟩
/-- micro client `Call`, outlier arm (reproduced: nil-pointer panic reaches the caller of `Call`) -/
def known_micro_call_outlier : Prog := ⟨"micro/client.go:clientWrapper.Call:E", "micro", ["embedded"],
  [.entry, .deferExit, .callNext true false, .ret]⟩
/-- micro client `Stream`, outlier arm -/
def known_micro_stream_outlier : Prog := ⟨"micro/client.go:clientWrapper.Stream:E", "micro", ["embedded"],
  [.entry, .deferExit, .callNext true false, .ret]⟩
/-- micro `NewStreamWrapper` (with the option guards as repaired by d41329a): exits at once, the stream is used
afterwards.  Only this body is recorded: the same function with mis-guarded options is judged afresh. -/
def known_micro_stream_wrapper : Prog := ⟨"micro/server.go:NewStreamWrapper.func1", "micro", [],
  [.entry, .ifBlocked [.reject [["option"], ["Send"]], .ret], .exitNow, .ret]⟩

def knownProgs : List Prog :=
  [known_echo, known_fiber, known_gear, known_kitex_outlier, known_kratos_outlier, known_kratos_outlier_md,
   known_micro_call_outlier, known_micro_stream_outlier, known_micro_stream_wrapper]

def knownKeys : List String := knownProgs.map (·.key)

/-- recorded finding: same key, framework, handler-call kinds **and** same body as a recorded copy -/
def isKnown (p : Prog) : Bool := knownProgs.any fun k => k.key == p.key && k.fw == p.fw && k.nextVia == p.nextVia && beqList k.body p.body

/-- a table row is fine when it conforms in all six scenarios or is a recorded finding -/
def rowOk (p : Prog) : Bool := isKnown p || conformsAll p

end Sentinel.AdapterIR
