/-!
# Isolation (concurrency) rule check + the concurrency gauge of the statistic slot  (C04)

Code-shaped model of

* `core/isolation/slot.go` `checkPass` — **as repaired** by `35bb456` (`uint64(cur)+uint64(batch) > uint64(threshold)`),
  with the negative-gauge clamp, several rules per resource and the early return at the first violated
  rule (that rule and `curCount` travel in the `BlockError`); the pinned `uint32` arithmetic is kept as
  `checkPassU32` (only the wrap witness is about it);
* `core/isolation/rule_manager.go` `LoadRules` / `LoadRulesOfResource` / `ClearRulesOfResource` as far as C04 needs them: rules are grouped per resource in
  load order, rules with threshold 0 (and empty resource) are dropped by `IsValidRule`;
* `core/stat/stat_slot.go` / `core/stat/base_node.go`: the gauge goes up by **one** per passed entry
  (`IncreaseConcurrency`, whatever the batch) and down by one at `Exit` of a passed entry
  (`OnCompleted` is skipped for blocked entries; `Exit` is idempotent);
* `core/base/slot_chain.go` `Entry`: rule check, then the yield point `chain.between-check-and-stat`, then
  the statistic slots — the small-step machine `stepT` has exactly these atomic steps.

Core Lean only (the driver is compiled from this file).  The abstract reference (`spec*`) lives here as
well because the driver's `spec` mode executes it; it never looks at a gauge: it recomputes the number
of admitted-and-not-exited entries from the history and compares over `Nat`.
-/
namespace Sentinel.Iso

structure Rule where
  idx : Nat          -- position in the `load` list (travels as `Rule.ID`)
  thr : UInt32
deriving Repr, DecidableEq

/-- `uint32(cur)` for `cur >= 0`, else the clamp to 0 (`cur` is the `int32` gauge) -/
def curCount (cur : Int) : UInt32 := if 0 ≤ cur then UInt32.ofNat cur.toNat else 0

/-- `checkPass` as repaired: `none` = pass, `some (rule, curCount)` = blocked by that rule -/
def checkPass (rules : List Rule) (cur : Int) (b : UInt32) : Option (Rule × UInt32) :=
  match rules with
  | [] => none
  | r :: rs =>
    if (curCount cur).toUInt64 + b.toUInt64 > r.thr.toUInt64 then some (r, curCount cur)
    else checkPass rs cur b

/-- `checkPass` with the pinned (pre-`35bb456`) arithmetic: the sum is taken in `uint32` -/
def checkPassU32 (rules : List Rule) (cur : Int) (b : UInt32) : Option (Rule × UInt32) :=
  match rules with
  | [] => none
  | r :: rs =>
    if curCount cur + b > r.thr then some (r, curCount cur)
    else checkPassU32 rs cur b

/-- the reference over `Nat`: first rule with `n + b > N` -/
def specCheck (rules : List Rule) (n : Nat) (b : UInt32) : Option (Rule × Nat) :=
  match rules with
  | [] => none
  | r :: rs => if n + b.toNat > r.thr.toNat then some (r, n) else specCheck rs n b

/-! ## Small-step admission path (any number of threads, any schedule) -/

inductive Pc
  | idle                                        -- not yet called `api.Entry`
  | checked                                     -- rule check passed, parked at `chain.between-check-and-stat`
  | blockedPending (idx : Nat) (tv : UInt32)    -- rule check blocked, parked at the same point
  | inflight                                    -- `OnEntryPassed` done (gauge +1), entry returned
  | rejected (idx : Nat) (tv : UInt32)          -- `OnEntryBlocked` done, `BlockError` returned
  | done                                        -- `Exit` done (gauge −1)
deriving DecidableEq, Repr

structure Cfg where
  g  : Int            -- the gauge of the resource
  mx : Int            -- largest gauge value seen so far (observed by the harness after every step)
  th : List Pc
deriving Repr

/-- one step of thread `i` (`rules` of the resource, `bs[i]` = batch of thread `i`) -/
def stepT (rules : List Rule) (bs : List UInt32) (c : Cfg) (i : Nat) : Cfg :=
  match c.th[i]? with
  | some .idle =>
    match checkPass rules c.g (bs.getD i 1) with
    | none => { c with th := c.th.set i .checked }
    | some (r, tv) => { c with th := c.th.set i (.blockedPending r.idx tv) }
  | some .checked => { g := c.g + 1, mx := max c.mx (c.g + 1), th := c.th.set i .inflight }
  | some (.blockedPending idx tv) => { c with th := c.th.set i (.rejected idx tv) }
  | some .inflight => { c with g := c.g - 1, th := c.th.set i .done }
  | _ => c

def runT (rules : List Rule) (bs : List UInt32) (c : Cfg) : List Nat → Cfg
  | [] => c
  | i :: r => runT rules bs (stepT rules bs c i) r

def parked : Pc → Bool
  | .checked => true
  | .blockedPending _ _ => true
  | _ => false

/-- when the schedule is exhausted every thread parked inside `api.Entry` is let through, in index order -/
def drainSched (th : List Pc) : List Nat :=
  (th.zipIdx.filter fun p => parked p.1).map (·.2)

def runDrain (rules : List Rule) (bs : List UInt32) (c : Cfg) (s : List Nat) : Cfg :=
  let c1 := runT rules bs c s
  runT rules bs c1 (drainSched c1.th)

/-- the same machine as the reference sees it: no gauge, the in-flight number is `base` (entries admitted
    before) plus the threads currently `inflight`, compared over `Nat` -/
structure SCfg where
  base : Nat
  mx : Nat
  th : List Pc
deriving Repr

def nInflight (th : List Pc) : Nat := th.countP (· = .inflight)
def nChecked (th : List Pc) : Nat := th.countP (· = .checked)

def specStepT (rules : List Rule) (bs : List UInt32) (c : SCfg) (i : Nat) : SCfg :=
  match c.th[i]? with
  | some .idle =>
    match specCheck rules (c.base + nInflight c.th) (bs.getD i 1) with
    | none => { c with th := c.th.set i .checked }
    | some (r, n) => { c with th := c.th.set i (.blockedPending r.idx (UInt32.ofNat n)) }
  | some .checked =>
    let th' := c.th.set i .inflight
    { c with mx := max c.mx (c.base + nInflight th'), th := th' }
  | some (.blockedPending idx tv) => { c with th := c.th.set i (.rejected idx tv) }
  | some .inflight => { c with th := c.th.set i .done }
  | _ => c

def specRunT (rules : List Rule) (bs : List UInt32) (c : SCfg) : List Nat → SCfg
  | [] => c
  | i :: r => specRunT rules bs (specStepT rules bs c i) r

def specRunDrain (rules : List Rule) (bs : List UInt32) (c : SCfg) (s : List Nat) : SCfg :=
  let c1 := specRunT rules bs c s
  specRunT rules bs c1 (drainSched c1.th)

/-! ## Soak runs (real goroutines, no hooks): only bounds are claimed, never the racy values -/

/-- the tightest threshold of a resource (`none`: no rule) -/
def minThr : List Rule → Option Nat
  | [] => none
  | r :: rs => some (match minThr rs with | none => r.thr.toNat | some m => min r.thr.toNat m)

/-- what `G` goroutines looping Entry/Exit with batch `b` can drive the gauge to, `g` entries being in flight before:
    `max g (N + z) + (G − 1)` (`overshoot` with `k = G`; `z = 1` for batch 0), and `g + G` for a resource without rule
    (every goroutine holds at most one entry) -/
def soakBound (rules : List Rule) (g : Int) (G : Nat) (b : UInt32) : Int :=
  match minThr rules with
  | none => g + G
  | some N => max g ((N + (if b = 0 then 1 else 0) : Nat) : Int) + ((G - 1 : Nat) : Int)

/-! ## Sequential machine over several resources: rules, gauges, entry handles -/

inductive Op
  | load (rs : List (String × UInt32))
  | loadres (scratch : Bool) (res : String) (ths : List UInt32)
      -- `LoadRulesOfResource` (`[]` = `ClearRulesOfResource`); `scratch`: through the caller's one reused slice (`sloadres`)
  | poke (res : String) (idx : Nat) (thr : UInt32) -- the caller edits `Threshold` of a loaded (valid) rule object in place
  | ghost (id : Nat)
      -- `Exit` of an entry one of whose exit handlers **panics**: as the code has it, `Exit` recovers before `SlotChain.exit`, the
      -- completion never runs and the entry's unit of the gauge is never given back, while the caller's handle is finished
  | getrules (res : String)                        -- `GetRulesOfResource`
  | getall                                         -- `GetRules`
  | entry (id : Nat) (res : String) (b : UInt32)
  | exit (id : Nat)
  | conc (res : String)
  | sched (id0 : Nat) (res : String) (bs : List UInt32) (s : List Nat)
  | soak (res : String) (G rounds : Nat) (b : UInt32)
deriving Repr

inductive Out
  | none
  | pass
  | block (idx : Nat) (tv : UInt32)
  | dup
  | val (g : Int)
  | sched (th : List Pc) (mx : Int)
  | rules (rs : List Rule)
  | allrules (rs : List (String × Rule))
  | soak (bound : Int)       -- everything has exited again (state unchanged); the gauge never exceeded `bound`
deriving Repr, DecidableEq

/-- `LoadRules`: valid rules in load order, tagged with their position -/
def loadRules (rs : List (String × UInt32)) : List (String × Rule) :=
  rs.zipIdx.filterMap fun p => if p.1.2 ≠ 0 ∧ p.1.1 ≠ "" then some (p.1.1, { idx := p.2, thr := p.1.2 }) else Option.none

/-- the rule manager keeps the caller's `*Rule` objects (only the slices are its own): an in-place edit of the threshold of a
    loaded rule object is seen by `checkPass` (as the code has it; the harness only edits valid rules, to non-zero values) -/
def pokeRules (rules : List (String × Rule)) (res : String) (idx : Nat) (thr : UInt32) : List (String × Rule) :=
  rules.map fun p => if p.1 = res ∧ p.2.idx = idx then (p.1, { p.2 with thr := thr }) else p

def rulesOf (rules : List (String × Rule)) (res : String) : List Rule :=
  (rules.filter fun p => p.1 = res).map (·.2)

/-- `LoadRulesOfResource res ths`: only the rules of `res` are replaced (by the valid ones of the new list, positions counted
    within that list); an empty or all-invalid list leaves `res` without rule; every other resource keeps its rules -/
def loadResRules (rules : List (String × Rule)) (res : String) (ths : List UInt32) : List (String × Rule) :=
  (rules.filter fun p => p.1 ≠ res) ++ loadRules (ths.map fun t => (res, t))

/-! ### `currentRules` and the caller's slice: the fixed finding `loadres-raw-slice-alias` (repaired by `26e3af6`)

Before the repair `LoadRulesOfResource` stored the **caller's slice** in `currentRules[res]`, the list its "unchanged" shortcut compares
the next load with; a caller reusing one slice for successive calls had a reload of `res` with the same number of rules compared with
itself and **ignored**.  `rmLoadResOld` keeps that behaviour as documentation (only the witness theorem is about it): `raw` = content of
`currentRules` for the resources whose entry is not the caller's slice, `ali` = for the others the length of the stored slice header.
Since the repair every call stores a copy, the shortcut only fires for genuinely equal lists, and the executed model is simply
`loadResRules` (every `LoadRulesOfResource` call takes effect). -/

def rawRules (rs : List (String × UInt32)) : List (String × Rule) :=
  rs.zipIdx.map fun p => (p.1.1, { idx := p.2, thr := p.1.2 })

def aliasOf (alias : List (String × Nat)) (res : String) : Option Nat := (alias.find? fun p => p.1 = res).map (·.2)

structure RM where
  rules : List (String × Rule)
  raw   : List (String × Rule)
  ali   : List (String × Nat)

/-- `LoadRulesOfResource(res, rules)` as the code had it **before `26e3af6`** (`scratch`: through the caller's one reused slice) -/
def rmLoadResOld (m : RM) (scratch : Bool) (res : String) (ths : List UInt32) : RM :=
  let store (al : List (String × Nat)) : RM :=
    { rules := loadResRules m.rules res ths,
      raw := (m.raw.filter fun p => p.1 ≠ res) ++ rawRules (ths.map fun t => (res, t)),
      ali := al }
  let noAlias := m.ali.filter fun p => p.1 ≠ res
  if ths.isEmpty then store noAlias                              -- clear branch
  else if !scratch then store noAlias                            -- a fresh caller slice, never touched again
  else match aliasOf m.ali res with
    | some k => if k = ths.length then m                         -- compared with itself: "unchanged", the load is ignored
                else store ((res, ths.length) :: noAlias)
    | none =>
      if rulesOf m.raw res = (rawRules (ths.map fun t => (res, t))).map (·.2) then m    -- genuinely unchanged: the old slice stays
      else store ((res, ths.length) :: noAlias)

structure St where
  rules : List (String × Rule) := []
  gauge : String → Int := fun _ => 0        -- `ResourceNode.concurrency` (0 for a node not created yet)
  live  : List (Nat × String) := []         -- handles of passed entries not exited yet: (id, resource)

def isLive (live : List (Nat × String)) (id : Nat) : Bool := live.any (·.1 = id)

def resOfId (live : List (Nat × String)) (id : Nat) : Option String := (live.find? (·.1 = id)).map (·.2)

/-- handles created by a `sched` op: thread `i` that is in flight at the end gets id `id0 + i` -/
def schedHandles (id0 : Nat) (res : String) (th : List Pc) : List (Nat × String) :=
  (th.zipIdx.filter fun p => p.1 = .inflight).map fun p => (id0 + p.2, res)

/-- an id no handle uses (ids given by the harness are below 2^40) -/
def freshId (live : List (Nat × String)) : Nat := live.foldl (fun m p => max m (p.1 + 1)) 1099511627776

/-- the entry stays in flight for ever under an id nobody can name -/
def ghostLive (live : List (Nat × String)) (id : Nat) : List (Nat × String) :=
  live.map fun p => if p.1 = id then (freshId live, p.2) else p

def step (s : St) : Op → St × Out
  | .load rs => ({ s with rules := loadRules rs }, .none)
  | .loadres _ res ths => ({ s with rules := loadResRules s.rules res ths }, .none)     -- whatever slice the caller used
  | .poke res idx thr => ({ s with rules := pokeRules s.rules res idx thr }, .none)
  | .ghost id => ({ s with live := ghostLive s.live id }, .none)
  | .getrules res => (s, .rules (rulesOf s.rules res))
  | .getall => (s, .allrules s.rules)
  | .entry id res b =>
    if isLive s.live id then (s, .dup) else
    match checkPass (rulesOf s.rules res) (s.gauge res) b with
    | some (r, tv) => (s, .block r.idx tv)
    | none =>
      ({ s with gauge := fun x => if x = res then s.gauge res + 1 else s.gauge x, live := (id, res) :: s.live }, .pass)
  | .exit id =>
    match resOfId s.live id with
    | some res =>
      ({ s with gauge := fun x => if x = res then s.gauge res - 1 else s.gauge x,
                live := s.live.filter fun p => p.1 ≠ id }, .none)
    | none => (s, .none)
  | .conc res => (s, .val (s.gauge res))
  | .sched id0 res bs sch =>
    if (List.range bs.length).any (fun i => isLive s.live (id0 + i)) then (s, .dup) else
    let c := runDrain (rulesOf s.rules res) bs
      { g := s.gauge res, mx := s.gauge res, th := List.replicate bs.length .idle } sch
    ({ s with gauge := fun x => if x = res then c.g else s.gauge x,
              live := schedHandles id0 res c.th ++ s.live }, .sched c.th c.mx)
  | .soak res G _ b => (s, .soak (soakBound (rulesOf s.rules res) (s.gauge res) G b))

def run (s : St) : List Op → St × List Out
  | [] => (s, [])
  | o :: r => let (s1, x) := step s o; let (s2, xs) := run s1 r; (s2, x :: xs)

/-! ## The reference: in-flight = number of admitted and not yet exited entries, recomputed from the handles -/

structure SpecSt where
  rules : List (String × Rule) := []
  ideal : List (String × Rule) := []        -- what the latest loads say (every load takes effect): the claim of the property
  live  : List (Nat × String) := []

def inflight (live : List (Nat × String)) (res : String) : Nat := live.countP (·.2 = res)

def specStep (s : SpecSt) : Op → SpecSt × Out
  | .load rs => ({ s with rules := loadRules rs, ideal := loadRules rs }, .none)
  | .loadres _ res ths => ({ s with rules := loadResRules s.rules res ths, ideal := loadResRules s.ideal res ths }, .none)
  | .poke res idx thr => ({ s with rules := pokeRules s.rules res idx thr, ideal := pokeRules s.ideal res idx thr }, .none)
  | .ghost id => ({ s with live := ghostLive s.live id }, .none)
  | .getrules res => (s, .rules (rulesOf s.rules res))
  | .getall => (s, .allrules s.rules)
  | .entry id res b =>
    if isLive s.live id then (s, .dup) else
    match specCheck (rulesOf s.rules res) (inflight s.live res) b with
    | some (r, n) => (s, .block r.idx (UInt32.ofNat n))
    | none => ({ s with live := (id, res) :: s.live }, .pass)
  | .exit id => ({ s with live := s.live.filter fun p => p.1 ≠ id }, .none)
  | .conc res => (s, .val (inflight s.live res))
  | .sched id0 res bs sch =>
    if (List.range bs.length).any (fun i => isLive s.live (id0 + i)) then (s, .dup) else
    let n := inflight s.live res
    let c := specRunDrain (rulesOf s.rules res) bs { base := n, mx := n, th := List.replicate bs.length .idle } sch
    ({ s with live := schedHandles id0 res c.th ++ s.live }, .sched c.th c.mx)
  | .soak res G _ b => (s, .soak (soakBound (rulesOf s.rules res) (inflight s.live res : Nat) G b))

def specRun (s : SpecSt) : List Op → SpecSt × List Out
  | [] => (s, [])
  | o :: r => let (s1, x) := specStep s o; let (s2, xs) := specRun s1 r; (s2, x :: xs)

end Sentinel.Iso
