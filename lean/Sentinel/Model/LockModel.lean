/-! # Abstract lock semantics and the access-table types of C15 (core Lean only)

Two parts.

* **Traces.**  Events `acq / rel / acc` of threads on reader-writer mutexes (`sync.RWMutex`; a plain
  `sync.Mutex` is the special case that is only ever taken in write mode).  `WFrom s tr` says that `tr`
  is an execution the mutex implementation admits from lock state `s` (a writer excludes everybody,
  readers share, a release needs a matching hold).  `Sentinel.C15.discipline_implies_exclusion` is
  proved about these definitions once and for all.
* **Further models built on these events** (in `Sentinel.Lemmas.LockDiscipline`, so that this file stays core-only):
  a rule table guarded by one RW mutex with two-step swaps (`SEv`, `sAdm`, `pub` — the "settled switch" theorems
  `request_reads_one_published_table`, `request_after_switch_reads_new_table`, `other_resources_switches_invisible`)
  and `sync.Once` (`OEv`, `oAdm` — `once_body_runs_exactly_once`).
* **Tables.**  The types of the rows `go/cmd/extract15` generates from the Go source on every run
  (`Sentinel.Gen.Access`), and the *decision procedures* (`Bool`-valued, evaluated by the kernel on the
  generated table) together with the `Prop`s they decide.  Names are interned to `Nat` by the
  generator (`classNames`, `mutexNames` give the strings back for reports).
-/
namespace Sentinel.LockModel

abbrev Thread := Nat
abbrev Lock := Nat
/-- object class id (a package-level variable cell, the container it points to, an inner container …) -/
abbrev Cls := Nat

/-! ## Traces -/

/-- `w = true`: write mode (`Lock/Unlock`), `w = false`: read mode (`RLock/RUnlock`) -/
inductive Ev
  | acq (t : Thread) (l : Lock) (w : Bool)
  | rel (t : Thread) (l : Lock) (w : Bool)
  | acc (t : Thread) (x : Cls) (write : Bool)
deriving DecidableEq, Repr

/-- state of one mutex: a writer, or a multiset of readers (`readers []` = free).  Go's `RWMutex`
    lets one goroutine hold several read locks, so readers are a list with multiplicity. -/
inductive LState
  | writer (t : Thread)
  | readers (ts : List Thread)
deriving DecidableEq, Repr

abbrev LS := Lock → LState

def upd (s : LS) (l : Lock) (v : LState) : LS := fun l' => if l' = l then v else s l'

def stepLS (s : LS) : Ev → LS
  | .acq t l true => upd s l (.writer t)
  | .acq t l false =>
      match s l with
      | .readers ts => upd s l (.readers (t :: ts))
      | .writer _ => s
  | .rel _ l true => upd s l (.readers [])
  | .rel t l false =>
      match s l with
      | .readers ts => upd s l (.readers (ts.erase t))
      | .writer _ => s
  | .acc .. => s

/-- is event `e` enabled in lock state `s`? -/
def enabled (s : LS) : Ev → Prop
  | .acq _ l true => s l = .readers []
  | .acq _ l false => ∃ ts, s l = .readers ts
  | .rel t l true => s l = .writer t
  | .rel t l false => ∃ ts, s l = .readers ts ∧ t ∈ ts
  | .acc .. => True

/-- well-formed execution from `s` -/
def WFrom (s : LS) : List Ev → Prop
  | [] => True
  | e :: r => enabled s e ∧ WFrom (stepLS s e) r

def runLS (s : LS) : List Ev → LS
  | [] => s
  | e :: r => runLS (stepLS s e) r

/-- thread `t` holds mutex `l` in mode `w` -/
def holds (s : LS) (t : Thread) (l : Lock) : Bool → Prop
  | true => s l = .writer t
  | false => ∃ ts, s l = .readers ts ∧ t ∈ ts

/-! ## Table rows -/

inductive Phase
  | live   -- reachable from the API the property speaks about (everything that is not one of the below)
  | setup  -- only reachable from registration functions documented as start-up-only (listed in the table)
  | init   -- package initialisation (`init`, variable initialisers): happens before `main`
  | test   -- not referenced from any non-test code of its package
deriving DecidableEq, Repr

structure Held where
  mu : Lock
  w : Bool
deriving DecidableEq, Repr

/-- one read or write site of an object class, with the mutexes provably held there that can protect the class:
    package-level mutexes, and — for a data field of a struct with a mutex field, accessed through the method
    receiver — that same receiver's mutex field -/
structure Access where
  id : Nat
  cls : Cls
  write : Bool
  held : List Held
  phase : Phase
  fn : String
  pos : String
deriving Repr

/-- a plain (non-`sync/atomic`) use of a field / variable that is elsewhere accessed with `sync/atomic` -/
structure PlainUse where
  id : Nat
  field : Nat
  write : Bool
  /-- `init`: composite-literal initialisation before publication; `test`: only referenced from tests -/
  phase : Phase
  fn : String
  pos : String
deriving Repr

/-- `inner` is acquired (directly or in a callee) while `outer` is held -/
structure LockEdge where
  outer : Lock
  inner : Lock
  fn : String
  pos : String
deriving Repr

/-- how often (maximum over the paths of one call, callees included) one slot phase (`Check`, `OnEntryPassed`, …)
    enters a *read* section, resp. one rule loading / clearing function a *write* section, of the RW mutex `mu` -/
structure SlotShape where
  id : Nat
  slot : String
  mu : Lock
  sections : Nat
  inLoop : Bool
deriving Repr

/-- a map insertion `G[k] = v` (lost-insert rule).  `guards`: the mutexes held in write mode at the insert whose critical
    section either spans the whole function (held on entry) or contains, on every path, a lookup of the same element
    `G[k]` — the re-check under the lock.  `rechecked` = `guards ≠ []` (for reports). -/
structure Insert where
  id : Nat
  cls : Cls
  guards : List Lock
  rechecked : Bool
  phase : Phase
  fn : String
  pos : String
  key : String
deriving Repr

/-- an operation that can panic on caller-controlled data (map index / delete with an interface-typed key, type assertion
    without comma-ok, index by a parameter, call through a function value, call of a function containing one of these),
    executed inside a critical section of `mu` that was opened in the same function; `deferred`: the unlock of that
    section had been registered with `defer` when the operation runs (so a panic releases the mutex) -/
structure RiskyOp where
  id : Nat
  mu : Lock
  deferred : Bool
  phase : Phase
  fn : String
  pos : String
  op : String
deriving Repr

/-- a map/slice-typed struct field is set to a parameter of an exported function without copying -/
structure CallerStore where
  id : Nat
  field : Nat
  phase : Phase
  fn : String
  pos : String
  what : String
deriving Repr

/-- an in-place write (element assignment, delete, append into the backing array, copy) through a map/slice-typed field -/
structure FieldWrite where
  id : Nat
  field : Nat
  phase : Phase
  fn : String
  pos : String
  what : String
deriving Repr

/-- a method whose calls acting on its receiver run inside `recv.<once>.Do(func(){…})` (`inside`) or not (`outside`) -/
structure OnceFact where
  id : Nat
  fn : String
  once : String
  inside : Nat
  outside : Nat
  pos : String
deriving Repr

/-- every required method has a fact saying that all its receiver effects sit inside the `sync.Once` closure -/
def onceOkB (required : List String) (facts : List OnceFact) : Bool :=
  required.all fun f => facts.any fun r => r.fn == f && r.outside == 0 && decide (0 < r.inside)

/-- something the extractor refused to interpret -/
structure Unknown where
  id : Nat
  phase : Phase
  fn : String
  pos : String
  what : String
deriving Repr

/-! ## The discipline, as `Prop` and as kernel-evaluable `Bool` -/

def Access.live (a : Access) : Bool := a.phase == .live

def heldIn (a : Access) (m : Lock) (w : Bool) : Bool := a.held.any fun h => h.mu == m && h.w == w

/-- a mutex held at both sites, at least once in write mode: the two sites exclude each other -/
def commonLockB (a b : Access) : Bool :=
  a.held.any fun h => b.held.any fun k => h.mu == k.mu && (h.w || k.w)

def conflictingB (a b : Access) : Bool := a.cls == b.cls && (a.write || b.write)

/-- a *read* site that a listed known finding is about: `(class, function)` -/
def excusedRead (ex : List (Cls × String)) (a : Access) : Bool :=
  !a.write && ex.any fun e => e.1 == a.cls && e.2 == a.fn

/-- the pair is fine: not both live, or not conflicting, or excluded by a lock, or one side is an excused read -/
def pairOkB (ex : List (Cls × String)) (a b : Access) : Bool :=
  !(a.live && b.live) || !conflictingB a b || commonLockB a b || excusedRead ex a || excusedRead ex b

/-- the check the kernel evaluates: for every live *write* row `a`, every live row `b` of the same class shares a
    mutex with it (one side in write mode) or is an excused read.  (Pairs of two reads never conflict, so scanning
    from the writes covers every conflicting pair; the cheap class comparison comes first.) -/
def disciplinedB (ex : List (Cls × String)) (t : List Access) : Bool :=
  t.all fun a => !(a.write && a.live) ||
    t.all fun b => b.cls != a.cls || !b.live || commonLockB a b || excusedRead ex b

/-- the pairs that break the discipline (for reports) -/
def badPairs (ex : List (Cls × String)) (t : List Access) : List (Access × Access) :=
  t.foldr (fun a acc =>
    if a.write && a.live then
      ((t.filter fun b => b.cls == a.cls && b.live && !(commonLockB a b || excusedRead ex b)).map fun b => (a, b)) ++ acc
    else acc) []

/-- a plain use is fine when it is not live code, or it is a read listed as `(field, function)` of a known finding -/
def plainOkB (ex : List (Nat × String)) (p : PlainUse) : Bool :=
  p.phase != .live || (!p.write && ex.any fun e => e.1 == p.field && e.2 == p.fn)

/-- ids of the listed names in a generated name table -/
def idsOf (names : List (Nat × String)) (ks : List String) : List Nat :=
  (names.filter fun p => ks.contains p.2).map (·.1)

/-- resolve `(name, function)` excuses against a generated name table -/
def resolve (names : List (Nat × String)) (ks : List (String × String)) : List (Nat × String) :=
  ks.foldr (fun k acc => ((names.filter fun p => p.2 == k.1).map fun p => (p.1, k.2)) ++ acc) []

/-- the insert is not a lost-insert hazard: one of its guards is held in write mode by *every* live writer of the class,
    so between the (re-)check and the insert no other writer can run; or it is not live code, or a listed known site -/
def insertOkB (t : List Access) (ex : List (Cls × String)) (r : Insert) : Bool :=
  r.phase != .live || (ex.any fun e => e.1 == r.cls && e.2 == r.fn) ||
    r.guards.any fun m => t.all fun b => b.cls != r.cls || !(b.write && b.live) || heldIn b m true

def riskyOkB (r : RiskyOp) : Bool := r.phase != .live || r.deferred

/-- no field that can hold the caller's own map/slice is ever written through -/
def callerDataOkB (stores : List CallerStore) (writes : List FieldWrite) : Bool :=
  stores.all fun s => s.phase != .live || writes.all fun w => w.field != s.field || w.phase != .live

/-- the pairs (store of caller data, write through the same field) — for reports -/
def callerDataBad (stores : List CallerStore) (writes : List FieldWrite) : List (CallerStore × FieldWrite) :=
  stores.foldr (fun s acc => ((writes.filter fun w => s.phase == .live && w.phase == .live && w.field == s.field).map fun w => (s, w)) ++ acc) []

/-! ### a critical section whose body may panic: deferred vs explicit unlock -/

/-- lock state (`true` = still locked) after a section `Lock; body; Unlock` in a function whose panics are recovered
    further up (as `SlotChain.Entry` / `SentinelEntry.Exit` do): with `defer Unlock` the unlock runs during unwinding,
    with an explicit `Unlock` after the body it is skipped when the body panics -/
def lockedAfterSection (deferredUnlock bodyPanics : Bool) : Bool := !deferredUnlock && bodyPanics

def rankOf (ranks : List (Lock × Nat)) (m : Lock) : Nat :=
  match ranks.find? (fun p => p.1 == m) with
  | some p => p.2
  | none => 0

/-- every lock-order edge goes strictly up in the generated ranking (a topological certificate) -/
def rankedB (ranks : List (Lock × Nat)) (es : List LockEdge) : Bool :=
  es.all fun e => rankOf ranks e.outer < rankOf ranks e.inner

def shapeOkB (excused : List String) (s : SlotShape) : Bool :=
  (s.sections ≤ 1 && !s.inLoop) || excused.contains s.slot

/-! ## The snapshot model of a rule switch

A module keeps `store : Res → List ρ` (the per-resource rule/controller slices; they are never mutated
after publication — that is a row-level fact of the table: the inner class has no write).  Updates
replace one entry or the whole map inside a write-locked section, so they are atomic steps.  A slot
phase on resource `r` enters the read lock once, copies `store r` (a slice header) and decides from
that copy alone. -/

abbrev Res := String

inductive Upd (ρ : Type)
  | setRes (r : Res) (rules : List ρ)        -- LoadRulesOfResource / ClearRulesOfResource (rules = [])
  | replaceAll (m : Res → List ρ)            -- LoadRules / ClearRules

def applyUpd {ρ} (s : Res → List ρ) : Upd ρ → (Res → List ρ)
  | .setRes r rules => fun r' => if r' = r then rules else s r'
  | .replaceAll m => m

def applyAll {ρ} (s : Res → List ρ) : List (Upd ρ) → (Res → List ρ)
  | [] => s
  | u :: us => applyAll (applyUpd s u) us

/-- all stores that were ever published while the updates `us` ran -/
def history {ρ} (s : Res → List ρ) : List (Upd ρ) → List (Res → List ρ)
  | [] => [s]
  | u :: us => s :: history (applyUpd s u) us

/-! ### get-or-create: check and insert in one atomic step vs. in two -/

/-- the atomic get-or-create step (look up and insert inside one write section) -/
def getOrCreate {ν} (m : Res → Option ν) (k : Res) (fresh : ν) : (Res → Option ν) × ν :=
  match m k with
  | some x => (m, x)
  | none => (fun k' => if k' = k then some fresh else m k', fresh)

/-- the split version: the caller looked up earlier (`seen`), and inserts blindly if it saw nothing -/
def blindCreate {ν} (m : Res → Option ν) (k : Res) (seen : Option ν) (fresh : ν) : (Res → Option ν) × ν :=
  match seen with
  | some x => (m, x)
  | none => (fun k' => if k' = k then some fresh else m k', fresh)

/-- a request on `r` that takes its single snapshot after `k` of the concurrent updates -/
def oneSnapshot {ρ} (s : Res → List ρ) (us : List (Upd ρ)) (k : Nat) (r : Res) : List ρ :=
  applyAll s (us.take k) r

/-- what a slot that reads the store twice (after `k₁` resp. `k₂` updates) and uses the first half of
    one and the second half of the other would see — the shape the extractor rejects -/
def twoSnapshots {ρ} (s : Res → List ρ) (us : List (Upd ρ)) (k₁ k₂ : Nat) (r : Res) : List ρ × List ρ :=
  (applyAll s (us.take k₁) r, applyAll s (us.take k₂) r)

end Sentinel.LockModel
