/-!
# Hot-parameter QPS traffic shaping (core/hotspot), code-shaped and executable (core Lean only)

Sources modelled (anchors of C05):
* `core/hotspot/cache/lru.go`            → `LRU` (`addIfAbsent`, `get`; `set` = an atomic store through the cell pointer)
* `core/hotspot/traffic_shaping.go`      → `extract` (ExtractArgs), `capOf`, `rejectCheck`, `throttleCheck`
* `core/hotspot/slot.go`                 → `slotCheck` (block short-circuits, a wait is slept and the loop goes on)
* `core/hotspot/rule_manager.go`         → `validRule`, `mkCtls` (invalid / unsupported rules are dropped), `reload`
                                           (`Equals` / `IsStatReusable` reuse of controllers and statistics)

Conventions: an argument value travels as its canonical tagged text `v:<kind>:<text>` (two values are equal
as Go interface values iff their texts are equal; the generator never emits NaN or -0); `v:n:` is the nil
interface.  Time is integer ms; `int64` arithmetic that can leave the range is wrapped with `w` exactly where
the Go code computes it.  The two caches of a rule are kept as two separate LRUs and are touched in the very
order the controllers touch them; that they stay in step is a theorem (`Sentinel.C05.caches_in_sync`).
-/
namespace Sentinel.Hot

abbrev Val := String

def nilV : Val := "v:n:"

def two63 : Int := 9223372036854775808
def two64 : Int := 18446744073709551616

/-- `int64` wrap-around of an exact integer result -/
def w (x : Int) : Int := (x + two63) % two64 - two63

/-- `int64(math.Round(float64(q)))` for an `int64` q: the identity below 2^53, otherwise round-to-nearest-even
    on 53 significant bits (and the amd64 "integer indefinite" value for 2^63) -/
def f64nat (q : Nat) : Nat :=
  if q < 9007199254740992 then q else
    let e := Nat.log2 q - 52
    let m := q >>> e
    let r := q % (2 ^ e)
    let half := 2 ^ (e - 1)
    let m' := if r > half ∨ (r = half ∧ m % 2 = 1) then m + 1 else m
    m' * 2 ^ e

def f64int (q : Int) : Int :=
  let r : Int := if q < 0 then - (f64nat q.natAbs : Int) else (f64nat q.natAbs : Int)
  if r ≥ two63 then - two63 else r

/-! ## The LRU (`cache.LRU` behind `LruCacheMap`) -/

/-- `items` is `evictList` front (most recently used) to back; a value is the `int64` cell the stored pointer points to -/
structure LRU where
  size : Nat
  items : List (Val × Int)
deriving Repr

namespace LRU

def keys (c : LRU) : List Val := c.items.map Prod.fst

def find (c : LRU) (k : Val) : Option Int := c.items.lookup k

/-- `evictList.MoveToFront(ent)` -/
def touch (c : LRU) (k : Val) (x : Int) : LRU :=
  { c with items := (k, x) :: c.items.filter fun p => p.1 != k }

/-- `PushFront` + `removeOldest` when `Len() > size` -/
def push (c : LRU) (k : Val) (v : Int) : LRU :=
  let l := (k, v) :: c.items
  { c with items := if l.length > c.size then l.dropLast else l }

/-- `AddIfAbsent(key, &v)`: the prior cell (moved to front) or `none` after inserting -/
def addIfAbsent (c : LRU) (k : Val) (v : Int) : LRU × Option Int :=
  match c.items.lookup k with
  | some x => (c.touch k x, some x)
  | none => (c.push k v, none)

/-- `Get(key)` -/
def get (c : LRU) (k : Val) : LRU × Option Int :=
  match c.items.lookup k with
  | some x => (c.touch k x, some x)
  | none => (c, none)

/-- a store / successful CAS through a cell pointer obtained from the cache: position unchanged -/
def set (c : LRU) (k : Val) (v : Int) : LRU :=
  { c with items := c.items.map fun p => if p.1 == k then (p.1, v) else p }

end LRU

/-! ## Rules and controllers -/

structure Rule where
  res : String := ""
  cb : Int := 0            -- 0 Reject, 1 Throttling
  idx : Int := 0
  key : String := ""
  T : Int := 0
  burst : Int := 0
  D : Int := 1             -- DurationInSec
  mq : Int := 0            -- MaxQueueingTimeMs
  cap : Int := 0           -- ParamsMaxCapacity
  items : List (Val × Int) := []
deriving Repr

/-- `IsValidRule` (metric type QPS) and a control behaviour that has a generator -/
def validRule (r : Rule) : Bool :=
  r.res ≠ "" && decide (0 ≤ r.T) && decide (0 < r.D) && !(decide (0 < r.idx) && r.key ≠ "")
    && (if r.cb = 0 then decide (0 ≤ r.burst) else if r.cb = 1 then decide (0 ≤ r.mq) else false)

/-- cache size of a QPS rule (`newBaseTrafficShapingController`) -/
def capOf (r : Rule) : Nat :=
  if 0 < r.cap then r.cap.toNat
  else
    let s := if 4000 * r.D < 20000 then 4000 * r.D else 20000
    if s ≤ 0 then 20000 else s.toNat

/-- `specificItems[arg]`, else the rule threshold -/
def tokenCount (r : Rule) (arg : Val) : Int :=
  match r.items.lookup arg with
  | some t => t
  | none => r.T

def maxCount (r : Rule) (arg : Val) : Int := w (tokenCount r arg + r.burst)

def durMs (r : Rule) : Int := w (r.D * 1000)

structure Ctl where
  gid : Nat                -- position of the rule in the loaded slice (reported as the triggering rule)
  rule : Rule
  time : LRU               -- RuleTimeCounter
  token : LRU              -- RuleTokenCounter
deriving Repr

def mkCtl (gid : Nat) (r : Rule) : Ctl :=
  { gid := gid, rule := r, time := ⟨capOf r, []⟩, token := ⟨capOf r, []⟩ }

def mkCtlsFrom : Nat → List Rule → List Ctl
  | _, [] => []
  | i, r :: rs => if validRule r then mkCtl i r :: mkCtlsFrom (i + 1) rs else mkCtlsFrom (i + 1) rs

def mkCtls (rs : List Rule) : List Ctl := mkCtlsFrom 0 rs

/-! ## Rule reload (`onRuleUpdate` → `buildResourceTrafficShapingController`)

For every valid new rule, in order: the first remaining old controller of the resource whose bound rule
`Equals` the new one is taken over as it is (object, bound rule and statistic); otherwise the first remaining one
that `IsStatReusable` donates its `ParamsMetric` (both caches) to a new controller; otherwise everything is new.
A consumed old controller is removed from the candidates, so no statistic is ever handed out twice. -/

/-- `SpecificItems` as maps -/
def sameItems (a b : List (Val × Int)) : Bool := a.all (fun p => b.contains p) && b.all (fun p => a.contains p)

/-- `old.Equals(new)`, `old` being the rule object bound to a controller: its `SpecificItems` were normalised to a
    non-nil map by the constructor, so a new rule with a nil map (`items = []` here) is never `reflect.DeepEqual` -/
def ruleEquals (o n : Rule) : Bool :=
  o.res == n.res && o.cb == n.cb && o.cap == n.cap && o.idx == n.idx && o.key == n.key && o.T == n.T && o.D == n.D
    && (!n.items.isEmpty && sameItems o.items n.items)
    && (if o.cb = 0 then o.burst == n.burst else if o.cb = 1 then o.mq == n.mq else false)

/-- `old.IsStatReusable(new)` -/
def statReusable (o n : Rule) : Bool := o.res == n.res && o.cb == n.cb && o.cap == n.cap && o.D == n.D

/-- where a controller of the new generation comes from (`gid` of the old controller) -/
inductive Origin where
  | fresh
  | same (old : Nat)
  | stat (old : Nat)
deriving Repr, DecidableEq

def Origin.old? : Origin → Option Nat
  | .fresh => none
  | .same g => some g
  | .stat g => some g

/-- the reuse plan: candidates `(gid, bound rule)`, position of the next rule in the loaded slice, label base -/
def planFrom (base : Nat) : List (Nat × Rule) → Nat → List Rule → List (Nat × Rule × Origin)
  | _, _, [] => []
  | old, i, r :: rs =>
    if !validRule r then planFrom base old (i + 1) rs else
    match old.findIdx? (fun o => ruleEquals o.2 r) with
    | some k => (base + i, r, .same ((old[k]?.map (·.1)).getD 0)) :: planFrom base (old.eraseIdx k) (i + 1) rs
    | none =>
      match old.findIdx? (fun o => statReusable o.2 r) with
      | some k => (base + i, r, .stat ((old[k]?.map (·.1)).getD 0)) :: planFrom base (old.eraseIdx k) (i + 1) rs
      | none => (base + i, r, .fresh) :: planFrom base old (i + 1) rs

/-- `hotspot.LoadRules` on a module holding `old`; new controllers are labelled `base + position` -/
def reload (base : Nat) (old : List Ctl) (rs : List Rule) : List Ctl :=
  (planFrom base (old.map fun c => (c.gid, c.rule)) 0 rs).map fun (g, r, o) =>
    match o with
    | .fresh => mkCtl g r
    | .same og => (old.find? (fun c => c.gid == og)).getD (mkCtl g r)
    | .stat og =>
      match old.find? (fun c => c.gid == og) with
      | some c => { gid := g, rule := r, time := c.time, token := c.token }
      | none => mkCtl g r

inductive Res where
  | pass
  | block
  | wait (ms : Int)
  | spin                   -- the `for` loop would never leave (token cell missing while the time cell exists)
deriving Repr, DecidableEq

/-! ## ExtractArgs -/

def nonNil (v : Val) : Option Val := if v = nilV then none else some v

def extractAtt (r : Rule) (atts : List (String × Val)) : Option Val :=
  if atts.isEmpty then none else if r.key = "" then none else
  match atts.lookup r.key with
  | some v => nonNil v
  | none => none

def extractIdx (r : Rule) (args : List Val) : Option Val :=
  let n : Int := args.length
  let i := if r.idx < 0 then n + r.idx else r.idx
  if i < 0 then none else if i ≥ n then none else
  match args[i.toNat]? with
  | some v => nonNil v
  | none => none

/-- attachment key first, then the (possibly negative) index; `none` = "no such argument" -/
def extract (r : Rule) (args : List Val) (atts : List (String × Val)) : Option Val :=
  match extractAtt r atts with
  | some v => some v
  | none => extractIdx r args

/-! ## Reject mode: lazy-refill token bucket -/

/-- tokens left after a refill at elapsed time `pt` from `rest` tokens and taking `b` (may be negative = refuse) -/
def refill (T maxC dms pt rest b : Int) : Int :=
  let toAdd := (w (pt * T)).tdiv dms
  if w (toAdd + rest) > maxC then maxC - b else w (toAdd + rest) - b

def rejectCheck (r : Rule) (tm tk : LRU) (now : Int) (arg : Val) (b : Int) : LRU × LRU × Res :=
  let T := tokenCount r arg
  if T ≤ 0 then (tm, tk, .block) else
  let maxC := maxCount r arg
  if b > maxC then (tm, tk, .block) else
  match tm.addIfAbsent arg now with
  | (tm1, none) =>
      -- first to fill the tokens, consume immediately
      ((tm1, (tk.addIfAbsent arg (maxC - b)).1, .pass))
  | (tm1, some last) =>
      let pt := now - last
      if pt > durMs r then
        match tk.addIfAbsent arg (maxC - b) with
        | (tk1, none) => (tm1.set arg now, tk1, .pass)
        | (tk1, some rest) =>
            let newQ := refill T maxC (durMs r) pt rest b
            if newQ < 0 then (tm1, tk1, .block)
            else (tm1.set arg now, tk1.set arg newQ, .pass)
      else
        match tk.get arg with
        | (tk1, some rest) =>
            if rest - b ≥ 0 then (tm1, tk1.set arg (rest - b), .pass) else (tm1, tk1, .block)
        | (tk1, none) => (tm1, tk1, .spin)

/-! ## Throttling mode: leaky-bucket pacing -/

/-- `int64(math.Round(float64(batch * durationInSec * 1000 / tokenCount)))` — integer division first -/
def interval (T D b : Int) : Int := f64int ((w (w (b * D) * 1000)).tdiv T)

def throttleCheck (r : Rule) (tm : LRU) (now : Int) (arg : Val) (b : Int) : LRU × Res :=
  let T := tokenCount r arg
  if T ≤ 0 then (tm, .block) else
  let iv := interval T r.D b
  match tm.addIfAbsent arg now with
  | (tm1, none) => (tm1, .pass)
  | (tm1, some last) =>
      let expected := w (last + iv)
      if expected ≤ now ∨ w (expected - now) < r.mq then
        let await := w (expected - now)
        if await > 0 then (tm1.set arg expected, .wait await) else (tm1.set arg now, .pass)
      else (tm1, .block)

/-- `PerformChecking` of the controller generated for the rule's control behaviour -/
def check (c : Ctl) (now : Int) (arg : Val) (b : Int) : Ctl × Res :=
  if c.rule.cb = 0 then
    let (tm, tk, r) := rejectCheck c.rule c.time c.token now arg b
    ({ c with time := tm, token := tk }, r)
  else
    let (tm, r) := throttleCheck c.rule c.time now arg b
    ({ c with time := tm }, r)

/-! ## The slot: all controllers of the resource, in rule order -/

structure Out where
  blocked : Option Nat := none     -- gid of the rule that blocked
  spin : Bool := false
  sleeps : List Int := []          -- requested sleeps in ns, in order
deriving Repr

/-- `Slot.Check`: `nowNs` is the virtual clock, a `uint64` of nanoseconds (a requested sleep advances it) -/
def slotCheck (res : String) (args : List Val) (atts : List (String × Val)) (b : Int) :
    List Ctl → Int → List Int → List Ctl × Int × Out
  | [], now, sl => ([], now, { sleeps := sl })
  | c :: rest, now, sl =>
    if c.rule.res ≠ res then
      let (rest', now', o) := slotCheck res args atts b rest now sl
      (c :: rest', now', o)
    else
    match extract c.rule args atts with
    | none =>
      let (rest', now', o) := slotCheck res args atts b rest now sl
      (c :: rest', now', o)
    | some v =>
      match check c (now / 1000000) v b with
      | (c', .block) => (c' :: rest, now, { blocked := some c.gid, sleeps := sl })
      | (c', .spin) => (c' :: rest, now, { blocked := some c.gid, spin := true, sleeps := sl })
      | (c', .pass) =>
        let (rest', now', o) := slotCheck res args atts b rest now sl
        (c' :: rest', now', o)
      | (c', .wait ms) =>
        let ns := w (ms * 1000000)
        if ns > 0 then
          let (rest', now', o) := slotCheck res args atts b rest ((now + ns) % two64) (sl ++ [ns])
          (c' :: rest', now', o)
        else
          let (rest', now', o) := slotCheck res args atts b rest now sl
          (c' :: rest', now', o)

/-- A request parked in `util.Sleep` by a throttling rule while another goroutine reloads the rules (`armed`):
    `Slot.Check` fetched the controller slice before it slept and goes on with exactly those controllers — the rule
    list it started with, never a mixture — so its decision, triggering rule and sleeps are those of `slotCheck` on
    the old list; what it writes into statistics that the new generation reuses (`same` / `stat`) is seen there, what
    it writes into dropped controllers is lost.  Hence: finish the request on the old list, then `reload`.
    The last component says whether the armed reload happened (a sleep was requested). -/
def entryArmed (base : Nat) (armed : Option (List Rule)) (res : String) (args : List Val) (atts : List (String × Val))
    (b : Int) (cs : List Ctl) (now : Int) : List Ctl × Int × Out × Bool :=
  let out := slotCheck res args atts b cs now []
  match armed with
  | some rs => if out.2.2.sleeps.isEmpty then (out.1, out.2.1, out.2.2, false) else (reload base out.1 rs, out.2.1, out.2.2, true)
  | none => (out.1, out.2.1, out.2.2, false)

/-! ## The one-value reference machines

What a controller does to the cells of a single value when nothing else is in the caches.  The theorems
(`Sentinel.C05`) show that the multi-value controller acts on every resident value exactly like this, which
is both how the per-value bounds are proved and what "independence" means; the oracle runs these machines on
each value's own sub-history. -/

/-- reject mode; cell = (last refill time, tokens left) -/
def svReject (T maxC dms : Int) (cell : Option (Int × Int)) (now b : Int) : Option (Int × Int) × Res :=
  if T ≤ 0 then (cell, .block) else
  if b > maxC then (cell, .block) else
  match cell with
  | none => (some (now, maxC - b), .pass)
  | some (last, rest) =>
    let pt := now - last
    if pt > dms then
      let newQ := refill T maxC dms pt rest b
      if newQ < 0 then (cell, .block) else (some (now, newQ), .pass)
    else
      if rest - b ≥ 0 then (some (last, rest - b), .pass) else (cell, .block)

/-- throttling mode; cell = scheduled pass time of the last admitted request -/
def svThrottle (T iv mq : Int) (cell : Option Int) (now : Int) : Option Int × Res :=
  if T ≤ 0 then (cell, .block) else
  match cell with
  | none => (some now, .pass)
  | some last =>
    let expected := w (last + iv)
    if expected ≤ now ∨ w (expected - now) < mq then
      let await := w (expected - now)
      if await > 0 then (some expected, .wait await) else (some now, .pass)
    else (cell, .block)

/-! ## Histories (what the theorems quantify over) -/

/-- one `PerformChecking` call: clock reading, argument value, batch count -/
structure Req where
  t : Int
  v : Val
  b : Int
deriving Repr

/-- a reject controller's caches over a history, with every decision -/
def runReject (r : Rule) : LRU → LRU → List Req → List (Req × Res)
  | _, _, [] => []
  | tm, tk, q :: qs =>
    (q, (rejectCheck r tm tk q.t q.v q.b).2.2) ::
      runReject r (rejectCheck r tm tk q.t q.v q.b).1 (rejectCheck r tm tk q.t q.v q.b).2.1 qs

/-- final caches of `runReject` -/
def endReject (r : Rule) : LRU → LRU → List Req → LRU × LRU
  | tm, tk, [] => (tm, tk)
  | tm, tk, q :: qs => endReject r (rejectCheck r tm tk q.t q.v q.b).1 (rejectCheck r tm tk q.t q.v q.b).2.1 qs

def runThrottle (r : Rule) : LRU → List Req → List (Req × Res)
  | _, [] => []
  | tm, q :: qs => (q, (throttleCheck r tm q.t q.v q.b).2) :: runThrottle r (throttleCheck r tm q.t q.v q.b).1 qs

/-- the one-value machines over a history of requests for that value -/
def svRunReject (T maxC dms : Int) : Option (Int × Int) → List Req → List (Req × Res)
  | _, [] => []
  | c, q :: qs => (q, (svReject T maxC dms c q.t q.b).2) :: svRunReject T maxC dms (svReject T maxC dms c q.t q.b).1 qs

def svRunThrottle (T D mq : Int) : Option Int → List Req → List (Req × Res)
  | _, [] => []
  | c, q :: qs =>
    (q, (svThrottle T (interval T D q.b) mq c q.t).2) :: svRunThrottle T D mq (svThrottle T (interval T D q.b) mq c q.t).1 qs

/-- `v` is in the cache after every step of the history: one residency episode -/
def ResidentR (r : Rule) (v : Val) : LRU → LRU → List Req → Prop
  | _, _, [] => True
  | tm, tk, q :: qs =>
    (rejectCheck r tm tk q.t q.v q.b).1.find v ≠ none ∧
      ResidentR r v (rejectCheck r tm tk q.t q.v q.b).1 (rejectCheck r tm tk q.t q.v q.b).2.1 qs

def ResidentT (r : Rule) (v : Val) : LRU → List Req → Prop
  | _, [] => True
  | tm, q :: qs => (throttleCheck r tm q.t q.v q.b).1.find v ≠ none ∧ ResidentT r v (throttleCheck r tm q.t q.v q.b).1 qs

/-- `v` is not evicted during the history (if it is in the cache before a step it is there after it):
    the history stays inside one residency episode of `v` -/
def NotEvictedR (r : Rule) (v : Val) : LRU → LRU → List Req → Prop
  | _, _, [] => True
  | tm, tk, q :: qs =>
    (tm.find v ≠ none → (rejectCheck r tm tk q.t q.v q.b).1.find v ≠ none) ∧
      NotEvictedR r v (rejectCheck r tm tk q.t q.v q.b).1 (rejectCheck r tm tk q.t q.v q.b).2.1 qs

def NotEvictedT (r : Rule) (v : Val) : LRU → List Req → Prop
  | _, [] => True
  | tm, q :: qs =>
    (tm.find v ≠ none → (throttleCheck r tm q.t q.v q.b).1.find v ≠ none) ∧
      NotEvictedT r v (throttleCheck r tm q.t q.v q.b).1 qs

/-- the requests / decisions that concern value `v` -/
def reqsOf (v : Val) (qs : List Req) : List Req := qs.filter fun q => decide (q.v = v)

def forVal (v : Val) (l : List (Req × Res)) : List (Req × Res) := l.filter fun p => decide (p.1.v = v)

/-- tokens admitted by a decision list -/
def admitted : List (Req × Res) → Int
  | [] => 0
  | p :: l => (if p.2 = .pass then p.1.b else 0) + admitted l

/-- request times never decrease, starting at or after `prev` -/
def Mono (prev : Int) : List Req → Prop
  | [] => True
  | q :: qs => prev ≤ q.t ∧ Mono q.t qs

end Sentinel.Hot
