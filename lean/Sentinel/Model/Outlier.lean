import Sentinel.Model.LeapArray
/-!
# M-OUT — outlier ejection (core Lean only, executable)

Mirrors `core/outlier/{slot,stat_slot,recycler,retryer,rule_manager}.go` and, for the per-node
breakers, the sequential behaviour of `core/circuitbreaker/circuit_breaker.go` (the per-node breakers
are ordinary breakers built with `BuildResourceCircuitBreaker`).

* `Breaker.tryPass` / `Breaker.onComplete`  = `TryPass` / `OnRequestComplete` of the three strategies
  (they differ only in what counts as a *bad* completion and in the trip test, both fields of `CbRule`)
* `collect` / `checkStep`                    = the loop body of `checkAllNodes`
* `Res.check`                               = `Slot.Check` (`checkAllNodes` + hand-off to the recycler)
* `Res.completed`                           = `MetricStatSlot.OnCompleted`
* `stSchedule`/`stRecover`/`stRecycle`      = `Recycler.scheduleNodes` / `recover` / `recycle`
* `Res.retryOk`                             = `Retryer.onConnected`
* `Res.rebuild`                             = rule reload with a changed breaker part (`updateAllBreakers`)
* `capF64 n m E`                            = `int(float64(n) * p)` for the binary64 `p = m / 2^E`,
                                              in exact natural-number arithmetic (round to nearest even)

The Go loop ranges over a **map**: the iteration order is arbitrary.  `Res.check` therefore takes the
order as an argument (`ord`, a permutation of the node list); the breakers are independent objects, so
the state after the loop (every breaker asked `TryPass` once) does not depend on it, only the reported
lists do.
-/
namespace Sentinel.Outlier
open Sentinel

inductive CbState | closed | halfOpen | opened
deriving DecidableEq, Repr, Inhabited

/-- payload of the breaker's leap array: `errorCounter` / `slowRequestCounter` -/
structure Cnt where
  bad : Nat
  total : Nat
deriving Repr, DecidableEq

instance : Add Cnt := ⟨fun a b => ⟨a.bad + b.bad, a.total + b.total⟩⟩
instance : Zero Cnt := ⟨⟨0, 0⟩⟩

/-- what the breaker keeps of its `circuitbreaker.Rule` -/
structure CbRule where
  retryTimeoutMs : Nat
  probeNum : Nat
  minReq : Nat
  /-- bucket count after `getRuleStatSlidingWindowBucketCount` -/
  n : Nat
  /-- bucket length `StatIntervalMs / n` -/
  L : Nat
  /-- `(rt, err)` is counted as slow (`rt > MaxAllowedRtMs`) resp. as an error (`err != nil`);
      the same test decides whether a half-open probe failed -/
  isBad : Nat → Bool → Bool
  /-- `(bad, total)` reaches the threshold (float comparison for the ratio strategies: instantiated
      with binary64 arithmetic in the driver, a parameter here) -/
  trip : Nat → Nat → Bool

structure Breaker where
  state : CbState := .closed
  nextRetry : Nat := 0
  curProbe : Nat := 0
  stat : LA.Arr Cnt

/-- `newXxxCircuitBreaker(r)` at time `now` -/
def Breaker.new (r : CbRule) (now : Nat) : Breaker := { stat := LA.mk r.n r.L now }

/-- `TryPass` (the chain used here never blocks, so the exit hook that rolls a probe back is inert) -/
def Breaker.tryPass (r : CbRule) (now : Nat) (b : Breaker) : Breaker × Bool :=
  match b.state with
  | .closed => (b, true)
  | .opened => if b.nextRetry ≤ now then ({ b with state := .halfOpen }, true) else (b, false)
  | .halfOpen => (b, decide (0 < r.probeNum))

/-- `resetMetric`: every counter returned by `allCounter()` (= `Values()`, the non-deprecated slots) -/
def resetMetric (a : LA.Arr Cnt) (now : Nat) : LA.Arr Cnt :=
  if now = 0 then a else
  { a with slots := a.slots.map fun s => if LA.deprecated (a.n * a.L) now s.start then s else { s with val := 0 } }

def sumCnt (xs : List Cnt) : Cnt := xs.foldl (· + ·) 0

/-- `OnRequestComplete(rt, err)` at time `now` -/
def Breaker.onComplete (r : CbRule) (now : Nat) (b : Breaker) (rt : Nat) (err : Bool) : Breaker :=
  let bad := r.isBad rt err
  match LA.addAt b.stat now ⟨if bad then 1 else 0, 1⟩ with
  | (_, false) => b                      -- `currentCounter` failed: logged, nothing else happens
  | (st, true) =>
    let sum := sumCnt ((LA.valuesAt st now).map (·.val))
    let b := { b with stat := st }
    match b.state with
    | .opened => b
    | .halfOpen =>
      if bad then { b with state := .opened, curProbe := 0, nextRetry := now + r.retryTimeoutMs }
      else
        let p := b.curProbe + 1
        if r.probeNum = 0 ∨ r.probeNum ≤ p then
          { b with state := .closed, curProbe := 0, stat := resetMetric st now }
        else { b with curProbe := p }
    | .closed =>
      if sum.total < r.minReq then b
      else if r.trip sum.bad sum.total then { b with state := .opened, nextRetry := now + r.retryTimeoutMs }
      else b

/-! ## the ejection cap -/

/-- `int(float64(n) * p)` for `p = m / 2^E` (`m < 2^53`, `n < 2^53`): the exact product `n·m·2^-E`
    rounded to 53 significant bits, ties to even, then truncated. -/
def capF64 (n m E : Nat) : Nat :=
  let P := n * m
  let bits := if P = 0 then 0 else Nat.log2 P + 1
  if bits ≤ 53 then P / 2 ^ E
  else
    let s := bits - 53
    let q := P / 2 ^ s
    let r := P % 2 ^ s
    let half := 2 ^ (s - 1)
    let q' := if half < r ∨ (r = half ∧ q % 2 = 1) then q + 1 else q
    if s ≤ E then q' / 2 ^ (E - s) else q' * 2 ^ (s - E)

/-- the exact `⌊n · p⌋` for `p = m / 2^E` -/
def capExact (n m E : Nat) : Nat := n * m / 2 ^ E

/-! ## the slot -/

structure View where
  addr : String
  /-- result of `TryPass` -/
  pass : Bool
  /-- `CurrentState()` read after `TryPass` -/
  state : CbState
deriving Repr, DecidableEq

structure CheckOut where
  filters : List String := []
  outliers : List String := []
  halfs : List String := []
deriving Repr, DecidableEq

/-- loop body of `checkAllNodes` -/
def checkStep (active : Bool) (cap : Nat) (acc : CheckOut) (v : View) : CheckOut :=
  if v.pass then
    if !active && v.state == .halfOpen then { acc with halfs := acc.halfs ++ [v.addr] } else acc
  else
    let acc := { acc with outliers := acc.outliers ++ [v.addr] }
    if acc.filters.length < cap then { acc with filters := acc.filters ++ [v.addr] } else acc

/-- the loop of `checkAllNodes` over the views in iteration order -/
def collect (active : Bool) (cap : Nat) : List View → CheckOut → CheckOut
  | [], acc => acc
  | v :: vs, acc => collect active cap vs (checkStep active cap acc v)

structure Rule where
  cb : CbRule
  /-- `EnableActiveRecovery` -/
  active : Bool
  /-- node count ↦ `int(float64(nodeCount) * MaxEjectionPercent)` -/
  cap : Nat → Nat

abbrev Nodes := List (String × Breaker)
/-- recycler `status` map -/
abbrev Status := List (String × Bool)

def viewOf (r : CbRule) (now : Nat) (p : String × Breaker) : View :=
  let q := p.2.tryPass r now
  { addr := p.1, pass := q.2, state := q.1.state }

def hasKey {α} (l : List (String × α)) (a : String) : Bool := l.any fun p => p.1 == a

/-- `scheduleNodes`: a node not yet in the map is entered with `false` (and a timer armed) -/
def stSchedule (st : Status) : List String → Status
  | [] => st
  | a :: r => stSchedule (if hasKey st a then st else st ++ [(a, false)]) r

/-- `recover` -/
def stRecover (st : Status) (a : String) : Status :=
  st.map fun p => if p.1 == a then (p.1, true) else p

/-- `recycle`: (new map, the node's breaker is deleted) -/
def stRecycle (st : Status) (a : String) : Status × Bool :=
  (st.filter fun p => !(p.1 == a), st.any fun p => p.1 == a && !p.2)

structure Res where
  rule : Rule
  nodes : Nodes := []
  status : Status := []

/-- `Slot.Check`: `checkAllNodes` with iteration order `ord` (a permutation of `r.nodes`), then the
    outliers are handed to the recycler (idealised as immediate; the retryer only arms timers). -/
def Res.check (r : Res) (now : Nat) (ord : Nodes) : Res × CheckOut :=
  let out := collect r.rule.active (r.rule.cap r.nodes.length) (ord.map (viewOf r.rule.cb now)) {}
  let nodes := r.nodes.map fun p => (p.1, (p.2.tryPass r.rule.cb now).1)
  ({ r with nodes := nodes, status := if out.outliers.isEmpty then r.status else stSchedule r.status out.outliers }, out)

def updNode (ns : Nodes) (a : String) (f : Breaker → Breaker) : Nodes :=
  ns.map fun p => if p.1 == a then (p.1, f p.2) else p

/-- `MetricStatSlot.OnCompleted` with callee address `a` (`""` = no address traced) -/
def Res.completed (r : Res) (now : Nat) (a : String) (rt : Nat) (err : Bool) : Res :=
  if a = "" then r else
  let nodes := if hasKey r.nodes a then r.nodes else r.nodes ++ [(a, Breaker.new r.rule.cb now)]
  let nodes := updNode nodes a fun b => b.onComplete r.rule.cb now rt err
  { r with nodes := nodes, status := if err then r.status else stRecover r.status a }

/-- the recycler's timer firing for node `a` -/
def Res.recycle (r : Res) (a : String) : Res :=
  let q := stRecycle r.status a
  { r with status := q.1, nodes := if q.2 then r.nodes.filter (fun p => !(p.1 == a)) else r.nodes }

/-- `Retryer.onConnected(a, rt)`: the active check succeeded -/
def Res.retryOk (r : Res) (now : Nat) (a : String) (rt : Nat) : Res :=
  { r with status := stRecover r.status a,
           nodes := updNode r.nodes a fun b => b.onComplete r.rule.cb now rt false }

/-- Rule reload whose breaker part differs from the bound one (`isEqualsTo` false):
    `updateAllBreakers` / `BuildResourceCircuitBreaker` builds a **new, Closed** breaker for every known node
    (`nextRetry = 0`, no probes counted); the statistic is carried over when strategy, interval and bucket count
    are unchanged (`isStatReusable`), otherwise it is a fresh leap array created at `now`.
    The recycler's status map is not touched. -/
def Res.rebuild (r : Res) (rule : Rule) (now : Nat) (reuseStat : Bool) : Res :=
  { r with rule := rule,
           nodes := r.nodes.map fun p =>
             (p.1, { state := .closed, nextRetry := 0, curProbe := 0,
                     stat := if reuseStat then p.2.stat else LA.mk rule.cb.n rule.cb.L now }) }

/-- `Retryer.onDisconnected(a)`: the active check failed.  It bumps the retry counter and re-arms its timer; neither
    the node breakers nor the recycler are touched. -/
def Res.retryFail (r : Res) (_a : String) : Res := r

/-- `LoadRuleOfResource(res, nil)` / `ClearRuleOfResource`: the resource's rule and all its node breakers are
    dropped; the cached recycler (and its status map) stays.  The same happens to a resource
    that a bulk `LoadRules` leaves without a (valid) rule: `updateAllBreakers` rebuilds node breakers only for resources that
    still have one. -/
def Res.clear (r : Res) : Res := { r with nodes := [] }

end Sentinel.Outlier
