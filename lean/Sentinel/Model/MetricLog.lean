/-!
# Metric log (C17): writer, index, searcher and reader as pure functions over byte lists

Code-shaped model of `core/log/metric/{writer,reader,searcher,common}.go` and
`core/base/metric_item.go` (core Lean only: the driver is compiled from this file, the theorems of
`Sentinel/Props/C17.lean` are about these very definitions).

* a byte is a `Nat` (`Bytes = List Nat`); a directory is the list of retained files in listing order
  (oldest first, the last one is the file the writer appends to); a file is
  `(name, data bytes, idx bytes)` plus two *ghost* fields the searcher never looks at
  (`lines` = the items written to it, `ents` = the index entries written to it);
* truncation at byte `k` is `List.take k` on the data / idx bytes of the last file (`cutData`, `cutIdx`);
* the three layers of `DESIGN.md` 6.C17: **L2** bytes (`fat`, `parseLine`, `splitLines`, `be8`,
  `decodeIdx`), **L1** the offset-level search (`findOffsetToStart`, `offsetStartAndFile` with the
  position cache, `readByEnd`, `readFrom`, `find`, `findFrom`), **L0** the abstract reference
  (`retained`, `specFind`, `specFrom`).
-/
namespace Sentinel.MetricLog

abbrev Bytes := List Nat

def BAR : Nat := 124     -- '|'
def LF : Nat := 10       -- '\n'
def CR : Nat := 13       -- '\r'

/-- `base.MetricItem` -/
structure Item where
  ts : Nat
  res : Bytes
  pass : Nat
  block : Nat
  complete : Nat
  error : Nat
  rt : Nat
  occ : Nat
  conc : Nat
  cls : Int
deriving DecidableEq, Repr, Inhabited

/-! ## L2: formatting (`ToFatString`) -/

def digitsAux : Nat → Nat → Bytes → Bytes
  | 0, _, acc => acc
  | fuel + 1, n, acc => if n < 10 then (48 + n) :: acc else digitsAux fuel (n / 10) ((48 + n % 10) :: acc)

/-- `%d` of an unsigned number -/
def dec (n : Nat) : Bytes := digitsAux (n + 1) n []

/-- `%d` of a signed number -/
def decInt : Int → Bytes
  | .ofNat n => dec n
  | .negSucc n => 45 :: dec (n + 1)

def pad2 (n : Nat) : Bytes := [48 + n / 10 % 10, 48 + n % 10]
def pad4 (n : Nat) : Bytes := [48 + n / 1000 % 10, 48 + n / 100 % 10, 48 + n / 10 % 10, 48 + n % 10]

/-- civil date `(year, month, day)` of a day number since 1970-01-01 (proleptic Gregorian) -/
def civil (z0 : Nat) : Nat × Nat × Nat :=
  let z := z0 + 719468
  let era := z / 146097
  let doe := z - era * 146097
  let yoe := (doe - doe / 1460 + doe / 36524 - doe / 146096) / 365
  let y := yoe + era * 400
  let doy := doe - (365 * yoe + yoe / 4 - yoe / 100)
  let mp := (5 * doy + 2) / 153
  let d := doy - (153 * mp + 2) / 5 + 1
  let m := if mp < 10 then mp + 3 else mp - 9
  (if m ≤ 2 then y + 1 else y, m, d)

/-- `util.FormatDate` (`2006-01-02`, UTC, years 1970..9999) of a day number -/
def dateStr (day : Nat) : Bytes :=
  let (y, m, d) := civil day
  pad4 y ++ 45 :: pad2 m ++ 45 :: pad2 d

/-- `util.FormatTimeMillis` (`2006-01-02 15:04:05`, UTC) -/
def timeStr (ms : Nat) : Bytes :=
  let s := ms / 1000
  dateStr (s / 86400) ++ 32 :: pad2 (s % 86400 / 3600) ++ 58 :: pad2 (s % 3600 / 60) ++ 58 :: pad2 (s % 60)

/-- `strings.ReplaceAll(name, "|", "_")` -/
def sanitize (r : Bytes) : Bytes := r.map fun b => if b = BAR then 95 else b

def joinBar : List Bytes → Bytes
  | [] => []
  | [f] => f
  | f :: g :: r => f ++ BAR :: joinBar (g :: r)

def fields (it : Item) : List Bytes :=
  [dec it.ts, timeStr it.ts, sanitize it.res, dec it.pass, dec it.block, dec it.complete, dec it.error,
   dec it.rt, dec it.occ, dec it.conc, decInt it.cls]

/-- `MetricItem.ToFatString` -/
def fat (it : Item) : Bytes := joinBar (fields it)

/-- what `writeItemsAndFlush` appends: each line followed by LF -/
def serialise : List Item → Bytes
  | [] => []
  | it :: r => fat it ++ LF :: serialise r

/-! ## L2: parsing (`MetricItemFromFatString`, `bufio.Reader.ReadLine`) -/

/-- `strings.Split(line, "|")` -/
def splitBar : Bytes → List Bytes
  | [] => [[]]
  | b :: r =>
    if b = BAR then [] :: splitBar r
    else match splitBar r with
      | [] => [[b]]
      | f :: fs => (b :: f) :: fs

def isDigit (b : Nat) : Bool := decide (48 ≤ b) && decide (b ≤ 57)

def valOf (bs : Bytes) : Nat := bs.foldl (fun a b => a * 10 + (b - 48)) 0

/-- `strconv.ParseUint(s, 10, bits)` with `bound = 2^bits`: digits only, non-empty, no overflow -/
def parseNat? (bound : Nat) (bs : Bytes) : Option Nat :=
  if bs = [] then none
  else if bs.all isDigit then (if valOf bs < bound then some (valOf bs) else none)
  else none

/-- `strconv.ParseInt(s, 10, 32)` -/
def parseInt32? (bs : Bytes) : Option Int :=
  match bs with
  | [] => none
  | 45 :: r => (parseNat? (2 ^ 31 + 1) r).map fun v => - (v : Int)
  | 43 :: r => (parseNat? (2 ^ 31) r).map fun v => (v : Int)
  | _ => (parseNat? (2 ^ 31) bs).map fun v => (v : Int)

def optField (arr : List Bytes) (i : Nat) (p : Bytes → Option α) (dflt : α) : Option α :=
  match arr[i]? with
  | none => some dflt
  | some f => p f

/-- `base.MetricItemFromFatString`: `none` = the error return (the readers skip such a line) -/
def parseLine (line : Bytes) : Option Item :=
  if line = [] then none else
  let arr := splitBar line
  if arr.length < 8 then none else
  (parseNat? (2 ^ 64) (arr.getD 0 [])).bind fun ts =>
  (parseNat? (2 ^ 64) (arr.getD 3 [])).bind fun p =>
  (parseNat? (2 ^ 64) (arr.getD 4 [])).bind fun b =>
  (parseNat? (2 ^ 64) (arr.getD 5 [])).bind fun c =>
  (parseNat? (2 ^ 64) (arr.getD 6 [])).bind fun e =>
  (parseNat? (2 ^ 64) (arr.getD 7 [])).bind fun rt =>
  (optField arr 8 (parseNat? (2 ^ 64)) 0).bind fun oc =>
  (optField arr 9 (parseNat? (2 ^ 32)) 0).bind fun cc =>
  (optField arr 10 parseInt32? 0).bind fun cl =>
  some { ts := ts, res := arr.getD 2 [], pass := p, block := b, complete := c, error := e, rt := rt,
         occ := oc, conc := cc, cls := cl }

/-- the lines `readLine` returns until EOF: split at LF, a final piece without LF is returned too,
    nothing after a final LF -/
def splitLines : Bytes → List Bytes
  | [] => []
  | b :: r =>
    if b = LF then [] :: splitLines r
    else match splitLines r with
      | [] => [[b]]
      | l :: ls => (b :: l) :: ls

/-- `ReadLine` drops a CR that stands directly in front of the LF (and only there: a CR at the very end
    of a file without LF stays) -/
def stripCRLF : Bytes → Bytes
  | [] => []
  | [b] => [b]
  | a :: b :: r => if a = CR ∧ b = LF then LF :: stripCRLF r else a :: stripCRLF (b :: r)

/-- size of the `bufio.Reader` of `reader.go` -/
def bufSize : Nat := 8192

/-- length of the unterminated tail (the bytes after the last LF) -/
def tailLenAux : Nat → Bytes → Nat
  | acc, [] => acc
  | acc, b :: r => if b = LF then tailLenAux 0 r else tailLenAux (acc + 1) r

def tailLen (d : Bytes) : Nat := tailLenAux 0 d

/-- what `readLine` (reader.go) returns until EOF.  It reassembles a line longer than the buffer from
    `ReadLine` chunks; if the file ends *without LF* exactly when a chunk has filled the buffer (the
    unterminated tail is a positive multiple of `bufSize` long) the next `ReadLine` reports EOF and
    `readLine` returns that error instead of the accumulated line: the tail is dropped. -/
def readerLines (d : Bytes) : List Bytes :=
  if 0 < tailLen d ∧ tailLen d % bufSize = 0 then (splitLines d).dropLast else splitLines d

/-- the last, unterminated piece as `readLine` delivers it -/
def tailLine (f : Bytes) : List Bytes := if f.length % bufSize = 0 then [] else [f]

/-- what a torn last line contributes to a read -/
def tornParse (f : Bytes) : List Item := (tailLine f).filterMap parseLine

/-- the items the readers see from byte `off` of a data file on: every line that parses (the others
    are logged and skipped) -/
def itemsFrom (data : Bytes) (off : Nat) : List Item :=
  (readerLines (stripCRLF (data.drop off))).filterMap parseLine

/-- the items whose line (with its LF) lies wholly before byte `k` of `serialise its` -/
def wholeLines : List Item → Nat → List Item
  | [], _ => []
  | it :: r, k => if (fat it).length + 1 ≤ k then it :: wholeLines r (k - ((fat it).length + 1)) else []

/-- the bytes of the line that byte `k` falls into (`[]` when `k` is on a line boundary) -/
def fragment : List Item → Nat → Bytes
  | [], _ => []
  | it :: r, k => if (fat it).length + 1 ≤ k then fragment r (k - ((fat it).length + 1)) else (fat it).take k

/-- the item the fragment belongs to -/
def tornItem : List Item → Nat → Option Item
  | [], _ => none
  | it :: r, k => if (fat it).length + 1 ≤ k then tornItem r (k - ((fat it).length + 1)) else some it

/-! ## L2: the index file (big-endian `int64` pairs) -/

def be8 (n : Nat) : Bytes :=
  [n / 2 ^ 56 % 256, n / 2 ^ 48 % 256, n / 2 ^ 40 % 256, n / 2 ^ 32 % 256,
   n / 2 ^ 24 % 256, n / 2 ^ 16 % 256, n / 2 ^ 8 % 256, n % 256]

def beVal (bs : Bytes) : Nat := bs.foldl (fun a b => a * 256 + b) 0

def encodeIdx : List (Nat × Nat) → Bytes
  | [] => []
  | (s, o) :: r => be8 s ++ be8 o ++ encodeIdx r

/-! ## directory, writer -/

/-- file name `<app>-metrics.log.<date>[.<seq>]`: `(day number, seq)`, `seq = 0` is the name without suffix -/
abbrev Name := Nat × Nat

structure File where
  name : Name
  data : Bytes
  idx : Bytes
  lines : List Item := []          -- ghost: items written to this file
  ents : List (Nat × Nat) := []    -- ghost: index entries written to this file
deriving Repr, Inhabited

abbrev Dir := List File

structure Writer where
  files : Dir                      -- listing order; the last one is open for append
  latestOpSec : Nat
  maxSize : Nat
  maxFiles : Nat
  createdSec : Nat                 -- ghost: second of creation
deriving Repr, Inhabited

def dayOf (sec : Nat) : Nat := sec / 86400      -- time-zone offset 0 (the harness runs in UTC)

/-- `nextFileNameOfTime`: the files of the same date, the number of the last one plus one -/
def nextName (fs : Dir) (ts : Nat) : Name :=
  let d := dayOf (ts / 1000)
  match (fs.filter fun f => f.name.1 == d).getLast? with
  | none => (d, 0)
  | some f => (d, f.name.2 + 1)

/-- `rollToNextFile` = name, `removeDeprecatedFiles`, create -/
def Writer.roll (w : Writer) (ts : Nat) : Writer :=
  let nm := nextName w.files ts
  { w with files := w.files.drop (w.files.length + 1 - w.maxFiles) ++ [{ name := nm, data := [], idx := [] }] }

/-- `NewDefaultMetricLogWriterOfApp` + `initialize` at clock reading `nowMs` (limits non-zero) -/
def Writer.new (nowMs maxSize maxFiles : Nat) : Writer :=
  { ({ files := [], latestOpSec := 0, maxSize := maxSize, maxFiles := maxFiles, createdSec := nowMs / 1000 } : Writer).roll nowMs
    with latestOpSec := nowMs / 1000 }

def modLast (l : Dir) (f : File → File) : Dir :=
  match l with
  | [] => []
  | [x] => [f x]
  | x :: y :: r => x :: modLast (y :: r) f

def curSize (fs : Dir) : Nat :=
  match fs.getLast? with
  | some f => f.data.length
  | none => 0

/-- `writeIndex(sec, pos)` with `pos` = the current position in the data file -/
def Writer.addIndex (w : Writer) (sec : Nat) : Writer :=
  let pos := curSize w.files
  { w with files := modLast w.files fun f =>
      { f with idx := f.idx ++ be8 sec ++ be8 pos, ents := f.ents ++ [(sec, pos)] } }

/-- `writeItemsAndFlush` -/
def Writer.append (w : Writer) (items : List Item) : Writer :=
  { w with files := modLast w.files fun f =>
      { f with data := f.data ++ serialise items, lines := f.lines ++ items } }

def Writer.rollIf (w : Writer) (c : Bool) (ts : Nat) : Writer := if c then w.roll ts else w

/-- `Write(ts, items)` after the argument checks (`items ≠ []`, `ts > 0`) -/
def Writer.write (w : Writer) (ts : Nat) (items : List Item) : Writer :=
  let sec := ts / 1000
  if sec < w.latestOpSec then w else
  let items := items.map fun i => { i with ts := ts, res := sanitize i.res }
  let w1 := if sec > w.latestOpSec then (w.addIndex sec).rollIf (decide (dayOf sec > dayOf w.latestOpSec)) ts else w
  let w2 := w1.append items
  let w3 := w2.rollIf (decide (curSize w2.files ≥ w2.maxSize)) ts
  { w3 with latestOpSec := max w3.latestOpSec sec }

/-- a write history: `(ts, items)` per call of `Write` -/
def runWrites (w : Writer) (h : List (Nat × List Item)) : Writer := h.foldl (fun w p => w.write p.1 p.2) w

/-- a **restart**: `NewDefaultMetricLogWriterOfApp` + `initialize` at clock reading `nowMs` on the
    directory the previous writer left behind, with its own limits.  The constructor keeps no state
    from the files: it names the next file of the day (`nextFileNameOfTime`), removes the deprecated
    files according to the *new* limit, creates the file and sets `latestOpSec` to the clock. -/
def Writer.reopen (w : Writer) (nowMs maxSize maxFiles : Nat) : Writer :=
  { ({ files := w.files, latestOpSec := 0, maxSize := maxSize, maxFiles := maxFiles, createdSec := nowMs / 1000 } : Writer).roll nowMs
    with latestOpSec := nowMs / 1000 }

/-- what happens to a log directory: calls of `Write`, and restarts of the writer -/
inductive Ev where
  | write (ts : Nat) (items : List Item)
  | reopen (nowMs maxSize maxFiles : Nat)

def Writer.apply (w : Writer) : Ev → Writer
  | .write ts items => w.write ts items
  | .reopen now ms mf => w.reopen now ms mf

def runEvents (w : Writer) (evs : List Ev) : Writer := evs.foldl Writer.apply w

/-- a crash: the last data file keeps only its first `k` bytes -/
def cutData (fs : Dir) (k : Nat) : Dir := modLast fs fun f => { f with data := f.data.take k }
/-- a crash: the last index file keeps only its first `k` bytes -/
def cutIdx (fs : Dir) (k : Nat) : Dir := modLast fs fun f => { f with idx := f.idx.take k }

/-! ## L1: searcher (`searcher.go`) -/

/-- `filePosition` (file names instead of paths; `none` = the empty string) -/
structure Cache where
  metricFile : Option Name := none
  idxFile : Option Name := none
  curOffsetInIdx : Nat := 0
  curSecInIdx : Nat := 0
deriving Repr, DecidableEq, Inhabited

inductive Found where
  | at (off : Nat)
  | notFound
  | error
deriving Repr, DecidableEq

/-- the read loop of `findOffsetToStart` over the idx bytes from `pos` on -/
def idxScan : Nat → Bytes → Nat → Nat → Cache → Name → Cache × Found
  | 0, _, _, _, c, _ => (c, .notFound)
  | fuel + 1, bs, pos, beginSec, c, nm =>
    if bs.length = 0 then (c, .notFound)
    else if bs.length < 8 then (c, .error)
    else
      let sec := beVal (bs.take 8)
      let rest := bs.drop 8
      if sec ≥ beginSec then
        if rest.length < 8 then (c, .error)
        else ({ c with metricFile := some nm, idxFile := some nm, curSecInIdx := sec }, .at (beVal (rest.take 8)))
      else if rest.length < 8 then (c, .error)
      else idxScan fuel (rest.drop 8) (pos + 16) beginSec { c with curOffsetInIdx := pos + 16 } nm

/-- `findOffsetToStart(filename, beginTimeMs, lastPos)` -/
def findOffsetToStart (f : File) (c : Cache) (beginMs lastPos : Nat) : Cache × Found :=
  let c0 := { c with idxFile := none, metricFile := none, curOffsetInIdx := lastPos }
  idxScan (f.idx.length + 1) (f.idx.drop lastPos) lastPos (beginMs / 1000) c0 f.name

/-- `isPositionInTimeFor` (an error return counts as "no") -/
def cacheOk (fs : Dir) (c : Cache) (beginMs : Nat) : Bool :=
  if beginMs / 1000 < c.curSecInIdx then false else
  match c.idxFile with
  | none => false
  | some n => match fs.find? (fun f => f.name == n) with
    | none => false
    | some f =>
      let bs := f.idx.drop c.curOffsetInIdx
      if bs.length < 8 then false else beVal (bs.take 8) == c.curSecInIdx

/-- first index `j` with `fs[j].name ≠ m` -/
def firstOther (fs : Dir) (m : Option Name) (j : Nat) : Option Nat :=
  match fs with
  | [] => none
  | f :: r => if some f.name != m then some j else firstOther r m (j + 1)

/-- `getOffsetStartAndFileIdx` (with the `!=` of the source): `(offset in idx, file number)` -/
def offsetStartAndFile (fs : Dir) (c : Cache) (beginMs : Nat) : Nat × Nat :=
  if cacheOk fs c beginMs then
    match firstOther fs c.metricFile 0 with
    | some j => (c.curOffsetInIdx, j)
    | none => (0, 0)
  else (0, 0)

/-! ## L1: reader (`reader.go`) -/

def resMatch (res : Bytes) (it : Item) : Bool := res == [] || res == it.res

/-- the loop of `readMetricsInOneFileByEndTime` over the parsed lines: `(items, shouldContinue)` -/
def scanEnd (beginSec endSec : Nat) (res : Bytes) : List Item → List Item × Bool
  | [] => ([], true)
  | it :: r =>
    if it.ts / 1000 < beginSec ∨ it.ts / 1000 > endSec then ([], false)
    else
      let (xs, c) := scanEnd beginSec endSec res r
      (if resMatch res it then it :: xs else xs, c)

/-- the file loop of `ReadMetricsByEndTime` after the first file -/
def readByEndRest (beginSec endSec : Nat) (res : Bytes) : Dir → List Item
  | [] => []
  | f :: r =>
    let (xs, c) := scanEnd beginSec endSec res (itemsFrom f.data 0)
    if c then xs ++ readByEndRest beginSec endSec res r else xs

/-- `ReadMetricsByEndTime(names, fileNo, offset, beginMs, endMs, resource)`; `fs` = the files from `fileNo` on -/
def readByEnd (fs : Dir) (off beginMs endMs : Nat) (res : Bytes) : List Item :=
  match fs with
  | [] => []
  | f :: r =>
    let (xs, c) := scanEnd (beginMs / 1000) (endMs / 1000) res (itemsFrom f.data off)
    if c then xs ++ readByEndRest (beginMs / 1000) (endMs / 1000) res r else xs

/-- the loop of `readMetricsInOneFile`: `n` = `prevSize + len(items)` so far -/
def scanFrom (maxLines : Nat) : List Item → Nat → Nat → List Item × Bool
  | [], _, n => ([], decide (n < maxLines))
  | it :: r, lastSec, n =>
    if n ≥ maxLines ∧ it.ts / 1000 ≠ lastSec then ([], false)
    else
      let (xs, c) := scanFrom maxLines r (it.ts / 1000) (n + 1)
      (it :: xs, c)

def latestSecond (items : List Item) : Nat :=
  match items.getLast? with
  | some it => it.ts / 1000
  | none => 0

/-- the file loop of `ReadMetrics` after the first file; `acc` = items so far -/
def readFromRest (maxLines : Nat) : List (List Item) → List Item → List Item
  | [], acc => acc
  | its :: r, acc =>
    if acc.length ≥ maxLines then acc
    else
      let (xs, c) := scanFrom maxLines its (latestSecond acc) acc.length
      if c then readFromRest maxLines r (acc ++ xs) else acc ++ xs

/-- `ReadMetrics` over the already parsed files (first one from the start offset) -/
def readFromItems (maxLines : Nat) : List (List Item) → List Item
  | [] => []
  | its :: r =>
    let (xs, c) := scanFrom maxLines its 0 0
    if c then readFromRest maxLines r xs else xs

/-- `ReadMetrics(names, fileNo, offset, maxLines)`; `fs` = the files from `fileNo` on -/
def readFrom (fs : Dir) (off maxLines : Nat) : List Item :=
  match fs with
  | [] => []
  | f :: r => readFromItems maxLines (itemsFrom f.data off :: r.map fun g => itemsFrom g.data 0)

/-! ## L1: `searchOffsetAndRead` -/

/-- the file loop of `searchOffsetAndRead`: `fs` = files from the current number on -/
def searchLoop (doRead : Dir → Nat → List Item) (beginMs offStart : Nat) : Dir → Cache → Cache × List Item
  | [], c => (c, [])
  | f :: r, c =>
    match findOffsetToStart f c beginMs offStart with
    | (c', .at off) => (c', doRead (f :: r) off)
    | (c', _) => searchLoop doRead beginMs offStart r c'

def search (doRead : Dir → Nat → List Item) (fs : Dir) (c : Cache) (beginMs : Nat) : Cache × List Item :=
  let (offStart, fileNo) := offsetStartAndFile fs c beginMs
  searchLoop doRead beginMs offStart (fs.drop fileNo) c

/-- `FindByTimeAndResource` -/
def find (fs : Dir) (c : Cache) (beginMs endMs : Nat) (res : Bytes) : Cache × List Item :=
  search (fun d off => readByEnd d off beginMs endMs res) fs c beginMs

/-- `FindFromTimeWithMaxLines` -/
def findFrom (fs : Dir) (c : Cache) (beginMs maxLines : Nat) : Cache × List Item :=
  search (fun d off => readFrom d off maxLines) fs c beginMs

/-! ## L0: the abstract reference -/

/-- what was written and is still inside the retained files, in writing order -/
def retained (fs : Dir) : List Item := fs.flatMap (·.lines)

def inRange (beginMs endMs : Nat) (it : Item) : Bool :=
  decide (beginMs / 1000 ≤ it.ts / 1000) && decide (it.ts / 1000 ≤ endMs / 1000)

/-- the answer the property asks of `FindByTimeAndResource` over the written items `w` -/
def specFind (w : List Item) (beginMs endMs : Nat) (res : Bytes) : List Item :=
  w.filter fun it => inRange beginMs endMs it && resMatch res it

/-- the answer the property asks of `FindFromTimeWithMaxLines`: the items from the first one not
    before `begin` on, cut by the line-limit rule of the reader (`maxLines` lines, then to the end of
    that second; never beyond the end of a file once the limit is reached) -/
def specFrom (files : List (List Item)) (beginMs maxLines : Nat) : List Item :=
  let dropFile (its : List Item) := its.dropWhile fun it => decide (it.ts / 1000 < beginMs / 1000)
  readFromItems maxLines ((files.map dropFile).dropWhile fun its => its.isEmpty)

end Sentinel.MetricLog
