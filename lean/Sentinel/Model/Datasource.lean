/-!
# C18 model, part 1: the property handler state machine and the refreshable file source (core Lean only)

Transcribed from `ext/datasource/property.go` (`DefaultPropertyHandler.Handle`, `isPropertyConsistent`),
`ext/datasource/helper.go` (`*RulesUpdater`) and `ext/datasource/file/refreshable_file.go`.

* The converter is a **parameter** (`conv`): it may return an error, a value (`none` = the `(nil, nil)` the
  parsers return for an empty source) or panic (the hotspot converter dereferences a `null` element).
* `reflect.DeepEqual(src, lastUpdateProperty)` is a **parameter** (`eqv`): nothing is assumed about it (it is not
  even reflexive in Go: a hotspot rule whose specific items contain a NaN key is never equal to itself, and the
  flow module writes the default cold factor into the rule the handler still holds).
* The updater is a parameter of the generic machine; `loadUpd` is the one the five modules instantiate:
  `nil` ⇒ `ClearRules`, a list ⇒ `LoadRules`, abstracted (M-RULES, C13) to "the valid rules of the list are in
  force, after the module's normalisation".
* Go's `defer recover()` in `Handle` has no named result: a recovered panic makes `Handle` return the zero value,
  i.e. a **nil error**.  `handleBody` propagates panics explicitly, `handle` is the body under that `recover`.
-/
namespace Sentinel.Datasource

/-- result of a `PropertyConverter` -/
inductive Conv (D : Type) where
  | err
  | panic
  | ok (v : Option D)
  deriving Repr

/-- result of a `PropertyUpdater`, with the downstream state it leaves behind -/
inductive Upd (M : Type) where
  | ok (m : M)
  | err (m : M)
  | panic (m : M)

/-- what `Handle` hands back to the datasource -/
inductive Ret where
  | nil
  | err
  deriving DecidableEq, Repr

/-- a Go call either returns or unwinds with a panic -/
inductive Outcome (α : Type) where
  | ret (a : α)
  | panicked
  deriving DecidableEq, Repr

/-- `DefaultPropertyHandler`: the only state is `lastUpdateProperty` (`none` = nil interface) -/
structure Handler (D : Type) where
  last : Option D := none
  deriving Repr

/-- the function body of `Handle`, panics propagated -/
def handleBody {B D M : Type} (conv : B → Conv D) (eqv : Option D → Option D → Bool)
    (upd : Option D → M → Upd M) (h : Handler D) (m : M) (src : B) : Handler D × M × Outcome Ret :=
  match conv src with
  | .panic => (h, m, .panicked)
  | .err => (h, m, .ret .err)
  | .ok v =>
    if eqv v h.last then (h, m, .ret .nil)            -- isPropertyConsistent: true, nothing written
    else
      let h' : Handler D := { last := v }             -- isPropertyConsistent: remembers *before* updating
      match upd v m with
      | .ok m' => (h', m', .ret .nil)
      | .err m' => (h', m', .ret .err)
      | .panic m' => (h', m', .panicked)

/-- `defer func(){ if err := recover(); err != nil { log } }()` around a body with an unnamed result -/
def recovered {σ : Type} (x : σ × Outcome Ret) : σ × Outcome Ret :=
  match x with
  | (s, .panicked) => (s, .ret .nil)
  | r => r

/-- `DefaultPropertyHandler.Handle` as the datasource sees it -/
def handle {B D M : Type} (conv : B → Conv D) (eqv : Option D → Option D → Bool)
    (upd : Option D → M → Upd M) (h : Handler D) (m : M) (src : B) : Handler D × M × Outcome Ret :=
  let (h', m', o) := handleBody conv eqv upd h m src
  let (p, o') := recovered ((h', m'), o)
  (p.1, p.2, o')

/-! ## The rule manager behind the updater (M-RULES, minimal) -/

/-- what a `[]*Rule` property looks like: `none` = nil slice (payload `null`), elements `none` = nil pointers -/
abbrev WireList (R : Type) := Option (List (Option R))

def WireList.elems {R : Type} : WireList R → List R
  | none => []
  | some xs => xs.filterMap id

/-- `buildResourceTrafficShapingController` (flow, hotspot): a new rule that the module judges *equal* to a rule
    already in force (`isEqualsTo` / `Equals`: the ID is not compared, irrelevant fields are not compared, flow
    thresholds are compared up to 1e-8) keeps the **old** controller and with it the old rule object; otherwise a
    controller is built for the (normalised) new rule.  `equiv old new`, `reusable old new`. -/
def reuseBuild {R : Type} (equiv reusable : R → R → Bool) (norm : R → R) : List R → List R → List R
  | _, [] => []
  | old, r :: rs =>
    match old.find? (fun o => equiv o r) with
    | some o => o :: reuseBuild equiv reusable norm (old.eraseP (fun o => equiv o r)) rs
    | none =>
      -- a new controller; it takes over the statistics of the first old controller whose rule is stat-reusable
      -- (`isStatReusable`), which is thereby no longer a candidate for the rules that follow
      norm r :: reuseBuild equiv reusable norm (old.eraseP (fun o => reusable o r)) rs

/-- the valid rules of a delivered property -/
def validElems {R : Type} (valid : R → Bool) : Option (WireList R) → List R
  | none => []
  | some l => l.elems.filter valid

/-- rules in force after the updater ran on `d` with `old` in force: nil rules skipped (fix 9992752), invalid ones
    ignored; `data == nil` ⇒ ClearRules -/
def enforcedOf {R : Type} (valid : R → Bool) (norm : R → R) (equiv reusable : R → R → Bool) (old : List R)
    (d : Option (WireList R)) : List R :=
  reuseBuild equiv reusable norm old (validElems valid d)

structure Mgr (R : Type) where
  enforced : List R := []
  deriving Repr

/-- what a module needs to say about its rules -/
structure Module (R : Type) where
  valid : R → Bool
  norm : R → R := id
  equiv : R → R → Bool := fun _ _ => false
  reusable : R → R → Bool := fun _ _ => false

/-- `FlowRulesUpdater` & co. -/
def loadUpd {R : Type} (mo : Module R) (d : Option (WireList R)) (m : Mgr R) : Upd (Mgr R) :=
  .ok { enforced := enforcedOf mo.valid mo.norm mo.equiv mo.reusable m.enforced d }

/-- one delivery on a module -/
def deliver {B R : Type} (conv : B → Conv (WireList R)) (eqv : Option (WireList R) → Option (WireList R) → Bool)
    (mo : Module R) (s : Handler (WireList R) × Mgr R) (src : B) :
    (Handler (WireList R) × Mgr R) × Outcome Ret :=
  let (h, m, o) := handle conv eqv (loadUpd mo) s.1 s.2 src
  ((h, m), o)

/-- `datasource.Base.Handle` (`ext/datasource/datasource.go`): every registered handler gets the payload, in registration
    order; the handlers' errors are collected (`multierr.Append`) and one `HandleSourceError` is returned iff at least one
    handler failed.  `Base` has **no state of its own** besides the handler list: in particular it does not remember,
    compare or keep the payload (a datasource may hand it the same reused buffer every time). -/
def baseDeliver {B R : Type} (conv : B → Conv (WireList R)) (eqv : Option (WireList R) → Option (WireList R) → Bool)
    (mo : Module R) (ss : List (Handler (WireList R) × Mgr R)) (src : B) :
    List (Handler (WireList R) × Mgr R) × Outcome Ret :=
  let rs := ss.map fun s => deliver conv eqv mo s src
  (rs.map (·.1), if rs.any (fun r => r.2 == Outcome.ret Ret.err) then .ret .err else .ret .nil)

/-! ## Refreshable file datasource (abstract) -/

/-- what happens to the watched path / what the watcher goroutine does -/
inductive FileEv (B : Type) where
  | write (c : B)     -- the file's content becomes `c` in place (an event is queued)
  | proc              -- the watcher goroutine handles one queued write event: `doReadAndUpdate` on the *current* content
  | remove            -- the file is removed and the goroutine handles that: `Handle(nil)`, close
  | renameAway        -- the file is renamed away; the goroutine handles that: `Handle(nil)`, un-watch, start the re-watch retries
  | recreate (c : B)  -- a complete new file appears at the path; if the retries are pending the next `watcher.Add` succeeds
                      -- and the loop **falls through to `doReadAndUpdate`** (no event will ever announce that file)
  | giveUp            -- nothing appeared during the six retries: the source closes itself
  | replaceOver (c : B) -- a temp file is renamed over the path (editors, config management): the path now holds `c`, but the
                      -- *watched inode* lost its last link: a Chmod event (⇒ `doReadAndUpdate`, which reads the new file) and
                      -- then a Remove event (⇒ `Handle(nil)`, close)

structure FileSrc (B R : Type) where
  content : Option B                         -- `none`: the path does not exist
  closed : Bool := false
  pending : Bool := false                    -- a write has not been looked at yet
  rewatching : Bool := false                 -- the goroutine is inside the re-watch retry loop (it handles nothing else meanwhile)
  hm : Handler (WireList R) × Mgr R := ({}, {})

/-- `Initialize`: first `doReadAndUpdate`, then the watcher (which needs the file to exist) -/
def FileSrc.init {B R : Type} (conv : B → Conv (WireList R)) (eqv : Option (WireList R) → Option (WireList R) → Bool) (mo : Module R)
    (content : Option B) : FileSrc B R × Bool :=
  match content with
  | none => ({ content := none, closed := true }, false)           -- read fails (logged), `watcher.Add` fails: error returned
  | some c => ({ content := some c, hm := (deliver conv eqv mo ({}, {}) c).1 }, true)

def FileSrc.step {B R : Type} (conv : B → Conv (WireList R)) (eqv : Option (WireList R) → Option (WireList R) → Bool) (mo : Module R)
    (empty : B) (s : FileSrc B R) : FileEv B → FileSrc B R
  | .write c => if s.content.isSome then { s with content := some c, pending := true } else s
  | .proc =>
    if s.closed || s.rewatching then s else
    match s.content with
    | none => s
    | some c => { s with hm := (deliver conv eqv mo s.hm c).1, pending := false }
  | .remove =>
    if s.closed || s.rewatching then { s with content := none } else
    { s with content := none, closed := true, pending := false, hm := (deliver conv eqv mo s.hm empty).1 }
  | .renameAway =>
    if s.closed || s.rewatching then { s with content := none } else
    { s with content := none, rewatching := true, pending := false, hm := (deliver conv eqv mo s.hm empty).1 }
  | .recreate c =>
    if s.closed then { s with content := some c }
    else if s.rewatching then
      { s with content := some c, rewatching := false, pending := false, hm := (deliver conv eqv mo s.hm c).1 }
    else s
  | .giveUp => if s.rewatching then { s with rewatching := false, closed := true } else s
  | .replaceOver c =>
    if s.closed then { s with content := some c }
    else if s.rewatching then                       -- nothing is watched at the moment: the same as `recreate`
      { s with content := some c, rewatching := false, pending := false, hm := (deliver conv eqv mo s.hm c).1 }
    else
      let hm1 := (deliver conv eqv mo s.hm c).1
      { s with content := some c, closed := true, pending := false, hm := (deliver conv eqv mo hm1 empty).1 }

def FileSrc.run {B R : Type} (conv : B → Conv (WireList R)) (eqv : Option (WireList R) → Option (WireList R) → Bool) (mo : Module R)
    (empty : B) (s : FileSrc B R) (evs : List (FileEv B)) : FileSrc B R :=
  evs.foldl (FileSrc.step conv eqv mo empty) s

end Sentinel.Datasource
