import Sentinel.Model.LeapArray
/-!
# M-CB — the circuit breaker (core Lean only, executable)

Mirrors `core/circuitbreaker/circuit_breaker.go`, `slot.go`, `stat_slot.go`:

* `tryPass`      = `*CircuitBreaker.TryPass` (identical text in the three strategies)
* `onComplete`   = `*CircuitBreaker.OnRequestComplete` (shared shape; the strategies differ in what a
                   *bad* completion is and in the trip predicate `Rule.reached`)
* `checkPass`    = `checkPass` in `slot.go` (breakers of the resource in rule order, early exit)
* `rollback`     = the `WhenExit` hook registered by `fromOpenToHalfOpen`, run by `Entry.Exit` of a
                   *blocked* entry: `HalfOpen → Open`, deadline and probe counter untouched
* `reuseIdx` / `build` = `calculateReuseIndexFor` / `BuildResourceCircuitBreaker`; `Op.load` / `Op.loadRes` =
                   `LoadRules` / `LoadRulesOfResource` at any point of a history (statistics are reused per the
                   code's rules; a statistic is a value owned by exactly one breaker)
* `completeAll`  = `MetricStatSlot.OnCompleted`: **one** `OnRequestComplete` per breaker per completed entry —
                   `ctx.Input.BatchCount` (`WithBatchCount(n)`, any `n` incl. 0) is *not* read by the breaker
                   slots; `Op.entry` carries it and `step` ignores it

The machine is written **once**, generic in the store `W` of the per-breaker sliding counters and its two
operations (`WinOps`): the driver's `model` mode instantiates it with the code-shaped leap array
(`laOps`: `currentCounter()` = refresh + add on the current bucket, `allCounter()` = all non-deprecated
buckets, `resetMetric` = zero every non-deprecated bucket), the `spec` mode with the bare history of
completions (`histOps`: filter-and-sum over the completions whose bucket lies in the last `n` buckets;
clear = forget the history).  `Sentinel.C03.refines_abstract` proves that both produce the same outputs.
-/
namespace Sentinel.CB
open Sentinel.LA

inductive St | closed | halfOpen | opened
deriving DecidableEq, Repr, Inhabited

inductive Kind | slow | ratio | count
deriving DecidableEq, Repr, Inhabited

/-- payload of a bucket: `slowRequestCounter{slowCount,totalCount}` / `errorCounter{errorCount,totalCount}` -/
structure Cnt where
  bad : Nat := 0
  total : Nat := 0
deriving DecidableEq, Repr

instance : Zero Cnt := ⟨{}⟩
instance : Add Cnt := ⟨fun a b => { bad := a.bad + b.bad, total := a.total + b.total }⟩

structure Rule where
  res : String
  kind : Kind
  retryMs : Nat
  minReq : Nat
  statI : Nat
  buckets : Nat          -- `StatSlidingWindowBucketCount` as given
  maxRt : Nat
  probeNum : Nat
  /-- bit pattern of `Threshold` (only compared for equality, by the rule manager's reuse calculus) -/
  thrBits : Nat := 0
  /-- the trip predicate on `(bad, total)` of the window: `slow/total` resp. `err/total` `> T` or within
      `1e-8` of `T` (float64), `err ≥ uint64(T)` for the error count.  A parameter of every theorem;
      the driver instantiates it with Lean `Float` (DESIGN 3.3). -/
  reached : Nat → Nat → Bool

/-- `getRuleStatSlidingWindowBucketCount` -/
def Rule.n (r : Rule) : Nat := if r.buckets = 0 ∨ r.statI % r.buckets ≠ 0 then 1 else r.buckets
/-- bucket length of the breaker's leap array (`NewLeapArray`) -/
def Rule.L (r : Rule) : Nat := r.statI / r.n

/-- `old.isEqualsTo(new)` (`rule.go`): `isEqualsToBase` plus the strategy's own fields; the `Id` is not compared.
    The code compares thresholds with `util.Float64Equals` (1e-8 tolerance); here bit patterns are compared, which
    is the same as long as two thresholds of one history are either identical or further apart than the tolerance
    (the generator's 1/1000 grid; rule equality as such belongs to C13/C14). -/
def Rule.eqv (o n : Rule) : Bool :=
  o.res == n.res && o.kind == n.kind && o.retryMs == n.retryMs && o.minReq == n.minReq && o.statI == n.statI
    && o.buckets == n.buckets && o.probeNum == n.probeNum
    && (match n.kind with
        | .slow => o.maxRt == n.maxRt && o.thrBits == n.thrBits
        | _ => o.thrBits == n.thrBits)

/-- `old.isStatReusable(new)` -/
def Rule.statReusable (o n : Rule) : Bool :=
  o.res == n.res && o.kind == n.kind && o.statI == n.statI && o.buckets == n.buckets

/-- the `snapshot` argument of `OnTransformToOpen` -/
inductive Snap
  | stat (bad total : Nat)   -- the ratio / the error count that tripped the breaker
  | probe                    -- failed probe (`1.0` / `1`)
  | rollback                 -- exit hook of a blocked probe (`1.0`)
deriving DecidableEq, Repr

/-- listener callbacks -/
inductive Tr
  | toOpen (prev : St) (snap : Snap)
  | toHalfOpen               -- `prev` is hard-wired to Open in the code
  | toClosed                 -- `prev` is hard-wired to HalfOpen in the code
deriving DecidableEq, Repr

structure Ev where
  id : Nat
  tr : Tr
deriving DecidableEq, Repr

/-- the two things a breaker does with its sliding counters -/
structure WinOps (W : Type) where
  /-- `currentCounter()`, add to it, then sum `allCounter()`; `none` = no current bucket (error path) -/
  record : W → Nat → Cnt → Option (W × Cnt)
  /-- `resetMetric()` -/
  reset : W → Nat → W
  /-- `sbase.NewLeapArray(bucketCount, interval, …)` at clock reading `now` -/
  fresh : Nat → W

structure Brk (W : Type) where
  id : Nat
  rule : Rule
  st : St := .closed
  nextRetry : Nat := 0
  curProbe : Nat := 0
  w : W

variable {W : Type}

/-- `TryPass`; 4th component: the entry registers the rollback hook (`fromOpenToHalfOpen`) -/
def tryPass (b : Brk W) (now : Nat) : Brk W × Bool × List Tr × Bool :=
  match b.st with
  | .closed => (b, true, [], false)
  | .opened =>
    if b.nextRetry ≤ now then ({ b with st := .halfOpen }, true, [.toHalfOpen], true)
    else (b, false, [], false)
  | .halfOpen => (b, decide (0 < b.rule.probeNum), [], false)

/-- is this completion *bad* for the strategy: slow (`rt > MaxAllowedRtMs`) resp. `err != nil` -/
def isBad (r : Rule) (rt : Nat) (err : Bool) : Bool :=
  match r.kind with
  | .slow => decide (r.maxRt < rt)
  | _ => err

/-- `OnRequestComplete(rt, err)` at clock reading `now` -/
def onComplete (ops : Rule → WinOps W) (b : Brk W) (now rt : Nat) (err : Bool) : Brk W × List Tr :=
  let bad := isBad b.rule rt err
  match (ops b.rule).record b.w now { bad := if bad then 1 else 0, total := 1 } with
  | none => (b, [])
  | some (w1, tot) =>
    let b1 := { b with w := w1 }
    match b.st with
    | .opened => (b1, [])
    | .halfOpen =>
      if bad then
        -- fromHalfOpenToOpen(1.0)
        ({ b1 with st := .opened, curProbe := 0, nextRetry := now + b.rule.retryMs }, [.toOpen .halfOpen .probe])
      else
        let cp := b.curProbe + 1
        if b.rule.probeNum = 0 ∨ b.rule.probeNum ≤ cp then
          -- fromHalfOpenToClosed(); resetMetric()
          ({ b1 with st := .closed, curProbe := 0, w := (ops b.rule).reset w1 now }, [.toClosed])
        else ({ b1 with curProbe := cp }, [])
    | .closed =>
      if tot.total < b.rule.minReq then (b1, [])
      else if b.rule.reached tot.bad tot.total then
        -- fromClosedToOpen(snapshot)
        ({ b1 with st := .opened, nextRetry := now + b.rule.retryMs }, [.toOpen .closed (.stat tot.bad tot.total)])
      else (b1, [])

/-- `checkPass`: the breakers after their `TryPass` (each paired with "this entry registered the rollback
    hook on it"), the id of the blocking breaker (`none` = pass), listener events -/
def checkPass (res : String) (now : Nat) : List (Brk W) → List (Brk W × Bool) × Option Nat × List Ev
  | [] => ([], none, [])
  | b :: bs =>
    if b.rule.res = res then
      let r := tryPass b now
      let ev0 := r.2.2.1.map (Ev.mk b.id)
      if r.2.1 then
        let q := checkPass res now bs
        ((r.1, r.2.2.2) :: q.1, q.2.1, ev0 ++ q.2.2)
      else ((r.1, r.2.2.2) :: bs.map (·, false), some b.id, ev0)
    else
      let q := checkPass res now bs
      ((b, false) :: q.1, q.2.1, q.2.2)

/-- exit hooks of a blocked entry, in registration order:
    `if ctx.IsBlocked() && state.cas(HalfOpen, Open) { listeners… }` — no deadline, no probe counter -/
def rollback : List (Brk W × Bool) → List (Brk W) × List Ev
  | [] => ([], [])
  | (b, hk) :: bs =>
    let q := rollback bs
    if hk = true ∧ b.st = .halfOpen then
      ({ b with st := .opened } :: q.1, ⟨b.id, .toOpen .halfOpen .rollback⟩ :: q.2)
    else (b :: q.1, q.2)

/-- `MetricStatSlot.OnCompleted` -/
def completeAll (ops : Rule → WinOps W) (res : String) (now rt : Nat) (err : Bool) :
    List (Brk W) → List (Brk W) × List Ev
  | [] => ([], [])
  | b :: bs =>
    let q := completeAll ops res now rt err bs
    if b.rule.res = res then
      let r := onComplete ops b now rt err
      (r.1 :: q.1, r.2.map (Ev.mk b.id) ++ q.2)
    else (b :: q.1, q.2)

/-- a passed entry that has not exited yet -/
structure Live where
  id : Nat
  res : String
  start : Nat
deriving DecidableEq, Repr

structure Sys (W : Type) where
  now : Nat := 0
  brs : List (Brk W) := []
  live : List Live := []
  /-- next unused breaker identity (the harness numbers the valid rules of all loads consecutively) -/
  next : Nat := 0

/-! ## rule (re)loading: `onRuleUpdate` / `onResourceRuleUpdate` / `BuildResourceCircuitBreaker` -/

/-- `calculateReuseIndexFor`: the first equal old breaker wins and ends the scan; otherwise the first
    stat-reusable one seen before that.  Returns `(equalIdx, reuseStatIdx)`.  (Both predicates compare the
    resource, so scanning the breakers of all resources is the same as scanning those of the rule's resource.) -/
def reuseIdx (r : Rule) : List (Brk W) → Nat → Option Nat → Option Nat × Option Nat
  | [], _, reuse => (none, reuse)
  | c :: cs, i, reuse =>
    if c.rule.eqv r then (some i, reuse)
    else if c.rule.statReusable r && reuse.isNone then reuseIdx r cs (i+1) (some i)
    else reuseIdx r cs (i+1) reuse

/-- `BuildResourceCircuitBreaker`: the new rules in order, each consuming at most one old breaker —
    an equal one is kept as it is (object, state, deadline, probe counter, counters, bound *old* rule);
    otherwise a new breaker (Closed, no deadline) is generated, bound to the statistic of the first
    stat-reusable old breaker if there is one (`new…CircuitBreakerWithStat`), which is then removed from
    the candidates, else to a fresh statistic.  Rule `i` of the list gets identity `next + i` (unused if
    the old breaker is kept). -/
def build (ops : Rule → WinOps W) (now : Nat) : List Rule → List (Brk W) → Nat → List (Brk W)
  | [], _, _ => []
  | r :: rs, old, next =>
    match reuseIdx r old 0 none with
    | (some i, _) =>
      match old[i]? with
      | some c => c :: build ops now rs (old.eraseIdx i) (next+1)
      | none => build ops now rs old (next+1)                 -- unreachable
    | (none, some j) =>
      match old[j]? with
      | some c => { id := next, rule := r, w := c.w } :: build ops now rs (old.eraseIdx j) (next+1)
      | none => build ops now rs old (next+1)                 -- unreachable
    | (none, none) => { id := next, rule := r, w := (ops r).fresh now } :: build ops now rs old (next+1)

inductive Op
  | clock (t : Nat)
  /-- `api.Entry(res, WithBatchCount(batch))`; the batch count is carried so that histories can vary it,
      but nothing in the breaker machine reads it: one entry is one completion whatever its batch
      (`Sentinel.C03.batch_irrelevant`) -/
  | entry (id : Nat) (res : String) (batch : Nat := 1)
  | exit (id : Nat) (err : Bool)
  /-- `circuitbreaker.LoadRules(rules)` (the valid rules, in list order); every resource is rebuilt -/
  | load (rules : List Rule)
  /-- `circuitbreaker.LoadRulesOfResource(res, rules)` (valid rules, all naming `res`); `[]` clears the resource -/
  | loadRes (res : String) (rules : List Rule)

/-- what one op shows: the decision of an `entry` (`some none` = pass, `some (some k)` = blocked by
    breaker `k`) and the listener callbacks it caused -/
structure Out where
  dec : Option (Option Nat) := none
  evs : List Ev := []
deriving DecidableEq, Repr

/-- `api.Entry(res)` with only circuit-breaking rules loaded -/
def doEntry (s : Sys W) (id : Nat) (res : String) : Sys W × Out :=
  let c := checkPass res s.now s.brs
  match c.2.1 with
  | none =>
    ({ s with brs := c.1.map (·.1), live := ⟨id, res, s.now⟩ :: s.live.filter (·.id ≠ id) },
     { dec := some none, evs := c.2.2 })
  | some k =>
    -- blocked: `e.Exit()` runs the exit hooks, `OnCompleted` is skipped
    let rb := rollback c.1
    ({ s with brs := rb.1 }, { dec := some (some k), evs := c.2.2 ++ rb.2 })

/-- `TraceError` (if `err`) and `entry.Exit()`; a second exit / an unknown id does nothing -/
def doExit (ops : Rule → WinOps W) (s : Sys W) (id : Nat) (err : Bool) : Sys W × Out :=
  match s.live.find? (·.id = id) with
  | none => (s, {})
  | some e =>
    let c := completeAll ops e.res s.now (s.now - e.start) err s.brs
    ({ s with brs := c.1, live := s.live.filter (·.id ≠ id) }, { evs := c.2 })

def step (ops : Rule → WinOps W) (s : Sys W) : Op → Sys W × Out
  | .clock t => ({ s with now := t }, {})
  | .entry id res _ => doEntry s id res
  | .exit id err => doExit ops s id err
  | .load rules =>
    ({ s with brs := build ops s.now rules s.brs s.next, next := s.next + rules.length }, {})
  | .loadRes res rules =>
    -- `oldResCbs = breakers[res]`; the other resources keep their breakers
    ({ s with brs := s.brs.filter (fun b => b.rule.res != res)
                      ++ build ops s.now rules (s.brs.filter fun b => b.rule.res == res) s.next,
              next := s.next + rules.length }, {})

/-- the rules an op loads -/
def Op.rules : Op → List Rule
  | .load rs => rs
  | .loadRes _ rs => rs
  | _ => []

/-- ids of the old breakers a (re)load consumes, in the order of the new rules (same skeleton as `build`):
    `Sentinel.C03.build_consumes_once` shows that no old breaker — hence no statistic — is handed out twice -/
def donorIds : List Rule → List (Brk W) → List Nat
  | [], _ => []
  | r :: rs, old =>
    match reuseIdx r old 0 none with
    | (some i, _) =>
      match old[i]? with
      | some c => c.id :: donorIds rs (old.eraseIdx i)
      | none => donorIds rs old
    | (none, some j) =>
      match old[j]? with
      | some c => c.id :: donorIds rs (old.eraseIdx j)
      | none => donorIds rs old
    | (none, none) => donorIds rs old

/-- outputs of a whole history -/
def run (ops : Rule → WinOps W) (s : Sys W) : List Op → Sys W × List Out
  | [] => (s, [])
  | o :: os =>
    let r := step ops s o
    let q := run ops r.1 os
    (q.1, r.2 :: q.2)

/-! ## the two stores -/

/-- `allCounter()` summed: every non-deprecated bucket -/
def laTotal (a : Arr Cnt) (now : Nat) : Cnt := ((valuesAt a now).map (·.val)).sum

/-- `resetMetric()`: `c.reset()` on every bucket of `allCounter()` -/
def laReset (a : Arr Cnt) (now : Nat) : Arr Cnt :=
  if now = 0 then a else
  { a with slots := a.slots.map fun s => if deprecated (a.n * a.L) now s.start then s else { s with val := 0 } }

/-- the code-shaped store: the breaker's own leap array -/
def laOps (r : Rule) : WinOps (Arr Cnt) where
  record a now x :=
    let r := addAt a now x
    if r.2 then some (r.1, laTotal r.1 now) else none
  reset := laReset
  fresh now := Sentinel.LA.mk r.n r.L now

/-- first bucket start of the window of `n` buckets ending with the bucket of `now` -/
def winLo (n L now : Nat) : Nat := cbs L now + L - n * L

/-- the abstract store: the completions since the last clear, counted by filter-and-sum over the
    last `n` aligned buckets -/
def histOps (r : Rule) : WinOps (List (Nat × Cnt)) where
  record h now x :=
    if now = 0 then none else
    let h1 := h ++ [(now, x)]
    some (h1, refW r.L h1 (winLo r.n r.L now) (cbs r.L now))
  reset _ _ := []
  fresh _ := []

/-- `newXxxCircuitBreaker(r)` at clock reading `now` -/
def Brk.new (id : Nat) (r : Rule) (now : Nat) : Brk (Arr Cnt) :=
  { id := id, rule := r, w := Sentinel.LA.mk r.n r.L now }

def Brk.newAbs (id : Nat) (r : Rule) : Brk (List (Nat × Cnt)) :=
  { id := id, rule := r, w := [] }

/-! ## the legal transition graph (what the listener log is checked against) -/

def applyTr : St → Tr → Option St
  | .closed, .toOpen .closed _ => some .opened
  | .halfOpen, .toOpen .halfOpen _ => some .opened
  | .opened, .toHalfOpen => some .halfOpen
  | .halfOpen, .toClosed => some .closed
  | _, _ => none

/-- follow a list of callbacks of one breaker from state `s`; `none` = some callback is not an edge -/
def walk : St → List Tr → Option St
  | s, [] => some s
  | s, t :: ts => match applyTr s t with
    | some s' => walk s' ts
    | none => none

def upd (m : Nat → St) (k : Nat) (s : St) : Nat → St := fun j => if j = k then s else m j

/-- replay a whole listener log on a map `breaker id ↦ state`; `none` = some callback is not a legal edge
    from the state its breaker had at that point -/
def replay (m : Nat → St) : List Ev → Option (Nat → St)
  | [] => some m
  | e :: es => match applyTr (m e.id) e.tr with
    | some s' => replay (upd m e.id s') es
    | none => none

end Sentinel.CB
