import Sentinel.Model.Bucket
/-!
# The other array-level reads of `BucketLeapArray` (core Lean only, executable)

`Values(now)`, `MinRt()`, `MaxConcurrency()` in `core/stat/base/bucket_leap_array.go`: like `CountWithTime`
(`aCount` in `Model/Bucket.lean`) they first refresh the current bucket (`currentBucketOfTime(now)`), then go over
`valuesWithTime(now)`, all non-deprecated buckets.  Each returns the refreshed array as well.
-/
namespace Sentinel.LA

/-- `BucketLeapArray.Values(now)`: the valid buckets themselves -/
def aValues (a : Arr Bucket) (now : Nat) : Arr Bucket × List (Slot Bucket) :=
  let a' := refresh a now
  (a', valuesAt a' now)

/-- `BucketLeapArray.MinRt()`: minimum over the valid buckets, 60000 when there is none (no clamp at 1 here) -/
def aMinRt (a : Arr Bucket) (now : Nat) : Arr Bucket × Nat :=
  let a' := refresh a now
  (a', (aTotal a' now).minRt)

/-- `BucketLeapArray.MaxConcurrency()` -/
def aMaxConc (a : Arr Bucket) (now : Nat) : Arr Bucket × Nat :=
  let a' := refresh a now
  (a', (aTotal a' now).mc)

end Sentinel.LA
