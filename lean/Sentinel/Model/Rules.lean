/-!
# M-RULES — the six rule managers as pure functions (core Lean only; executed by the C13 driver)

Transcribed from `core/{flow,isolation,hotspot,circuitbreaker,system,outlier}/rule_manager.go` of the
repaired tree (nil rules skipped in `LoadRules`; circuit breaker per-resource path builds from the valid rules).

* A *rule* is the record of the fields that `IsValidRule`, the module's equality and `reflect.DeepEqual`
  and the getters look at — all of them, the optional `ID` included.  `float64` fields travel as **halves**
  (`th2 = 3` is `1.5`), the flow and circuit-breaker `Threshold` — compared with a tolerance by the code and loaded with
  huge or fractional values — as the exact integer number of 2^-60 units (`thQ`): every comparison is exact integer arithmetic.
* Go maps `map[string][]…` are total functions `String → List …` with `[]` for "absent" (the managers never
  store an empty list in `currentRules`, and an empty controller list is indistinguishable from an absent
  key through the getters and the slots) plus the list of keys needed to decide `reflect.DeepEqual`.
* A rule object is shared by `currentRules` (the raw cache the `DeepEqual` short-circuit compares against),
  by the controller and by the caller.  Constructors that write defaults back into the object
  (`WarmUpColdFactor ≤ 1 → 3`, `SpecificItems nil → {}`) therefore change the *cache*: `normIn`.
* Controller reuse (`calculateReuseIndexFor`, flow, hotspot and circuit breaker; identities of the controller objects: `buildZ` / `runC`): a controller whose old rule is equal to the new one
  for the module's own equality (`flowIsEqualsTo`, `hotEquals`, transcribed field by field) is kept **with the old rule
  object**; `bound` holds those objects (what the getters return), `enf` the rules the controllers were asked to be
  built from.  The two agree up to `sim` (the ID; hotspot: the behaviour-irrelevant field; flow / breaker: a threshold
  within `Float64Equals`' 1e-8) — `Inv.bound`.  A record
  carries EVERY field of the Go struct (incl. `ID`), so a field dropped from an equality shows up as a stale getter.
-/
namespace Sentinel.Rules

/-- what a load call reports: `(true,nil)`, `(false,nil)`, `(false,err)`, `(true,err)`, or a panic escaping it -/
inductive Outcome | changed | unchanged | err | changedErr | panic
deriving DecidableEq, Repr, Inhabited

def Outcome.toString : Outcome → String
  | .changed => "changed" | .unchanged => "unchanged" | .err => "err" | .changedErr => "changed-err" | .panic => "panic"

/-! ## Rule records and `IsValidRule`, clause by clause (the result is the number of the first failing clause) -/

/-- number (from `i`) of the first clause that fires, `0` if none does -/
def firstTrue (i : Nat) : List Bool → Nat
  | [] => 0
  | b :: bs => if b then i else firstTrue (i + 1) bs

/-- one unit of the `Threshold` fields of flow and circuit breaker: `Threshold = th / 2^60` -/
def thQ : Int := 2 ^ 60

/-- `util.Float64Equals(x, y)`: `|x - y| < 0.00000001`, the constant being the double `0x1.5798ee2308c3ap-27`
    = `0x15798ee2308c3a · 2^-79` (the float subtraction of two doubles this close is exact) -/
def f64Equals (x y : Int) : Bool := decide ((x - y).natAbs * 2 ^ 19 < 0x15798ee2308c3a)

structure FlowRule where
  id : String      -- ID (optional, read by nothing but the getters and DeepEqual)
  res : String
  tcs : Int        -- TokenCalculateStrategy (int32): 0 Direct, 1 WarmUp, 2 MemoryAdaptive
  cb : Int         -- ControlBehavior (int32): 0 Reject, 1 Throttling
  th : Int         -- Threshold, in units of 2^-60 (every float64 of magnitude ≥ 2^-8 is such an integer)
  rel : Int        -- RelationStrategy (int32): 0 current, 1 associated
  ref : String
  maxQ : Nat
  wuPeriod : Nat
  wuCf : Nat
  statMs : Nat
  lowMem : Int
  highMem : Int
  memLow : Int
  memHigh : Int
deriving DecidableEq, Repr, Inhabited

/-- `flow.IsValidRule` (non-nil part); `tm` = `system_metric.TotalMemorySize` -/
def flowClause (tm : Int) (r : FlowRule) : Nat :=
  firstTrue 1
    [ decide (r.res = ""),
      decide (r.th < 0),
      decide (r.tcs < 0),
      decide (r.cb < 0),
      decide (¬ (0 ≤ r.rel ∧ r.rel ≤ 1)),
      decide (r.rel = 1 ∧ r.ref = ""),
      decide (r.tcs = 1 ∧ r.wuPeriod = 0),
      decide (r.tcs = 1 ∧ r.wuCf = 1),
      decide (r.tcs = 2 ∧ r.lowMem ≤ 0),
      decide (r.tcs = 2 ∧ r.highMem ≤ 0),
      decide (r.tcs = 2 ∧ r.highMem ≥ r.lowMem),
      decide (r.tcs = 2 ∧ r.memLow ≤ 0),
      decide (r.tcs = 2 ∧ r.memHigh ≤ 0),
      decide (r.tcs = 2 ∧ r.memHigh > tm),
      decide (r.tcs = 2 ∧ r.memLow ≥ r.memHigh) ]

/-- a generator is registered in `tcGenFuncMap` (and then always returns a controller) -/
def flowBuildable (r : FlowRule) : Bool :=
  ((r.tcs = 0 ∨ r.tcs = 1 ∨ r.tcs = 2) ∧ (r.cb = 0 ∨ r.cb = 1)) ∨ (r.tcs = 7 ∧ r.cb = 9)

/-- the (strategy, behaviour) pair the harness registers its own generator for (`SetTrafficShapingGenerator`) -/
def flowCustom (r : FlowRule) : Bool := r.tcs = 7 ∧ r.cb = 9

/-- `NewWarmUpTrafficShapingCalculator` writes the default cold factor into the caller's rule -/
def flowNorm (r : FlowRule) : FlowRule := if r.tcs = 1 ∧ r.wuCf ≤ 1 then { r with wuCf := 3 } else r

/-- `(*Rule).isEqualsTo` of flow (`Float64Equals` is exact on halves): decides controller reuse -/
def flowIsEqualsTo (a b : FlowRule) : Bool :=
  a.res == b.res && a.rel == b.rel && a.ref == b.ref && a.statMs == b.statMs && a.tcs == b.tcs && a.cb == b.cb &&
  f64Equals a.th b.th && a.maxQ == b.maxQ && a.wuPeriod == b.wuPeriod && a.wuCf == b.wuCf &&
  a.lowMem == b.lowMem && a.highMem == b.highMem && a.memLow == b.memLow && a.memHigh == b.memHigh

/-- `(*Rule).isStatReusable` of flow -/
def flowStatReusable (a b : FlowRule) : Bool :=
  a.res == b.res && a.rel == b.rel && a.ref == b.ref && a.statMs == b.statMs &&
  (a.tcs == 1 || a.cb == 0) && (b.tcs == 1 || b.cb == 0)

/-- the part of a flow rule that `isEqualsTo` compares exactly: everything but the ID and the threshold -/
def flowCanon (r : FlowRule) : FlowRule := { r with id := "", th := 0 }

/-- "the same rule as far as `isEqualsTo` can tell": all fields but the ID equal, thresholds within the tolerance -/
def flowSim (a b : FlowRule) : Bool := decide (flowCanon a = flowCanon b) && f64Equals a.th b.th

structure IsoRule where
  id : String
  res : String
  metric : Int     -- MetricType (int32): 0 Concurrency
  th : Nat         -- Threshold (uint32)
deriving DecidableEq, Repr, Inhabited

def isoClause (r : IsoRule) : Nat :=
  firstTrue 1
    [ decide (r.res = ""),
      decide (r.metric ≠ 0),
      decide (r.th = 0) ]

structure HotRule where
  id : String
  res : String
  metric : Int     -- MetricType (int32): 0 Concurrency, 1 QPS
  cb : Int         -- ControlBehavior (int32): 0 Reject, 1 Throttling
  pidx : Int
  pkey : String
  th : Int
  maxQ : Int
  burst : Int
  dur : Int
  cap : Int
  items : Nat      -- SpecificItems: 0 = nil map, 1 = empty map, n+2 = the map {n ↦ 1}
deriving DecidableEq, Repr, Inhabited

def hotClause (r : HotRule) : Nat :=
  firstTrue 1
    [ decide (r.res = ""),
      decide (r.th < 0),
      decide (r.metric < 0),
      decide (r.cb < 0),
      decide (r.metric = 1 ∧ r.dur ≤ 0),
      decide (r.pidx > 0 ∧ r.pkey ≠ ""),
      decide (r.cb = 0 ∧ r.burst < 0),
      decide (r.cb = 1 ∧ r.maxQ < 0) ]

/-- `tcGenFuncMap[ControlBehavior]` exists and `newBaseTrafficShapingController` knows the metric type -/
def hotBuildable (r : HotRule) : Bool := (r.cb = 0 ∨ r.cb = 1) ∧ (r.metric = 0 ∨ r.metric = 1)

/-- `newBaseTrafficShapingControllerWithMetric` replaces a nil `SpecificItems` by an empty map in the caller's rule -/
def hotNorm (r : HotRule) : HotRule := if r.items = 0 then { r with items := 1 } else r

/-- `(*Rule).Equals` of hotspot: decides controller reuse -/
def hotEquals (a b : HotRule) : Bool :=
  a.res == b.res && a.metric == b.metric && a.cb == b.cb && a.cap == b.cap && a.pidx == b.pidx && a.pkey == b.pkey &&
  a.th == b.th && a.dur == b.dur && a.items == b.items &&
  (if a.cb = 0 then a.burst == b.burst else if a.cb = 1 then a.maxQ == b.maxQ else false)

/-- the part of a hotspot rule that `Rule.Equals` looks at: no ID, `BurstCount` only under Reject,
    `MaxQueueingTimeMs` only under Throttling -/
def hotCanon (r : HotRule) : HotRule :=
  { r with id := "", maxQ := if r.cb = 1 then r.maxQ else 0, burst := if r.cb = 0 then r.burst else 0 }

/-- `(*Rule).IsStatReusable` of hotspot -/
def hotStatReusable (a b : HotRule) : Bool :=
  a.res == b.res && a.cb == b.cb && a.cap == b.cap && a.dur == b.dur && a.metric == b.metric

structure CbRule where
  id : String
  res : String
  strategy : Nat   -- 0 SlowRequestRatio, 1 ErrorRatio, 2 ErrorCount
  retryMs : Nat
  minReq : Nat
  statMs : Nat
  buckets : Nat
  maxRt : Nat
  th : Int         -- Threshold, in units of 2^-60
  probe : Nat
deriving DecidableEq, Repr, Inhabited

def cbClause (r : CbRule) : Nat :=
  firstTrue 1
    [ decide (r.res = ""),
      decide (r.statMs = 0),
      decide (r.retryMs = 0),
      decide (r.th < 0),
      decide (r.strategy = 0 ∧ r.th > thQ),
      decide (r.strategy = 1 ∧ r.th > thQ) ]

def cbBuildable (r : CbRule) : Bool := r.strategy ≤ 2 ∨ r.strategy = 7

/-- the strategy the harness registers its own generator for (`SetCircuitBreakerGenerator`) -/
def cbCustom (r : CbRule) : Bool := r.strategy = 7

/-- `(*Rule).isEqualsTo` of the circuit breaker: decides breaker reuse -/
def cbIsEqualsTo (a b : CbRule) : Bool :=
  a.res == b.res && a.strategy == b.strategy && a.retryMs == b.retryMs && a.minReq == b.minReq && a.statMs == b.statMs &&
  a.buckets == b.buckets && a.probe == b.probe &&
  (if b.strategy = 0 then a.maxRt == b.maxRt && f64Equals a.th b.th else if b.strategy = 1 ∨ b.strategy = 2 then f64Equals a.th b.th else false)

/-- `(*Rule).isStatReusable` of the circuit breaker -/
def cbStatReusable (a b : CbRule) : Bool :=
  a.res == b.res && a.strategy == b.strategy && a.statMs == b.statMs && a.buckets == b.buckets

/-- the part of a breaker rule that `isEqualsTo` compares exactly: no ID, no threshold, `MaxAllowedRtMs` only under SlowRequestRatio -/
def cbCanon (r : CbRule) : CbRule := { r with id := "", th := 0, maxRt := if r.strategy = 0 then r.maxRt else 0 }

def cbSim (a b : CbRule) : Bool := decide (cbCanon a = cbCanon b) && f64Equals a.th b.th

structure SysRule where
  id : String
  metric : Nat     -- MetricType (uint32): 0 Load, 1 AvgRT, 2 Concurrency, 3 InboundQPS, 4 CpuUsage
  th2 : Int        -- TriggerCount, in halves
  strategy : Int   -- AdaptiveStrategy: -1 none, 1 BBR
deriving DecidableEq, Repr, Inhabited

def sysClause (r : SysRule) : Nat :=
  firstTrue 1
    [ decide (r.th2 < 0),
      decide (r.metric ≥ 5),
      decide (r.metric = 4 ∧ r.th2 > 2) ]

structure OutRule where
  pct2 : Int                 -- MaxEjectionPercent, in halves
  recMs : Nat                -- RecoveryIntervalMs (this and the next three: only looked at by DeepEqual and the getter)
  active : Bool := false     -- EnableActiveRecovery
  recycleS : Nat := 0        -- RecycleIntervalS
  maxAtt : Nat := 0          -- MaxRecoveryAttempts
  inner : Option CbRule      -- the embedded *circuitbreaker.Rule (may be nil)
deriving DecidableEq, Repr, Inhabited

/-- result of running a validity check that dereferences the embedded rule -/
inductive Check | ok | invalid | panics
deriving DecidableEq, Repr

/-- `outlier.IsValidRule(rule)` then `circuitbreaker.IsValidRule(rule.Rule)`; `r.Resource` on a nil embedded rule
    is a nil-pointer dereference -/
def outCheck (r : OutRule) : Check :=
  match r.inner with
  | none => .panics
  | some c =>
    if c.res = "" then .invalid
    else if r.pct2 < 0 ∨ r.pct2 > 2 then .invalid
    else if cbClause c ≠ 0 then .invalid
    else .ok

/-! ## The four map-shaped managers (flow, isolation, hotspot, circuit breaker) share one shape -/

structure RuleMod (R : Type) where
  res : R → String
  valid : R → Bool
  buildable : R → Bool
  norm : R → R
  /-- `build…Controller` drops rules whose `Resource` differs from the map key (isolation has no such test) -/
  scopedRes : Bool
  /-- the getters read a separate map holding the *valid* rules (circuit breaker's `breakerRules`) -/
  pubValid : Bool
  /-- `old.isEqualsTo(new)`: the old controller (bound to the *old* rule object) is kept -/
  equals : R → R → Bool
  /-- `old.isStatReusable(new)`: the old controller's statistic is handed to the new controller -/
  statReusable : R → R → Bool
  /-- "the same rule as far as the module's equality can tell" (reflexive; `equals` need not be) -/
  sim : R → R → Bool

def flowMod (tm : Int) : RuleMod FlowRule :=
  { res := (·.res), valid := fun r => flowClause tm r = 0, buildable := flowBuildable, norm := flowNorm, scopedRes := true, pubValid := false,
    equals := flowIsEqualsTo, statReusable := flowStatReusable, sim := flowSim }
def isoMod : RuleMod IsoRule :=
  { res := (·.res), valid := fun r => isoClause r = 0, buildable := fun _ => true, norm := id, scopedRes := false, pubValid := false,
    equals := fun _ _ => false, statReusable := fun _ _ => false, sim := fun a b => decide (a = b) }   -- `ruleMap` holds the rules themselves: nothing is reused
def hotMod : RuleMod HotRule :=
  { res := (·.res), valid := fun r => hotClause r = 0, buildable := hotBuildable, norm := hotNorm, scopedRes := true, pubValid := false,
    equals := hotEquals, statReusable := hotStatReusable, sim := fun a b => decide (hotCanon a = hotCanon b) }
def cbMod : RuleMod CbRule :=
  { res := (·.res), valid := fun r => cbClause r = 0, buildable := cbBuildable, norm := id, scopedRes := true, pubValid := true,
    equals := cbIsEqualsTo, statReusable := cbStatReusable, sim := cbSim }   -- (the getters read `breakerRules`, never a breaker's rule)

structure MState (R : Type) where
  /-- every key that may be present in `currentRules` -/
  keys : List String
  /-- `currentRules` (the raw lists last stored, as the shared objects read *now*) -/
  cache : String → List (Option R)
  /-- the rules the controllers in force were asked to be built from (`tcMap` / `ruleMap` / `breakers`),
      i.e. the controllers' rules up to what the module's equality ignores -/
  enf : String → List R
  /-- the rule *objects* bound to the controllers in force: a controller kept by `calculateReuseIndexFor`
      stays bound to the old object (old `ID`, old values of the fields `equals` ignores) -/
  bound : String → List R
  /-- what `GetRules…` reads -/
  pub : String → List R

def MState.init {R : Type} : MState R := { keys := [], cache := fun _ => [], enf := fun _ => [], bound := fun _ => [], pub := fun _ => [] }

def upd {α : Type} (f : String → α) (k : String) (v : α) : String → α := fun x => if x = k then v else f x

section
variable {R : Type} [DecidableEq R] (M : RuleMod R)

/-- a controller gets built for `r` under key `k` -/
def built (k : String) (r : R) : Bool := M.valid r && (!M.scopedRes || M.res r == k) && M.buildable r

/-- the object of a raw list entry after the load (constructor write-back when a controller was built) -/
def normIn (k : String) (o : Option R) : Option R := o.map fun r => if built M k r then M.norm r else r

/-- the rules of the controllers built from a raw list -/
def buildList (k : String) (l : List (Option R)) : List R := ((l.filterMap id).filter (built M k)).map M.norm

def validList (l : List (Option R)) : List R := (l.filterMap id).filter M.valid

/-- `calculateReuseIndexFor`, equal case: the first old rule equal to `r`, and the old list without it -/
def findEq (r : R) : List R → Option (R × List R)
  | [] => none
  | o :: os => if M.equals o r then some (o, os) else (findEq r os).map fun x => (x.1, o :: x.2)

/-- `calculateReuseIndexFor`, no equal rule: the old list without the first stat-reusable rule (if any) -/
def dropStat (r : R) : List R → List R
  | [] => []
  | o :: os => if M.statReusable o r then os else o :: dropStat r os

/-- `build…Controller(res, validRules, oldControllers)`: the rule objects of the resulting controllers -/
def buildReuse (k : String) : List R → List R → List R
  | [], _ => []
  | r :: rs, old =>
    if M.scopedRes && M.res r != k then buildReuse k rs old
    else match findEq M r old with
      | some (o, rest) => o :: buildReuse k rs rest
      | none => if M.buildable r then M.norm r :: buildReuse k rs (dropStat M r old) else buildReuse k rs old

/-- the grouping loop of `LoadRules`: non-nil rules of resource `k`, in order -/
def proj (k : String) (rules : List (Option R)) : List (Option R) :=
  rules.filter fun o => match o with | some r => M.res r == k | none => false

def ruleKeys (rules : List (Option R)) : List String := rules.filterMap (·.map M.res)

def loadAll (s : MState R) (rules : List (Option R)) : MState R × Outcome :=
  let gkeys := ruleKeys M rules
  if (s.keys ++ gkeys).all (fun k => s.cache k == proj M k rules) then (s, .unchanged)
  else
    ({ keys := gkeys,
       cache := fun k => (proj M k rules).map (normIn M k),
       enf := fun k => buildList M k (proj M k rules),
       bound := fun k => buildReuse M k (validList M (proj M k rules)) (s.bound k),
       pub := fun k => if M.pubValid then validList M (proj M k rules)
                       else buildReuse M k (validList M (proj M k rules)) (s.bound k) },
     .changed)

def loadRes (s : MState R) (res : String) (rules : List (Option R)) : MState R × Outcome :=
  if res = "" then (s, .err)
  else if rules = [] then
    ({ s with cache := upd s.cache res [], enf := upd s.enf res [], bound := upd s.bound res [], pub := upd s.pub res [] }, .changed)
  else if s.cache res == rules then (s, .unchanged)
  else
    let b := buildList M res rules
    let o := buildReuse M res (validList M rules) (s.bound res)
    ({ keys := res :: s.keys,
       cache := upd s.cache res (rules.map (normIn M res)),
       enf := upd s.enf res b,
       bound := upd s.bound res o,
       pub := upd s.pub res (if M.pubValid then (if b = [] then [] else validList M rules) else o) },
     .changed)

inductive Op (R : Type)
  | loadAll (rules : List (Option R))
  | loadRes (res : String) (rules : List (Option R))
  | clearAll
  | clearRes (res : String)

def step (s : MState R) : Op R → MState R × Outcome
  | .loadAll rules => loadAll M s rules
  | .loadRes res rules => loadRes M s res rules
  | .clearAll => loadAll M s []
  | .clearRes res => loadRes M s res []

def run (ops : List (Op R)) : MState R := ops.foldl (fun s op => (step M s op).1) MState.init

/-- `GetRulesOfResource` -/
def getRes (s : MState R) (k : String) : List R := s.pub k
/-- `GetRules` (in some map order: compare as a multiset) -/
def getAll (s : MState R) : List R := s.keys.eraseDups.flatMap s.pub

/-- a rule list grouped by a key, groups in the given order, **the order within a group kept** (what can be compared
    of a `GetRules` result when every key's rules come from one map entry) -/
def groupStable {α : Type} (key : α → String) (order : List String) (l : List α) : List α :=
  order.flatMap fun k => l.filter fun x => key x == k

/-! ### a generator that errors or panics (the registry is open: `SetTrafficShapingGenerator`, `SetCircuitBreakerGenerator`)

`custom r` says that `r` is built by the harness' generator, whose behaviour at the time of a load is `g`. -/

inductive GenMode | ok | fail | panic
deriving DecidableEq, Repr, Inhabited

/-- the module as it behaves while the custom generator returns an error: such a rule gets no controller
    (`bad generated traffic controller` / `bad generated circuit breaker`: logged, skipped) -/
def withGen (custom : R → Bool) (g : GenMode) : RuleMod R :=
  { M with buildable := fun r => if custom r then M.buildable r && g != .fail else M.buildable r }

/-- does the build of these (valid) rules call the custom generator? (an equal old controller is kept without calling it) -/
def hitsGen (custom : R → Bool) (k : String) : List R → List R → Bool
  | [], _ => false
  | r :: rs, old =>
    if M.scopedRes && M.res r != k then hitsGen custom k rs old
    else match findEq M r old with
      | some (_, rest) => hitsGen custom k rs rest
      | none =>
        if !M.buildable r then hitsGen custom k rs old
        else if custom r then true
        else hitsGen custom k rs (dropStat M r old)

/-- `LoadRules` while the custom generator is in mode `g`: a panic inside the build is caught by the deferred `recover`
    of `onRuleUpdate` before anything is swapped or cached: `(true, err)`, state untouched -/
def loadAllG (custom : R → Bool) (g : GenMode) (s : MState R) (rules : List (Option R)) : MState R × Outcome :=
  if g = .panic ∧ (loadAll M s rules).2 = .changed ∧
      (ruleKeys M rules).any (fun k => hitsGen M custom k (validList M (proj M k rules)) (s.bound k)) then (s, .changedErr)
  else loadAll (withGen M custom g) s rules

def loadResG (custom : R → Bool) (g : GenMode) (s : MState R) (res : String) (rules : List (Option R)) : MState R × Outcome :=
  if g = .panic ∧ (loadRes M s res rules).2 = .changed ∧ hitsGen M custom res (validList M rules) (s.bound res) then (s, .changedErr)
  else loadRes (withGen M custom g) s res rules

/-! ### controller identities: which controller *objects* are in force (a reused controller keeps its identity and
its runtime state — pacer, breaker state, counters —, a built one is fresh) -/

def findP {α : Type} (p : α → Bool) : List α → Option (α × List α)
  | [] => none
  | o :: os => if p o then some (o, os) else (findP p os).map fun x => (x.1, o :: x.2)

def dropP {α : Type} (p : α → Bool) : List α → List α
  | [] => []
  | o :: os => if p o then os else o :: dropP p os

/-- `buildReuse` on (rule object, controller id) pairs; `n` is the next unused id -/
def buildZ (k : String) : List R → List (R × Nat) → Nat → List (R × Nat)
  | [], _, _ => []
  | r :: rs, old, n =>
    if M.scopedRes && M.res r != k then buildZ k rs old n
    else match findP (fun x => M.equals x.1 r) old with
      | some (x, rest) => x :: buildZ k rs rest n
      | none =>
        if M.buildable r then (M.norm r, n) :: buildZ k rs (dropP (fun x => M.statReusable x.1 r) old) (n + 1)
        else buildZ k rs old n

structure CState (R : Type) where
  ctrl : String → List (R × Nat)
  next : Nat

def CState.init {R : Type} : CState R := { ctrl := fun _ => [], next := 0 }

/-- the identity layer follows the manager: `s` is the manager state *before* the op -/
def cstep (s : MState R) (c : CState R) : Op R → CState R
  | .loadAll rules =>
    if (loadAll M s rules).2 = .changed then
      { ctrl := fun k => buildZ M k (validList M (proj M k rules)) (c.ctrl k) c.next, next := c.next + rules.length }
    else c
  | .loadRes res rules =>
    if (loadRes M s res rules).2 = .changed then
      { ctrl := upd c.ctrl res (buildZ M res (validList M rules) (c.ctrl res) c.next), next := c.next + rules.length }
    else c
  | .clearAll => if (loadAll M s []).2 = .changed then { c with ctrl := fun _ => [] } else c
  | .clearRes res => if (loadRes M s res []).2 = .changed then { c with ctrl := upd c.ctrl res [] } else c

def runC (ops : List (Op R)) : MState R × CState R :=
  ops.foldl (fun sc op => ((step M sc.1 op).1, cstep M sc.1 sc.2 op)) (MState.init, CState.init)

/-- identity classes in first-appearance order: `[7,9,7]` ↦ `[0,1,0]` -/
def canonIds (ids : List Nat) : List Nat :=
  let firsts := ids.eraseDups
  ids.map fun i => firsts.idxOf i

/-! ### the abstract reference: the raw list in force for each resource, from the history alone -/

def latestStep (L : String → List (Option R)) : Op R → (String → List (Option R))
  | .loadAll rules => fun k => proj M k rules
  | .loadRes res rules => if res = "" then L else upd L res rules
  | .clearAll => fun _ => []
  | .clearRes res => if res = "" then L else upd L res []

def latest (ops : List (Op R)) : String → List (Option R) := ops.foldl (latestStep M) (fun _ => [])

end

/-! ## system: one list, no per-resource path -/

structure SysState where
  /-- `currentRules` is a nil slice (callers hand over nil for "no rules"; `ClearRules` passes nil) -/
  cacheNil : Bool
  cache : List (Option SysRule)
  enf : List SysRule

def SysState.init : SysState := { cacheNil := true, cache := [], enf := [] }

def sysBuild (rules : List (Option SysRule)) : List SysRule := (rules.filterMap id).filter fun r => sysClause r = 0

/-- `system.LoadRules`; an empty `rules` is the nil slice -/
def loadSys (s : SysState) (rules : List (Option SysRule)) : SysState × Outcome :=
  if s.cache == rules && (!rules.isEmpty || s.cacheNil) then (s, .unchanged)
  else ({ cacheNil := rules.isEmpty, cache := rules, enf := sysBuild rules }, .changed)

def runSys (loads : List (List (Option SysRule))) : SysState := loads.foldl (fun s l => (loadSys s l).1) SysState.init

/-! ## outlier: one rule per resource, last wins; the per-resource path refuses an invalid rule and keeps the old one -/

structure OState where
  keys : List String
  cache : String → Option OutRule
  enf : String → Option OutRule

def OState.init : OState := { keys := [], cache := fun _ => none, enf := fun _ => none }

def outRes (r : OutRule) : String := match r.inner with | some c => c.res | none => ""

/-- the loop of `outlier.LoadRules`: nil rules and rules with a nil embedded rule are skipped, `rulesMap[res] = rule` -/
def outProj (k : String) (rules : List (Option OutRule)) : Option OutRule :=
  ((rules.filterMap id).filter fun r => r.inner.isSome && outRes r == k).getLast?

def outKeys (rules : List (Option OutRule)) : List String :=
  ((rules.filterMap id).filter fun r => r.inner.isSome).map outRes

def outAccept (o : Option OutRule) : Option OutRule := o.filter fun r => outCheck r == .ok

def loadAllOut (s : OState) (rules : List (Option OutRule)) : OState × Outcome :=
  let gkeys := outKeys rules
  if (s.keys ++ gkeys).all (fun k => s.cache k == outProj k rules) then (s, .unchanged)
  else ({ keys := gkeys, cache := fun k => outProj k rules, enf := fun k => outAccept (outProj k rules) }, .changed)

/-- the body of `onResourceRuleUpdate` before its `recover()` -/
def outResBody (s : OState) (res : String) (r : OutRule) : Option (OState × Outcome) :=
  match outCheck r with
  | .panics => none
  | .invalid => some (s, .changedErr)
  | .ok => some ({ keys := res :: s.keys, cache := upd s.cache res (some r), enf := upd s.enf res (some r) }, .changed)

/-- `outlier.LoadRuleOfResource`; `rule = none` is the nil rule (clear) -/
def loadResOut (s : OState) (res : String) (rule : Option OutRule) : OState × Outcome :=
  if res = "" then (s, .err)
  else match rule with
    | none => ({ s with cache := upd s.cache res none, enf := upd s.enf res none }, .changed)
    | some r =>
      if s.cache res == some r then (s, .unchanged)
      else match outResBody s res r with
        | some x => x
        | none => (s, .changedErr)       -- the deferred recover turns the panic into the returned error

inductive OOp
  | loadAll (rules : List (Option OutRule))
  | loadRes (res : String) (rule : Option OutRule)

def stepOut (s : OState) : OOp → OState × Outcome
  | .loadAll rules => loadAllOut s rules
  | .loadRes res rule => loadResOut s res rule

def runOut (ops : List OOp) : OState := ops.foldl (fun s op => (stepOut s op).1) OState.init

def getAllOut (s : OState) : List OutRule := s.keys.eraseDups.filterMap s.enf

/-- the reference: the rule most recently *handed over* for each resource -/
def latestOutStep (L : String → Option OutRule) : OOp → (String → Option OutRule)
  | .loadAll rules => fun k => outProj k rules
  | .loadRes res rule => if res = "" then L else upd L res rule

def latestOut (ops : List OOp) : String → Option OutRule := ops.foldl latestOutStep (fun _ => none)

/-- classifier of the finding `outlier-invalid-keeps-old`: the resources whose most recent rule came through the
    per-resource path and was refused (so that an older rule may still be in force) -/
def outRefused (rule : Option OutRule) : Bool := match rule with | some r => outCheck r != .ok | none => false

def taintStep (T : List String) : OOp → List String
  | .loadAll _ => []
  | .loadRes res rule => if res = "" then T else if outRefused rule then res :: T else T.filter (· ≠ res)

def taintOut (ops : List OOp) : List String := ops.foldl taintStep []

/-! ## Probe traffic: the decision of one request after an idle gap, as a function of the enforced rules

These are the slots' checks specialised to "all windows empty, nothing in flight" (the harness jumps the
clock by 100 s before every probe).  `none` = the decision of some enforced rule is not modelled here. -/

/-- flow: `curCount + batch > threshold` (Reject) / `threshold ≤ 0 ∨ batch > threshold` (Throttling) with `curCount = 0` -/
def flowProbe (enf : List FlowRule) (batch : Nat) : Option Bool :=
  if enf.all (fun r => r.tcs = 0 ∧ r.rel = 0 ∧ r.statMs ≤ 90000) then some (enf.any fun r => decide ((batch : Int) * thQ > r.th)) else none

/-! #### flow: a short sequence of requests at one instant after the idle gap

Every controller starts from "nothing passed in my window, my pacer last fired long ago" — whether it is fresh or
properly reused — and each controller has its *own* pacer and reads a live pass statistic: a Reject rule bound to a
dead statistic, or two rules sharing one pacer, answer differently.  The harness keeps the memory usage above every
high water mark, so a memory-adaptive rule's threshold is its `HighMemUsageThreshold`; a warm-up rule is cold
(threshold `T / coldFactor`).  Result per request: `p` pass, `b` block, `w` the request had to sleep (the clock moved:
the sequence stops there). -/

/-- rules whose decision in a sequence is modelled: current-resource rules; warm-up only with Reject and a cold
    threshold `T / coldFactor` that is not an integer (so that the last ulp of the float expression cannot matter) -/
def flowSeqKnown (r : FlowRule) : Bool :=
  decide (r.rel = 0) && decide (r.statMs ≤ 90000) &&      -- a longer window / pacing interval outlives the 100 s idle gap
  (decide (r.tcs = 0) || decide (r.tcs = 2) ||
   (decide (r.tcs = 1) && decide (r.cb = 0) && decide (r.th % thQ = 0) && decide (r.th ≤ 2 ^ 40 * thQ) && decide (r.th % ((r.wuCf : Int) * thQ) ≠ 0) &&
    decide (r.wuPeriod ≤ 1000000) && decide (r.wuCf ≤ 1000000) &&
    decide (2 * (r.wuPeriod : Int) * r.th ≥ (1 + (r.wuCf : Int)) * thQ)))     -- maxToken > warningToken (else the slope is +Inf: C11's warmup-nan)

/-- the threshold in force, in units of 2^-60 -/
def flowT2 (r : FlowRule) : Int := if r.tcs = 2 then r.highMem * thQ else r.th

/-- one request of `b` tokens against the rules in order; `n` tokens passed so far, `thr` = per rule, the pacer's
    `lastPassedTime - now` in ns (`none` = long ago).  Returns the pacers, blocked?, slept? -/
def flowReqRules : List FlowRule → List (Option Int) → Nat → Nat → List (Option Int) × Bool × Bool
  | r :: rs, t :: ts, n, b =>
    if r.cb = 0 then
      let blocked : Bool :=
        if r.tcs = 1 then decide (((n + b : Nat) : Int) * (r.wuCf : Int) * thQ > r.th)   -- cold: (n+b) > T / coldFactor
        else decide (((n + b : Nat) : Int) * thQ > flowT2 r)                               -- curCount + batch > threshold
      if blocked then (t :: ts, true, false)
      else let x := flowReqRules rs ts n b; (t :: x.1, x.2.1, x.2.2)
    else
      let T2 := flowT2 r
      if T2 ≤ 0 ∨ (b : Int) * thQ > T2 then (t :: ts, true, false)
      else
        let statNs : Int := (if r.statMs = 0 then 1000 else (r.statMs : Int)) * 1000000
        let interval : Int := ((b : Int) * statNs * thQ + T2 - 1) / T2                     -- ceil(b / T * statIntervalNs)
        let fire : Bool := match t with | none => true | some a => decide (a + interval ≤ 0)
        if fire then let x := flowReqRules rs ts n b; (some 0 :: x.1, x.2.1, x.2.2)
        else
          let est : Int := t.getD 0 + interval
          if est > (r.maxQ : Int) * 1000000 then (t :: ts, true, false)
          else if est > 0 then (some est :: ts, false, true)
          else let x := flowReqRules rs ts n b; (some est :: x.1, x.2.1, x.2.2)
  | _, ts, _, _ => (ts, false, false)

def flowSeqGo (enf : List FlowRule) : List Nat → Nat → List (Option Int) → List Char
  | [], _, _ => []
  | b :: bs, n, thr =>
    let x := flowReqRules enf thr n b
    if x.2.2 then ['w']
    else if x.2.1 then 'b' :: flowSeqGo enf bs n x.1
    else 'p' :: flowSeqGo enf bs (n + b) x.1

/-- `none` = some rule in force is not modelled -/
def flowSeq (enf : List FlowRule) (batches : List Nat) : Option String :=
  if enf.all flowSeqKnown then some (String.ofList (flowSeqGo enf batches 0 (enf.map fun _ => none))) else none

/-- isolation: `cur + batch > threshold` with `cur = 0` -/
def isoProbe (enf : List IsoRule) (batch : Nat) : Bool := enf.any fun r => r.metric = 0 ∧ batch > r.th

/-- circuit breaker: one failed, slow request, then a second one at once: blocked iff some breaker opened.
    (Modelled for `minReq ≠ 2`; the ratio strategies see ratio 1, which reaches every threshold ≤ 1.) -/
def cbOpens (r : CbRule) : Bool :=
  decide (r.minReq ≤ 1) &&
    decide (r.strategy ≤ 2) &&                          -- the harness' own breaker (strategy 7) never opens
    (if r.strategy = 2 then decide (r.th < 2 * thQ)          -- errorCount 1 ≥ uint64(threshold)
     else decide (r.th ≤ thQ) || f64Equals thQ r.th)     -- ratio 1 > threshold || Float64Equals(1, threshold)
/-- `none`: some window is longer than the idle gap, so what earlier probes left behind still counts -/
def cbProbe (enf : List CbRule) : Option Bool := if enf.all (fun r => r.statMs ≤ 90000) then some (enf.any cbOpens) else none

/-- system: inbound request, idle inbound node, load = 4, cpu usage = 0.75 -/
def sysBlocks (r : SysRule) : Bool :=
  match r.metric with
  | 0 => decide (8 > r.th2) && r.strategy != 1
  | 1 | 2 | 3 => decide (r.th2 ≤ 0)
  | 4 => decide (r.th2 ≤ 1) && r.strategy != 1
  | _ => false
def sysProbe (enf : List SysRule) : Bool := enf.any sysBlocks

end Sentinel.Rules
