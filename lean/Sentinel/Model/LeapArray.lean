/-!
# M-LA — the leap array (core Lean only, executable)

Mirrors `core/stat/base/leap_array.go`, `bucket_leap_array.go`, `sliding_window_metric.go`:

* `mk n L now`        = `NewAtomicBucketWrapArrayWithTime(n, L, now, …)`
* `add a t x`         = `currentBucketOfTime(t)` followed by an update of the returned bucket
                        (`Bool` = "a bucket was returned"; `false` is the *behind* error / `now = 0`)
* `refresh a t`       = `currentBucketOfTime(t)` alone (array-level reads call it first)
* `deprecated`        = `isBucketDeprecated` with Go's **unsigned** subtraction
* `rangeOf`           = `SlidingWindowMetric.getBucketStartRange` (saturating at 0, as repaired)
* `viewVals`          = `getSatisfiedBuckets`
* `valuesAt`          = `valuesWithTime`

The payload `M` is generic: the proofs need only a commutative monoid, so the five event
counters, the per-bucket minimum RT and the per-bucket peak concurrency are instances.
-/
namespace Sentinel.LA

structure Slot (M : Type) where
  start : Nat
  val   : M
deriving Repr

structure Arr (M : Type) where
  n : Nat
  L : Nat
  slots : List (Slot M)
deriving Repr

/-- `calculateStartTime` -/
def cbs (L t : Nat) : Nat := t - t % L
/-- `calculateTimeIdx` -/
def idx {M} (a : Arr M) (t : Nat) : Nat := (t / a.L) % a.n

def mk {M} [Zero M] (n L now : Nat) : Arr M :=
  let i0 := (now / L) % n
  let s0 := cbs L now
  { n := n, L := L,
    slots := (List.range n).map fun j =>
      { start := if i0 ≤ j then s0 + (j - i0) * L else s0 + (n - i0 + j) * L, val := 0 } }

/-- record `x` at time `t`: accumulate into the current bucket, or recycle the slot -/
def add {M} [Add M] (a : Arr M) (t : Nat) (x : M) : Arr M × Bool :=
  let i := idx a t
  let bs := cbs a.L t
  match a.slots[i]? with
  | none => (a, false)
  | some s =>
    if bs = s.start then ({ a with slots := a.slots.set i { s with val := s.val + x } }, true)
    else if s.start < bs then ({ a with slots := a.slots.set i { start := bs, val := x } }, true)
    else if a.n = 1 then ({ a with slots := a.slots.set i { s with val := s.val + x } }, true)
    else (a, false)

/-- `currentBucketOfTime(0)` is an error: nothing is recorded -/
def addAt {M} [Add M] (a : Arr M) (t : Nat) (x : M) : Arr M × Bool :=
  if t = 0 then (a, false) else add a t x

def runAdds {M} [Add M] (a : Arr M) : List (Nat × M) → Arr M
  | [] => a
  | (t, x) :: r => runAdds (add a t x).1 r

/-- sum of the slots whose start lies in `[lo, hi]` -/
def readW {M} [Add M] [Zero M] (sl : List (Slot M)) (lo hi : Nat) : M :=
  (sl.map fun s => if lo ≤ s.start ∧ s.start ≤ hi then s.val else 0).sum

/-- the reference: sum over the *history* of the amounts whose bucket start lies in `[lo, hi]` -/
def refW {M} [Add M] [Zero M] (L : Nat) (h : List (Nat × M)) (lo hi : Nat) : M :=
  (h.map fun e => if lo ≤ cbs L e.1 ∧ cbs L e.1 ≤ hi then e.2 else 0).sum

/-- `isBucketDeprecated` with Go's unsigned subtraction: `now - ws` wraps to a huge value when `ws > now` -/
def deprecated (I now ws : Nat) : Bool := if ws ≤ now then decide (now - ws > I) else true

/-- `getBucketStartRange`: `start = end + L - interval`, saturating at 0 (after the repair of
    `window-start-underflow`; natural-number subtraction is exactly the saturating one). -/
def rangeOf (L Iv now : Nat) : Nat × Nat :=
  let e := cbs L now
  (e + L - Iv, e)

/-- the pinned (pre-repair) arithmetic: uint64 wrap-around when `end + L < interval` -/
def rangeOfWrap (L Iv now : Nat) : Nat × Nat :=
  let e := cbs L now
  (if Iv ≤ e + L then e + L - Iv else 2^64 + e + L - Iv, e)

/-- `getSatisfiedBuckets(now)` of a view with interval `Iv` over the array `a` -/
def viewVals {M} (a : Arr M) (Iv now : Nat) : List (Slot M) :=
  if now = 0 then [] else      -- `ValuesConditional`: time 0 is "no time", nothing is returned
  let r := rangeOf a.L Iv now
  a.slots.filter fun s => !deprecated (a.n * a.L) now s.start && decide (r.1 ≤ s.start ∧ s.start ≤ r.2)

/-- `valuesWithTime(now)` -/
def valuesAt {M} (a : Arr M) (now : Nat) : List (Slot M) :=
  if now = 0 then [] else a.slots.filter fun s => !deprecated (a.n * a.L) now s.start

/-- `currentBucketOfTime(now)` on its own (reset of a stale slot, nothing added) -/
def refresh {M} [Add M] [Zero M] (a : Arr M) (now : Nat) : Arr M := (addAt a now 0).1

def viewSum {M} [Add M] [Zero M] (a : Arr M) (Iv now : Nat) : M := ((viewVals a Iv now).map (·.val)).sum

end Sentinel.LA
