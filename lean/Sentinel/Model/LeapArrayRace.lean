import Sentinel.Model.LeapArray
/-!
# M-LAR — small-step model of the leap array under concurrent recorders and readers (core Lean only)

Granularity: **one step = the atomic access guarded by the yield hook at which the thread is parked,
plus the thread-local code up to its next yield hook** (`util/verifhook.Yield`, build tag `verif`),
exactly what `go/internal/sched` grants per schedule entry.  The hooks (and therefore the `Pc`s) are

| `Pc`            | hook                   | atomic access of the step                                              |
|-----------------|------------------------|------------------------------------------------------------------------|
| `curLoad`       | `la.cur.load`          | `la.array.get(idx)` + the (up to three) `LoadUint64(&old.BucketStart)` of this loop iteration — **one step**: there is no hook between them |
| `tryLock`       | `la.cur.trylock`       | `updateLock.TryLock()` (CAS 0→1)                                       |
| `spin`          | `la.cur.spin`          | `runtime.Gosched()` (no shared access), back to the loop head          |
| `resetStart`    | `bla.reset.start`      | `StoreUint64(&bw.BucketStart, startTime)`                              |
| `resetCnt k`    | `mb.reset.counter`     | `StoreInt64(&mb.counter[k], 0)`                                        |
| `resetMinRt`    | `mb.reset.minrt`       | `StoreInt64(&mb.minRt, 60000)`                                         |
| `resetMaxConc`  | `mb.reset.maxconc`     | `StoreInt32(&mb.maxConcurrency, 0)`                                    |
| `unlock`        | `la.cur.unlock`        | `updateLock.Unlock()`                                                  |
| `mbAdd`         | `mb.add`               | `AddInt64(&mb.counter[ev], amt)`                                       |
| `minrtLoad`     | `mb.minrt.load`        | `LoadInt64(&mb.minRt)` and the comparison                              |
| `minrtStore`    | `mb.minrt.store`       | `StoreInt64(&mb.minRt, rt)`                                            |
| `maxconcLoad`   | `mb.maxconc.load`      | `LoadInt32(&mb.maxConcurrency)` and the comparison                     |
| `maxconcStore`  | `mb.maxconc.store`     | `StoreInt32(&mb.maxConcurrency, c)`                                    |
| `valGet j`      | `la.values.get`        | `la.array.get(j)` (the slot pointers never change: no effect)          |
| `depLoad j`     | `la.deprecated.load`   | `LoadUint64(&ww.BucketStart)` in `isBucketDeprecated` (+ the predicate's load of the same word in `ValuesConditional`: same step) |
| `mbGet`         | `mb.get`               | `LoadInt64(&mb.counter[ev])`                                           |

Thread programs: `add ev amt` = `BucketLeapArray.AddCount`, `conc c` = `UpdateConcurrency`,
`count ev` = `BucketLeapArray.Count` (refresh of the current bucket, then all valid buckets),
`viewsum ev` = `SlidingWindowMetric.GetSum` (pure read through `getSatisfiedBuckets`).
Every operation reads the clock once, when it starts (`util.CurrentTimeMillis()` before the first
hook); different threads may therefore carry different readings — that is how a recorder straddles a
rollover.  `tick` entries of a schedule advance the clock.

Shared words are functions `Nat → …` (slot ↦ word) updated point-wise; `tot`, `fresh`, `dirty`, `lost`
are **ghosts** (never read by a step): `tot` = everything ever added to the word by an executed
`AddInt64`; `fresh` = the same since the slot's start was last stored; `dirty` = start stored, counter
not yet zeroed (the window of the known finding); `lost` = amounts added while dirty.
-/
namespace Sentinel.LAR
open Sentinel.LA (cbs deprecated rangeOf)

def nEv : Nat := 5          -- base.MetricEventTotal (pass, block, complete, error, rt)
def evRt : Nat := 4         -- base.MetricEventRt
def maxRt : Nat := 60000    -- base.DefaultStatisticMaxRt

inductive OpSpec where
  | add (ev amt : Nat)
  | conc (c : Nat)
  | count (ev : Nat)
  | viewsum (ev : Nat)
deriving Repr, DecidableEq

inductive Pc where
  | curLoad | tryLock | spin | resetStart | resetCnt (k : Nat) | resetMinRt | resetMaxConc | unlock
  | mbAdd | minrtLoad | minrtStore | maxconcLoad | maxconcStore
  | valGet (j : Nat) (col : List Nat) | depLoad (j : Nat) (col : List Nat)
  | mbGet (rem : List Nat) (acc : Nat)
deriving Repr, DecidableEq

/-- the yield hook at which a thread at `pc` is parked -/
def Pc.hook : Pc → String
  | .curLoad => "la.cur.load" | .tryLock => "la.cur.trylock" | .spin => "la.cur.spin"
  | .resetStart => "bla.reset.start" | .resetCnt _ => "mb.reset.counter" | .resetMinRt => "mb.reset.minrt"
  | .resetMaxConc => "mb.reset.maxconc" | .unlock => "la.cur.unlock" | .mbAdd => "mb.add"
  | .minrtLoad => "mb.minrt.load" | .minrtStore => "mb.minrt.store"
  | .maxconcLoad => "mb.maxconc.load" | .maxconcStore => "mb.maxconc.store"
  | .valGet _ _ => "la.values.get" | .depLoad _ _ => "la.deprecated.load" | .mbGet _ _ => "mb.get"

structure Shared where
  n : Nat                       -- sampleCount
  L : Nat                       -- bucketLengthInMs
  Iv : Nat                      -- interval of the `SlidingWindowMetric` view used by `viewsum`
  start : Nat → Nat             -- BucketWrap.BucketStart per slot
  cnt : Nat → Nat → Nat         -- MetricBucket.counter[ev] per slot
  minRt : Nat → Nat
  maxConc : Nat → Nat
  lock : Bool                   -- LeapArray.updateLock
  tot : Nat → Nat → Nat         -- ghost: Σ amounts of the executed atomic adds per slot and event
  fresh : Nat → Nat → Nat       -- ghost: Σ amounts added to the word since the slot's start was last stored
  dirty : Nat → Nat → Bool      -- ghost: the slot's start has been stored, this counter has not been zeroed yet
  lost : Nat → Nat → Nat        -- ghost: Σ amounts added to the word while it was dirty (wiped by the zeroing)

def upd {α : Type} (f : Nat → α) (i : Nat) (v : α) : Nat → α := fun j => if j = i then v else f j
def upd2 (f : Nat → Nat → Nat) (i k v : Nat) : Nat → Nat → Nat := fun a b => if a = i ∧ b = k then v else f a b

/-- the effect of one step on the shared words -/
inductive Act where
  | none | lock | unlock
  | setStart (i s : Nat) | zeroCnt (i k : Nat) | setMinRt (i v : Nat) | setMaxConc (i v : Nat)
  | addCnt (i k a : Nat)
deriving Repr, DecidableEq

def Shared.apply (sh : Shared) : Act → Shared
  | .none => sh
  | .lock => { sh with lock := true }
  | .unlock => { sh with lock := false }
  | .setStart i s =>
      { sh with start := upd sh.start i s,
                fresh := fun a b => if a = i then 0 else sh.fresh a b,
                dirty := fun a b => if a = i then true else sh.dirty a b,
                lost := fun a b => if a = i then 0 else sh.lost a b }
  | .zeroCnt i k =>
      { sh with cnt := upd2 sh.cnt i k 0,
                dirty := fun a b => if a = i ∧ b = k then false else sh.dirty a b,
                -- (a zeroing of a word that is not being recycled would wipe recorded data; it never happens)
                lost := upd2 sh.lost i k (if sh.dirty i k then sh.lost i k else sh.lost i k + sh.cnt i k) }
  | .setMinRt i v => { sh with minRt := upd sh.minRt i v }
  | .setMaxConc i v => { sh with maxConc := upd sh.maxConc i v }
  | .addCnt i k a =>
      { sh with cnt := upd2 sh.cnt i k (sh.cnt i k + a), tot := upd2 sh.tot i k (sh.tot i k + a),
                fresh := upd2 sh.fresh i k (sh.fresh i k + a),
                lost := upd2 sh.lost i k (if sh.dirty i k then sh.lost i k + a else sh.lost i k) }

/-- where the thread goes: on inside the current operation, or the operation returns -/
inductive Next where
  | pc (p : Pc)
  | fin (r : Option Nat)
deriving Repr, DecidableEq

def OpSpec.ev : OpSpec → Nat
  | .add ev _ => ev | .conc _ => 0 | .count ev => ev | .viewsum ev => ev

/-- entering `valuesWithTime` / `ValuesConditional` -/
def firstVal (sh : Shared) : Next := if sh.n = 0 then .fin (some 0) else .pc (.valGet 0 [])

/-- after the scan: sum the collected buckets -/
def afterScan (col : List Nat) : Next :=
  match col with
  | [] => .fin (some 0)
  | _ :: _ => .pc (.mbGet col 0)

/-- `currentBucketOfTime` returned (`ok` = a bucket, `false` = the "behind" error) -/
def afterCur (sh : Shared) (op : OpSpec) (ok : Bool) : Next :=
  match op with
  | .add _ _ => if ok then .pc .mbAdd else .fin none
  | .conc _ => if ok then .pc .maxconcLoad else .fin none
  | .count _ => firstVal sh
  | .viewsum _ => firstVal sh

/-- first yield point of an operation -/
def firstPc (sh : Shared) : OpSpec → Next
  | .viewsum _ => firstVal sh
  | _ => .pc .curLoad

/-- is the slot with start `s` part of the read?  `valuesWithTime`: not deprecated; `ValuesConditional` of a view:
    not deprecated and inside the view's start range -/
def keepOf (sh : Shared) (op : OpSpec) (now s : Nat) : Bool :=
  match op with
  | .viewsum _ =>
      !deprecated (sh.n * sh.L) now s && decide ((rangeOf sh.L sh.Iv now).1 ≤ s ∧ s ≤ (rangeOf sh.L sh.Iv now).2)
  | _ => !deprecated (sh.n * sh.L) now s

/-- one step of a thread inside operation `op` started at clock reading `now` -/
def decideStep (sh : Shared) (op : OpSpec) (now : Nat) (pc : Pc) : Act × Next :=
  let i := (now / sh.L) % sh.n
  let bs := cbs sh.L now
  match pc with
  | .curLoad =>
      let s := sh.start i
      if bs = s then (.none, afterCur sh op true)
      else if s < bs then (.none, .pc .tryLock)
      else if sh.n = 1 then (.none, afterCur sh op true)
      else (.none, afterCur sh op false)
  | .tryLock => if sh.lock then (.none, .pc .spin) else (.lock, .pc .resetStart)
  | .spin => (.none, .pc .curLoad)
  | .resetStart => (.setStart i bs, .pc (.resetCnt 0))
  | .resetCnt k => (.zeroCnt i k, if k + 1 < nEv then .pc (.resetCnt (k + 1)) else .pc .resetMinRt)
  | .resetMinRt => (.setMinRt i maxRt, .pc .resetMaxConc)
  | .resetMaxConc => (.setMaxConc i 0, .pc .unlock)
  | .unlock => (.unlock, afterCur sh op true)
  | .mbAdd =>
      match op with
      | .add ev amt => (.addCnt i ev amt, if ev = evRt then .pc .minrtLoad else .fin none)
      | _ => (.none, .fin none)
  | .minrtLoad =>
      match op with
      | .add _ amt => (.none, if amt < sh.minRt i then .pc .minrtStore else .fin none)
      | _ => (.none, .fin none)
  | .minrtStore =>
      match op with
      | .add _ amt => (.setMinRt i amt, .fin none)
      | _ => (.none, .fin none)
  | .maxconcLoad =>
      match op with
      | .conc c => (.none, if sh.maxConc i < c then .pc .maxconcStore else .fin none)
      | _ => (.none, .fin none)
  | .maxconcStore =>
      match op with
      | .conc c => (.setMaxConc i c, .fin none)
      | _ => (.none, .fin none)
  | .valGet j col => (.none, .pc (.depLoad j col))
  | .depLoad j col =>
      let s := sh.start j
      let keep : Bool := keepOf sh op now s
      let col' := if keep then col ++ [j] else col
      (.none, if j + 1 < sh.n then .pc (.valGet (j + 1) col') else afterScan col')
  | .mbGet rem acc =>
      match rem with
      | [] => (.none, .fin (some acc))
      | j :: r =>
          let acc' := acc + sh.cnt j op.ev
          (.none, match r with
                  | [] => .fin (some acc')
                  | _ :: _ => .pc (.mbGet r acc'))

structure Frame where
  op : OpSpec
  now : Nat
  pc : Pc
deriving Repr, DecidableEq

/-- `sumTo f m = f 0 + … + f (m-1)` -/
def sumTo (f : Nat → Nat) : Nat → Nat
  | 0 => 0
  | m + 1 => sumTo f m + f m

/-- ghost: total of the executed atomic adds of event `ev` over all slots -/
def Shared.performed (sh : Shared) (ev : Nat) : Nat := sumTo (fun i => sh.tot i ev) sh.n

/-- a completed operation -/
structure Res where
  op : OpSpec
  now : Nat
  val : Option Nat      -- value returned by a read
  totAt : Nat           -- ghost: `performed op.ev` at the moment the operation returned
deriving Repr, DecidableEq

structure Th where
  prog : List OpSpec    -- operations not yet started
  cur : Option Frame    -- the operation in progress
  res : List Res        -- completed operations, oldest first
deriving Repr, DecidableEq

def Th.finished (t : Th) : Bool := t.cur.isNone && t.prog.isEmpty

def mkRes (sh : Shared) (op : OpSpec) (now : Nat) (r : Option Nat) : Res :=
  { op := op, now := now, val := r, totAt := sh.performed op.ev }

/-- result of an operation started at time 0 (`now <= 0` guards: error / empty list, no hook reached) -/
def zeroRes : OpSpec → Option Nat
  | .add _ _ => none | .conc _ => none | .count _ => some 0 | .viewsum _ => some 0

/-- start the next operation(s): read the clock, run to the first yield point -/
def startNext (sh : Shared) (clock : Nat) : List OpSpec → List Res → Th
  | [], res => { prog := [], cur := none, res := res }
  | op :: rest, res =>
      if clock = 0 then startNext sh clock rest (res ++ [mkRes sh op 0 (zeroRes op)])
      else match firstPc sh op with
        | .pc p => { prog := rest, cur := some { op := op, now := clock, pc := p }, res := res }
        | .fin r => startNext sh clock rest (res ++ [mkRes sh op clock r])

/-- one granted step of a thread (the first one starts it: the "initial advance" of the scheduler) -/
def stepTh (sh : Shared) (clock : Nat) (t : Th) : Shared × Th :=
  match t.cur with
  | none => (sh, startNext sh clock t.prog t.res)
  | some f =>
      let an := decideStep sh f.op f.now f.pc
      let sh' := sh.apply an.1
      match an.2 with
      | .pc p => (sh', { t with cur := some { f with pc := p } })
      | .fin r => (sh', startNext sh' clock t.prog (t.res ++ [mkRes sh' f.op f.now r]))

structure Cfg where
  sh : Shared
  clock : Nat
  th : List Th

inductive Entry where
  | step (tid : Nat)
  | tick (ms : Nat)
deriving Repr, DecidableEq

def Cfg.exec (c : Cfg) : Entry → Cfg
  | .tick d => { c with clock := c.clock + d }
  | .step i =>
      match c.th[i]? with
      | none => c
      | some t =>
          let r := stepTh c.sh c.clock t
          { c with sh := r.1, th := c.th.set i r.2 }

/-- a schedule is a list of thread ids and ticks; entries naming a finished / unknown thread are no-ops -/
def run (c : Cfg) : List Entry → Cfg
  | [] => c
  | e :: r => run (c.exec e) r

def Cfg.allFinished (c : Cfg) : Bool := c.th.all Th.finished

/-- the scheduler's drain phase: round-robin, one step each, until every thread has finished -/
def drain : Nat → Cfg → Cfg
  | 0, c => c
  | fuel + 1, c =>
      if c.allFinished then c
      else drain fuel (run c ((List.range c.th.length).map Entry.step))

/-- `NewAtomicBucketWrapArrayWithTime(n, L, now)` -/
def initStart (n L now : Nat) : Nat → Nat :=
  let i0 := (now / L) % n
  let s0 := cbs L now
  fun j => if i0 ≤ j then s0 + (j - i0) * L else s0 + (n - i0 + j) * L

def mkShared (n L Iv now : Nat) : Shared :=
  { n := n, L := L, Iv := Iv, start := initStart n L now, cnt := fun _ _ => 0, minRt := fun _ => maxRt,
    maxConc := fun _ => 0, lock := false, tot := fun _ _ => 0,
    fresh := fun _ _ => 0, dirty := fun _ _ => false, lost := fun _ _ => 0 }

def mkThread (prog : List OpSpec) : Th := { prog := prog, cur := none, res := [] }

end Sentinel.LAR
