/-!
# Small-step circuit breaker at yield-hook granularity (C12)

`core/circuitbreaker/circuit_breaker.go`, build tag `verif`: every atomic access of the breaker's
own words is preceded by a yield point `cb.*`.  One `step` of this model = the atomic access guarded
by the yield point at which the thread is parked **plus** the thread-local code up to the next `cb.*`
yield point (or the end of the thread's program) — exactly what one schedule entry of
`verifharness/internal/sched` grants with `Prefixes = ["cb."]`.

Shared words: state word, retry deadline (`nextRetryTimestampMs`), probe counter
(`curProbeNumber`), the window counters, the listener log, the clock.  The window is abstract: the
harness pins all traffic of a case into one bucket of the breaker's leap array (interval 10^9 ms,
one bucket, aligned start), so the statistic is the pair `(bad, total)`; the statistic's own atomic
accesses carry `la.*`/`mb.*` hooks that are not selected, i.e. they belong to the thread-local part
of the step that reaches them (the *prelude* of `OnRequestComplete`: add + sum snapshot).
The trip predicate is a parameter `Cfg.trip` (error count: `bad ≥ threshold`; the two ratio
strategies: a float comparison evaluated by the driver); no theorem depends on it.

Thread programs are lists of calls: `TryPass` on a fresh entry (optionally the entry is blocked by a
later slot, so that the exit hook registered by `fromOpenToHalfOpen` rolls the probe back) and
`OnRequestComplete(rt, err)`.

Fields below the line `-- monitors` are ghost state (they never influence a step): the transition
history in CAS order, who was admitted and why, and the bookkeeping for "admitted before a full
retry timeout since the breaker opened".
-/
namespace Sentinel.BreakerRace

inductive St | closed | halfOpen | opened
deriving DecidableEq, Repr, Inhabited

/-- a state change `prev → to` performed / reported by thread `tid` -/
structure Note where
  prev : St
  to : St
  tid : Nat
deriving DecidableEq, Repr

/-- why a `TryPass` returned true -/
inductive How | closedRead | probeWin | quota
deriving DecidableEq, Repr

structure Cfg where
  timeout : Nat            -- RetryTimeoutMs
  minReq : Nat             -- MinRequestAmount
  probeNum : Nat           -- ProbeNum
  slowKind : Bool          -- SlowRequestRatio: "bad" = rt > maxRt; otherwise "bad" = err ≠ nil
  maxRt : Nat              -- MaxAllowedRtMs
  trip : Nat → Nat → Bool  -- threshold reached for the snapshot (bad, total)

structure Sh where
  st : St := .closed
  deadline : Nat := 0
  probe : Nat := 0
  clock : Nat := 0
  bad : Nat := 0
  total : Nat := 0
  log : List Note := []          -- listener calls, in call order
  -- monitors
  hist : List Note := []         -- successful CASes on the state word, in CAS order
  admits : List (Nat × How) := []
  openedAt : Nat := 0            -- clock at the last Closed→Open / HalfOpen→Open (not the rollback)
  epoch : Nat := 0               -- number of such openings
  fresh : Bool := false          -- the deadline has been stored since the last such opening
  early : Bool := false          -- some Open→HalfOpen happened before openedAt + timeout
  earlyNoDl : Bool := false      -- … by a TryPass that loaded the deadline in this opening before it was stored
  earlyStale : Bool := false     -- … by a TryPass that checked the deadline during an earlier opening
  earlyOut : Bool := false       -- … outside both windows (never happens: `no_early_admission_partial`)

inductive Call
  | tryPass (blocked : Bool)
  | complete (rt : Nat) (err : Bool)
deriving DecidableEq, Repr

/-- program counters: the name says which yield point the thread is parked at -/
inductive Pc
  | tpGet (blk : Bool)                      -- cb.state.get   (TryPass: CurrentState)
  | tpRetry (blk : Bool)                    -- cb.retry.load  (retryTimeoutArrived)
  | tpCas (blk : Bool) (ep : Nat) (fr : Bool) -- cb.state.cas (fromOpenToHalfOpen); ep/fr: ghost, epoch and freshness seen by the load
  | rbCas                                   -- cb.state.cas   (exit hook: rollback HalfOpen→Open)
  | ocGet (bad : Bool) (b t : Nat)          -- cb.state.get   (OnRequestComplete: CurrentState), snapshot (b, t)
  | ocGet2                                  -- cb.state.get   (second CurrentState in the Closed branch)
  | coCas                                   -- cb.state.cas   (fromClosedToOpen)
  | coStore                                 -- cb.retry.store
  | hoCas                                   -- cb.state.cas   (fromHalfOpenToOpen)
  | hoReset                                 -- cb.probe.reset
  | hoStore                                 -- cb.retry.store
  | paAdd                                   -- cb.probe.add
  | plLoad                                  -- cb.probe.load
  | hcCas                                   -- cb.state.cas   (fromHalfOpenToClosed)
  | hcReset                                 -- cb.probe.reset
  | done
deriving DecidableEq, Repr

structure Th where
  pc : Pc
  rest : List Call
  res : List Bool     -- TryPass results so far
deriving Repr

/-- start the next call of a program: its thread-local prelude up to the first `cb.*` yield point -/
def begin (cfg : Cfg) (s : Sh) (res : List Bool) : List Call → Sh × Th
  | [] => (s, ⟨.done, [], res⟩)
  | .tryPass blk :: r => (s, ⟨.tpGet blk, r, res⟩)
  | .complete rt err :: r =>
      let bad := if cfg.slowKind then decide (cfg.maxRt < rt) else err
      let s' := { s with bad := s.bad + (if bad then 1 else 0), total := s.total + 1 }
      (s', ⟨.ocGet bad s'.bad s'.total, r, res⟩)

/-- the current call returns (no TryPass result to record) -/
def fin (cfg : Cfg) (s : Sh) (t : Th) : Sh × Th := begin cfg s t.res t.rest

/-- the current `TryPass` returns `r`; its entry exits without running a rollback -/
def finR (cfg : Cfg) (s : Sh) (t : Th) (r : Bool) : Sh × Th := begin cfg s (t.res ++ [r]) t.rest

def step (cfg : Cfg) (tid : Nat) (s : Sh) (t : Th) : Sh × Th :=
  match t.pc with
  | .done => (s, t)
  | .tpGet blk =>
      match s.st with
      | .closed => finR cfg { s with admits := s.admits ++ [(tid, .closedRead)] } t true
      | .opened => (s, { t with pc := .tpRetry blk })
      | .halfOpen =>
          if 0 < cfg.probeNum then finR cfg { s with admits := s.admits ++ [(tid, .quota)] } t true
          else finR cfg s t false
  | .tpRetry blk =>
      if s.deadline ≤ s.clock then (s, { t with pc := .tpCas blk s.epoch s.fresh })
      else finR cfg s t false
  | .tpCas blk ep fr =>
      if s.st = .opened then
        let e := decide (s.clock < s.openedAt + cfg.timeout)
        let s' := { s with st := .halfOpen,
                           hist := s.hist ++ [⟨.opened, .halfOpen, tid⟩],
                           log := s.log ++ [⟨.opened, .halfOpen, tid⟩],
                           admits := s.admits ++ [(tid, .probeWin)],
                           early := s.early || e,
                           earlyStale := s.earlyStale || (e && ep != s.epoch),
                           earlyNoDl := s.earlyNoDl || (e && ep == s.epoch && !fr),
                           earlyOut := s.earlyOut || (e && ep == s.epoch && fr) }
        if blk then (s', { t with pc := .rbCas, res := t.res ++ [true] })
        else finR cfg s' t true
      else finR cfg s t false
  | .rbCas =>
      if s.st = .halfOpen then
        fin cfg { s with st := .opened,
                         hist := s.hist ++ [⟨.halfOpen, .opened, tid⟩],
                         log := s.log ++ [⟨.halfOpen, .opened, tid⟩] } t
      else fin cfg s t
  | .ocGet bad b tot =>
      match s.st with
      | .opened => fin cfg s t
      | .halfOpen => if bad then (s, { t with pc := .hoCas }) else (s, { t with pc := .paAdd })
      | .closed =>
          if tot < cfg.minReq then fin cfg s t
          else if cfg.trip b tot then (s, { t with pc := .ocGet2 }) else fin cfg s t
  | .ocGet2 =>
      match s.st with
      | .closed => (s, { t with pc := .coCas })
      | .halfOpen => (s, { t with pc := .hoCas })
      | .opened => fin cfg s t
  | .coCas =>
      if s.st = .closed then
        ({ s with st := .opened, hist := s.hist ++ [⟨.closed, .opened, tid⟩],
                  openedAt := s.clock, epoch := s.epoch + 1, fresh := false },
         { t with pc := .coStore })
      else fin cfg s t
  | .coStore =>
      fin cfg { s with deadline := s.clock + cfg.timeout, fresh := true,
                       log := s.log ++ [⟨.closed, .opened, tid⟩] } t
  | .hoCas =>
      if s.st = .halfOpen then
        ({ s with st := .opened, hist := s.hist ++ [⟨.halfOpen, .opened, tid⟩],
                  openedAt := s.clock, epoch := s.epoch + 1, fresh := false },
         { t with pc := .hoReset })
      else fin cfg s t
  | .hoReset => ({ s with probe := 0 }, { t with pc := .hoStore })
  | .hoStore =>
      fin cfg { s with deadline := s.clock + cfg.timeout, fresh := true,
                       log := s.log ++ [⟨.halfOpen, .opened, tid⟩] } t
  | .paAdd => ({ s with probe := s.probe + 1 }, { t with pc := .plLoad })
  | .plLoad =>
      if cfg.probeNum = 0 ∨ cfg.probeNum ≤ s.probe then (s, { t with pc := .hcCas })
      else fin cfg s t
  | .hcCas =>
      if s.st = .halfOpen then
        ({ s with st := .closed, hist := s.hist ++ [⟨.halfOpen, .closed, tid⟩] }, { t with pc := .hcReset })
      else fin cfg { s with bad := 0, total := 0 } t     -- resetMetric runs whether or not the CAS won
  | .hcReset =>
      fin cfg { s with probe := 0, log := s.log ++ [⟨.halfOpen, .closed, tid⟩], bad := 0, total := 0 } t

/-- a configuration: shared words + one entry per thread -/
structure Conf where
  sh : Sh
  th : List Th

/-- grant one step to thread `i` (an unknown or finished thread: nothing happens) -/
def Conf.sched (cfg : Cfg) (c : Conf) (i : Nat) : Conf :=
  match c.th[i]? with
  | none => c
  | some t => { sh := (step cfg i c.sh t).1, th := c.th.set i (step cfg i c.sh t).2 }

def Conf.tick (c : Conf) (ms : Nat) : Conf := { c with sh := { c.sh with clock := c.sh.clock + ms } }

/-- schedule entries -/
inductive Ent | t (i : Nat) | tick (ms : Nat)
deriving DecidableEq, Repr

def Conf.exec (cfg : Cfg) (c : Conf) : Ent → Conf
  | .t i => c.sched cfg i
  | .tick ms => c.tick ms

def run (cfg : Cfg) (c : Conf) : List Ent → Conf
  | [] => c
  | e :: r => run cfg (c.exec cfg e) r

/-- advance every thread, in thread-id order, to its first yield point -/
def startAll (cfg : Cfg) (s : Sh) : List (List Call) → Sh × List Th
  | [] => (s, [])
  | p :: ps =>
      let r := begin cfg s [] p
      let r2 := startAll cfg r.1 ps
      (r2.1, r.2 :: r2.2)

/-- a batch of threads started on the shared words `s` -/
def initFrom (cfg : Cfg) (s : Sh) (progs : List (List Call)) : Conf :=
  { sh := (startAll cfg s progs).1, th := (startAll cfg s progs).2 }

def init (cfg : Cfg) (progs : List (List Call)) : Conf := initFrom cfg {} progs

/-- the notification a thread still owes to the listeners (a CAS it won whose listener call is still ahead) -/
def Pc.owes : Pc → Option (St × St)
  | .coStore => some (.closed, .opened)
  | .hoReset => some (.halfOpen, .opened)
  | .hoStore => some (.halfOpen, .opened)
  | .hcReset => some (.halfOpen, .closed)
  | _ => none

/-- the value a thread parked before a CAS on the state word expects to find there -/
def Pc.casExpect : Pc → Option St
  | .tpCas .. => some .opened
  | .rbCas => some .halfOpen
  | .coCas => some .closed
  | .hoCas => some .halfOpen
  | .hcCas => some .halfOpen
  | _ => none

/-- the edges of the state machine in the header of circuit_breaker.go -/
def legal : St → St → Bool
  | .closed, .opened => true
  | .opened, .halfOpen => true
  | .halfOpen, .opened => true
  | .halfOpen, .closed => true
  | _, _ => false

/-- follow a list of transitions from `a`: every `prev` is the state reached so far and every edge is legal -/
def walk (a : St) : List Note → Option St
  | [] => some a
  | n :: r => if n.prev = a ∧ legal n.prev n.to = true then walk n.to r else none

/-! ## Several breaker objects: rule reloads

`circuitbreaker.LoadRules` with a tuned rule replaces the resource's breaker by a **fresh, Closed** object
(`BuildResourceCircuitBreaker`); when the new rule is stat-reusable the new object shares the *statistic* of the old
one, nothing else; an equal rule keeps the old object.  Calls look the breaker up when they start
(`getBreakersOfResource` in `Slot.Check` / `MetricStatSlot.OnCompleted`), so a call that is under way when the rule
is reloaded keeps acting on the retired object.  In the model every object is a `Conf` of its own (its words, its
monitors, the calls bound to it — each call is a one-call thread of that object); objects of the same `grp` share
the statistic (`sync` copies the counters), all objects share the clock. -/

structure Obj where
  cfg : Cfg
  grp : Nat          -- identity of the statistic (leap array) the object uses
  rid : Nat          -- identity of the rule it was built from (two rules that are `isEqualsTo` each other share it)
  conf : Conf

structure World where
  objs : List Obj := []
  live : Nat := 0     -- index of the object new calls are bound to

def Obj.setStat (o : Obj) (b t : Nat) : Obj :=
  { o with conf := { o.conf with sh := { o.conf.sh with bad := b, total := t } } }

/-- object `k` has just written the statistic: every object sharing it sees the same counters -/
def World.sync (w : World) (k : Nat) : World :=
  match w.objs[k]? with
  | none => w
  | some o =>
    { w with objs := w.objs.map fun p => if p.grp = o.grp then p.setStat o.conf.sh.bad o.conf.sh.total else p }

def World.tick (w : World) (ms : Nat) : World :=
  { w with objs := w.objs.map fun o => { o with conf := o.conf.tick ms } }

/-- a call starts: it is bound to the live object, as a new (one-call) thread of that object;
    returns the handle (object, thread) -/
def World.bind (w : World) (c : Call) : World × Nat × Nat :=
  match w.objs[w.live]? with
  | none => (w, 0, 0)
  | some o =>
    let o' : Obj := { o with conf := ⟨(begin o.cfg o.conf.sh [] [c]).1, o.conf.th ++ [(begin o.cfg o.conf.sh [] [c]).2]⟩ }
    ((World.mk (w.objs.set w.live o') w.live).sync w.live, w.live, o.conf.th.length)

/-- one step of the call `(k, j)` -/
def World.step (w : World) (k j : Nat) : World :=
  match w.objs[k]? with
  | none => w
  | some o => (World.mk (w.objs.set k { o with conf := o.conf.sched o.cfg j }) w.live).sync k

/-- a rule (re)load: `equal` (the old breaker's rule `isEqualsTo` the new one) keeps the object; otherwise a fresh
    Closed object that shares only the statistic and the clock with the old one becomes the live one -/
def World.reload (w : World) (cfg' : Cfg) (rid : Nat) (equal : Bool) : World :=
  if equal then w else
  match w.objs[w.live]? with
  | none => { objs := w.objs ++ [⟨cfg', w.objs.length, rid, ⟨{}, []⟩⟩], live := w.objs.length }
  | some o =>
    { objs := w.objs ++ [⟨cfg', o.grp, rid, (Conf.mk ({ bad := o.conf.sh.bad, total := o.conf.sh.total } : Sh) []).tick o.conf.sh.clock⟩],
      live := w.objs.length }

/-- what a thread of the harness does, one after the other -/
inductive WCall
  | call (c : Call)
  | reload (cfg : Cfg) (rid : Nat)     -- LoadRules with the rule `rid` (one more yield point of the harness: `cb.x.reload`)

/-- a thread of the harness: the call under way (bound to an object when it started), or parked before a reload -/
structure WT where
  cur : Option (Nat × Nat) := none
  atReload : Option (Cfg × Nat) := none
  todo : List WCall := []
  res : List Bool := []

/-- move on to the next item of the program: a call is looked up (bound to the live object) and runs its prelude -/
def advance (w : World) (t : WT) : World × WT :=
  match t.todo with
  | [] => (w, { t with cur := none, atReload := none })
  | .call c :: r => ((w.bind c).1, { t with cur := some ((w.bind c).2.1, (w.bind c).2.2), atReload := none, todo := r })
  | .reload cfg rid :: r => (w, { t with cur := none, atReload := some (cfg, rid), todo := r })

def World.liveRid (w : World) : Option Nat := (w.objs[w.live]?).map (·.rid)

/-- one schedule entry for a harness thread -/
def WT.step (w : World) (t : WT) : World × WT :=
  match t.atReload with
  | some (cfg, rid) => advance (w.reload cfg rid (w.liveRid == some rid)) t
  | none =>
    match t.cur with
    | none => (w, t)
    | some (k, j) =>
      match ((w.step k j).objs[k]?).bind (fun o => o.conf.th[j]?) with
      | some th => if th.pc = .done then advance (w.step k j) { t with res := t.res ++ th.res } else (w.step k j, t)
      | none => (w.step k j, t)

structure WConf where
  w : World := {}
  ths : List WT := []

def WConf.sched (c : WConf) (i : Nat) : WConf :=
  match c.ths[i]? with
  | none => c
  | some t => { w := (t.step c.w).1, ths := c.ths.set i (t.step c.w).2 }

def WConf.exec (c : WConf) : Ent → WConf
  | .t i => c.sched i
  | .tick ms => { c with w := c.w.tick ms }

def wrun (c : WConf) : List Ent → WConf
  | [] => c
  | e :: r => wrun (c.exec e) r

/-- start a batch of harness threads, in thread-id order -/
def wstart (w : World) : List (List WCall) → World × List WT
  | [] => (w, [])
  | p :: ps =>
      let r := advance w { todo := p }
      ((wstart r.1 ps).1, r.2 :: (wstart r.1 ps).2)

end Sentinel.BreakerRace
