/-!
# Small-step circuit breaker at yield-hook granularity (C12)

`core/circuitbreaker/circuit_breaker.go`, build tag `verif`: every atomic access of the breaker's
own words is preceded by a yield point `cb.*`.  One `step` of this model = the atomic access guarded
by the yield point at which the thread is parked **plus** the thread-local code up to the next `cb.*`
yield point (or the end of the thread's program) — exactly what one schedule entry of
`verifharness/internal/sched` grants with `Prefixes = ["cb."]`.

Shared words: state word, retry deadline (`nextRetryTimestampMs`), probe counter
(`curProbeNumber`), the window counters, the listener log, the clock.  The window is abstract: the
harness pins all traffic of a case into one bucket of the breaker's leap array (interval 10^9 ms,
one bucket, aligned start), so the statistic is the pair `(bad, total)`; the statistic's own atomic
accesses carry `la.*`/`mb.*` hooks that are not selected, i.e. they belong to the thread-local part
of the step that reaches them (the *prelude* of `OnRequestComplete`: add + sum snapshot).
The trip predicate is a parameter `Cfg.trip` (error count: `bad ≥ threshold`; the two ratio
strategies: a float comparison evaluated by the driver); no theorem depends on it.

Thread programs are lists of calls: `TryPass` on a fresh entry (optionally the entry is blocked by a
later slot, so that the exit hook registered by `fromOpenToHalfOpen` rolls the probe back) and
`OnRequestComplete(rt, err)`.

Fields below the line `-- monitors` are ghost state (they never influence a step): the transition
history in CAS order, who was admitted and why, and the bookkeeping for "admitted before a full
retry timeout since the breaker opened".
-/
namespace Sentinel.BreakerRace

inductive St | closed | halfOpen | opened
deriving DecidableEq, Repr, Inhabited

/-- a state change `prev → to` performed / reported by thread `tid` -/
structure Note where
  prev : St
  to : St
  tid : Nat
deriving DecidableEq, Repr

/-- why a `TryPass` returned true -/
inductive How | closedRead | probeWin | quota
deriving DecidableEq, Repr

structure Cfg where
  timeout : Nat            -- RetryTimeoutMs
  minReq : Nat             -- MinRequestAmount
  probeNum : Nat           -- ProbeNum
  slowKind : Bool          -- SlowRequestRatio: "bad" = rt > maxRt; otherwise "bad" = err ≠ nil
  maxRt : Nat              -- MaxAllowedRtMs
  trip : Nat → Nat → Bool  -- threshold reached for the snapshot (bad, total)

structure Sh where
  st : St := .closed
  deadline : Nat := 0
  probe : Nat := 0
  clock : Nat := 0
  bad : Nat := 0
  total : Nat := 0
  log : List Note := []          -- listener calls, in call order
  -- monitors
  hist : List Note := []         -- successful CASes on the state word, in CAS order
  admits : List (Nat × How) := []
  openedAt : Nat := 0            -- clock at the last Closed→Open / HalfOpen→Open (not the rollback)
  epoch : Nat := 0               -- number of such openings
  fresh : Bool := false          -- the deadline has been stored since the last such opening
  early : Bool := false          -- some Open→HalfOpen happened before openedAt + timeout
  earlyNoDl : Bool := false      -- … by a TryPass that loaded the deadline in this opening before it was stored
  earlyStale : Bool := false     -- … by a TryPass that checked the deadline during an earlier opening
  earlyOut : Bool := false       -- … outside both windows (never happens: `no_early_admission_partial`)

inductive Call
  | tryPass (blocked : Bool)
  | complete (rt : Nat) (err : Bool)
  | rollback          -- the exit hook of an entry that won a probe on this breaker and was blocked afterwards
deriving DecidableEq, Repr

/-- program counters: the name says which yield point the thread is parked at -/
inductive Pc
  | tpGet (blk : Bool)                      -- cb.state.get   (TryPass: CurrentState)
  | tpRetry (blk : Bool)                    -- cb.retry.load  (retryTimeoutArrived: the clock is read first …)
  | tpLoad (blk : Bool) (now : Nat)         -- cb.x.clock     (… then the deadline is loaded and compared with that reading;
                                            --  the harness clock yields between the two, when called from the retry check)
  | tpCas (blk : Bool) (ep : Nat) (fr : Bool) -- cb.state.cas (fromOpenToHalfOpen); ep/fr: ghost, epoch and freshness seen by the load
  | rbCas                                   -- cb.state.cas   (exit hook: rollback HalfOpen→Open)
  | ocGet (bad : Bool) (b t : Nat)          -- cb.state.get   (OnRequestComplete: CurrentState), snapshot (b, t)
  | ocGet2                                  -- cb.state.get   (second CurrentState in the Closed branch)
  | coCas                                   -- cb.state.cas   (fromClosedToOpen)
  | coStore                                 -- cb.retry.store
  | hoCas                                   -- cb.state.cas   (fromHalfOpenToOpen)
  | hoReset                                 -- cb.probe.reset
  | hoStore                                 -- cb.retry.store
  | paAdd                                   -- cb.probe.add
  | plLoad                                  -- cb.probe.load
  | hcCas                                   -- cb.state.cas   (fromHalfOpenToClosed)
  | hcReset                                 -- cb.probe.reset
  | done
deriving DecidableEq, Repr

structure Th where
  pc : Pc
  rest : List Call
  res : List Bool     -- TryPass results so far
deriving Repr

/-- start the next call of a program: its thread-local prelude up to the first `cb.*` yield point -/
def begin (cfg : Cfg) (s : Sh) (res : List Bool) : List Call → Sh × Th
  | [] => (s, ⟨.done, [], res⟩)
  | .tryPass blk :: r => (s, ⟨.tpGet blk, r, res⟩)
  | .rollback :: r => (s, ⟨.rbCas, r, res⟩)
  | .complete rt err :: r =>
      let bad := if cfg.slowKind then decide (cfg.maxRt < rt) else err
      let s' := { s with bad := s.bad + (if bad then 1 else 0), total := s.total + 1 }
      (s', ⟨.ocGet bad s'.bad s'.total, r, res⟩)

/-- the current call returns (no TryPass result to record) -/
def fin (cfg : Cfg) (s : Sh) (t : Th) : Sh × Th := begin cfg s t.res t.rest

/-- the current `TryPass` returns `r`; its entry exits without running a rollback -/
def finR (cfg : Cfg) (s : Sh) (t : Th) (r : Bool) : Sh × Th := begin cfg s (t.res ++ [r]) t.rest

def step (cfg : Cfg) (tid : Nat) (s : Sh) (t : Th) : Sh × Th :=
  match t.pc with
  | .done => (s, t)
  | .tpGet blk =>
      match s.st with
      | .closed => finR cfg { s with admits := s.admits ++ [(tid, .closedRead)] } t true
      | .opened => (s, { t with pc := .tpRetry blk })
      | .halfOpen =>
          if 0 < cfg.probeNum then finR cfg { s with admits := s.admits ++ [(tid, .quota)] } t true
          else finR cfg s t false
  | .tpRetry blk => (s, { t with pc := .tpLoad blk s.clock })
  | .tpLoad blk now =>
      if s.deadline ≤ now then (s, { t with pc := .tpCas blk s.epoch s.fresh })
      else finR cfg s t false
  | .tpCas blk ep fr =>
      if s.st = .opened then
        let e := decide (s.clock < s.openedAt + cfg.timeout)
        let s' := { s with st := .halfOpen,
                           hist := s.hist ++ [⟨.opened, .halfOpen, tid⟩],
                           log := s.log ++ [⟨.opened, .halfOpen, tid⟩],
                           admits := s.admits ++ [(tid, .probeWin)],
                           early := s.early || e,
                           earlyStale := s.earlyStale || (e && ep != s.epoch),
                           earlyNoDl := s.earlyNoDl || (e && ep == s.epoch && !fr),
                           earlyOut := s.earlyOut || (e && ep == s.epoch && fr) }
        if blk then (s', { t with pc := .rbCas, res := t.res ++ [true] })
        else finR cfg s' t true
      else finR cfg s t false
  | .rbCas =>
      if s.st = .halfOpen then
        fin cfg { s with st := .opened,
                         hist := s.hist ++ [⟨.halfOpen, .opened, tid⟩],
                         log := s.log ++ [⟨.halfOpen, .opened, tid⟩] } t
      else fin cfg s t
  | .ocGet bad b tot =>
      match s.st with
      | .opened => fin cfg s t
      | .halfOpen => if bad then (s, { t with pc := .hoCas }) else (s, { t with pc := .paAdd })
      | .closed =>
          if tot < cfg.minReq then fin cfg s t
          else if cfg.trip b tot then (s, { t with pc := .ocGet2 }) else fin cfg s t
  | .ocGet2 =>
      match s.st with
      | .closed => (s, { t with pc := .coCas })
      | .halfOpen => (s, { t with pc := .hoCas })
      | .opened => fin cfg s t
  | .coCas =>
      if s.st = .closed then
        ({ s with st := .opened, hist := s.hist ++ [⟨.closed, .opened, tid⟩],
                  openedAt := s.clock, epoch := s.epoch + 1, fresh := false },
         { t with pc := .coStore })
      else fin cfg s t
  | .coStore =>
      fin cfg { s with deadline := s.clock + cfg.timeout, fresh := true,
                       log := s.log ++ [⟨.closed, .opened, tid⟩] } t
  | .hoCas =>
      if s.st = .halfOpen then
        ({ s with st := .opened, hist := s.hist ++ [⟨.halfOpen, .opened, tid⟩],
                  openedAt := s.clock, epoch := s.epoch + 1, fresh := false },
         { t with pc := .hoReset })
      else fin cfg s t
  | .hoReset => ({ s with probe := 0 }, { t with pc := .hoStore })
  | .hoStore =>
      fin cfg { s with deadline := s.clock + cfg.timeout, fresh := true,
                       log := s.log ++ [⟨.halfOpen, .opened, tid⟩] } t
  | .paAdd => ({ s with probe := s.probe + 1 }, { t with pc := .plLoad })
  | .plLoad =>
      if cfg.probeNum = 0 ∨ cfg.probeNum ≤ s.probe then (s, { t with pc := .hcCas })
      else fin cfg s t
  | .hcCas =>
      if s.st = .halfOpen then
        ({ s with st := .closed, hist := s.hist ++ [⟨.halfOpen, .closed, tid⟩] }, { t with pc := .hcReset })
      else fin cfg { s with bad := 0, total := 0 } t     -- resetMetric runs whether or not the CAS won
  | .hcReset =>
      fin cfg { s with probe := 0, log := s.log ++ [⟨.halfOpen, .closed, tid⟩], bad := 0, total := 0 } t

/-- a configuration: shared words + one entry per thread -/
structure Conf where
  sh : Sh
  th : List Th

/-- grant one step to thread `i` (an unknown or finished thread: nothing happens) -/
def Conf.sched (cfg : Cfg) (c : Conf) (i : Nat) : Conf :=
  match c.th[i]? with
  | none => c
  | some t => { sh := (step cfg i c.sh t).1, th := c.th.set i (step cfg i c.sh t).2 }

def Conf.tick (c : Conf) (ms : Nat) : Conf := { c with sh := { c.sh with clock := c.sh.clock + ms } }

/-- schedule entries -/
inductive Ent | t (i : Nat) | tick (ms : Nat)
deriving DecidableEq, Repr

def Conf.exec (cfg : Cfg) (c : Conf) : Ent → Conf
  | .t i => c.sched cfg i
  | .tick ms => c.tick ms

def run (cfg : Cfg) (c : Conf) : List Ent → Conf
  | [] => c
  | e :: r => run cfg (c.exec cfg e) r

/-- advance every thread, in thread-id order, to its first yield point -/
def startAll (cfg : Cfg) (s : Sh) : List (List Call) → Sh × List Th
  | [] => (s, [])
  | p :: ps =>
      let r := begin cfg s [] p
      let r2 := startAll cfg r.1 ps
      (r2.1, r.2 :: r2.2)

/-- a batch of threads started on the shared words `s` -/
def initFrom (cfg : Cfg) (s : Sh) (progs : List (List Call)) : Conf :=
  { sh := (startAll cfg s progs).1, th := (startAll cfg s progs).2 }

def init (cfg : Cfg) (progs : List (List Call)) : Conf := initFrom cfg {} progs

/-- the notification a thread still owes to the listeners (a CAS it won whose listener call is still ahead) -/
def Pc.owes : Pc → Option (St × St)
  | .coStore => some (.closed, .opened)
  | .hoReset => some (.halfOpen, .opened)
  | .hoStore => some (.halfOpen, .opened)
  | .hcReset => some (.halfOpen, .closed)
  | _ => none

/-- the value a thread parked before a CAS on the state word expects to find there -/
def Pc.casExpect : Pc → Option St
  | .tpCas .. => some .opened
  | .rbCas => some .halfOpen
  | .coCas => some .closed
  | .hoCas => some .halfOpen
  | .hcCas => some .halfOpen
  | _ => none

/-- the edges of the state machine in the header of circuit_breaker.go -/
def legal : St → St → Bool
  | .closed, .opened => true
  | .opened, .halfOpen => true
  | .halfOpen, .opened => true
  | .halfOpen, .closed => true
  | _, _ => false

/-- follow a list of transitions from `a`: every `prev` is the state reached so far and every edge is legal -/
def walk (a : St) : List Note → Option St
  | [] => some a
  | n :: r => if n.prev = a ∧ legal n.prev n.to = true then walk n.to r else none

/-! ## Several breaker objects: rule reloads, several breakers per resource

`LoadRules` / `LoadRulesOfResource` hand the resource's rule list to `BuildResourceCircuitBreaker` together with a
**copy** of the resource's current breaker list: a rule that `isEqualsTo` the rule of an old breaker keeps that object,
any other rule gets a **fresh, Closed** object which shares the *statistic* of the first old breaker not yet taken
(same strategy and statistic geometry in this harness, so every old breaker is stat-reusable) and nothing else; the new
list is published in one assignment when the rebuild is complete.  Requests look the list up (a copy under the read
lock) when `Slot.Check` / `MetricStatSlot.OnCompleted` start and walk over that snapshot, so a call that is under way
when the rules are reloaded keeps acting on the objects it found.  In the model every object is a `Conf` of its own
(its words, its monitors, the calls bound to it — each call is a one-call thread of that object); objects of the same
`grp` share the statistic (`sync` copies the counters), all objects share the clock. -/

structure Obj where
  cfg : Cfg
  grp : Nat          -- identity of the statistic (leap array) the object uses
  rid : Nat          -- identity of the rule it was built from (two rules that are `isEqualsTo` each other share it)
  conf : Conf

structure World where
  objs : List Obj := []
  cur : List Nat := []     -- the resource's published breaker list (indices into `objs`), in rule order
  clock : Nat := 0

def Obj.setStat (o : Obj) (b t : Nat) : Obj :=
  { o with conf := { o.conf with sh := { o.conf.sh with bad := b, total := t } } }

/-- object `k` has just written the statistic: every object sharing it sees the same counters -/
def World.sync (w : World) (k : Nat) : World :=
  match w.objs[k]? with
  | none => w
  | some o =>
    { w with objs := w.objs.map fun p => if p.grp = o.grp then p.setStat o.conf.sh.bad o.conf.sh.total else p }

def World.tick (w : World) (ms : Nat) : World :=
  { w with objs := w.objs.map (fun o => { o with conf := o.conf.tick ms }), clock := w.clock + ms }

/-- a call starts on object `k`, as a new (one-call) thread of that object; returns the thread's index -/
def World.bindOn (w : World) (k : Nat) (c : Call) : World × Nat :=
  match w.objs[k]? with
  | none => (w, 0)
  | some o =>
    let o' : Obj := { o with conf := ⟨(begin o.cfg o.conf.sh [] [c]).1, o.conf.th ++ [(begin o.cfg o.conf.sh [] [c]).2]⟩ }
    (({ w with objs := w.objs.set k o' } : World).sync k, o.conf.th.length)

/-- one step of the call `(k, j)` -/
def World.step (w : World) (k j : Nat) : World :=
  match w.objs[k]? with
  | none => w
  | some o => ({ w with objs := w.objs.set k { o with conf := o.conf.sched o.cfg j } } : World).sync k

/-- a rule of the list handed to the rule manager -/
structure RuleE where
  cfg : Cfg
  rid : Nat

/-- `BuildResourceCircuitBreaker`: `old` = the breakers of the (copied) old list not yet taken, `new` = the list built so far -/
def rebuildAux (clock : Nat) : List RuleE → List Nat → List Obj → List Nat → List Obj × List Nat
  | [], _, objs, new => (objs, new)
  | r :: rs, old, objs, new =>
    match old.find? (fun k => (objs[k]?).map (·.rid) == some r.rid) with
    | some k => rebuildAux clock rs (old.erase k) objs (new ++ [k])          -- equal rule: the object is kept
    | none =>
      match old with
      | k :: old' =>                                                          -- tuned rule: fresh object on the first remaining statistic
        let b := match objs[k]? with | some o => o.conf.sh.bad | none => 0
        let t := match objs[k]? with | some o => o.conf.sh.total | none => 0
        let g := match objs[k]? with | some o => o.grp | none => objs.length
        rebuildAux clock rs old'
          (objs ++ [⟨r.cfg, g, r.rid, (Conf.mk ({ bad := b, total := t } : Sh) []).tick clock⟩]) (new ++ [objs.length])
      | [] =>                                                                 -- nothing to reuse: fresh object, fresh statistic
        rebuildAux clock rs [] (objs ++ [⟨r.cfg, objs.length, r.rid, (Conf.mk ({} : Sh) []).tick clock⟩]) (new ++ [objs.length])

/-- a complete rule load: rebuild from the current list, then publish -/
def World.rebuild (w : World) (rules : List RuleE) : World :=
  { w with objs := (rebuildAux w.clock rules w.cur w.objs []).1, cur := (rebuildAux w.clock rules w.cur w.objs []).2 }

/-- what a thread of the harness does, one after the other -/
inductive WCall
  | check (forceBlock : Bool) (noEntry : Bool)
      -- Slot.Check on a fresh entry, then Exit (forceBlock: a later slot blocks the request); noEntry: the context carries
      -- no SentinelEntry (`base.NewEmptyEntryContext()`): a won probe is admitted and reported as usual but no rollback
      -- hook can be attached, and there is no Exit
  | complete (rt : Nat) (err : Bool)     -- MetricStatSlot.OnCompleted
  | load (rules : List RuleE) (noop : Bool) (nx : Nat)
      -- LoadRules / LoadRulesOfResource, parked at `cb.x.reload` before; noop: the list is DeepEqual to the current
      -- rules (nothing happens); nx: yield points `cb.x.rebuild` met inside the rebuild (pass-through rules of a custom
      -- strategy whose generator yields) — the new list is published after the last of them

inductive Phase
  | idle
  | checking (rest hooks : List Nat) (fb ne : Bool)   -- TryPass under way; breakers still to ask; probes won so far (hooks on the entry)
  | rolling (rest : List Nat)                      -- exit hooks (rollbacks) under way
  | completing (rest : List Nat) (rt : Nat) (err : Bool)
  | loading (rules : List RuleE) (noop : Bool) (nx : Nat)   -- parked at cb.x.reload
  | rebuilding (rules : List RuleE) (left : Nat)            -- parked at cb.x.rebuild

/-- a thread of the harness -/
structure WT where
  cur : Option (Nat × Nat) := none     -- the breaker call under way: (object, thread of that object)
  phase : Phase := .idle
  todo : List WCall := []
  res : List Bool := []                -- results of its checks (admitted?)

/-- move on to the next item of the program; a check / completion takes its snapshot of the published list here -/
def advance (w : World) (res : List Bool) : List WCall → World × WT
  | [] => (w, { res := res })
  | .check fb ne :: r =>
    match w.cur with
    | [] => advance w (res ++ [true]) r
    | k :: ks => ((w.bindOn k (.tryPass false)).1,
                  { cur := some (k, (w.bindOn k (.tryPass false)).2), phase := .checking ks [] fb ne, todo := r, res := res })
  | .complete rt err :: r =>
    match w.cur with
    | [] => advance w res r
    | k :: ks => ((w.bindOn k (.complete rt err)).1,
                  { cur := some (k, (w.bindOn k (.complete rt err)).2), phase := .completing ks rt err, todo := r, res := res })
  | .load rules noop nx :: r => (w, { phase := .loading rules noop nx, todo := r, res := res })

/-- run the exit hooks (probe rollbacks) of a blocked entry, then move on -/
def startRoll (w : World) (t : WT) : List Nat → World × WT
  | [] => advance w t.res t.todo
  | h :: r => ((w.bindOn h .rollback).1, { t with cur := some (h, (w.bindOn h .rollback).2), phase := .rolling r })

/-- the breaker call `(k, j)` of thread `t` has returned (`b`: its TryPass result, `won`: it won the probe) -/
def afterCall (w : World) (t : WT) (k : Nat) (b won : Bool) : World × WT :=
  match t.phase with
  | .checking rest hooks fb ne =>
    if b then
      let hooks' := if won && !ne then hooks ++ [k] else hooks
      match rest with
      | k2 :: ks => ((w.bindOn k2 (.tryPass false)).1,
                     { t with cur := some (k2, (w.bindOn k2 (.tryPass false)).2), phase := .checking ks hooks' fb ne })
      | [] => if fb then startRoll w { t with res := t.res ++ [true] } hooks'
              else advance w (t.res ++ [true]) t.todo
    else startRoll w { t with res := t.res ++ [false] } hooks
  | .rolling rest => startRoll w t rest
  | .completing rest rt err =>
    match rest with
    | k2 :: ks => ((w.bindOn k2 (.complete rt err)).1,
                   { t with cur := some (k2, (w.bindOn k2 (.complete rt err)).2), phase := .completing ks rt err })
    | [] => advance w t.res t.todo
  | _ => advance w t.res t.todo

/-- one schedule entry for a harness thread -/
def WT.step (w : World) (t : WT) : World × WT :=
  match t.phase with
  | .loading rules noop nx =>
    if noop then advance w t.res t.todo
    else if nx = 0 then advance (w.rebuild rules) t.res t.todo
    else (w, { t with phase := .rebuilding rules nx })
  | .rebuilding rules left =>
    if left ≤ 1 then advance (w.rebuild rules) t.res t.todo
    else (w, { t with phase := .rebuilding rules (left - 1) })
  | _ =>
    match t.cur with
    | none => (w, t)
    | some (k, j) =>
      match ((w.step k j).objs[k]?).bind (fun o => (o.conf.th[j]?).map fun th => (th, o.conf.sh.admits)) with
      | some (th, adm) =>
        if th.pc = .done then
          afterCall (w.step k j) t k (th.res.getLast?.getD false) (adm.getLast? == some (j, How.probeWin))
        else (w.step k j, t)
      | none => (w.step k j, t)

structure WConf where
  w : World := {}
  ths : List WT := []

def WConf.sched (c : WConf) (i : Nat) : WConf :=
  match c.ths[i]? with
  | none => c
  | some t => { w := (t.step c.w).1, ths := c.ths.set i (t.step c.w).2 }

def WConf.exec (c : WConf) : Ent → WConf
  | .t i => c.sched i
  | .tick ms => { c with w := c.w.tick ms }

def wrun (c : WConf) : List Ent → WConf
  | [] => c
  | e :: r => wrun (c.exec e) r

/-- start a batch of harness threads, in thread-id order -/
def wstart (w : World) : List (List WCall) → World × List WT
  | [] => (w, [])
  | p :: ps => ((wstart (advance w [] p).1 ps).1, (advance w [] p).2 :: (wstart (advance w [] p).1 ps).2)

end Sentinel.BreakerRace
