/-!
# M-CHAIN — the slot chain (`core/base/slot_chain.go`, `entry.go`, `result.go`, `block_error.go`, `api/api.go`)

Code-shaped, executable, core Lean only.  The same definitions are run by `Sentinel.Drv.C16` against the
real packages and are the subject of the theorems in `Sentinel.Props.C16`.

* `insertSlot` / `addAll`   — `Add*Slot` = `append` + `sort.SliceStable` by `Order()` on an already sorted slice
* `Heap`                    — the pooled objects: `*BlockError`, `*TokenResult`, `*EntryContext` (address ↦ content),
                              and the `sync.Pool` of contexts as it behaves on one P without GC (private slot + LIFO shared)
* `chainEntry`              — `SlotChain.Entry` (prepare loop, rule loop with first-block break, result assignment,
                              statistic loop; a panic anywhere ⇒ recovered ⇒ `nil` result)
* `apiEntry`                — `api.entry` (pooled context, `nil` ⇒ pass, blocked ⇒ deep copy + internal `Exit`)
* `userExit`                — `SentinelEntry.Exit` (once flag is kept by the caller of this function, exit handlers,
                              `SlotChain.exit`: `OnCompleted` unless the context is blocked, recover, refurbish)
* `State`, `Op`, `step`     — the op language of the correspondence run
-/
namespace Sentinel.Chain

/-! ## slot ordering -/

/-- `sc.xs = append(sc.xs, s); sort.SliceStable(sc.xs, by Order)` when `sc.xs` was sorted: the new slot goes
    behind every slot whose order value is `≤` its own. -/
def insertSlot {α : Type} (ord : α → Nat) (x : α) : List α → List α
  | [] => [x]
  | y :: ys => if ord y ≤ ord x then y :: insertSlot ord x ys else x :: y :: ys

/-- the slice after a sequence of `Add…Slot` calls -/
def addAll {α : Type} (ord : α → Nat) (xs : List α) : List α :=
  xs.foldl (fun acc x => insertSlot ord x acc) []

/-- reference: *the* stable sort of the insertion sequence -/
def stableSort {α : Type} (ord : α → Nat) (xs : List α) : List α :=
  xs.mergeSort (fun a b => decide (ord a ≤ ord b))

/-! ## slots and their behaviour tables -/

/-- exit handler: returns nil, returns an error (only logged), panics -/
inductive HB | ok | err | panic
deriving DecidableEq, Repr, Inhabited

inductive PB | ok | panic
deriving DecidableEq, Repr, Inhabited

/-- how a blocking rule slot produces its `*TokenResult`: a fresh `NewTokenResultBlockedWithCause`, the pooled
    `ctx.RuleCheckResult.ResetToBlockedWithCause` (what the built-in slots do), or a result object owned and reused by the slot -/
inductive Style
  | fresh   -- `NewTokenResultBlockedWithCause(type, msg, rule, snapshot)`
  | ctx     -- `ctx.RuleCheckResult.ResetToBlockedWithCause(…)` (what the built-in slots do)
  | own     -- a result object owned by the slot, re-armed with `ResetToBlockedWithCause(…)`
  | bare    -- `NewTokenResult(ResultStatusBlocked)` — no option at all
  | typed   -- `NewTokenResult(ResultStatusBlocked, WithBlockType(type), WithRule(rule))`
  | plain   -- `NewTokenResultBlocked(type)`
  | msg     -- `NewTokenResultBlockedWithMessage(type, msg)`
  | ctxT    -- `ctx.RuleCheckResult.ResetToPass(); ctx.RuleCheckResult.ResetToBlocked(type)`
  | ctxM    -- `ctx.RuleCheckResult.ResetToPass(); ctx.RuleCheckResult.ResetToBlockedWithMessage(type, msg)`
deriving DecidableEq, Repr, Inhabited

/-- what a slot writes into the entry context (without panicking) before it behaves: `ctx.SetError`, `ctx.SetPair`, both -/
inductive NoteB | none | err | pair | both
deriving DecidableEq, Repr, Inhabited

inductive RB
  | pass                -- returns a fresh `NewTokenResultPass()`
  | nil                 -- returns nil
  | wait                -- returns `NewTokenResultShouldWait` (not blocked: the loop goes on)
  | panic
  | block (st : Style) (typ : Nat)
deriving DecidableEq, Repr, Inhabited

inductive SB | ok | pPassed | pBlocked | pCompleted
deriving DecidableEq, Repr, Inhabited

structure PSlot where
  id : Nat
  order : Nat
  beh : PB
  hook : Option HB := none       -- registers an exit handler on the entry before behaving
  note : NoteB := .none
deriving DecidableEq, Repr, Inhabited

structure RSlot where
  id : Nat
  order : Nat
  beh : RB
  hook : Option HB := none
  own : Nat := 0                 -- address of the slot-owned `*TokenResult` (style `own`)
  note : NoteB := .none
deriving DecidableEq, Repr, Inhabited

structure SSlot where
  id : Nat
  order : Nat
  beh : SB
  note : NoteB := .none          -- written in `OnEntryPassed` / `OnEntryBlocked`
deriving DecidableEq, Repr, Inhabited

def RB.passes : RB → Bool
  | .pass => true | .nil => true | .wait => true | _ => false

structure ChainDef where
  ps : List PSlot := []
  rs : List RSlot := []
  ss : List SSlot := []
deriving Repr, Inhabited

/-! ## pooled objects -/

structure BErr where
  typ : Nat := 0                 -- `BlockTypeUnknown`
  msg : Option Nat := none       -- none = ""
  rule : Option Nat := none      -- none = nil
  snap : Option Nat := none      -- none = nil
deriving DecidableEq, Repr, Inhabited

structure TokRes where
  status : Nat := 0              -- 0 pass, 1 blocked, 2 should-wait
  be : Option Nat := none        -- address of the `*BlockError`, none = nil
deriving DecidableEq, Repr, Inhabited

def upd {β : Type} (f : Nat → β) (a : Nat) (v : β) : Nat → β := fun x => if x = a then v else f x

structure Heap where
  bes : Nat → BErr := fun _ => {}
  nbe : Nat := 0                 -- next free `*BlockError` address
  trs : Nat → TokRes := fun _ => {}
  ntr : Nat := 0
  ctxs : Nat → Nat := fun _ => 0 -- context ↦ its `RuleCheckResult`
  nctx : Nat := 0
  priv : Option Nat := none      -- sync.Pool: the P's private slot
  shared : List Nat := []        -- sync.Pool: the P's shared chain (pushHead / popHead)
  held : List Nat := []          -- ghost: block errors handed to callers
deriving Inhabited

def allocBE (h : Heap) (b : BErr) : Heap × Nat :=
  ({ h with bes := upd h.bes h.nbe b, nbe := h.nbe + 1 }, h.nbe)

def allocTR (h : Heap) (t : TokRes) : Heap × Nat :=
  ({ h with trs := upd h.trs h.ntr t, ntr := h.ntr + 1 }, h.ntr)

/-- `NewTokenResult(status, opts…)`: always comes with a `*BlockError` -/
def newTokenResult (h : Heap) (status : Nat) (b : BErr) : Heap × Nat :=
  let (h, a) := allocBE h b
  allocTR h { status := status, be := some a }

/-- `(*TokenResult).ResetToPass` -/
def resetToPass (h : Heap) (t : Nat) : Heap :=
  { h with trs := upd h.trs t { status := 0, be := none } }

/-- `(*TokenResult).ResetToBlockedWithCause`: reuses the `*BlockError` in place when there is one -/
def resetToBlockedWith (h : Heap) (t : Nat) (b : BErr) : Heap :=
  match (h.trs t).be with
  | none =>
    let (h, a) := allocBE h b
    { h with trs := upd h.trs t { status := 1, be := some a } }
  | some a =>
    { h with bes := upd h.bes a b, trs := upd h.trs t { status := 1, be := some a } }

/-- the fields behind `r.BlockError()`; `none` = nil pointer -/
def getBE (h : Heap) (t : Nat) : Option BErr := (h.trs t).be.map h.bes

def isBlockedTR (h : Heap) (t : Nat) : Bool := (h.trs t).status == 1

/-- `sync.Pool.Get` on the pinned P (private, then popHead of shared, then `New`) followed by nothing else
    that matters here (`startTime`) -/
def poolGet (h : Heap) : Heap × Nat :=
  match h.priv with
  | some c => ({ h with priv := none }, c)
  | none =>
    match h.shared with
    | c :: r => ({ h with shared := r }, c)
    | [] =>
      let (h, t) := newTokenResult h 0 {}
      ({ h with ctxs := upd h.ctxs h.nctx t, nctx := h.nctx + 1 }, h.nctx)

def poolPut (h : Heap) (c : Nat) : Heap :=
  match h.priv with
  | none => { h with priv := some c }
  | some _ => { h with shared := c :: h.shared }

/-- `RefurbishContext`: `ctx.Reset()` (→ `RuleCheckResult.ResetToPass()`) and `Put` -/
def refurbish (h : Heap) (c : Nat) : Heap := poolPut (resetToPass h (h.ctxs c)) c

/-! ## call log -/

inductive Call
  | prep (id : Nat)
  | check (id : Nat)
  | passed (id : Nat)
  | blocked (id : Nat) (b : Option BErr)
  | completed (id : Nat)
  | handler (id : Nat)
deriving DecidableEq, Repr, Inhabited

abbrev Hooks := List (Nat × HB)

def hookOf (id : Nat) : Option HB → Hooks
  | none => []
  | some b => [(id, b)]

/-! ## `SlotChain.Entry` -/

/-- prepare loop: calls made, exit handlers registered, panicked? -/
def runPrep : List PSlot → List Call × Hooks × Bool
  | [] => ([], [], false)
  | s :: rest =>
    match s.beh with
    | .panic => ([.prep s.id], hookOf s.id s.hook, true)
    | .ok =>
      let (l, k, p) := runPrep rest
      (.prep s.id :: l, hookOf s.id s.hook ++ k, p)

/-- the block error a blocking recording slot reports -/
def blockVal (s : RSlot) (typ : Nat) : BErr :=
  match s.beh with
  | .block .bare _ => {}
  | .block .typed _ => { typ := typ, rule := some s.id }
  | .block .plain _ => { typ := typ }
  | .block .msg _ => { typ := typ, msg := some s.id }
  | .block .ctxT _ => { typ := typ }
  | .block .ctxM _ => { typ := typ, msg := some s.id }
  | _ => { typ := typ, msg := some s.id, rule := some s.id, snap := some s.order }

def doBlock (c : Nat) (s : RSlot) (st : Style) (typ : Nat) (h : Heap) : Heap × Nat :=
  match st with
  | .ctx => (resetToBlockedWith h (h.ctxs c) (blockVal s typ), h.ctxs c)
  | .own => (resetToBlockedWith h s.own (blockVal s typ), s.own)
  -- partial-option resets of the pooled result, on a result just reset to pass (so nothing stale can show through)
  | .ctxT => (resetToBlockedWith (resetToPass h (h.ctxs c)) (h.ctxs c) (blockVal s typ), h.ctxs c)
  | .ctxM => (resetToBlockedWith (resetToPass h (h.ctxs c)) (h.ctxs c) (blockVal s typ), h.ctxs c)
  | _ => newTokenResult h 1 (blockVal s typ)      -- every constructor allocates a fresh result with its block error

inductive RuleOut
  | allPass
  | blocked (t : Nat)
  | panic
deriving DecidableEq, Repr, Inhabited

/-- rule loop: `nil`/non-blocked ⇒ continue, blocked ⇒ break -/
def runRules (c : Nat) : List RSlot → Heap → Heap × List Call × Hooks × RuleOut
  | [], h => (h, [], [], .allPass)
  | s :: rest, h =>
    match s.beh with
    | .panic => (h, [.check s.id], hookOf s.id s.hook, .panic)
    | .block st typ =>
      let (h, t) := doBlock c s st typ h
      (h, [.check s.id], hookOf s.id s.hook, .blocked t)
    | .wait =>
      let (h, _) := newTokenResult h 2 {}
      let (h, l, k, o) := runRules c rest h
      (h, .check s.id :: l, hookOf s.id s.hook ++ k, o)
    | .pass =>
      let (h, _) := newTokenResult h 0 {}
      let (h, l, k, o) := runRules c rest h
      (h, .check s.id :: l, hookOf s.id s.hook ++ k, o)
    | .nil =>
      let (h, l, k, o) := runRules c rest h
      (h, .check s.id :: l, hookOf s.id s.hook ++ k, o)

/-- statistic loop of `Entry`: `blk = none` ⇒ `OnEntryPassed`, `some b` ⇒ `OnEntryBlocked(ctx, b)` -/
def runStats (blk : Option (Option BErr)) : List SSlot → List Call × Bool
  | [] => ([], false)
  | s :: rest =>
    match blk with
    | none =>
      if s.beh = .pPassed then ([.passed s.id], true)
      else let (l, p) := runStats blk rest; (.passed s.id :: l, p)
    | some b =>
      if s.beh = .pBlocked then ([.blocked s.id b], true)
      else let (l, p) := runStats blk rest; (.blocked s.id b :: l, p)

/-- `SlotChain.Entry(ctx)` under its deferred recover: heap, calls, handlers registered, result (`none` = nil) -/
def chainEntry (ch : ChainDef) (c : Nat) (h : Heap) : Heap × List Call × Hooks × Option Nat :=
  let (l1, k1, p1) := runPrep ch.ps
  if p1 then (h, l1, k1, none) else
  let (h, l2, k2, ro) := runRules c ch.rs h
  match ro with
  | .panic => (h, l1 ++ l2, k1 ++ k2, none)
  | .allPass =>
    let h := resetToPass h (h.ctxs c)
    let (l3, p3) := runStats none ch.ss
    (h, l1 ++ l2 ++ l3, k1 ++ k2, if p3 then none else some (h.ctxs c))
  | .blocked t =>
    let h := { h with ctxs := upd h.ctxs c t }
    let blk := if isBlockedTR h t then some (getBE h t) else none
    let (l3, p3) := runStats blk ch.ss
    (h, l1 ++ l2 ++ l3, k1 ++ k2, if p3 then none else some t)

/-! ## what the slots write into the context (`ctx.SetError`, `ctx.SetPair`); nothing in the chain reads it -/

/-- `ctx.Err()`: nil, the error set by slot `id`, or the error the deferred recover of `Entry` stores -/
inductive CErr
  | none
  | slot (id : Nat)
  | panic
deriving DecidableEq, Repr, Inhabited

structure CtxNote where
  err : CErr := .none
  pair : Option Nat := none      -- `ctx.GetPair(key)`: the id of the last slot that called `SetPair(key, id)`
deriving DecidableEq, Repr, Inhabited

def applyNote (n : CtxNote) (id : Nat) : NoteB → CtxNote
  | .none => n
  | .err => { n with err := .slot id }
  | .pair => { n with pair := some id }
  | .both => { err := .slot id, pair := some id }

/-- prepare loop: notes of the slots that run; panicked? -/
def prepNotes : List PSlot → CtxNote → CtxNote × Bool
  | [], n => (n, false)
  | s :: rest, n =>
    match s.beh with
    | .panic => (applyNote n s.id s.note, true)
    | .ok => prepNotes rest (applyNote n s.id s.note)

/-- rule loop: 0 = all passed, 1 = blocked, 2 = panicked -/
def ruleNotes : List RSlot → CtxNote → CtxNote × Nat
  | [], n => (n, 0)
  | s :: rest, n =>
    match s.beh with
    | .panic => (applyNote n s.id s.note, 2)
    | .block _ _ => (applyNote n s.id s.note, 1)
    | _ => ruleNotes rest (applyNote n s.id s.note)

def statNotes (blocked : Bool) : List SSlot → CtxNote → CtxNote × Bool
  | [], n => (n, false)
  | s :: rest, n =>
    if (blocked && s.beh = .pBlocked) || (!blocked && s.beh = .pPassed) then (applyNote n s.id s.note, true)
    else statNotes blocked rest (applyNote n s.id s.note)

/-- the context's error / pair when `SlotChain.Entry` returns (a recovered panic stores its own error last) -/
def entryNote (ch : ChainDef) : CtxNote :=
  let (n, p) := prepNotes ch.ps {}
  if p then { n with err := .panic } else
  let (n, o) := ruleNotes ch.rs n
  if o = 2 then { n with err := .panic } else
  let (n, p) := statNotes (o = 1) ch.ss n
  if p then { n with err := .panic } else n

/-! ## exit -/

/-- exit handlers in registration order; a panic stops everything (recovered by `Exit`) -/
def runHandlers : Hooks → List Call × Bool
  | [] => ([], false)
  | (id, b) :: rest =>
    if b = .panic then ([.handler id], true)
    else let (l, p) := runHandlers rest; (.handler id :: l, p)

def runCompleted : List SSlot → List Call × Bool
  | [] => ([], false)
  | s :: rest =>
    if s.beh = .pCompleted then ([.completed s.id], true)
    else let (l, p) := runCompleted rest; (.completed s.id :: l, p)

/-- the body of `exitCtl.Do` in `SentinelEntry.Exit` + its deferred recover/refurbish -/
def exitBody (ss : List SSlot) (hooks : Hooks) (c : Nat) (h : Heap) : Heap × List Call :=
  let (l1, p1) := runHandlers hooks
  let l2 := if p1 || isBlockedTR h (h.ctxs c) then [] else (runCompleted ss).1
  (refurbish h c, l1 ++ l2)

/-! ## `api.entry` -/

inductive EntryRes
  | passed (c : Nat) (hooks : Hooks)          -- caller gets the entry
  | blocked (c : Nat) (a : Nat) (b : BErr)    -- caller gets a deep copy at address `a` with fields `b`
  | escaped                                    -- a panic reached the caller (nil dereference in the deep copy)
deriving DecidableEq, Repr, Inhabited

def apiEntry (ch : ChainDef) (h : Heap) : Heap × List Call × EntryRes :=
  let (h, c) := poolGet h
  let (h, l, ks, r) := chainEntry ch c h
  match r with
  | none => (h, l, .passed c ks)
  | some t =>
    if isBlockedTR h t then
      match getBE h t with
      | none => (h, l, .escaped)
      | some b =>
        let (h, a) := allocBE h b
        let h := { h with held := a :: h.held }
        let (h, l4) := exitBody ch.ss ks c h
        (h, l ++ l4, .blocked c a b)
    else (h, l, .passed c ks)

/-! ## the op language -/

inductive SlotSpec
  | p (s : PSlot)
  | r (s : RSlot)
  | s (s : SSlot)
deriving Repr, Inhabited

inductive Op
  | chain (name : String) (slots : List SlotSpec)
  | add (name : String) (slot : SlotSpec)
  | entry (e : String) (chain : String)
  | whenexit (e : String) (id : Nat) (b : HB)
  | exit (e : String)
  | log
  | ident (e : String)
  | blockerr (e : String)
  | globalorder
  | ctxq (e : String) (pair : Bool)      -- `ctx <e> err` / `ctx <e> pair`: read the entry's context now
  | clock (ms : Nat)                     -- move the (virtual) clock anywhere, also backwards: nothing in the chain depends on it
deriving Repr, Inhabited

inductive Out
  | none
  | bad
  | sorted (p r s : List Nat)
  | pass
  | block (b : BErr)
  | escaped
  | ok
  | log (l : List Call)
  | unknown                      -- the spec makes no claim
  | ident (c t : Nat)
  | berr (b : BErr)
  | gorder (p r s : List (String × Nat))
  | cerr (c : CErr)
  | cpair (p : Option Nat)
deriving Repr, Inhabited

structure EntryRec where
  name : String
  chain : String
  ctx : Nat
  tr : Nat                       -- `ctx.RuleCheckResult` when `api.Entry` returned
  hooks : Hooks := []
  exited : Bool := false
  blockAt : Option Nat := none   -- blocked: address of the caller's `*BlockError`
deriving Repr, Inhabited

structure State where
  h : Heap := {}
  chains : List (String × ChainDef) := []
  entries : List EntryRec := []
  lastLog : List Call := []
  cnote : Nat → CtxNote := fun _ => {}     -- context ↦ what `ctx.Err()` / `ctx.GetPair` answer
deriving Inhabited

def findChain (s : State) (n : String) : Option ChainDef := (s.chains.find? (·.1 = n)).map (·.2)
def findEntry (s : State) (e : String) : Option EntryRec := s.entries.find? (·.name = e)

def setChain (s : State) (n : String) (ch : ChainDef) : State :=
  { s with chains := (n, ch) :: s.chains.filter (·.1 ≠ n) }

def setEntry (s : State) (r : EntryRec) : State :=
  { s with entries := s.entries.map fun x => if x.name = r.name then r else x }

def RB.needsOwn : RB → Bool
  | .block .own _ => true
  | _ => false

/-- the harness-side constructor of a recording slot followed by `Add…Slot` -/
def addSlot (h : Heap) (ch : ChainDef) : SlotSpec → Heap × ChainDef
  | .p x => (h, { ch with ps := insertSlot (·.order) x ch.ps })
  | .s x => (h, { ch with ss := insertSlot (·.order) x ch.ss })
  | .r x =>
    if x.beh.needsOwn then
      -- the slot owns one `NewTokenResultPass()` for its whole life
      ({ (newTokenResult h 0 {}).1 with },
       { ch with rs := insertSlot (·.order) { x with own := (newTokenResult h 0 {}).2 } ch.rs })
    else (h, { ch with rs := insertSlot (·.order) x ch.rs })

def addSlots : List SlotSpec → Heap → ChainDef → Heap × ChainDef
  | [], h, ch => (h, ch)
  | x :: r, h, ch => let (h, ch) := addSlot h ch x; addSlots r h ch

def sortedOut (ch : ChainDef) : Out :=
  .sorted (ch.ps.map (·.id)) (ch.rs.map (·.id)) (ch.ss.map (·.id))

/-! ### the built-in chain (`api/slot_chain.go`, each slot's `Order()` constant) -/

def defaultPrepIns : List (String × Nat) := [("stat.ResourceNodePrepareSlot", 1000)]
def defaultRuleIns : List (String × Nat) :=
  [("system.AdaptiveSlot", 1000), ("flow.Slot", 2000), ("isolation.Slot", 3000), ("hotspot.Slot", 4000),
   ("circuitbreaker.Slot", 5000)]
def defaultStatIns : List (String × Nat) :=
  [("stat.Slot", 1000), ("log.Slot", 2000), ("flow.StandaloneStatSlot", 3000),
   ("hotspot.ConcurrencyStatSlot", 4000), ("circuitbreaker.MetricStatSlot", 5000)]

def defaultOrder : Out :=
  .gorder (addAll (·.2) defaultPrepIns) (addAll (·.2) defaultRuleIns) (addAll (·.2) defaultStatIns)

def stepChain (s : State) (n : String) (slots : List SlotSpec) : State × Out :=
  match findChain s n with
  | some _ => (s, .bad)
  | none =>
    (setChain { s with h := (addSlots slots s.h {}).1 } n (addSlots slots s.h {}).2, sortedOut (addSlots slots s.h {}).2)

def stepAdd (s : State) (n : String) (slot : SlotSpec) : State × Out :=
  match findChain s n with
  | none => (s, .bad)
  | some ch =>
    (setChain { s with h := (addSlot s.h ch slot).1 } n (addSlot s.h ch slot).2, sortedOut (addSlot s.h ch slot).2)

def recordEntry (s : State) (e n : String) (ch : ChainDef) (r : Heap × List Call × EntryRes) : State × Out :=
  match r.2.2 with
  | .passed c ks =>
    ({ s with h := r.1, lastLog := r.2.1, cnote := upd s.cnote c (entryNote ch),
              entries := s.entries ++ [{ name := e, chain := n, ctx := c, tr := r.1.ctxs c, hooks := ks }] }, .pass)
  | .blocked c a b =>
    -- the internal `Exit` has reset the context
    ({ s with h := r.1, lastLog := r.2.1, cnote := upd s.cnote c {},
              entries := s.entries ++ [{ name := e, chain := n, ctx := c, tr := r.1.ctxs c, exited := true, blockAt := some a }] },
     .block b)
  | .escaped => ({ s with h := r.1, lastLog := r.2.1 }, .escaped)

def stepEntry (s : State) (e n : String) : State × Out :=
  match findEntry s e with
  | some _ => (s, .bad)
  | none =>
    match findChain s n with
    | none => (s, .bad)
    | some ch => recordEntry s e n ch (apiEntry ch s.h)

def stepWhenExit (s : State) (e : String) (id : Nat) (b : HB) : State × Out :=
  match findEntry s e with
  | some r =>
    if r.blockAt.isSome then (s, .bad)
    else (setEntry s { r with hooks := r.hooks ++ [(id, b)] }, .none)
  | none => (s, .bad)

def stepExit (s : State) (e : String) : State × Out :=
  match findEntry s e with
  | some r =>
    if r.blockAt.isSome then (s, .bad)
    else if r.exited then ({ s with lastLog := [] }, .ok)
    else
      match findChain s r.chain with
      | none => (s, .bad)
      | some ch =>
        (setEntry { s with h := (exitBody ch.ss r.hooks r.ctx s.h).1, lastLog := (exitBody ch.ss r.hooks r.ctx s.h).2,
                           cnote := upd s.cnote r.ctx {} }
          { r with exited := true }, .ok)
  | none => (s, .bad)

def stepBlockErr (s : State) (e : String) : State × Out :=
  match findEntry s e with
  | some r =>
    match r.blockAt with
    | some a => (s, .berr (s.h.bes a))
    | none => (s, .bad)
  | none => (s, .bad)

def step (s : State) : Op → State × Out
  | .chain n slots => stepChain s n slots
  | .add n slot => stepAdd s n slot
  | .entry e n => stepEntry s e n
  | .whenexit e id b => stepWhenExit s e id b
  | .exit e => stepExit s e
  | .log => (s, .log s.lastLog)
  | .ident e =>
    match findEntry s e with
    | some r => (s, .ident r.ctx r.tr)
    | none => (s, .bad)
  | .blockerr e => stepBlockErr s e
  | .globalorder => (s, defaultOrder)
  | .ctxq e pair =>
    match findEntry s e with
    | some r => (s, if pair then .cpair (s.cnote r.ctx).pair else .cerr (s.cnote r.ctx).err)
    | none => (s, .bad)
  | .clock _ => (s, .none)

def runOps (s : State) (ops : List Op) : State := ops.foldl (fun s o => (step s o).1) s

end Sentinel.Chain
