import Sentinel.Model.Bucket
import Sentinel.Model.MetricLog
/-!
# The metric aggregator (core Lean only, executable): `core/log/metric/aggregator.go`

The bridge between the statistic nodes (C08: `Sentinel.LA` arrays, `secondItems`) and the metric log
(C17: `Sentinel.MetricLog` writer / searcher).  Nothing is re-modelled here: a node *is* an
`Arr Bucket` with a resource name and a classification, the log *is* a `MetricLog.Writer`.

* `nodeItems`    = `currentMetricItems(node, curSec)`: `MetricsOnCondition(isItemTimestampInTime)` =
                   `secondItems` with the predicate `lastFetchTime ≤ start < curSec`, the inactive items dropped
                   (`isActiveMetricItem`), each tagged with resource name and classification (`aggregateIntoMap`)
* `batches`      = the `metricTimeMap` as `writeTaskLoop` consumes it: keys sorted ascending, one
                   `metricWriter.Write(t, m[t])` per key
* `aggregate`    = one `doAggregate()` followed by draining `writeChan` through the writer
* `record`       = `stat.GetOrCreateResourceNode(res, cls)` followed by `AddCount` / `UpdateConcurrency` on the node

The geometry `(n, L)` of the node arrays (`config.GlobalStatisticSampleCountTotal`, bucket length) is a
parameter of the state; the library default is `20 × 500 ms`.
-/
namespace Sentinel.Agg
open Sentinel.LA Sentinel.MetricLog

/-- start of the second of a millisecond time stamp (`t - t % 1000`) -/
def secOf (t : Nat) : Nat := t - t % 1000

/-- a `stat.ResourceNode`: name, classification, the node's own `BucketLeapArray` -/
structure Node where
  res : Bytes
  cls : Int
  a : Arr Bucket
deriving Repr

/-- `base.TotalInBoundResourceName` = `"__total_inbound_traffic__"` -/
def inboundName : Bytes :=
  [95, 95, 116, 111, 116, 97, 108, 95, 105, 110, 98, 111, 117, 110, 100, 95, 116, 114, 97, 102, 102, 105, 99, 95, 95]

/-- `metricItemFromBuckets`: total RT over completions, the plain total without completions -/
def avgRt (b : Bucket) : Nat := if b.complete > 0 then b.rt / b.complete else b.rt

/-- `isActiveMetricItem` on the fields of the item built from the payload `b` -/
def active (b : Bucket) : Bool :=
  decide (b.pass > 0) || decide (b.block > 0) || decide (b.complete > 0) || decide (b.error > 0) ||
    decide (avgRt b > 0) || decide (b.mc > 0)

/-- the `base.MetricItem` of one second of one node (`metricItemFromBuckets` + `aggregateIntoMap`) -/
def toItem (res : Bytes) (cls : Int) (p : Nat × Bucket) : Item :=
  { ts := p.1, res := res, pass := p.2.pass, block := p.2.block, complete := p.2.complete, error := p.2.error,
    rt := avgRt p.2, occ := 0, conc := p.2.mc, cls := cls }

/-- `currentMetricItems(node, cur)` at clock reading `now`, `lo` = `lastFetchTime` (0 for the initial −1):
    the per-second items of the buckets with `lo ≤ start < cur` that are active, tagged -/
def nodeItems (nd : Node) (now lo cur : Nat) : List Item :=
  if cur = 0 then [] else
  ((secondItems nd.a now lo (cur - 1)).filter fun p => active p.2).map (toItem nd.res nd.cls)

def insertKey (k : Nat) : List Nat → List Nat
  | [] => [k]
  | x :: r => if k < x then k :: x :: r else if k = x then x :: r else x :: insertKey k r

/-- the keys of the `metricTimeMap`, sorted ascending (`sort.Slice` in `writeTaskLoop`) -/
def sortedKeys (items : List Item) : List Nat := items.foldr (fun it acc => insertKey it.ts acc) []

/-- the calls `metricWriter.Write(t, m[t])` of one drained map, in order -/
def batches (items : List Item) : List (Nat × List Item) :=
  (sortedKeys items).map fun t => (t, items.filter fun it => it.ts == t)

structure St where
  n : Nat
  L : Nat
  nodes : List Node                          -- the inbound node first, then the resource nodes in creation order
  lastFetch : Option Nat := none             -- `lastFetchTime`; `none` = the initial −1
  w : Writer
  written : List (Nat × List Item) := []    -- ghost: every `Write(t, items)` call so far
deriving Repr

/-- a fresh system at clock reading `now`: the inbound node, no fetch yet, a new writer -/
def St.new (n L now maxSize maxFiles : Nat) : St :=
  let inbound : Node := { res := inboundName, cls := 0, a := LA.mk n L now }
  { n := n, L := L, nodes := [inbound], w := Writer.new now maxSize maxFiles }

/-- apply `f` to the node named `res`, creating it from `dflt` first when it does not exist -/
def updNode (res : Bytes) (f : Node → Node) (dflt : Node) : List Node → List Node
  | [] => [f dflt]
  | nd :: r => if nd.res = res then f nd :: r else nd :: updNode res f dflt r

/-- `GetOrCreateResourceNode(res, cls)` at time `t`, then one recording `x` on the node's array -/
def record (s : St) (t : Nat) (res : Bytes) (cls : Int) (x : Bucket) : St :=
  let fresh : Node := { res := res, cls := cls, a := LA.mk s.n s.L t }
  let nodes := updNode res (fun nd => Node.mk nd.res nd.cls (addAt nd.a t x).1) fresh s.nodes
  { s with nodes := nodes }

/-- everything one `doAggregate()` collects, in node order -/
def collect (nodes : List Node) (now lo cur : Nat) : List Item := nodes.flatMap fun nd => nodeItems nd now lo cur

/-- `int64(curTime) <= lastFetchTime` -/
def skips (lastFetch : Option Nat) (cur : Nat) : Bool :=
  match lastFetch with
  | some f => decide (cur ≤ f)
  | none => false

/-- one `doAggregate()` at clock reading `now`, then the drained map written in ascending second order;
    returns the `Write` calls made -/
def aggregate (s : St) (now : Nat) : St × List (Nat × List Item) :=
  let cur := secOf now
  if skips s.lastFetch cur then (s, []) else
  let bs := batches (collect s.nodes now (s.lastFetch.getD 0) cur)
  ({ s with lastFetch := some cur, w := runWrites s.w bs, written := s.written ++ bs }, bs)

/-- what happens to the system: a recording on a resource, or a tick of the aggregator -/
inductive Ev where
  | rcd (t : Nat) (res : Bytes) (cls : Int) (x : Bucket)
  | tick (t : Nat)
deriving Repr

def Ev.time : Ev → Nat
  | .rcd t _ _ _ => t
  | .tick t => t

def step (s : St) : Ev → St
  | .rcd t res cls x => record s t res cls x
  | .tick t => (aggregate s t).1

def run (s : St) (evs : List Ev) : St := evs.foldl step s

/-! ## the reference: what happened on a resource in a second -/

/-- the recordings on resource `res`, in order -/
def eventsOf (res : Bytes) : List Ev → List (Nat × Bucket)
  | [] => []
  | .rcd t r _ x :: rest => if r = res then (t, x) :: eventsOf res rest else eventsOf res rest
  | .tick _ :: rest => eventsOf res rest

/-- the payload of second `sec`: the sum over the recordings whose time stamp lies in that second -/
def secRef (h : List (Nat × Bucket)) (sec : Nat) : Bucket :=
  (h.map fun e => if secOf e.1 = sec then e.2 else 0).sum

end Sentinel.Agg
