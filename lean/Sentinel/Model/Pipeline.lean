import Sentinel.Model.Chain
import Sentinel.Model.Entry
import Sentinel.Model.System
import Sentinel.Model.FlowReject
import Sentinel.Model.Isolation
import Sentinel.Model.HotConc
import Sentinel.Model.Breaker
/-!
# M-PIPE — the integrated default global slot chain (core Lean only, executable)

`api.Entry` / `api.TraceError` / `Exit` on the **built-in** chain of `api/slot_chain.go` with every rule manager
loaded at once.  Nothing is re-modelled here: the state is the product of the module models' own states and
every slot is the module model's own function on its own component,

| slot (Order)                      | component        | check                                   | told "passed"            | told "completed"          |
|-----------------------------------|------------------|-----------------------------------------|--------------------------|---------------------------|
| prepare: resource node            | `ent`, `flow.nodes` | —                                    |                          |                           |
| system (1000)                     | rules, load, cpu + **the inbound node of `ent`** | `System.check` ∘ `System.modelView` | | |
| flow (2000), Direct/Reject        | `flow : FlowReject.St` | `FlowReject.checkList`            | `standaloneRecord`       |                           |
| isolation (3000)                  | `iso : Iso.St`   | `Iso.checkPass` on `iso.gauge`          | `Iso.step (.entry …)`    | `Iso.step (.exit …)`      |
| hotspot (4000), concurrency rules | `hot : HotConc.St` | `HotConc.checkTcs` (touches the cells) | `Tc.bump … 1`            | `HotConc.exit`            |
| circuit breaker (5000)            | `cb : CB.Sys`    | `CB.doEntry` (`checkPass` + rollback)   |                          | `CB.doExit`               |
| stat.Slot (1000)                  | `ent : Entry.St` | —                                       | `Entry.step (entry, verdict)` | `Entry.step (exit)`  |

`ent` is **only** updated through `Entry.step false` on the ghost history `eh`, so that C01's ledger theorems apply
verbatim (`Sentinel.INT.ent_is_entry_run`).  Two module states keep a private copy of something `ent` owns
(`iso.gauge` = the gauge of the resource node, `flow.nodes` = the pass counters of the resource nodes): the copies are
updated by the module's own functions and coupled to `ent` by invariants (`Sentinel.INT.iso_gauge_coupled`; the flow
copy is validated by the correspondence run: decisions come from the copy, `stat` reads from `ent`).

The rule-check loop is code-shaped: it walks `ruleSlots` — the slots of `Chain.defaultRuleIns` sorted by
`Chain.addAll`, i.e. by their `Order()` constants — threading the state, and stops at the first block.

Domain (each module in the range where its own model is exact): flow rules Direct/Reject only (no throttling,
no warm-up: a passed flow check changes nothing), one `load flow` / `load cb` per case, hotspot concurrency rules
only, hashable arguments only (no recovered panic).
-/
namespace Sentinel.Pipe
open Sentinel.LA

/-! ## the built-in rule-check slots -/

inductive Slot | sys | flow | iso | hot | cb
deriving DecidableEq, Repr

def slotOfName? : String → Option Slot
  | "system.AdaptiveSlot" => some .sys
  | "flow.Slot" => some .flow
  | "isolation.Slot" => some .iso
  | "hotspot.Slot" => some .hot
  | "circuitbreaker.Slot" => some .cb
  | _ => none

/-- the rule-check slice of the global chain: `AddRuleCheckSlot` of the five slots with their `Order()` constants -/
def ruleSlots : List Slot :=
  (Sentinel.Chain.addAll (·.2) Sentinel.Chain.defaultRuleIns).filterMap fun p => slotOfName? p.1

/-- what a block reports -/
inductive Blk
  | sys
  | flow (idx : Nat)
  | iso (idx : Nat) (tv : UInt32)
  | hot
  | cb (id : Nat)
deriving DecidableEq, Repr

def Blk.slot : Blk → Slot
  | .sys => .sys | .flow _ => .flow | .iso _ _ => .iso | .hot => .hot | .cb _ => .cb

/-! ## requests and state -/

/-- resource `k` is called `r<k>` everywhere (the flow model indexes resources by number) -/
def rname (k : Nat) : String := "r" ++ toString k

structure Req where
  id : Nat
  res : Nat
  inbound : Bool
  batch : Nat
  args : List HotConc.Val := []
  atts : List (String × HotConc.Val) := []
deriving Repr

/-- entry ids of the ledger: real entries are odd, the node-creating ghosts of `load flow` even -/
def rid (id : Nat) : Nat := 2 * id + 1

def showVal : HotConc.Val → String
  | .nil => "nil"
  | .int i => s!"i:{i}"
  | .long i => s!"l:{i}"
  | .str s => "s:" ++ s
  | .bool b => if b then "b:1" else "b:0"

structure St (R : Type) where
  started : Bool := false
  now : Nat := 0
  t0 : Nat := 0
  /-- stat.Slot + prepare slot: resource nodes, inbound node, contexts -/
  ent : Entry.St := Entry.init 0
  /-- ghost: the C01 history that produced `ent` (newest first) -/
  eh : List Entry.TOp := []
  ghosts : Nat := 0
  sysRules : List (System.Rule R) := []
  load : R
  cpu : R
  flow : FlowReject.St := {}
  flowLoaded : Bool := false
  iso : Iso.St := {}
  hot : HotConc.St := {}
  cb : CB.Sys (Arr CB.Cnt) := {}
  cbLoaded : Bool := false
  /-- admitted entries that have not exited -/
  reqs : List Req := []
  /-- ids of all `entry` ops so far (an id is used once per case) -/
  used : List Nat := []
  /-- listener callbacks not yet shown -/
  evs : List CB.Ev := []

variable {R : Type}

/-- every update of `ent` goes through here -/
def entStep (s : St R) (op : Entry.Op) : St R :=
  { s with ent := Entry.step false s.ent (s.now, op), eh := (s.now, op) :: s.eh }

/-- the built-in chain as C01's behaviour table: node prepare slot, one rule verdict, `stat.Slot` -/
def stdChain (blocked : Bool) : Entry.Chain :=
  { pre := [.node], rules := [if blocked then .block else .pass], std := true, recs := [] }

/-- a chain that only runs the node prepare slot: what `GetOrCreateResourceNode` inside `flow.LoadRules` amounts to -/
def nodeOnlyChain : Entry.Chain := { pre := [.node], rules := [], std := false, recs := [] }

def entryOp (q : Req) (blocked : Bool) : Entry.Op :=
  .entry { id := rid q.id, res := rname q.res, inbound := q.inbound, batch := q.batch,
           args := q.args.map showVal, chain := stdChain blocked }

/-- the inputs of the system slot: the getters on `stat.InboundNode()` -/
def sysView (s : St R) : System.View R :=
  System.modelView s.ent.inb.arr s.ent.inb.conc s.now s.load s.cpu

/-! ## adapters: the module's own "this entry was admitted" step without re-running its check -/

/-- `Iso.step (.entry …)` on its pass branch (`Sentinel.INT.isoAdmit_eq_step`) -/
def isoAdmit (s : Iso.St) (id : Nat) (res : String) : Iso.St :=
  { s with gauge := fun x => if x = res then s.gauge res + 1 else s.gauge x, live := (id, res) :: s.live }

/-- `HotConc.entry` on its pass branch, after the check has touched the cells (`Sentinel.INT.hotAdmit_eq_entry`) -/
def hotAdmit (s : HotConc.St) (id res : String) (args : List HotConc.Val) (atts : List (String × HotConc.Val)) : HotConc.St :=
  { s with tcs := s.tcs.map (fun t => t.bump res args atts 1),
           live := { id := id, res := res, args := args, atts := atts } :: s.live }

/-- statistic phase of the flow model, entry half: on pass the node sees the concurrency sample and the pass count and
    the standalone arrays the batch; on block the node sees the block count (`FlowReject.statPhase` without the exit) -/
def flowStat (f : FlowReject.St) (res now b : Nat) (blocked : Bool) : FlowReject.St :=
  if blocked then { f with nodes := FlowReject.touches f.nodes res now [0] }
  else { nodes := FlowReject.touches f.nodes res now [0, b], ctrls := FlowReject.standaloneRecord f.ctrls res now b }

/-- … exit half: (error,) rt, complete on the node -/
def flowExit (f : FlowReject.St) (res now : Nat) (err : Bool) : FlowReject.St :=
  { f with nodes := FlowReject.touches f.nodes res now ((if err then [0] else []) ++ [0, 0]) }

/-! ## `SlotChain.Entry` -/

/-- the breaker slot's result as a block -/
def cbBlk : Option (Option Nat) → Option Blk
  | some (some k) => some (Blk.cb k)
  | _ => none

section code
variable [LT R] [∀ a b : R, Decidable (a < b)]

/-- prepare slot as far as the module copies see it (`ent` gets the node with the statistic step) -/
def prepare (s : St R) (q : Req) : St R :=
  { s with flow := { s.flow with nodes := FlowReject.ensure s.flow.nodes q.res s.now } }

/-- one rule-check slot: the module's own check on its own component -/
def checkSlot (A : System.Arith R) (k : Slot) (s : St R) (q : Req) : St R × Option Blk :=
  match k with
  | .sys => (s, (System.check A q.inbound s.sysRules (sysView s)).map fun _ => Blk.sys)
  | .flow => (s, (FlowReject.checkList s.flow.ctrls s.flow.nodes q.res s.now q.batch).map Blk.flow)
  | .iso =>
    (s, (Iso.checkPass (Iso.rulesOf s.iso.rules (rname q.res)) (s.iso.gauge (rname q.res)) (UInt32.ofNat q.batch)).map
          fun p => Blk.iso p.1.idx p.2)
  | .hot =>
    let r := HotConc.checkTcs (rname q.res) q.args q.atts s.hot.tcs
    ({ s with hot := { s.hot with tcs := r.1 } }, if r.2 then some Blk.hot else none)
  | .cb =>
    -- the breaker slot is the last one: its verdict is the chain's, so `doEntry` (TryPass of every breaker of the
    -- resource; on a block the exit hooks roll the probes back) is the whole story for this component
    let r := CB.doEntry s.cb q.id (rname q.res)
    ({ s with cb := r.1, evs := s.evs ++ r.2.evs }, cbBlk r.2.dec)

/-- the rule-check loop of `SlotChain.Entry`: slots in slice order, `break` at the first blocked result -/
def ruleLoop (A : System.Arith R) : List Slot → St R → Req → St R × Option Blk
  | [], s, _ => (s, none)
  | k :: r, s, q =>
    match checkSlot A k s q with
    | (s1, some b) => (s1, some b)
    | (s1, none) => ruleLoop A r s1 q

/-- the statistic slots, told the outcome (stat 1000, log 2000, flow standalone 3000, hotspot concurrency 4000,
    breaker metric 5000 — the last one does nothing at entry) -/
def statPhase (s : St R) (q : Req) (d : Option Blk) : St R :=
  let s1 := entStep s (entryOp q d.isSome)
  let s2 := { s1 with flow := flowStat s1.flow q.res s1.now q.batch d.isSome }
  match d with
  | some _ => s2
  | none =>
    { s2 with iso := isoAdmit s2.iso q.id (rname q.res),
              hot := hotAdmit s2.hot (toString q.id) (rname q.res) q.args q.atts,
              reqs := q :: s2.reqs }

/-- `api.Entry` on the global chain -/
def entry (A : System.Arith R) (s : St R) (q : Req) : St R × Option Blk :=
  let r := ruleLoop A ruleSlots (prepare s q) q
  ({ statPhase r.1 q r.2 with used := q.id :: s.used }, r.2)

end code

/-! ## `TraceError`, `Exit` -/

def errOf (e : Bool) : Option String := if e then some "biz" else none

/-- `ctx.Err() != nil` as `Exit` will see it -/
def ctxErr (s : St R) (id : Nat) (err : Bool) : Bool :=
  match Entry.findE s.ent.ents (rid id) with
  | some c => (Entry.orErr (errOf err) c.err).isSome
  | none => err

def trace (s : St R) (id : Nat) : St R := entStep s (.trace (rid id) (some "biz"))

/-- `entry.Exit()` / `entry.Exit(WithError(biz))`: `OnCompleted` of every statistic slot for an admitted live entry.
    For any other id (blocked, already exited, unknown) nothing happens (`sync.Once`, `ctx.IsBlocked()`): every module model
    has that no-op built in (`Entry.apiExit`, `Iso.step (.exit …)`, `HotConc.exit`, `CB.doExit` on an id that is not live), so
    their exit steps are applied unconditionally; only the flow copy of the node is keyed on `reqs`. -/
def exit (s : St R) (id : Nat) (err : Bool) : St R :=
  let e := ctxErr s id err
  let s1 := entStep s (.exit (rid id) (errOf err))
  let c := CB.doExit CB.laOps s1.cb id e
  { s1 with flow := (match s.reqs.find? (·.id = id) with
                     | some q => flowExit s1.flow q.res s1.now e
                     | none => s1.flow),
            iso := (Iso.step s1.iso (.exit id)).1,
            hot := HotConc.exit s1.hot (toString id),
            cb := c.1, evs := s1.evs ++ c.2.evs,
            reqs := s1.reqs.filter (·.id ≠ id) }

/-! ## loading -/

/-- `flow.LoadRules` into the empty manager: controllers, and the resource node of every valid rule's (referenced)
    resource is created on the spot -/
def ghostNodes (s : St R) : List FlowReject.Rule → St R
  | [] => s
  | r :: rs =>
    if r.valid then
      let s1 := entStep s (.entry { id := 2 * s.ghosts, res := rname r.src, inbound := false, batch := 0, args := [],
                                    chain := nodeOnlyChain })
      ghostNodes { s1 with ghosts := s.ghosts + 1 } rs
    else ghostNodes s rs

def loadFlow (s : St R) (rules : List FlowReject.Rule) : St R :=
  let s1 := ghostNodes s rules
  { s1 with flow := FlowReject.loadFrom { nodes := s.flow.nodes, ctrls := [] } s.now 0 rules, flowLoaded := true }

/-- `circuitbreaker.LoadRules`: one fresh breaker per valid rule (`(position, rule)`) -/
def loadCb (s : St R) (rules : List (Nat × CB.Rule)) : St R :=
  { s with cb := { s.cb with brs := rules.map fun p => CB.Brk.new p.1 p.2 s.now }, cbLoaded := true }

/-! ## the op language -/

inductive Op (R : Type)
  | clock (t : Nat)
  | loadSys (rs : List (System.Rule R))
  | loadFlow (rs : List FlowReject.Rule)
  | loadIso (rs : List (String × UInt32))
  | loadHot (rs : List HotConc.Rule)
  | loadCb (rs : List (Nat × CB.Rule))
  | sysLoad (x : R)
  | sysCpu (x : R)
  | entry (q : Req)
  | trace (id : Nat)
  | exit (id : Nat) (err : Bool)
  | log

inductive Out
  | none
  | bad
  | dec (d : Option Blk)
  | num (n : Nat)
  | log (evs : List CB.Ev)
deriving Repr, DecidableEq

/-- has an `entry` op with this id happened? -/
def usedId (s : St R) (id : Nat) : Bool := s.used.contains id

section step
variable [LT R] [∀ a b : R, Decidable (a < b)]

def step (A : System.Arith R) (s : St R) : Op R → St R × Out
  | .clock t =>
    if t = 0 then (s, .bad)
    else if !s.started then
      ({ s with started := true, now := t, t0 := t, ent := Entry.init t, eh := [], cb := { s.cb with now := t } }, .none)
    else if t < s.now then (s, .bad)
    else ({ s with now := t, cb := { s.cb with now := t } }, .none)
  | .loadSys rs => if !s.started then (s, .bad) else ({ s with sysRules := System.loadRules A rs }, .none)
  | .loadFlow rs => if !s.started || s.flowLoaded then (s, .bad) else (loadFlow s rs, .none)
  | .loadIso rs => if !s.started then (s, .bad) else ({ s with iso := (Iso.step s.iso (.load rs)).1 }, .none)
  | .loadHot rs => if !s.started then (s, .bad) else ({ s with hot := HotConc.load s.hot rs }, .none)
  | .loadCb rs => if !s.started || s.cbLoaded then (s, .bad) else (loadCb s rs, .num rs.length)
  | .sysLoad x => ({ s with load := x }, .none)
  | .sysCpu x => ({ s with cpu := x }, .none)
  | .entry q =>
    if !s.started || usedId s q.id then (s, .bad)
    else let r := entry A s q; (r.1, .dec r.2)
  | .trace id => if !s.started then (s, .bad) else (trace s id, .none)
  | .exit id err => if !s.started then (s, .bad) else (exit s id err, .none)
  | .log => ({ s with evs := [] }, .log s.evs)

def run (A : System.Arith R) (s : St R) : List (Op R) → St R × List Out
  | [] => (s, [])
  | o :: os =>
    let r := step A s o
    let q := run A r.1 os
    (q.1, r.2 :: q.2)

end step

/-! ## observations -/

/-- `GetSum` of the node's default metric (1000 ms) / of a 10 s read view, and the gauge -/
def obsStat (s : St R) (k : Entry.Key) (Iv : Nat) : Option Bucket := Entry.obsWindow s.ent k Iv s.now
def obsConc (s : St R) (k : Entry.Key) : Option Int := Entry.obsConc s.ent k
/-- states of the breakers of a resource, in rule order -/
def obsCb (s : St R) (res : String) : List CB.St := (s.cb.brs.filter (·.rule.res = res)).map (·.st)


/-! # The reference composition (`spec` mode of the driver)

Every module is replaced by **its own abstract reference** — no leap array, no gauge, no cell:
system = `System.specBlocked` over the inbound aggregates recomputed from the recorded history (`System.refView`),
flow = `FlowReject.refCheck` over the history of admitted arrivals, isolation = `Iso.specCheck` over the number of
admitted-and-not-exited entries, hotspot = "in-flight entries carrying the value, + 1 ≤ threshold" recounted from the live
entries, circuit breaker = the breaker machine over the bare completion history (`CB.histOps`), statistics = C01's
ledger (`Entry.ledWindow`, `Entry.ledConc`) over the op history.  The decision is the first block in the built-in order. -/

structure SpecSt (R : Type) where
  started : Bool := false
  now : Nat := 0
  eh : List Entry.TOp := []
  ghosts : Nat := 0
  used : List Nat := []
  sys : System.St R
  infos : List FlowReject.RuleInfo := []
  H : List FlowReject.Arrival := []
  /-- number of admitted arrivals before `load flow`: an independent window starts empty at load time, a reused view of the
      node's own statistic does not -/
  hLoad : Nat := 0
  flowLoaded : Bool := false
  iso : Iso.SpecSt := {}
  hotRules : List HotConc.Rule := []
  hotLive : List HotConc.Live := []
  cb : CB.Sys (List (Nat × CB.Cnt)) := {}
  cbLoaded : Bool := false
  reqs : List Req := []
  /-- ids with a traced error -/
  traced : List Nat := []
  evs : List CB.Ev := []

/-- number of admitted, not yet exited entries that rule `r` counts under value `v` -/
def hotInflight (r : HotConc.Rule) (live : List HotConc.Live) (v : HotConc.Val) : Nat :=
  live.countP fun e => r.sel e.res e.args e.atts = v

/-- the hotspot reference: some concurrency rule of the resource selects a value whose in-flight count has reached its threshold -/
def hotSpecBlocked (rules : List HotConc.Rule) (live : List HotConc.Live) (res : String) (args : List HotConc.Val)
    (atts : List (String × HotConc.Val)) : Bool :=
  rules.any fun r =>
    let v := r.sel res args atts
    v ≠ HotConc.Val.nil && !decide ((hotInflight r live v : Int) + 1 ≤ r.thrOf v)

/-- the flow reference, rule by rule in load order: `FlowReject.refCheck` on the arrivals the rule's statistic has seen -/
def specFlowCheck (infos : List FlowReject.RuleInfo) (H : List FlowReject.Arrival) (hLoad : Nat) (res now b : Nat) : Option Nat :=
  match infos with
  | [] => none
  | c :: r =>
    let Hc := match c.geom with | .own _ _ => H.drop hLoad | _ => H
    match FlowReject.refCheck FlowReject.RuleInfo.feed [c] Hc res now b with
    | some i => some i
    | none => specFlowCheck r H hLoad res now b

section spec
variable [LT R] [LE R] [∀ a b : R, Decidable (a < b)] [∀ a b : R, Decidable (a ≤ b)]

def specPush (s : SpecSt R) (op : Entry.Op) : SpecSt R := { s with eh := (s.now, op) :: s.eh }

def specEntry (A : System.Arith R) (s : SpecSt R) (q : Req) : SpecSt R × Option Blk :=
  let rn := rname q.res
  -- verdicts of the references, in the built-in order; the breaker machine is only consulted when reached
  let d0 : Option Blk :=
    if System.blockedBy A true s.sys q.inbound then some .sys else
    match specFlowCheck s.infos s.H s.hLoad q.res s.now q.batch with
    | some i => some (.flow i)
    | none =>
      match Iso.specCheck (Iso.rulesOf s.iso.rules rn) (Iso.inflight s.iso.live rn) (UInt32.ofNat q.batch) with
      | some (r, n) => some (.iso r.idx (UInt32.ofNat n))
      | none => if hotSpecBlocked s.hotRules s.hotLive rn q.args q.atts then some .hot else none
  let (cb1, evs1, d) : CB.Sys (List (Nat × CB.Cnt)) × List CB.Ev × Option Blk :=
    match d0 with
    | some b => (s.cb, [], some b)
    | none =>
      let r := CB.doEntry s.cb q.id rn
      (r.1, r.2.evs, cbBlk r.2.dec)
  let s1 := specPush { s with cb := cb1, evs := s.evs ++ evs1, used := q.id :: s.used } (entryOp q d.isSome)
  match d with
  | some _ => ({ s1 with sys := if q.inbound then System.onBlocked s1.sys q.batch else s1.sys }, d)
  | none =>
    ({ s1 with sys := System.onPassed s1.sys { id := toString q.id, inbound := q.inbound, start := s1.now, batch := q.batch },
               H := s1.H ++ [{ t := s1.now, res := q.res, b := q.batch }],
               iso := { s1.iso with live := (q.id, rn) :: s1.iso.live },
               hotLive := { id := toString q.id, res := rn, args := q.args, atts := q.atts } :: s1.hotLive,
               reqs := q :: s1.reqs }, none)

def specExit (s : SpecSt R) (id : Nat) (err : Bool) : SpecSt R :=
  let s0 := specPush s (.exit (rid id) (errOf err))
  match s.reqs.find? (·.id = id) with
  | none => s0
  | some _ =>
    let e := err || s.traced.contains id
    let c := CB.doExit CB.histOps s0.cb id e
    { s0 with sys := (match s0.sys.live.find? (·.id == toString id) with
                      | some x => System.onExit s0.sys x
                      | none => s0.sys),
              iso := { s0.iso with live := s0.iso.live.filter fun p => p.1 ≠ id },
              hotLive := s0.hotLive.filter fun x => x.id ≠ toString id,
              cb := c.1, evs := s0.evs ++ c.2.evs,
              reqs := s0.reqs.filter (·.id ≠ id) }

def specGhosts (s : SpecSt R) : List FlowReject.Rule → SpecSt R
  | [] => s
  | r :: rs =>
    if r.valid then
      let s1 := specPush s (.entry { id := 2 * s.ghosts, res := rname r.src, inbound := false, batch := 0, args := [],
                                     chain := nodeOnlyChain })
      specGhosts { s1 with ghosts := s.ghosts + 1 } rs
    else specGhosts s rs

def specStep (A : System.Arith R) (s : SpecSt R) : Op R → SpecSt R × Out
  | .clock t =>
    if t = 0 then (s, .bad)
    else if !s.started then
      ({ s with started := true, now := t, eh := [], sys := (System.step A true s.sys (.clock t)).1, cb := { s.cb with now := t } }, .none)
    else if t < s.now then (s, .bad)
    else ({ s with now := t, sys := (System.step A true s.sys (.clock t)).1, cb := { s.cb with now := t } }, .none)
  | .loadSys rs => if !s.started then (s, .bad) else ({ s with sys := (System.step A true s.sys (.load rs)).1 }, .none)
  | .loadFlow rs =>
    if !s.started || s.flowLoaded then (s, .bad)
    else ({ specGhosts s rs with infos := FlowReject.compile rs, hLoad := s.H.length, flowLoaded := true }, .none)
  | .loadIso rs => if !s.started then (s, .bad) else ({ s with iso := { s.iso with rules := Iso.loadRules rs } }, .none)
  | .loadHot rs => if !s.started then (s, .bad) else ({ s with hotRules := rs.filter HotConc.Rule.valid }, .none)
  | .loadCb rs =>
    if !s.started || s.cbLoaded then (s, .bad)
    else ({ s with cb := { s.cb with brs := rs.map fun p => CB.Brk.newAbs p.1 p.2 }, cbLoaded := true }, .num rs.length)
  | .sysLoad x => ({ s with sys := (System.step A true s.sys (.sysLoad x)).1 }, .none)
  | .sysCpu x => ({ s with sys := (System.step A true s.sys (.sysCpu x)).1 }, .none)
  | .entry q =>
    if !s.started || s.used.contains q.id then (s, .bad)
    else let r := specEntry A s q; (r.1, .dec r.2)
  | .trace id =>
    if !s.started then (s, .bad)
    else
      -- `SetError` is ignored once the entry has exited (and a blocked entry is exited inside `api.Entry`)
      let live := s.reqs.any (·.id = id)
      (specPush { s with traced := if live then id :: s.traced else s.traced } (.trace (rid id) (some "biz")), .none)
  | .exit id err => if !s.started then (s, .bad) else (specExit s id err, .none)
  | .log => ({ s with evs := [] }, .log s.evs)

end spec

def specStat (s : SpecSt R) (k : Entry.Key) (Iv : Nat) : Option Bucket := Entry.ledWindow false s.eh k Iv s.now
def specConc (s : SpecSt R) (k : Entry.Key) : Option Int := Entry.ledConc false s.eh k
def specCb (s : SpecSt R) (res : String) : List CB.St := (s.cb.brs.filter (·.rule.res = res)).map (·.st)

end Sentinel.Pipe
