import Sentinel.Model.Datasource
/-!
# C18 model, part 2: JSON trees and the table-driven codecs of the five wire rule types (core Lean only)

A rule is a positional record (`Rec = List Val`) over a **tag table** (`List Tag`): one row per Go struct field with
its Go kind and `json:"…"` tag.  The tables below are transcribed from the struct tags of `flow.Rule`, `system.Rule`,
`circuitbreaker.Rule`, `isolation.Rule`, `datasource.HotspotRule`, `datasource.SpecificValue` (and `hotspot.Rule`,
the type the hotspot converter produces); the Go interpreter prints the real tags by reflection (`tags <module>`)
and the driver prints these tables in the same format, so every run compares them.

`decodeObj`/`encodeObj` follow `encoding/json` at the level of JSON *trees*: unknown keys ignored, later duplicates
overwrite, `null` leaves a field alone, a wrongly typed or out-of-range value is an error for the whole payload,
`omitempty` drops a zero value.  Text-level JSON is `encoding/json`'s business and is not modelled here.
-/
namespace Sentinel.Datasource

inductive JNum where
  | int (v : Int)            -- an integer literal (no fraction, no exponent)
  | flt (bits : UInt64)      -- any other number literal, as the binary64 it denotes
  deriving Repr

inductive Json where
  | null
  | bool (b : Bool)
  | num (n : JNum)
  | str (s : String)
  | arr (xs : List Json)
  | obj (kvs : List (String × Json))
  deriving Repr

/-- Go kinds that occur in the wire types -/
inductive Kind where
  | str | i32 | u32 | i64 | u64 | int | f64 | items | smap
  deriving DecidableEq, Repr

def Kind.name : Kind → String
  | .str => "string" | .i32 => "int32" | .u32 => "uint32" | .i64 => "int64" | .u64 => "uint64"
  | .int => "int" | .f64 => "float64" | .items => "slice.struct" | .smap => "map"

structure Tag where
  go : String
  kind : Kind
  json : String
  omitempty : Bool := false
  deriving DecidableEq, Repr

/-- the format of the Go interpreter's `tags` op -/
def Tag.show (t : Tag) : String := t.go ++ ":" ++ t.kind.name ++ ":" ++ t.json ++ (if t.omitempty then ",omitempty" else "")
def showTags (ts : List Tag) : String := ";".intercalate (ts.map Tag.show)

def flowTags : List Tag := [
  ⟨"ID", .str, "id", true⟩, ⟨"Resource", .str, "resource", false⟩,
  ⟨"TokenCalculateStrategy", .i32, "tokenCalculateStrategy", false⟩, ⟨"ControlBehavior", .i32, "controlBehavior", false⟩,
  ⟨"Threshold", .f64, "threshold", false⟩, ⟨"RelationStrategy", .i32, "relationStrategy", false⟩,
  ⟨"RefResource", .str, "refResource", false⟩, ⟨"MaxQueueingTimeMs", .u32, "maxQueueingTimeMs", false⟩,
  ⟨"WarmUpPeriodSec", .u32, "warmUpPeriodSec", false⟩, ⟨"WarmUpColdFactor", .u32, "warmUpColdFactor", false⟩,
  ⟨"StatIntervalInMs", .u32, "statIntervalInMs", false⟩, ⟨"LowMemUsageThreshold", .i64, "lowMemUsageThreshold", false⟩,
  ⟨"HighMemUsageThreshold", .i64, "highMemUsageThreshold", false⟩, ⟨"MemLowWaterMarkBytes", .i64, "memLowWaterMarkBytes", false⟩,
  ⟨"MemHighWaterMarkBytes", .i64, "memHighWaterMarkBytes", false⟩]

def systemTags : List Tag := [
  ⟨"ID", .str, "id", true⟩, ⟨"MetricType", .u32, "metricType", false⟩,
  ⟨"TriggerCount", .f64, "triggerCount", false⟩, ⟨"Strategy", .i32, "strategy", false⟩]

def cbTags : List Tag := [
  ⟨"Id", .str, "id", true⟩, ⟨"Resource", .str, "resource", false⟩, ⟨"Strategy", .u32, "strategy", false⟩,
  ⟨"RetryTimeoutMs", .u32, "retryTimeoutMs", false⟩, ⟨"MinRequestAmount", .u64, "minRequestAmount", false⟩,
  ⟨"StatIntervalMs", .u32, "statIntervalMs", false⟩,
  ⟨"StatSlidingWindowBucketCount", .u32, "statSlidingWindowBucketCount", false⟩,
  ⟨"MaxAllowedRtMs", .u64, "maxAllowedRtMs", false⟩, ⟨"Threshold", .f64, "threshold", false⟩,
  ⟨"ProbeNum", .u64, "probeNum", false⟩]

def isolationTags : List Tag := [
  ⟨"ID", .str, "id", true⟩, ⟨"Resource", .str, "resource", false⟩,
  ⟨"MetricType", .i32, "metricType", false⟩, ⟨"Threshold", .u32, "threshold", false⟩]

/-- `datasource.HotspotRule`: the wire type of the hotspot parser (note: no `ParamKey`) -/
def hotspotTags : List Tag := [
  ⟨"ID", .str, "id", true⟩, ⟨"Resource", .str, "resource", false⟩, ⟨"MetricType", .i32, "metricType", false⟩,
  ⟨"ControlBehavior", .i32, "controlBehavior", false⟩, ⟨"ParamIndex", .int, "paramIndex", false⟩,
  ⟨"Threshold", .i64, "threshold", false⟩, ⟨"MaxQueueingTimeMs", .i64, "maxQueueingTimeMs", false⟩,
  ⟨"BurstCount", .i64, "burstCount", false⟩, ⟨"DurationInSec", .i64, "durationInSec", false⟩,
  ⟨"ParamsMaxCapacity", .i64, "paramsMaxCapacity", false⟩, ⟨"SpecificItems", .items, "specificItems", false⟩]

/-- `datasource.SpecificValue` -/
def specificTags : List Tag := [
  ⟨"ValKind", .int, "valKind", false⟩, ⟨"ValStr", .str, "valStr", false⟩, ⟨"Threshold", .i64, "threshold", false⟩]

/-- `hotspot.Rule`, the type the converter produces and the manager holds -/
def hotspotCoreTags : List Tag := [
  ⟨"ID", .str, "id", true⟩, ⟨"Resource", .str, "resource", false⟩, ⟨"MetricType", .i32, "metricType", false⟩,
  ⟨"ControlBehavior", .i32, "controlBehavior", false⟩, ⟨"ParamIndex", .int, "paramIndex", false⟩,
  ⟨"ParamKey", .str, "paramKey", false⟩,
  ⟨"Threshold", .i64, "threshold", false⟩, ⟨"MaxQueueingTimeMs", .i64, "maxQueueingTimeMs", false⟩,
  ⟨"BurstCount", .i64, "burstCount", false⟩, ⟨"DurationInSec", .i64, "durationInSec", false⟩,
  ⟨"ParamsMaxCapacity", .i64, "paramsMaxCapacity", false⟩, ⟨"SpecificItems", .smap, "specificItems", false⟩]

/-! ## Values -/

structure SpecificValue where
  valKind : Int := 0
  valStr : String := ""
  threshold : Int := 0
  deriving DecidableEq, Repr

/-- a key of `hotspot.Rule.SpecificItems` (`map[interface{}]int64`) -/
inductive SKey where
  | int (v : Int)
  | str (s : String)
  | bool (b : Bool)
  | flt (bits : UInt64)
  deriving DecidableEq, Repr

inductive Val where
  | s (x : String)
  | i (x : Int)
  | f (bits : UInt64)
  | items (xs : List SpecificValue)
  | smap (kvs : List (SKey × Int))
  deriving DecidableEq, Repr

abbrev Rec := List Val

def Kind.inRange : Kind → Int → Bool
  | .i32, v => decide (-2147483648 ≤ v) && decide (v ≤ 2147483647)
  | .u32, v => decide (0 ≤ v) && decide (v ≤ 4294967295)
  | .i64, v => decide (-9223372036854775808 ≤ v) && decide (v ≤ 9223372036854775807)
  | .int, v => decide (-9223372036854775808 ≤ v) && decide (v ≤ 9223372036854775807)
  | .u64, v => decide (0 ≤ v) && decide (v ≤ 18446744073709551615)
  | _, _ => false

/-- a binary64 bit pattern that is neither an infinity nor a NaN (a JSON number cannot denote those) -/
def finiteBits (b : UInt64) : Bool := ((b >>> 52) &&& 0x7ff) != 0x7ff

def Kind.zero : Kind → Val
  | .str => .s ""
  | .f64 => .f 0
  | .items => .items []
  | .smap => .smap []
  | _ => .i 0

def zeroRec (ts : List Tag) : Rec := ts.map fun t => t.kind.zero

/-- json name of the `i`-th field of a table -/
def jname (ts : List Tag) (i : Nat) : String := (ts.getD i ⟨"", .str, "", false⟩).json

/-! ## SpecificValue codec (names taken from `specificTags`) -/

def SpecificValue.toJson (v : SpecificValue) : Json :=
  .obj [(jname specificTags 0, .num (.int v.valKind)), (jname specificTags 1, .str v.valStr),
        (jname specificTags 2, .num (.int v.threshold))]

/-- `json.Unmarshal` of a value into an integer field of kind `k` -/
def decInt (k : Kind) (j : Json) (old : Int) : Option Int :=
  match j with
  | .null => some old
  | .num (.int x) => if k.inRange x then some x else none
  | _ => none

def decStr (j : Json) (old : String) : Option String :=
  match j with
  | .null => some old
  | .str x => some x
  | _ => none

def SpecificValue.setField (k : String) (j : Json) (v : SpecificValue) : Option SpecificValue :=
  if k = jname specificTags 0 then (decInt .int j v.valKind).map fun x => { v with valKind := x }
  else if k = jname specificTags 1 then (decStr j v.valStr).map fun x => { v with valStr := x }
  else if k = jname specificTags 2 then (decInt .i64 j v.threshold).map fun x => { v with threshold := x }
  else some v

def SpecificValue.fromKvs (kvs : List (String × Json)) (v : SpecificValue) : Option SpecificValue :=
  match kvs with
  | [] => some v
  | (k, j) :: rest => (SpecificValue.setField k j v).bind (SpecificValue.fromKvs rest)

/-- an element of the `specificItems` array (`[]SpecificValue`: `null` leaves the zero struct) -/
def SpecificValue.fromJson : Json → Option SpecificValue
  | .null => some {}
  | .obj kvs => SpecificValue.fromKvs kvs {}
  | _ => none

def SpecificValue.wf (v : SpecificValue) : Bool := Kind.int.inRange v.valKind && Kind.i64.inRange v.threshold

def decodeItems : List Json → Option (List SpecificValue)
  | [] => some []
  | j :: js => (SpecificValue.fromJson j).bind fun v => (decodeItems js).map (v :: ·)

/-! ## Field codec -/

def intToF64 (v : Int) : UInt64 := (Float.ofInt v).toBits

def encVal : Val → Json
  | .s x => .str x
  | .i x => .num (.int x)
  | .f b => .num (.flt b)
  | .items xs => .arr (xs.map SpecificValue.toJson)
  | .smap _ => .null                                   -- not a wire kind

/-- `json.Unmarshal` of one value into a field of kind `k` currently holding `old` -/
def decodeVal (k : Kind) (j : Json) (old : Val) : Option Val :=
  match k, j with
  | .items, .null => some (.items [])
  | .smap, _ => none
  | _, .null => some old
  | .str, .str x => some (.s x)
  | .f64, .num (.flt b) => if finiteBits b then some (.f b) else none
  | .f64, .num (.int v) => if finiteBits (intToF64 v) then some (.f (intToF64 v)) else none
  | .items, .arr xs => (decodeItems xs).map .items
  | .str, _ => none
  | .f64, _ => none
  | .items, _ => none
  | k, .num (.int v) => if k.inRange v then some (.i v) else none
  | _, _ => none

/-- well-typed value of a kind (what a Go field of that kind can hold and JSON can express) -/
def wtVal : Kind → Val → Bool
  | .str, .s _ => true
  | .f64, .f b => finiteBits b
  | .items, .items xs => xs.all SpecificValue.wf
  | .smap, _ => false
  | .str, _ => false
  | .f64, _ => false
  | .items, _ => false
  | k, .i v => k.inRange v
  | _, _ => false

def wtRec : List Tag → Rec → Bool
  | [], [] => true
  | t :: ts, x :: xs => wtVal t.kind x && wtRec ts xs
  | _, _ => false

/-- assign key `k` (exact name) in a record laid out by `ts`; unknown keys are ignored -/
def setField : List Tag → String → Json → Rec → Option Rec
  | t :: ts, k, j, x :: xs =>
    if t.json = k then (decodeVal t.kind j x).map (· :: xs) else (setField ts k j xs).map (x :: ·)
  | _, _, _, xs => some xs

def decodeKvs (ts : List Tag) : List (String × Json) → Rec → Option Rec
  | [], r => some r
  | (k, j) :: rest, r => (setField ts k j r).bind (decodeKvs ts rest)

def decodeObj (ts : List Tag) (kvs : List (String × Json)) : Option Rec := decodeKvs ts kvs (zeroRec ts)

def encodeFields : List Tag → Rec → List (String × Json)
  | t :: ts, x :: xs =>
    (if t.omitempty && x == t.kind.zero then [] else [(t.json, encVal x)]) ++ encodeFields ts xs
  | _, _ => []

def encodeObj (ts : List Tag) (r : Rec) : Json := .obj (encodeFields ts r)

/-! ## The converters at tree level

`parse` (bytes → tree, `none` = syntax error) is a parameter wherever these are used.  -/

/-- elements of a `[]*Rule` array: `null` is a nil pointer, an object a rule, anything else a type error -/
def decodeElems (ts : List Tag) : List Json → Option (List (Option Rec))
  | [] => some []
  | .null :: js => (decodeElems ts js).map (none :: ·)
  | .obj kvs :: js => (decodeObj ts kvs).bind fun r => (decodeElems ts js).map (some r :: ·)
  | _ :: _ => none

/-- `json.Unmarshal(src, &rules)` with `rules : []*Rule` -/
def decodeList (ts : List Tag) : Json → Option (WireList Rec)
  | .null => some none
  | .arr xs => (decodeElems ts xs).map some
  | _ => none

/-- `FlowRuleJsonArrayParser` & the three others of the same shape, given the text-level parse of a non-empty source -/
def convPlain (ts : List Tag) (empty : Bool) (tree : Option Json) : Conv (WireList Rec) :=
  if empty then .ok none else
  match tree with
  | none => .err
  | some j => match decodeList ts j with
    | none => .err
    | some l => .ok (some l)

/-- Go's `strconv` as used by `parseSpecificItems`; `pfloat` includes the `%.5f` re-parse -/
structure StrConv where
  atoi : String → Option Int
  pbool : String → Option Bool
  pfloat : String → Option UInt64

/-- Go equality of two `interface{}` map keys (`NaN ≠ NaN`, `+0 = -0`) -/
def SKey.goEq : SKey → SKey → Bool
  | .int a, .int b => a == b
  | .str a, .str b => a == b
  | .bool a, .bool b => a == b
  | .flt a, .flt b => if !finiteBits a && (a &&& 0xfffffffffffff) != 0 then false        -- NaN
                      else a == b || ((a <<< 1) == 0 && (b <<< 1) == 0)
  | _, _ => false

/-- `m[k] = v` -/
def mapAssign (m : List (SKey × Int)) (k : SKey) (v : Int) : List (SKey × Int) :=
  if m.any (fun p => p.1.goEq k) then m.map (fun p => if p.1.goEq k then (k, v) else p) else m ++ [(k, v)]

/-- `parseSpecificItems` -/
def parseSpecific (sc : StrConv) (items : List SpecificValue) : List (SKey × Int) :=
  items.foldl (fun (m : List (SKey × Int)) (it : SpecificValue) =>
    if it.valKind = (0 : Int) then match sc.atoi it.valStr with | some x => mapAssign m (.int x) it.threshold | none => m
    else if it.valKind = (1 : Int) then mapAssign m (.str it.valStr) it.threshold
    else if it.valKind = (2 : Int) then match sc.pbool it.valStr with | some x => mapAssign m (.bool x) it.threshold | none => m
    else if it.valKind = (3 : Int) then match sc.pfloat it.valStr with | some x => mapAssign m (.flt x) it.threshold | none => m
    else m) []

/-- the struct literal in `HotSpotParamRuleJsonArrayParser`: `ParamKey` is not copied (the wire type has none) -/
def hotspotToCore (sc : StrConv) : Rec → Rec
  | [id, res, mt, cb, pidx, thr, mq, burst, dur, cap, .items its] =>
    [id, res, mt, cb, pidx, .s "", thr, mq, burst, dur, cap, .smap (parseSpecific sc its)]
  | r => r

/-- `HotSpotParamRuleJsonArrayParser` (since fix 2a360c1): unmarshal to `[]*HotspotRule`, skip nil elements (a JSON
    `null` describes no rule), convert the others -/
def convHotspot (sc : StrConv) (empty : Bool) (tree : Option Json) : Conv (WireList Rec) :=
  if empty then .ok none else
  match tree with
  | none => .err
  | some j => match decodeList hotspotTags j with
    | none => .err
    | some l => .ok (some (some (l.elems.map fun r => some (hotspotToCore sc r))))   -- `make([]*hotspot.Rule, 0, n)`: never a nil slice

/-- the parser **before** 2a360c1, kept for the witness of the repaired finding `null-element-swallowed`: every element
    was dereferenced, a nil `*HotspotRule` panicked inside the converter -/
def convHotspotOld (sc : StrConv) (empty : Bool) (tree : Option Json) : Conv (WireList Rec) :=
  if empty then .ok none else
  match tree with
  | none => .err
  | some j => match decodeList hotspotTags j with
    | none => .err
    | some none => .ok (some (some []))
    | some (some xs) =>
      if xs.any Option.isNone then .panic         -- `hotspotRule.ID` on a nil `*HotspotRule`
      else .ok (some (some (xs.map fun o => o.map (hotspotToCore sc))))

end Sentinel.Datasource
