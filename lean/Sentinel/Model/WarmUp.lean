import Sentinel.Model.Bucket
import Sentinel.Model.Throttle
/-!
# M-WU — warm-up and memory-adaptive threshold calculators (core Lean only, executable)

Mirrors `core/flow/tc_warm_up.go`, `core/flow/tc_adaptive.go` and the reject checker of
`core/flow/tc_default.go`, bound to the resource node's leap array (`Sentinel.LA`).

**Arithmetic carrier.**  Every `float64` expression of the code is written here once, over an
abstract carrier `α` with the operations of `Carrier α`, *in exactly the code's expression order*.
Two instances exist:

* `Float` — executed by the driver; same binary64 operations as Go on amd64, so the
  correspondence with the implementation is bit-exact (including `math.Nextafter`);
* `Rat`   — the exact rationals; the theorems of `Sentinel.Props.C11` are about this instance
  (`next = id`: the one-ulp bump of `Nextafter` and the rounding of `/` are the named residue).

IEEE specials that change control flow are *not* left to the carrier: the slope is `none` when the
code computes `+Inf` (`maxToken = warningToken`, or `T = 0`), and the threshold is `Option α` with
`none` = NaN = "every comparison is false" = the reject checker admits.
-/
namespace Sentinel.WU
open Sentinel.LA

class Carrier (α : Type) extends Add α, Sub α, Mul α, Div α where
  ofNat : Nat → α
  ofInt : Int → α
  /-- Go's `int64(x)` / `uint64(x)` for a finite in-range `x`: truncation toward zero -/
  trunc : α → Int
  /-- `math.Nextafter(x, math.MaxFloat64)` -/
  next : α → α
  /-- `x < y` (false when a NaN is involved) -/
  ltb : α → α → Bool
  /-- `util.Float64Equals(x, y)`: `|x - y| < 1e-8` -/
  feq : α → α → Bool
  /-- `int64(math.Ceil(x))` for a finite in-range `x` -/
  ceil : α → Int

open Carrier

def floatNext (x : Float) : Float :=
  if x.isNaN then x
  else if x == 0 then Float.ofBits 1
  else if x > 0 then (if x.isInf then Float.ofBits (x.toBits - 1) else Float.ofBits (x.toBits + 1))
  else Float.ofBits (x.toBits - 1)

instance : Carrier Float where
  ofNat := Float.ofNat
  ofInt := Float.ofInt
  trunc x := x.toInt64.toInt
  next := floatNext
  ltb x y := decide (x < y)
  feq x y := decide ((x - y).abs < 0.00000001)
  ceil x := x.ceil.toInt64.toInt

instance : Carrier Rat where
  ofNat n := (n : Rat)
  ofInt i := (i : Rat)
  trunc q := Int.tdiv q.num q.den
  next q := q
  ltb x y := decide (x < y)
  feq x y := decide ((if x < y then y - x else x - y) < (1 : Rat) / 100000000)
  ceil q := q.ceil

/-! ## warm-up: constructor -/

/-- the calculator's immutable fields (`NewWarmUpTrafficShapingCalculator`) -/
structure Cfg (α : Type) where
  T : α
  cf : Nat
  warn : Nat
  max : Nat
  /-- `none` = the code's `+Inf` (division by `maxToken - warningToken = 0`, or by `T = 0`) -/
  slope : Option α

/-- `rule.WarmUpColdFactor <= 1 → DefaultWarmUpColdFactor` (the value 1 itself is rejected by `IsValidRule`) -/
def effCf (cf0 : Nat) : Nat := if cf0 ≤ 1 then 3 else cf0

def mkCfg {α} [Carrier α] (T : α) (period cf0 : Nat) : Cfg α :=
  let cf := effCf cf0
  let warn := (trunc (ofNat period * T / ofNat (α := α) (cf - 1))).toNat
  let mx := warn + (trunc (ofNat 2 * ofNat period * T / ofNat (α := α) (1 + cf))).toNat
  { T := T, cf := cf, warn := warn, max := mx,
    slope := if mx = warn ∨ !(ltb (ofNat 0) T) then none
             else some (ofNat (cf - 1) / T / ofNat (mx - warn)) }

/-! ## warm-up: `CalculateAllowedTokens` after the token sync -/

/-- the returned threshold for `storedTokens = tokens`; `none` = NaN -/
def allowed {α} [Carrier α] (c : Cfg α) (tokens : Int) : Option α :=
  let rest : Int := if tokens < 0 then 0 else tokens
  if (c.warn : Int) ≤ rest then
    let above : Int := rest - c.warn
    match c.slope with
    | none => if above = 0 then none                      -- `0 * Inf = NaN`
              else some (next (ofNat 0))                   -- `1/(Inf + _) = 0`
    | some s => some (next (ofNat 1 / (ofInt above * s + ofNat 1 / c.T)))
  else some c.T

/-! ## warm-up: `syncToken` / `coolDownTokens` -/

structure Tok where
  tokens : Int := 0
  lastFilled : Nat := 0
deriving Repr, DecidableEq

def coolDown {α} [Carrier α] (c : Cfg α) (s : Tok) (cur : Nat) (passQps : α) : Int :=
  let old := s.tokens
  let new : Int :=
    if old < c.warn then
      trunc (ofInt old + (ofNat cur - ofNat s.lastFilled) * c.T / ofNat (α := α) 1000)
    else if (c.warn : Int) < old then
      if ltb passQps (ofNat (α := α) ((trunc c.T).toNat / c.cf)) then
        trunc (ofInt old + ofNat (cur - s.lastFilled) * c.T / ofNat (α := α) 1000)
      else old
    else old
  if new ≤ c.max then new else c.max

/-- `syncToken(passQps)` at wall time `now` (sequential: the CAS always succeeds) -/
def sync {α} [Carrier α] (c : Cfg α) (s : Tok) (now : Nat) (passQps : α) : Tok :=
  let cur := now - now % 1000
  if cur ≤ s.lastFilled then s else
  let v := coolDown c s cur passQps - trunc passQps      -- `AddInt64(&storedTokens, int64(-passQps))`
  { tokens := if v < 0 then 0 else v, lastFilled := cur }

/-! ## memory-adaptive: `CalculateAllowedTokens` -/

structure MemCfg where
  lowT : Int      -- LowMemUsageThreshold
  highT : Int     -- HighMemUsageThreshold
  lowM : Int      -- MemLowWaterMarkBytes
  highM : Int     -- MemHighWaterMarkBytes
deriving Repr, DecidableEq

/-- `IsValidRule` for a memory-adaptive rule (the check against the machine's total memory size is a
    parameter `total`) -/
def MemCfg.valid (m : MemCfg) (total : Int) : Bool :=
  decide (0 < m.lowT) && decide (0 < m.highT) && decide (m.highT < m.lowT) &&
  decide (0 < m.lowM) && decide (0 < m.highM) && decide (m.highM ≤ total) && decide (m.lowM < m.highM)

/-- `mem = -1` is `NotRetrievedMemoryValue` -/
def memAllowed {α} [Carrier α] (m : MemCfg) (mem : Int) : α :=
  if mem = -1 then ofInt m.lowT
  else if mem ≤ m.lowM then ofInt m.lowT
  else if m.highM ≤ mem then ofInt m.highT
  else ofInt (m.highT - m.lowT) / ofInt (m.highM - m.lowM) * ofInt (mem - m.lowM) + ofInt m.lowT

/-! ## the rule bound to a resource: reject checker over the resource's statistic -/

inductive Calc (α : Type) where
  | warmup (c : Cfg α)
  | adaptive (m : MemCfg)

/-- the fields of a loaded `flow.Rule` that `Rule.isEqualsTo` can tell apart in this setting (one resource,
    `Reject`, no relation): strategy, threshold / memory parameters, `StatIntervalInMs` -/
inductive RuleP (α : Type) where
  | wu (T : α) (period cf0 iv : Nat)
  | ma (m : MemCfg) (iv : Nat)

/-- `NewWarmUpTrafficShapingCalculator` writes the defaulted cold factor into the rule object it is bound to -/
def RuleP.norm {α} : RuleP α → RuleP α
  | .wu T p cf iv => .wu T p (effCf cf) iv
  | r => r

/-- `bound.isEqualsTo(new)` (implied by the `reflect.DeepEqual` short cut of `LoadRules`) -/
def RuleP.same {α} [Carrier α] : RuleP α → RuleP α → Bool
  | .wu T p cf iv, .wu T' p' cf' iv' => Carrier.feq T T' && p == p' && cf == cf' && iv == iv'
  | .ma m iv, .ma m' iv' => decide (m = m') && iv == iv'
  | _, _ => false

/-- a resource with at most one flow rule: the node's leap array (20 x 500 ms by default), the rule's
    read view `(sampleCount, interval)`, the warm-up token state and the injected memory reading -/
structure Sys (α : Type) where
  arr : Option (Arr Bucket) := none
  rule : Option (Calc α × Nat × Nat) := none
  tok : Tok := {}
  mem : Int := -1
  /-- the rule object the controller in force is bound to (`TrafficShapingController.rule`) -/
  bound : Option (RuleP α) := none
  /-- `ControlBehavior`: `none` = Reject, `some maxQueueingTimeMs` = Throttling (`ThrottlingChecker`) -/
  behav : Option Nat := none
  /-- `ThrottlingChecker.lastPassedTime` (ns) -/
  last : Int := 0
  /-- the rule's own statistic when its `StatIntervalInMs` cannot reuse the resource's global statistic
      (`standaloneStatistic` with `reuseResourceStat = false`): a `BucketLeapArray(sc, Iv)` created at load time, read through
      the rule's view `(sc, Iv)` and fed by `StandaloneStatSlot.OnEntryPassed` (passes only) -/
  own : Option (Arr Bucket) := none

def nodeN : Nat := 20    -- GlobalStatisticSampleCountTotal
def nodeL : Nat := 500   -- GlobalStatisticIntervalMsTotal / GlobalStatisticSampleCountTotal

/-- `stat.GetOrCreateResourceNode` -/
def Sys.touch {α} (s : Sys α) (now : Nat) : Sys α :=
  match s.arr with
  | some _ => s
  | none => { s with arr := some (LA.mk nodeN nodeL now) }

/-- `GetPreviousQPS(pass)` of the view `(sc, Iv)` -/
def prevQps {α} [Carrier α] (a : Arr Bucket) (sc Iv now : Nat) : α :=
  ofNat (vPrevSum a Iv (Iv / sc) now .pass) / (ofNat Iv / ofNat (α := α) 1000)

/-- `RejectTrafficShapingChecker.DoCheck`: blocked iff `curCount + batch > threshold` (false for NaN) -/
def rejects {α} [Carrier α] (thr : Option α) (cur batch : Nat) : Bool :=
  match thr with
  | none => false
  | some t => ltb t (ofNat (cur + batch))

/-- the threshold in force for a request arriving at `now` (after the token sync), with the new token state -/
def threshold {α} [Carrier α] (s : Sys α) (a : Arr Bucket) (now : Nat) : Tok × Option (Option α) :=
  match s.rule with
  | none => (s.tok, none)
  | some (.warmup c, sc, Iv) =>
    let tk := sync c s.tok now (prevQps a sc Iv now)
    (tk, some (allowed c tk.tokens))
  | some (.adaptive m, _, _) => (s.tok, some (some (memAllowed m s.mem)))

/-- one `api.Entry(res, WithBatchCount(batch))` + `Exit` at time `now`: returns the new state and
    whether the request was admitted -/
def req {α} [Carrier α] (s : Sys α) (now batch : Nat) : Sys α × Bool :=
  let s := s.touch now
  match s.arr with
  | none => (s, true)
  | some a =>
    let (tk, thr) := threshold s a now
    let blocked := match thr, s.rule with
      | some t, some (_, _, Iv) => rejects t (vSum a Iv now .pass) batch
      | _, _ => false
    let a' := (addAt a now (if blocked then evBucket .block batch else evBucket .pass batch)).1
    ({ s with arr := some a', tok := tk }, !blocked)

/-- `n` such requests in a row at the same instant; returns the number admitted -/
def reqs {α} [Carrier α] (s : Sys α) (now batch : Nat) : Nat → Sys α × Nat
  | 0 => (s, 0)
  | n + 1 =>
    let (s1, ok) := req s now batch
    let (s2, k) := reqs s1 now batch n
    (s2, k + (if ok then 1 else 0))

/-- `flow.LoadRules([rule])` at time `now` for a warm-up rule: the calculator starts with
    `storedTokens = 0`, `lastFilledTime = 0`; `generateStatFor` creates the resource node -/
def loadWarmUp {α} [Carrier α] (s : Sys α) (now : Nat) (T : α) (period cf0 sc Iv : Nat) : Sys α :=
  { (s.touch now) with rule := some (.warmup (mkCfg T period cf0), sc, Iv), tok := {} }

def loadAdaptive {α} (s : Sys α) (now : Nat) (m : MemCfg) (sc Iv : Nat) : Sys α :=
  { (s.touch now) with rule := some (.adaptive m, sc, Iv), tok := {} }

/-- `flow.LoadRules([rule])` on a resource that may already have a rule (`buildResourceTrafficShapingController`):
    an invalid rule leaves the resource without controller; a rule equal to the bound one keeps the old
    controller with its calculator state; anything else gets a freshly constructed calculator
    (`storedTokens = 0`, `lastFilledTime = 0`) over the view `(sc, Iv)` of the new `StatIntervalInMs` -/
def loadRule {α} [Carrier α] (s : Sys α) (now : Nat) (r : RuleP α) (q : Option Nat) (valid : Bool) (sc Iv : Nat) : Sys α :=
  let fresh : Sys α := match r with
    | .wu T p cf _ => { loadWarmUp s now T p cf sc Iv with bound := some r.norm, behav := q, last := 0 }
    | .ma m _ =>
      -- MemoryAdaptive + Throttling is given the nop statistic: the resource node is not created by the load
      { (if q.isSome then { s with rule := some (.adaptive m, sc, Iv), tok := {} } else loadAdaptive s now m sc Iv) with
        bound := some r, behav := q, last := 0 }
  if !valid then { s with rule := none, bound := none, tok := {}, behav := none }
  else match s.bound with
    | some b => if b.same r && s.behav == q then s else fresh
    | none => fresh

/-! ## rules with a statistic of their own -/

def RuleP.iv {α} : RuleP α → Nat
  | .wu _ _ _ iv => iv
  | .ma _ iv => iv

/-- `Rule.needStatistic`: WarmUp, or Reject -/
def RuleP.needsStat {α} (r : RuleP α) (q : Option Nat) : Bool :=
  match r with
  | .wu .. => true
  | .ma .. => q.isNone

/-- `loadRule` plus the rule's statistic (`generateStatFor` / the reuse of the old controller's `boundStat`): `sa` says that
    `StatIntervalInMs` cannot reuse the resource's global statistic (`viewOf`). A kept controller keeps its statistic; a rebuilt one
    takes over the old statistic when the old rule `isStatReusable` (same `StatIntervalInMs`, both need a statistic), otherwise a
    fresh `BucketLeapArray(sc, Iv)` is created at load time (or none, when the global statistic is reused / no statistic is needed) -/
def loadRuleG {α} [Carrier α] (s : Sys α) (now : Nat) (r : RuleP α) (q : Option Nat) (valid : Bool) (sc Iv : Nat) (sa : Bool) : Sys α :=
  let s' := loadRule s now r q valid sc Iv
  if !valid then { s' with own := none } else
  let kept := match s.bound with | some b => b.same r && s.behav == q | none => false
  if kept then s' else
  let reuse := match s.bound with
    | some b => b.iv == r.iv && b.needsStat s.behav && r.needsStat q
    | none => false
  if reuse then s'
  else { s' with own := if sa && r.needsStat q then some (LA.mk sc (Iv / sc) now) else none }

/-- `req` for a rule that reads (and, through `StandaloneStatSlot`, feeds) its own statistic `o`; the resource node is updated as always -/
def reqOwn {α} [Carrier α] (s : Sys α) (o : Arr Bucket) (now batch : Nat) : Sys α × Bool :=
  let s := s.touch now
  match s.arr with
  | none => (s, true)
  | some a =>
    let (tk, thr) := threshold s o now
    let blocked := match thr, s.rule with
      | some t, some (_, _, Iv) => rejects t (vSum o Iv now .pass) batch
      | _, _ => false
    let a' := (addAt a now (if blocked then evBucket .block batch else evBucket .pass batch)).1
    let o' := if blocked then o else (addAt o now (evBucket .pass batch)).1
    ({ s with arr := some a', tok := tk, own := some o' }, !blocked)

/-- what the driver executes: `req` on the resource's statistic, `reqOwn` on the rule's own one -/
def reqG {α} [Carrier α] (s : Sys α) (now batch : Nat) : Sys α × Bool :=
  match s.own with
  | none => req s now batch
  | some o => reqOwn s o now batch

def reqsG {α} [Carrier α] (s : Sys α) (now batch : Nat) : Nat → Sys α × Nat
  | 0 => (s, 0)
  | n + 1 =>
    let (s1, ok) := reqG s now batch
    let (s2, k) := reqsG s1 now batch n
    (s2, k + (if ok then 1 else 0))

/-- what `ThrottlingChecker.DoCheck` decides from the calculated threshold before touching `lastPassedTime`:
    `threshold <= 0` or `batch > threshold` ⇒ blocked; else `intervalNs = ⌈batch / threshold · statIntervalNs⌉`.
    (A NaN threshold — `warmup-nan` — makes the interval conversion implementation-defined; never generated, classed as blocked.) -/
def throttleClass {α} [Carrier α] (thr : Option α) (batch statNs : Nat) : Throttle.Req :=
  if batch = 0 then .zero else
  match thr with
  | none => .excess
  | some t =>
    if !(ltb (ofNat 0) t) then .excess
    else if ltb t (ofNat batch) then .excess
    else .norm (Carrier.ceil (ofNat batch / t * ofNat statNs))

/-- one `api.Entry` + `Exit` under a Throttling rule at wall time `nowNs` (ns): the calculated threshold goes to the
    throttling checker (`Sentinel.Throttle.doCheck`, C10's model); a `wait w` outcome makes the flow slot sleep, i.e. the
    clock advances by `w` before the pass is recorded.  Returns the new state, the outcome and the clock afterwards. -/
def probe {α} [Carrier α] (s : Sys α) (nowNs batch : Nat) : Sys α × Throttle.Res × Nat :=
  let now := nowNs / 1000000
  let s := s.touch now
  match s.arr, s.rule, s.behav with
  | some a, some (_, _, Iv), some maxQ =>
    let (tk, thr) := threshold s (s.own.getD a) now
    let cls := throttleClass (thr.getD none) batch (Iv * 1000000)
    let (last', res) := Throttle.doCheck ((maxQ : Int) * 1000000) s.last nowNs cls
    let after : Nat := match res with | .wait w => nowNs + w.toNat | _ => nowNs
    let ev := match res with | .block => evBucket .block batch | _ => evBucket .pass batch
    let a' := (addAt a (after / 1000000) ev).1
    let own' := match res with
      | .block => s.own
      | _ => s.own.map fun o => (addAt o (after / 1000000) (evBucket .pass batch)).1
    ({ s with arr := some a', tok := tk, last := last', own := own' }, res, after)
  | _, _, _ => (s, .pass, nowNs)

/-! ## the regions of the recorded findings, as decidable predicates on the calculator's fields -/
namespace Known

/-- `warmup-nan`: the slope is `+Inf`, so at `storedTokens = warningToken` the threshold is `0·Inf = NaN` -/
def degenerateNaN {α} (c : Cfg α) : Bool := c.slope.isNone

/-- `warmup-starvation`: the cold threshold `T/cf` is below one request and the refill test
    `passQps < uint32(T)/cf` can never hold, so once the bucket has been filled nothing is admitted and
    nothing ever drains it (exact-rational reading of `T`) -/
def starves (c : Cfg Rat) : Bool := c.slope.isSome && decide (c.T < c.cf) && decide (0 < c.warn)

/-- `warmup-stuck-at-warning`: after the sync the bucket sits exactly on the warning line, where
    `coolDownTokens` has no refill branch (state classifier: calculator fields + stored tokens) -/
def stuckAtWarning {α} (c : Cfg α) (t : Tok) : Bool := decide (t.tokens = c.warn)

/-- `warmup-late-ramp`: `elapsed` whole seconds of saturating demand, at least the warm-up period but still inside
    the bound `maxToken - warningToken + 1` within which the warning line is provably reached -/
def lateRamp {α} (c : Cfg α) (period elapsed : Nat) : Bool :=
  decide (period ≤ elapsed) && decide (elapsed < c.max - c.warn + 2)

end Known

end Sentinel.WU
