/-!
# C19 — adapter IR, event-trace semantics (Go defer/panic), conformance predicate (core Lean only)

One `Prog` per adapter entry point (a function body in `pkg/adapters/**` that calls `sentinel.Entry`,
one per arm when the body forks on an option).  The terms are **generated** from the Go syntax trees by
`go/cmd/extract19` on every run (`Sentinel/Gen/Adapters.lean`); this file is the fixed part: the IR, its
big-step semantics producing an event trace under a scenario `(blocked?, handler : ok | err | panic)`,
and `conforms`, the property's sentence as a decidable predicate on that trace.

The same definitions are (a) what `Sentinel.Props.C19` proves things about, (b) what the compiled driver
(`Sentinel.Drv.C19`) executes to predict the event trace that the dynamic harnesses (`go/c19/*`) observe
on the real adapters.
-/
namespace Sentinel.AdapterIR

/-- what the wrapped handler does -/
inductive Handler | ok | err | panic
deriving DecidableEq, Repr

structure Scenario where
  blocked : Bool
  handler : Handler
deriving DecidableEq, Repr

/-- observable events of one request through an adapter entry point -/
inductive Ev
  | entryAsked   -- sentinel.Entry was called
  | handlerRun   -- the wrapped handler / next middleware / wrapped client was invoked
  | errBack      -- the framework handed an error back to the adapter
  | traced       -- sentinel.TraceError(entry, err) on a live entry
  | exit         -- entry.Exit() on a live entry
  | fallback     -- block fallback or default rejection produced
  | nilDeref     -- a method of the nil entry was called: nil-pointer panic
  | unknown      -- the translator met a construct it does not understand (fail closed)
  | badGuard     -- an option field is called under a nil-test of a *different* option field
deriving DecidableEq, Repr

/-- what a framework needs to know about its handler chain (C19 round 3: "return without calling next" only
means "handler not run" in some frameworks) -/
structure Chain where
  /-- returning from the middleware without invoking the next handler ends the chain.  True for the wrapping
  frameworks (the middleware alone holds `next`); false for gin / hertz server (the `Next` loop of the caller goes
  on unless aborted), iris (under forced execution rules only `StopExecution` ends the chain) and gear
  (middlewares run one after the other until one fails or ends the context). -/
  returnStops : Bool
  /-- context methods that stop the chain and do nothing else (`Abort`, `StopExecution`) -/
  stopOnly : List String
  /-- context methods that stop the chain *and* produce the rejection (`AbortWithStatus`, `End`, …) -/
  stopRespond : List String

structure Framework extends Chain where
  name : String                 -- adapter package directory under pkg/adapters
  /-- how this framework's adapters may invoke the next handler: `param` (call through a function parameter),
  `embedded` (method of the embedded wrapped client), or the name of the context method (`Next`) -/
  nextCalls : List String

def wrappingChain : Chain := ⟨true, [], []⟩

/-- **the per-framework table** (checked against the module sources in the Go module cache and, for the driven
adapters, by the dynamic harnesses: gin `Context.Next` is a loop that a returning handler falls back into, only
`Abort*` moves the index to the end; hertz `RequestContext.Next` is the same loop; iris `ExecutionRules{Force}`
calls `ctx.Next()` after every handler that neither called it nor stopped the context; gear `middlewares.run`
continues until a middleware returns an error or ends the context; goframe's `Middleware.Next` runs one
middleware and leaves its loop; fiber only runs `route.Handlers[0]`, the rest via `c.Next()`) -/
def frameworks : List Framework :=
  [ { name := "echo", nextCalls := ["param"], toChain := wrappingChain },
    { name := "fiber", nextCalls := ["Next"], toChain := wrappingChain },
    { name := "gear", nextCalls := [], returnStops := false, stopOnly := [],
      stopRespond := ["End", "Error", "ErrorStatus", "Redirect"] },
    { name := "gin", nextCalls := ["Next"], returnStops := false, stopOnly := ["Abort"],
      stopRespond := ["AbortWithStatus", "AbortWithStatusJSON", "AbortWithError"] },
    { name := "go-zero", nextCalls := ["param"], toChain := wrappingChain },
    { name := "goframe", nextCalls := ["Next"], toChain := wrappingChain },
    { name := "grpc", nextCalls := ["param"], toChain := wrappingChain },
    { name := "hertz", nextCalls := ["param", "Next"], returnStops := false, stopOnly := ["Abort"],
      stopRespond := ["AbortWithStatus", "AbortWithMsg", "AbortWithStatusJSON", "AbortWithError"] },
    { name := "iris", nextCalls := ["Next"], returnStops := false, stopOnly := ["StopExecution"],
      stopRespond := ["StopWithStatus", "StopWithText", "StopWithError", "StopWithPlainError", "StopWithJSON",
                      "StopWithProblem"] },
    { name := "kitex", nextCalls := ["param"], toChain := wrappingChain },
    { name := "kratos", nextCalls := ["param"], toChain := wrappingChain },
    { name := "micro", nextCalls := ["param", "embedded"], toChain := wrappingChain } ]

/-- an adapter package that is not in the table: nothing is known to stop its chain and no way of calling the
next handler is accepted (fail closed: a new adapter needs a table row) -/
def unknownFramework (n : String) : Framework :=
  { name := n, nextCalls := [], returnStops := false, stopOnly := [], stopRespond := [] }

def frameworkOf (n : String) : Framework := (frameworks.find? (·.name == n)).getD (unknownFramework n)

/-- does the call `via` stop the chain?  `option` = the configured block fallback / the adapter's default
fallback option: stopping the chain is delegated to it. -/
def Chain.isStop (c : Chain) (via : String) : Bool :=
  via == "option" || c.stopOnly.contains via || c.stopRespond.contains via

/-- does the call `via` count as producing the rejection?  everything but a pure stop call -/
def Chain.isResponse (c : Chain) (via : String) : Bool := !c.stopOnly.contains via

/-- adapter body; `ifBlocked` carries the then-branch -/
inductive Stmt
  | entry                              -- e, b := sentinel.Entry(...)
  | ifBlocked (thenB : List Stmt)      -- if b != nil { thenB }
  | reject (alts : List (List String))
      -- the rejection part of the block branch: one list of callee names per alternative path through the
      -- option tests (`[["option"], ["StatusCode", "StopExecution"]]`); `return` = the block error is returned
  | ret                                -- return
  | deferExit                          -- defer e.Exit()
  | exitNow                            -- e.Exit()
  | useEntry                           -- e.Context()… : a method of e called with no nil test
  | callNext (errBack traceOnErr : Bool)
      -- invoke the wrapped handler; `errBack`: its error result is received by the adapter;
      -- `traceOnErr`: followed by `if err != nil { sentinel.TraceError(e, err) }`
  | unknown                            -- anything the translator cannot classify
  | badGuard
      -- `if o.f != nil { … o.g(…) … }` with g ≠ f outside the block branch (e.g. the resource extractor): with only
      -- `g` configured it is ignored, with only `f` configured a nil function is called

structure Prog where
  key     : String          -- "<adapter file>:<function>[:<arm>]"
  fw      : String          -- adapter package directory (first component of the key)
  nextVia : List String     -- the ways the body invokes the next handler (`param`, `embedded`, `Next`)
  body    : List Stmt

structure St where
  trace        : List Ev := []
  deferred     : Nat := 0            -- pending `defer e.Exit()` calls
  entryNil     : Bool := false       -- e == nil (the request was blocked)
  stopped      : Bool := false       -- returned or panicking
  panicking    : Bool := false
  chainStopped : Bool := false       -- a stop call (or the delegated fallback) ended the handler chain
  advanced     : Bool := false       -- the body itself invoked the next handler
deriving Repr

/-- every alternative of the rejection contains a call that …, and none of them contains a mis-guarded option call
(`misguarded`: the fallback option is called under a nil-test of *another* option field, so the configured fallback
is skipped when only it is set, and a nil function is called when only the other one is: such an alternative neither
produces the rejection nor stops anything) -/
def allAlts (alts : List (List String)) (f : String → Bool) : Bool :=
  !alts.isEmpty && alts.all fun a => !a.contains "misguarded" && a.any f

mutual
def exec (ch : Chain) (sc : Scenario) (s : St) : Stmt → St
  | .entry => { s with trace := s.trace ++ [.entryAsked], entryNil := sc.blocked }
  | .ifBlocked th => if sc.blocked then execList ch sc s th else s
  | .reject alts =>
      { s with trace := if allAlts alts ch.isResponse then s.trace ++ [.fallback] else s.trace,
               chainStopped := s.chainStopped || allAlts alts ch.isStop }
  | .ret => { s with stopped := true }
  | .deferExit => { s with deferred := s.deferred + 1 }
  | .exitNow =>
      if s.entryNil then { s with trace := s.trace ++ [.nilDeref], stopped := true, panicking := true }
      else { s with trace := s.trace ++ [.exit] }
  | .useEntry =>
      if s.entryNil then { s with trace := s.trace ++ [.nilDeref], stopped := true, panicking := true } else s
  | .callNext eb tr =>
      let s1 := { s with trace := s.trace ++ [.handlerRun], advanced := true }
      match sc.handler with
      | .ok => s1
      | .err =>
          if eb then
            -- TraceError on a nil entry is a silent no-op
            if tr && !s.entryNil then { s1 with trace := s1.trace ++ [.errBack, .traced] }
            else { s1 with trace := s1.trace ++ [.errBack] }
          else s1
      | .panic => { s1 with stopped := true, panicking := true }
  | .unknown => { s with trace := s.trace ++ [.unknown] }
  | .badGuard => { s with trace := s.trace ++ [.badGuard] }
def execList (ch : Chain) (sc : Scenario) (s : St) : List Stmt → St
  | [] => s
  | x :: r => if s.stopped then s else execList ch sc (exec ch sc s x) r
end

/-- the deferred exits run on return and on panic alike (a nil entry panics in each of them) -/
def unwind (nil : Bool) : Nat → List Ev → List Ev
  | 0, tr => tr
  | k + 1, tr => unwind nil k (tr ++ [if nil then .nilDeref else .exit])

/-- after the body returned normally: does the framework itself go on to the next handler? -/
def frameworkAdvances (ch : Chain) (s : St) : Bool :=
  !ch.returnStops && !s.chainStopped && !s.advanced && !s.panicking && !(s.entryNil && s.deferred != 0)

def runProg (ch : Chain) (sc : Scenario) (p : List Stmt) : List Ev :=
  let s := execList ch sc {} p
  let tr := unwind s.entryNil s.deferred s.trace
  if frameworkAdvances ch s then tr ++ [.handlerRun] else tr

def count (e : Ev) (l : List Ev) : Nat := l.count e

/-- what a caller can observe of a trace: a nil dereference in a deferred call while already panicking from a
nil dereference replaces the first panic, so a run of `nilDeref`s shows as one (used only when comparing with
real runs; `conformsTrace` rejects either form) -/
def observable : List Ev → List Ev
  | .nilDeref :: .nilDeref :: r => observable (.nilDeref :: r)
  | e :: r => e :: observable r
  | [] => []

/-- **the property's sentence on a trace**: entry asked first; blocked ⇒ handler not run, rejection produced,
nothing to exit; admitted ⇒ handler exactly once, exit exactly once and after the handler (on ok / err /
panic), no rejection, and an error handed back by the framework is traced (before the exit). -/
def conformsTrace (sc : Scenario) (tr : List Ev) : Bool :=
  tr.head? = some .entryAsked && count .entryAsked tr = 1 &&
  count .nilDeref tr = 0 && count .unknown tr = 0 && count .badGuard tr = 0 &&
  (if sc.blocked then
     count .handlerRun tr = 0 && count .fallback tr = 1 && count .exit tr = 0
   else
     count .handlerRun tr = 1 && count .exit tr = 1 && count .fallback tr = 0 &&
     count .traced tr = count .errBack tr &&
     tr.getLast? = some .exit)

/-- a body that holds the next handler itself (parameter / embedded client) is the only one who can run it -/
def Prog.wraps (p : Prog) : Bool := p.nextVia.any fun v => v == "param" || v == "embedded"

/-- the chain rules that apply to this entry point -/
def Prog.chain (p : Prog) : Chain :=
  let f := frameworkOf p.fw
  { f.toChain with returnStops := p.wraps || f.returnStops }

/-- the handler is only invoked in ways the framework's table row lists -/
def Prog.nextOk (p : Prog) : Bool := p.nextVia.all (frameworkOf p.fw).nextCalls.contains

def Prog.run (p : Prog) (sc : Scenario) : List Ev := runProg p.chain sc p.body

def conforms (p : Prog) (sc : Scenario) : Bool := p.nextOk && conformsTrace sc (p.run sc)

/-- top-level statements that neither defer the exit nor call the handler -/
def plainStmt : Stmt → Bool
  | .deferExit => false
  | .callNext _ _ => false
  | _ => true

def scenarios : List Scenario :=
  [⟨true, .ok⟩, ⟨true, .err⟩, ⟨true, .panic⟩, ⟨false, .ok⟩, ⟨false, .err⟩, ⟨false, .panic⟩]

def conformsAll (p : Prog) : Bool := scenarios.all (conforms p)

/-! ## Text form (shared with the Go extractor and the dynamic harnesses) -/

def Handler.text : Handler → String
  | .ok => "ok" | .err => "err" | .panic => "panic"

def Handler.parse? : String → Option Handler
  | "ok" => some .ok | "err" => some .err | "panic" => some .panic | _ => none

def Scenario.text (s : Scenario) : String :=
  (if s.blocked then "blocked " else "admitted ") ++ s.handler.text

def Ev.text : Ev → String
  | .entryAsked => "entryAsked" | .handlerRun => "handlerRun" | .errBack => "errBack"
  | .traced => "traced" | .exit => "exit" | .fallback => "fallback" | .nilDeref => "nilDeref"
  | .unknown => "unknown" | .badGuard => "badGuard"

def Ev.parse? : String → Option Ev
  | "entryAsked" => some .entryAsked | "handlerRun" => some .handlerRun | "errBack" => some .errBack
  | "traced" => some .traced | "exit" => some .exit | "fallback" => some .fallback
  | "nilDeref" => some .nilDeref | "unknown" => some .unknown | "badGuard" => some .badGuard | _ => none

def traceText (tr : List Ev) : String := ",".intercalate (tr.map Ev.text)

def bit (b : Bool) : String := if b then "1" else "0"

mutual
def Stmt.text : Stmt → String
  | .entry => "entry" | .ifBlocked th => "ifBlocked [ " ++ textList th ++ "]"
  | .reject alts => "reject:" ++ "|".intercalate (alts.map fun a => "+".intercalate a)
  | .ret => "ret" | .deferExit => "deferExit" | .exitNow => "exitNow"
  | .useEntry => "useEntry" | .callNext eb tr => "callNext:" ++ bit eb ++ ":" ++ bit tr
  | .unknown => "unknown" | .badGuard => "badGuard"
def textList : List Stmt → String
  | [] => ""
  | x :: r => x.text ++ " " ++ textList r
end

/-- `entry ifBlocked [ fallback ret ] deferExit callNext:1:1 ret` → statements (fuel = token count) -/
def parseStmts : Nat → List String → Option (List Stmt × List String)
  | 0, _ => none
  | _ + 1, [] => some ([], [])
  | _ + 1, "]" :: rest => some ([], rest)
  | n + 1, "ifBlocked" :: "[" :: rest =>
      match parseStmts n rest with
      | some (th, rest') =>
          match parseStmts n rest' with
          | some (more, rest'') => some (.ifBlocked th :: more, rest'')
          | none => none
      | none => none
  | n + 1, t :: rest =>
      let one : Option Stmt := match t with
        | "entry" => some .entry | "ret" => some .ret
        | "deferExit" => some .deferExit | "exitNow" => some .exitNow | "useEntry" => some .useEntry
        | "unknown" => some .unknown | "badGuard" => some .badGuard
        | "callNext:0:0" => some (.callNext false false) | "callNext:0:1" => some (.callNext false true)
        | "callNext:1:0" => some (.callNext true false) | "callNext:1:1" => some (.callNext true true)
        | _ =>
          if t.startsWith "reject:" then
            some (.reject (((t.drop 7).toString.splitOn "|").map fun a => a.splitOn "+"))
          else none
      match one with
      | some s =>
          match parseStmts n rest with
          | some (more, rest') => some (s :: more, rest')
          | none => none
      | none => none

def parseBody (ts : List String) : Option (List Stmt) :=
  match parseStmts (ts.length + 2) ts with
  | some (b, []) => some b
  | _ => none

end Sentinel.AdapterIR
