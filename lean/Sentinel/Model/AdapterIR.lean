/-!
# C19 — adapter IR, event-trace semantics (Go defer/panic), conformance predicate (core Lean only)

One `Prog` per adapter entry point (a function body in `pkg/adapters/**` that calls `sentinel.Entry`,
one per arm when the body forks on an option).  The terms are **generated** from the Go syntax trees by
`go/cmd/extract19` on every run (`Sentinel/Gen/Adapters.lean`); this file is the fixed part: the IR, its
big-step semantics producing an event trace under a scenario `(blocked?, handler : ok | err | panic)`,
and `conforms`, the property's sentence as a decidable predicate on that trace.

The same definitions are (a) what `Sentinel.Props.C19` proves things about, (b) what the compiled driver
(`Sentinel.Drv.C19`) executes to predict the event trace that the dynamic harnesses (`go/c19/*`) observe
on the real adapters.
-/
namespace Sentinel.AdapterIR

/-- what the wrapped handler does -/
inductive Handler | ok | err | panic
deriving DecidableEq, Repr

structure Scenario where
  blocked : Bool
  handler : Handler
deriving DecidableEq, Repr

/-- observable events of one request through an adapter entry point -/
inductive Ev
  | entryAsked   -- sentinel.Entry was called
  | handlerRun   -- the wrapped handler / next middleware / wrapped client was invoked
  | errBack      -- the framework handed an error back to the adapter
  | traced       -- sentinel.TraceError(entry, err) on a live entry
  | exit         -- entry.Exit() on a live entry
  | fallback     -- block fallback or default rejection produced
  | nilDeref     -- a method of the nil entry was called: nil-pointer panic
  | unknown      -- the translator met a construct it does not understand (fail closed)
deriving DecidableEq, Repr

/-- adapter body; `ifBlocked` carries the then-branch -/
inductive Stmt
  | entry                              -- e, b := sentinel.Entry(...)
  | ifBlocked (thenB : List Stmt)      -- if b != nil { thenB }
  | fallback                           -- options.blockFallback(...) / default rejection
  | ret                                -- return
  | deferExit                          -- defer e.Exit()
  | exitNow                            -- e.Exit()
  | useEntry                           -- e.Context()… : a method of e called with no nil test
  | callNext (errBack traceOnErr : Bool)
      -- invoke the wrapped handler; `errBack`: its error result is received by the adapter;
      -- `traceOnErr`: followed by `if err != nil { sentinel.TraceError(e, err) }`
  | unknown                            -- anything the translator cannot classify

structure Prog where
  key  : String          -- "<adapter file>:<function>[:<arm>]"
  body : List Stmt

structure St where
  trace     : List Ev := []
  deferred  : Nat := 0            -- pending `defer e.Exit()` calls
  entryNil  : Bool := false       -- e == nil (the request was blocked)
  stopped   : Bool := false       -- returned or panicking
deriving Repr

mutual
def exec (sc : Scenario) (s : St) : Stmt → St
  | .entry => { s with trace := s.trace ++ [.entryAsked], entryNil := sc.blocked }
  | .ifBlocked th => if sc.blocked then execList sc s th else s
  | .fallback => { s with trace := s.trace ++ [.fallback] }
  | .ret => { s with stopped := true }
  | .deferExit => { s with deferred := s.deferred + 1 }
  | .exitNow =>
      if s.entryNil then { s with trace := s.trace ++ [.nilDeref], stopped := true }
      else { s with trace := s.trace ++ [.exit] }
  | .useEntry =>
      if s.entryNil then { s with trace := s.trace ++ [.nilDeref], stopped := true } else s
  | .callNext eb tr =>
      let s1 := { s with trace := s.trace ++ [.handlerRun] }
      match sc.handler with
      | .ok => s1
      | .err =>
          if eb then
            -- TraceError on a nil entry is a silent no-op
            if tr && !s.entryNil then { s1 with trace := s1.trace ++ [.errBack, .traced] }
            else { s1 with trace := s1.trace ++ [.errBack] }
          else s1
      | .panic => { s1 with stopped := true }
  | .unknown => { s with trace := s.trace ++ [.unknown] }
def execList (sc : Scenario) (s : St) : List Stmt → St
  | [] => s
  | x :: r => if s.stopped then s else execList sc (exec sc s x) r
end

/-- the deferred exits run on return and on panic alike (a nil entry panics in each of them) -/
def unwind (nil : Bool) : Nat → List Ev → List Ev
  | 0, tr => tr
  | k + 1, tr => unwind nil k (tr ++ [if nil then .nilDeref else .exit])

def runProg (sc : Scenario) (p : List Stmt) : List Ev :=
  let s := execList sc {} p
  unwind s.entryNil s.deferred s.trace

def count (e : Ev) (l : List Ev) : Nat := l.count e

/-- what a caller can observe of a trace: a nil dereference in a deferred call while already panicking from a
nil dereference replaces the first panic, so a run of `nilDeref`s shows as one (used only when comparing with
real runs; `conformsTrace` rejects either form) -/
def observable : List Ev → List Ev
  | .nilDeref :: .nilDeref :: r => observable (.nilDeref :: r)
  | e :: r => e :: observable r
  | [] => []

/-- **the property's sentence on a trace**: entry asked first; blocked ⇒ handler not run, rejection produced,
nothing to exit; admitted ⇒ handler exactly once, exit exactly once and after the handler (on ok / err /
panic), no rejection, and an error handed back by the framework is traced (before the exit). -/
def conformsTrace (sc : Scenario) (tr : List Ev) : Bool :=
  tr.head? = some .entryAsked && count .entryAsked tr = 1 &&
  count .nilDeref tr = 0 && count .unknown tr = 0 &&
  (if sc.blocked then
     count .handlerRun tr = 0 && count .fallback tr = 1 && count .exit tr = 0
   else
     count .handlerRun tr = 1 && count .exit tr = 1 && count .fallback tr = 0 &&
     count .traced tr = count .errBack tr &&
     tr.getLast? = some .exit)

def conforms (p : Prog) (sc : Scenario) : Bool := conformsTrace sc (runProg sc p.body)

/-- top-level statements that neither defer the exit nor call the handler -/
def plainStmt : Stmt → Bool
  | .deferExit => false
  | .callNext _ _ => false
  | _ => true

def scenarios : List Scenario :=
  [⟨true, .ok⟩, ⟨true, .err⟩, ⟨true, .panic⟩, ⟨false, .ok⟩, ⟨false, .err⟩, ⟨false, .panic⟩]

def conformsAll (p : Prog) : Bool := scenarios.all (conforms p)

/-! ## Text form (shared with the Go extractor and the dynamic harnesses) -/

def Handler.text : Handler → String
  | .ok => "ok" | .err => "err" | .panic => "panic"

def Handler.parse? : String → Option Handler
  | "ok" => some .ok | "err" => some .err | "panic" => some .panic | _ => none

def Scenario.text (s : Scenario) : String :=
  (if s.blocked then "blocked " else "admitted ") ++ s.handler.text

def Ev.text : Ev → String
  | .entryAsked => "entryAsked" | .handlerRun => "handlerRun" | .errBack => "errBack"
  | .traced => "traced" | .exit => "exit" | .fallback => "fallback" | .nilDeref => "nilDeref"
  | .unknown => "unknown"

def Ev.parse? : String → Option Ev
  | "entryAsked" => some .entryAsked | "handlerRun" => some .handlerRun | "errBack" => some .errBack
  | "traced" => some .traced | "exit" => some .exit | "fallback" => some .fallback
  | "nilDeref" => some .nilDeref | "unknown" => some .unknown | _ => none

def traceText (tr : List Ev) : String := ",".intercalate (tr.map Ev.text)

def bit (b : Bool) : String := if b then "1" else "0"

mutual
def Stmt.text : Stmt → String
  | .entry => "entry" | .ifBlocked th => "ifBlocked [ " ++ textList th ++ "]"
  | .fallback => "fallback" | .ret => "ret" | .deferExit => "deferExit" | .exitNow => "exitNow"
  | .useEntry => "useEntry" | .callNext eb tr => "callNext:" ++ bit eb ++ ":" ++ bit tr
  | .unknown => "unknown"
def textList : List Stmt → String
  | [] => ""
  | x :: r => x.text ++ " " ++ textList r
end

/-- `entry ifBlocked [ fallback ret ] deferExit callNext:1:1 ret` → statements (fuel = token count) -/
def parseStmts : Nat → List String → Option (List Stmt × List String)
  | 0, _ => none
  | _ + 1, [] => some ([], [])
  | _ + 1, "]" :: rest => some ([], rest)
  | n + 1, "ifBlocked" :: "[" :: rest =>
      match parseStmts n rest with
      | some (th, rest') =>
          match parseStmts n rest' with
          | some (more, rest'') => some (.ifBlocked th :: more, rest'')
          | none => none
      | none => none
  | n + 1, t :: rest =>
      let one : Option Stmt := match t with
        | "entry" => some .entry | "fallback" => some .fallback | "ret" => some .ret
        | "deferExit" => some .deferExit | "exitNow" => some .exitNow | "useEntry" => some .useEntry
        | "unknown" => some .unknown
        | "callNext:0:0" => some (.callNext false false) | "callNext:0:1" => some (.callNext false true)
        | "callNext:1:0" => some (.callNext true false) | "callNext:1:1" => some (.callNext true true)
        | _ => none
      match one with
      | some s =>
          match parseStmts n rest with
          | some (more, rest') => some (s :: more, rest')
          | none => none
      | none => none

def parseBody (ts : List String) : Option (List Stmt) :=
  match parseStmts (ts.length + 2) ts with
  | some (b, []) => some b
  | _ => none

end Sentinel.AdapterIR
