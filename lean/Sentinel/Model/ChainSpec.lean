import Sentinel.Model.Chain
/-!
# The abstract reference for C16 (what the property says, computed from the op history only)

No heap, no pool, no insertion algorithm: the chain is *the stable sort* of its insertion sequence, the verdict
is decided by the first rule slot (in that order) that does not pass, a raised panic means "admitted", the
call log (absent panics) is "every prepare slot, the rule slots up to and including the first blocker, every
statistic slot once", completion is told exactly for passed entries, and the caller's block error is a value
fixed at the time `Entry` returned.  Where the property makes no claim the spec answers `Out.unknown` (`?`).
-/
namespace Sentinel.Chain

def insP (ins : List SlotSpec) : List PSlot := ins.filterMap fun | .p x => some x | _ => none
def insR (ins : List SlotSpec) : List RSlot := ins.filterMap fun | .r x => some x | _ => none
def insS (ins : List SlotSpec) : List SSlot := ins.filterMap fun | .s x => some x | _ => none

/-- the chain the property talks about -/
def specChain (ins : List SlotSpec) : ChainDef :=
  { ps := stableSort (·.order) (insP ins), rs := stableSort (·.order) (insR ins), ss := stableSort (·.order) (insS ins) }

/-- first rule slot that does not let the request through -/
def stopper (rs : List RSlot) : Option RSlot := rs.find? fun s => !s.beh.passes

/-- the rule slots that run -/
def ranRules (rs : List RSlot) : List RSlot := rs.takeWhile (·.beh.passes) ++ (stopper rs).toList

def prepPanics (ps : List PSlot) : Bool := ps.any fun s => s.beh = .panic

/-- what the first non-passing rule slot says: `none` = everything passed -/
inductive Stop
  | allPass
  | block (s : RSlot) (typ : Nat)
  | panic
deriving Repr

def stopOfSlot (s : RSlot) : Stop :=
  match s.beh with
  | .block _ typ => .block s typ
  | _ => .panic

def stopOf (rs : List RSlot) : Stop :=
  match stopper rs with
  | none => .allPass
  | some s => stopOfSlot s

/-- what a statistic slot is told at `Entry` -/
def statCall (blk : Option (Option BErr)) (s : SSlot) : Call :=
  match blk with
  | none => .passed s.id
  | some b => .blocked s.id b

def statPanics (blk : Option (Option BErr)) (ss : List SSlot) : Bool :=
  match blk with
  | none => ss.any fun s => s.beh = .pPassed
  | some _ => ss.any fun s => s.beh = .pBlocked

/-- what the statistic slots are told: `none` = passed, `some b` = blocked with `b` -/
def Stop.blk : Stop → Option (Option BErr)
  | .block s typ => some (some (blockVal s typ))
  | _ => none

def Stop.isPanic : Stop → Bool
  | .panic => true
  | _ => false

def Stop.verdict : Stop → Option BErr
  | .block s typ => some (blockVal s typ)
  | _ => none

/-- is a panic raised inside `SlotChain.Entry`? -/
def entryPanics (ch : ChainDef) : Bool :=
  prepPanics ch.ps || (stopOf ch.rs).isPanic || statPanics (stopOf ch.rs).blk ch.ss

/-- a rule slot blocks and a statistic slot then panics in `OnEntryBlocked`: the request is admitted (fail-open) but its
    context stays marked blocked until it exits -/
def blockPanics (ch : ChainDef) : Bool :=
  !prepPanics ch.ps && (stopOf ch.rs).verdict.isSome && statPanics (stopOf ch.rs).blk ch.ss

/-- the verdict handed to the caller: `none` = admitted -/
def specVerdict (ch : ChainDef) : Option BErr :=
  if entryPanics ch then none else (stopOf ch.rs).verdict

def hooksOfP (ps : List PSlot) : Hooks := ps.flatMap fun s => hookOf s.id s.hook
def hooksOfR (rs : List RSlot) : Hooks := rs.flatMap fun s => hookOf s.id s.hook

/-- exit handlers registered by the slots that ran (absent panics) -/
def specHooks (ch : ChainDef) : Hooks := hooksOfP ch.ps ++ hooksOfR (ranRules ch.rs)

def hooksPanic (k : Hooks) : Bool := k.any fun x => x.2 = .panic

/-- the calls `Entry` makes, absent panics -/
def specEntryCalls (ch : ChainDef) : List Call :=
  ch.ps.map (fun s => Call.prep s.id) ++ (ranRules ch.rs).map (fun s => Call.check s.id) ++
  ch.ss.map (statCall (stopOf ch.rs).blk)

/-- the whole log of the `entry` op: `none` = a panic was raised, no claim -/
def specEntryLog (ch : ChainDef) : Option (List Call) :=
  if entryPanics ch then none
  else if (stopOf ch.rs).verdict.isSome then
    -- blocked: `api.entry` exits the entry itself; the handlers registered by the slots run
    if hooksPanic (specHooks ch) then none
    else some (specEntryCalls ch ++ (specHooks ch).map (fun x => Call.handler x.1))
  else some (specEntryCalls ch)

/-- the log of the first `Exit` of an admitted entry whose `Entry` raised no panic -/
def specExitLog (ss : List SSlot) (hooks : Hooks) : Option (List Call) :=
  if hooksPanic hooks || ss.any (fun s => s.beh = .pCompleted) then none
  else some (hooks.map (fun x => Call.handler x.1) ++ ss.map (fun s => Call.completed s.id))

/-! ## spec-side interpreter of the op language -/

structure SEntry where
  name : String
  chain : String
  hooks : Hooks := []
  exited : Bool := false
  verdict : Option BErr := none
  panicked : Bool := false          -- a panic was raised in its `Entry`
  blockPanic : Bool := false        -- … after a rule slot had blocked (the context stays marked blocked)
  note : CtxNote := {}              -- what `ctx.Err()` / `ctx.GetPair` answer while the entry is admitted and not exited
deriving Repr, Inhabited

structure SState where
  chains : List (String × List SlotSpec) := []      -- insertion sequences
  entries : List SEntry := []
  lastLog : Option (List Call) := some []
deriving Inhabited

def SState.findChain (s : SState) (n : String) : Option (List SlotSpec) := (s.chains.find? (·.1 = n)).map (·.2)
def SState.findEntry (s : SState) (e : String) : Option SEntry := s.entries.find? (·.name = e)
def SState.setChain (s : SState) (n : String) (ins : List SlotSpec) : SState :=
  { s with chains := (n, ins) :: s.chains.filter (·.1 ≠ n) }
def SState.setEntry (s : SState) (r : SEntry) : SState :=
  { s with entries := s.entries.map fun x => if x.name = r.name then r else x }

def isOwn : SlotSpec → Bool
  | .r x => match x.beh with | .block .own _ => true | _ => false
  | _ => false

/-- some rule slot of the case reuses one `*TokenResult` object for all its calls -/
def SState.hasOwn (s : SState) : Bool := s.chains.any fun c => c.2.any isOwn

/-- another admitted, not yet exited entry holds a context still marked blocked (panic after a block): together with a
    result object shared between contexts (`hasOwn`) the completion of *this* entry is outside "absent panics" -/
def SState.hazard (s : SState) (e : String) : Bool :=
  s.hasOwn && s.entries.any fun x => x.name ≠ e && x.blockPanic && !x.exited

def specSorted (ins : List SlotSpec) : Out := sortedOut (specChain ins)

def defaultOrderSpec : Out :=
  .gorder (stableSort (·.2) defaultPrepIns) (stableSort (·.2) defaultRuleIns) (stableSort (·.2) defaultStatIns)

def olog : Option (List Call) → Out
  | some l => .log l
  | none => .unknown

def sstep (s : SState) : Op → SState × Out
  | .chain n slots =>
    match s.findChain n with
    | some _ => (s, .bad)
    | none => (s.setChain n slots, specSorted slots)
  | .add n slot =>
    match s.findChain n with
    | none => (s, .bad)
    | some ins => (s.setChain n (ins ++ [slot]), specSorted (ins ++ [slot]))
  | .entry e n =>
    match s.findEntry e, s.findChain n with
    | none, some ins =>
      let ch := specChain ins
      match specVerdict ch with
      | some b =>
        ({ s with lastLog := specEntryLog ch,
                  entries := s.entries ++ [{ name := e, chain := n, exited := true, verdict := some b }] }, .block b)
      | none =>
        ({ s with lastLog := specEntryLog ch,
                  entries := s.entries ++ [{ name := e, chain := n, hooks := specHooks ch,
                                             panicked := entryPanics ch, blockPanic := blockPanics ch,
                                             note := entryNote ch }] }, .pass)
    | _, _ => (s, .bad)
  | .whenexit e id b =>
    match s.findEntry e with
    | some r =>
      if r.verdict.isSome then (s, .bad)
      else (s.setEntry { r with hooks := r.hooks ++ [(id, b)] }, .none)
    | none => (s, .bad)
  | .exit e =>
    match s.findEntry e with
    | some r =>
      if r.verdict.isSome then (s, .bad)
      else if r.exited then ({ s with lastLog := some [] }, .ok)
      else
        match s.findChain r.chain with
        | none => (s, .bad)
        | some ins =>
          let l := if r.panicked || s.hazard e then none else specExitLog (specChain ins).ss r.hooks
          (({ s with lastLog := l } : SState).setEntry { r with exited := true }, .ok)
    | none => (s, .bad)
  | .log => (s, olog s.lastLog)
  | .ident e =>
    match s.findEntry e with
    | some _ => (s, .unknown)
    | none => (s, .bad)
  | .blockerr e =>
    match s.findEntry e with
    | some r =>
      match r.verdict with
      | some b => (s, .berr b)
      | none => (s, .bad)
    | none => (s, .bad)
  | .globalorder => (s, defaultOrderSpec)
  | .ctxq e pair =>
    match s.findEntry e with
    | some r =>
      -- once blocked or exited the context is back in the pool and may already serve another entry: no claim
      if r.verdict.isSome || r.exited then (s, .unknown)
      else (s, if pair then .cpair r.note.pair else .cerr r.note.err)
    | none => (s, .bad)
  | .clock _ => (s, .none)

end Sentinel.Chain
