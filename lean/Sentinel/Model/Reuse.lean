import Sentinel.Model.LeapArray
import Sentinel.Model.Bucket
/-!
# M-REUSE — the controller-reuse calculus of the rule managers (core Lean only, executable)

Mirrors `calculateReuseIndexFor` / `build…` / `onRuleUpdate` / `onResourceRuleUpdate` of
`core/flow/rule_manager.go`, `core/circuitbreaker/rule_manager.go`, `core/hotspot/rule_manager.go`.
The three managers are the same algorithm over a different rule type with its own
`isEqualsTo` / `isStatReusable` field list, so the calculus is generic (`Calc`) and instantiated
three times below.

A controller is a value `Ctl`: an identity `id`, the bound rule and its *mutable state* `st`
(breaker state / deadline / probe counter / window counters; `lastPassedTime`; warm-up tokens;
per-value caches).  Reusing the old object is moving that value into the new list, so
"same id ⇒ same state" holds by construction and the theorems speak about which *values* of
the old list reappear in the new one.  A statistic is owned by exactly one live controller (the
builders remove the donor from the candidate list and drop all old controllers afterwards), so it
is part of `st`; `Calc.reuse` says which part of an old state a stat-reusing new controller keeps.
-/
namespace Sentinel.Reuse

structure Ctl (R S : Type) where
  id : Nat
  rule : R
  st : S
deriving Repr

/-- what differs between the three rule managers -/
structure Calc (R S : Type) where
  /-- `old.isEqualsTo(new)` -/
  eq : R → R → Bool
  /-- `old.isStatReusable(new)` -/
  sr : R → R → Bool
  /-- what the controller's constructor writes back into the rule object it is bound to
      (`NewWarmUpTrafficShapingCalculator` stores the default cold factor; hotspot fills `SpecificItems`) -/
  norm : R → R
  /-- a brand-new controller (with a brand-new statistic) created at time `now` -/
  fresh : R → Nat → S
  /-- a new controller bound to the statistic of the old controller whose state is given -/
  reuse : R → S → Nat → S

variable {R S : Type}

/-- `calculateReuseIndexFor`: the first equal old controller wins (and ends the scan); otherwise the first
    stat-reusable one seen before that.  Returns `(equalIdx, reuseStatIdx)`. -/
def reuseIdx (K : Calc R S) (r : R) : List (Ctl R S) → Nat → Option Nat → Option Nat × Option Nat
  | [], _, reuse => (none, reuse)
  | c :: cs, i, reuse =>
    if K.eq c.rule r then (some i, reuse)
    else if K.sr c.rule r && reuse.isNone then reuseIdx K r cs (i+1) (some i)
    else reuseIdx K r cs (i+1) reuse

/-- `build…Controller`: processes the new rules in order, consuming old controllers.  New controllers get the
    identities `next, next+1, …`. -/
def build (K : Calc R S) (now : Nat) : List R → List (Ctl R S) → Nat → List (Ctl R S)
  | [], _, _ => []
  | r :: rs, old, next =>
    match reuseIdx K r old 0 none with
    | (some i, _) =>
      match old[i]? with
      | some c => c :: build K now rs (old.eraseIdx i) next
      | none => build K now rs old next            -- unreachable (`reuseIdx` returns valid indices)
    | (none, some j) =>
      match old[j]? with
      | some c => { id := next, rule := K.norm r, st := K.reuse r c.st now } :: build K now rs (old.eraseIdx j) (next+1)
      | none => build K now rs old next            -- unreachable
    | (none, none) => { id := next, rule := K.norm r, st := K.fresh r now } :: build K now rs old (next+1)

/-- a rule manager: resource ↦ its controllers (absent = empty list) and the next fresh identity -/
structure Mgr (R S : Type) where
  ctls : Nat → List (Ctl R S)
  next : Nat

def Mgr.empty : Mgr R S := { ctls := fun _ => [], next := 0 }

/-- the rules the builder of resource `x` sees: valid ones (`IsValidRule`) naming `x`, in list order -/
def rulesOf (valid : R → Bool) (res : R → Nat) (x : Nat) (rules : List R) : List R :=
  rules.filter fun r => valid r && res r == x

/-- `LoadRules` → `onRuleUpdate`: every resource is rebuilt from its own old controllers.
    (The `reflect.DeepEqual` short cut is not modelled: when it fires the rebuild is the identity, see `build_self`.) -/
def Mgr.loadRules (K : Calc R S) (valid : R → Bool) (res : R → Nat) (now : Nat) (rules : List R) (m : Mgr R S) : Mgr R S :=
  { ctls := fun x => build K now (rulesOf valid res x rules) (m.ctls x) m.next,
    next := m.next + rules.length }

/-- `LoadRulesOfResource` → `onResourceRuleUpdate` (an empty list clears the resource) -/
def Mgr.loadRulesOfResource (K : Calc R S) (valid : R → Bool) (res : R → Nat) (now : Nat) (x : Nat) (rules : List R)
    (m : Mgr R S) : Mgr R S :=
  { ctls := fun y => if y = x then build K now (rulesOf valid res x rules) (m.ctls x) m.next else m.ctls y,
    next := m.next + rules.length }

/-- traffic on resource `x` replaces the states of its controllers -/
def Mgr.set (m : Mgr R S) (x : Nat) (cs : List (Ctl R S)) : Mgr R S :=
  { m with ctls := fun y => if y = x then cs else m.ctls y }

/-! ## the hypothesis under which an unchanged rule provably keeps its controller

`noStealB K new old`: no rule *earlier* in the new list is stat-reusable-but-unequal with an old controller
whose rule occurs *later* in the new list (as it is, or as the constructor normalised it).  It is decidable, and it
is the classifier of the known finding `reuse-steals-controller`. -/
def noStealB (K : Calc R S) : List R → List (Ctl R S) → Bool
  | [], _ => true
  | r :: rs, old =>
    (old.all fun c => !(K.sr c.rule r && !K.eq c.rule r)
        || rs.all fun r' => !K.eq c.rule r' && !K.eq c.rule (K.norm r')) && noStealB K rs old

/-- the exact version: follow the builder (`reuseIdx` on the shrinking candidate list) and ask, each time a rule takes the
    statistic of an old controller, whether that controller's rule (as is or normalised) still occurs later in the new
    list.  `noStealS = false` iff a controller is actually stolen; `noStealB = true` implies `noStealS = true`. -/
def noStealS (K : Calc R S) : List R → List (Ctl R S) → Bool
  | [], _ => true
  | r :: rs, old =>
    match reuseIdx K r old 0 none with
    | (some i, _) => noStealS K rs (old.eraseIdx i)
    | (none, some j) =>
      match old[j]? with
      | some c => (rs.all fun r' => !K.eq c.rule r' && !K.eq c.rule (K.norm r')) && noStealS K rs (old.eraseIdx j)
      | none => noStealS K rs old
    | (none, none) => noStealS K rs old

/-- The classifier of `reuse-steals-controller`, following the real builder step by step (it is `noStealS K` when
    `canon = id`): whenever a rule takes the statistic of an old controller, that controller must not be wanted by a
    later rule, and if the rule has a controller of its own (an old one equal to it up to `canon`: constructor
    normalisation, decision-neutral fields) it must be exactly that one. -/
def stealSim {R S} (K : Calc R S) (canon : R → R) : List R → List (Ctl R S) → Bool
  | [], _ => true
  | r :: rs, old =>
    let eq' (o n : R) : Bool := K.eq o n || K.eq (canon o) (canon n)
    match reuseIdx K r old 0 none with
    | (some i, _) => stealSim K canon rs (old.eraseIdx i)
    | (none, some j) =>
      match old[j]? with
      | some c =>
        let own := old.findIdx? fun c' => eq' c'.rule r
        (own.isNone || own == some j) && (rs.all fun r' => !eq' c.rule r') && stealSim K canon rs (old.eraseIdx j)
      | none => stealSim K canon rs old
    | (none, none) => stealSim K canon rs old

/-! ## circuit breaker (`core/circuitbreaker/rule.go`) -/

structure CbRule where
  id : Nat
  res : Nat
  strat : Nat        -- 0 SlowRequestRatio, 1 ErrorRatio, 2 ErrorCount
  retry : Nat        -- RetryTimeoutMs
  minReq : Nat
  statIv : Nat       -- StatIntervalMs
  buckets : Nat      -- StatSlidingWindowBucketCount
  maxRt : Nat
  thr : Nat          -- Threshold (integral in this model; ratio strategies: 0 or 1)
  probe : Nat
deriving Repr, DecidableEq

/-- `isEqualsToBase` + the strategy switch of `isEqualsTo` (the `Id` is not compared; `MaxAllowedRtMs` only for slow-ratio) -/
def CbRule.eq (o n : CbRule) : Bool :=
  o.res == n.res && o.strat == n.strat && o.retry == n.retry && o.minReq == n.minReq && o.statIv == n.statIv
    && o.buckets == n.buckets && o.probe == n.probe
    && (if n.strat == 0 then o.maxRt == n.maxRt && o.thr == n.thr
        else if n.strat == 1 || n.strat == 2 then o.thr == n.thr else false)

def CbRule.sr (o n : CbRule) : Bool :=
  o.res == n.res && o.strat == n.strat && o.statIv == n.statIv && o.buckets == n.buckets

/-- `IsValidRule` (thresholds are naturals here, so the sign checks are vacuous; ratio thresholds must be ≤ 1) -/
def CbRule.valid (r : CbRule) : Bool :=
  r.statIv != 0 && r.retry != 0 && !((r.strat == 0 || r.strat == 1) && r.thr > 1)

structure ECnt where
  err : Nat := 0
  total : Nat := 0
deriving Repr, DecidableEq
instance : Zero ECnt := ⟨{}⟩
instance : Add ECnt := ⟨fun a b => { err := a.err + b.err, total := a.total + b.total }⟩

structure CbSt where
  state : Nat := 0        -- 0 Closed, 1 HalfOpen, 2 Open
  retryAt : Nat := 0      -- nextRetryTimestampMs
  curProbe : Nat := 0
  arr : LA.Arr ECnt
deriving Repr

/-- `getRuleStatSlidingWindowBucketCount` -/
def CbRule.bucketCount (r : CbRule) : Nat :=
  if r.buckets = 0 || r.statIv % r.buckets != 0 then 1 else r.buckets

def cbFresh (r : CbRule) (now : Nat) : CbSt :=
  { arr := LA.mk r.bucketCount (r.statIv / r.bucketCount) now }

def cbCalc : Calc CbRule CbSt where
  eq := CbRule.eq
  sr := CbRule.sr
  norm := id
  fresh := cbFresh
  reuse := fun _ old _ => { arr := old.arr }       -- `new…CircuitBreakerWithStat`: closed, no deadline, the old counters

/-- `TryPass` of one breaker (the probe's exit handler is handled by `cbCheck`) : `(passed, probed, new state)` -/
def cbTryPass (now : Nat) (c : Ctl CbRule CbSt) : Bool × Bool × Ctl CbRule CbSt :=
  if c.st.state = 0 then (true, false, c)
  else if c.st.state = 2 then
    if now ≥ c.st.retryAt then (true, true, { c with st := { c.st with state := 1 } }) else (false, false, c)
  else if c.rule.probe > 0 then (true, false, c) else (false, false, c)

/-- `Slot.Check` → `checkPass`: breakers are asked in order until one refuses.  Returns the `Id` of the refusing
    rule (`none` = all passed), the identities that went Open→HalfOpen for this entry, and the updated breakers. -/
def cbScan (now : Nat) : List (Ctl CbRule CbSt) → Option Nat × List Nat × List (Ctl CbRule CbSt)
  | [] => (none, [], [])
  | c :: cs =>
    let (ok, probed, c') := cbTryPass now c
    if ok then
      let (b, ps, cs') := cbScan now cs
      (b, if probed then c'.id :: ps else ps, c' :: cs')
    else (some c.rule.id, [], c :: cs)

/-- the resource-level check: a blocked entry runs its exit handlers at once, which put the breakers that
    went half-open for it back to Open (without a new deadline).  Result: `none` = passed, `some id` = blocked
    by the rule with that `Id`. -/
def cbCheck (now : Nat) (cs : List (Ctl CbRule CbSt)) : Option Nat × List (Ctl CbRule CbSt) :=
  let (b, probed, cs') := cbScan now cs
  match b with
  | none => (none, cs')
  | some id =>
    (some id, cs'.map fun c =>
      if probed.contains c.id && c.st.state = 1 then { c with st := { c.st with state := 2 } } else c)

def ecSum (a : LA.Arr ECnt) (now : Nat) : ECnt := ((LA.valuesAt a now).map (·.val)).sum

/-- `resetMetric`: every counter returned by `allCounter()` is zeroed -/
def cbResetMetric (a : LA.Arr ECnt) (now : Nat) : LA.Arr ECnt :=
  if now = 0 then a else
  { a with slots := a.slots.map fun s => if !LA.deprecated (a.n * a.L) now s.start then { s with val := 0 } else s }

/-- should a closed breaker open?  (error count: `errorCount >= threshold`; error / slow ratio with threshold 0 / 1:
    `ratio > t || ratio ≈ t`) -/
def cbTrips (r : CbRule) (s : ECnt) : Bool :=
  if r.strat = 2 then decide (s.err ≥ r.thr)
  else if r.thr = 0 then true else decide (s.err = s.total)

/-- `OnRequestComplete(rt, err)`: the three breakers differ only in what counts as a bad request (a slow one for
    the slow-request-ratio breaker, a failed one otherwise) and in `cbTrips` -/
def cbComplete (now : Nat) (rt : Nat) (err0 : Bool) (c : Ctl CbRule CbSt) : Ctl CbRule CbSt :=
  let err := if c.rule.strat = 0 then decide (rt > c.rule.maxRt) else err0
  let arr := (LA.addAt c.st.arr now { err := if err then 1 else 0, total := 1 }).1
  let s := ecSum arr now
  let st := { c.st with arr := arr }
  if st.state = 2 then { c with st := st }
  else if st.state = 1 then
    if !err then
      let p := st.curProbe + 1
      if c.rule.probe = 0 || p ≥ c.rule.probe then
        { c with st := { st with state := 0, curProbe := 0, arr := cbResetMetric arr now } }
      else { c with st := { st with curProbe := p } }
    else { c with st := { st with state := 2, curProbe := 0, retryAt := now + c.rule.retry } }
  else if s.total < c.rule.minReq then { c with st := st }
  else if cbTrips c.rule s then { c with st := { st with state := 2, retryAt := now + c.rule.retry } }
  else { c with st := st }

/-! ## flow (`core/flow/rule.go`) -/

structure FlowRule where
  id : Nat
  res : Nat
  tcs : Nat          -- TokenCalculateStrategy: 0 Direct, 1 WarmUp, 2 MemoryAdaptive
  cb : Nat           -- ControlBehavior: 0 Reject, 1 Throttling
  thr : Nat          -- Threshold (integral in this model)
  rel : Nat          -- RelationStrategy
  ref : Nat          -- RefResource
  maxQ : Nat         -- MaxQueueingTimeMs
  period : Nat       -- WarmUpPeriodSec
  cf : Nat           -- WarmUpColdFactor
  statIv : Nat       -- StatIntervalInMs
  lowMem : Nat       -- LowMemUsageThreshold  (the threshold while memory is below the low water mark)
  highMem : Nat      -- HighMemUsageThreshold
  memLow : Nat       -- MemLowWaterMarkBytes
  memHigh : Nat      -- MemHighWaterMarkBytes
deriving Repr, DecidableEq

def FlowRule.eq (o n : FlowRule) : Bool :=
  o.res == n.res && o.rel == n.rel && o.ref == n.ref && o.statIv == n.statIv && o.tcs == n.tcs && o.cb == n.cb
    && o.thr == n.thr && o.maxQ == n.maxQ && o.period == n.period && o.cf == n.cf
    && o.lowMem == n.lowMem && o.highMem == n.highMem && o.memLow == n.memLow && o.memHigh == n.memHigh

def FlowRule.needStat (r : FlowRule) : Bool := r.tcs == 1 || r.cb == 0

def FlowRule.sr (o n : FlowRule) : Bool :=
  o.res == n.res && o.rel == n.rel && o.ref == n.ref && o.statIv == n.statIv && o.needStat && n.needStat

/-- `IsValidRule` restricted to what the op language can express -/
def FlowRule.valid (r : FlowRule) : Bool :=
  r.rel ≤ 1 && !(r.rel == 1 && r.ref == 0) && !(r.tcs == 1 && (r.period == 0 || r.cf == 1))
    && !(r.tcs == 2 && (r.lowMem == 0 || r.highMem == 0 || r.highMem ≥ r.lowMem || r.memLow == 0 || r.memHigh == 0
                        || r.memLow ≥ r.memHigh))

/-- the write-back of `NewWarmUpTrafficShapingCalculator` -/
def FlowRule.norm (r : FlowRule) : FlowRule := if r.tcs = 1 && r.cf ≤ 1 then { r with cf := 3 } else r

/-- `standaloneStatistic`: what a controller reads (and, for an own array, what `StandaloneStatSlot` writes) -/
inductive FStat where
  | nop
  | node (res sc iv : Nat)                   -- a view (`GenerateReadStat` / `DefaultMetric`) of the node of resource `res`
  | own (arr : LA.Arr Nat) (sc iv : Nat)     -- an independent `BucketLeapArray` of pass counts
deriving Repr

structure FlowSt where
  lastPassed : Nat := 0      -- ThrottlingChecker.lastPassedTime (ns)
  tokens : Nat := 0          -- WarmUp storedTokens
  lastFilled : Nat := 0      -- WarmUp lastFilledTime
  stat : FStat := .nop
deriving Repr

/-- `generateStatFor` under the default configuration (resource node 20 × 500 ms, default metric 2 × 500 ms) -/
def flowStatFor (r : FlowRule) (now : Nat) : FStat :=
  if !r.needStat then .nop else
  let iv := r.statIv
  let res := if r.rel = 1 then r.ref else r.res        -- an associated rule reads the referenced resource's node
  if iv = 0 || iv = 1000 then .node res 2 1000 else
  let sc := if iv > 10000 then 1 else if iv < 500 then 1 else if iv % 500 = 0 then iv / 500 else 1
  if LA.validView sc iv 20 10000 = 0 then .node res sc iv else .own (LA.mk sc (iv / sc) now) sc iv

def flowCalc : Calc FlowRule FlowSt where
  eq := FlowRule.eq
  sr := FlowRule.sr
  norm := FlowRule.norm
  fresh := fun r now => { stat := flowStatFor r now }
  reuse := fun _ old _ => { stat := old.stat }

/-- `ceil(batch / threshold * statIntervalNs)` in binary64, exactly as `ThrottlingChecker.DoCheck` computes it -/
def throttleInterval (thr statIvMs : Nat) : Nat :=
  let statNs : Nat := (if statIvMs = 0 then 1000 else statIvMs) * 1000000
  (Float.ceil (1.0 / thr.toFloat * statNs.toFloat)).toUInt64.toNat

inductive Verdict where
  | pass
  | wait (ns : Nat)
  | block
  | blockAnon        -- refused without naming the rule (`NewTokenResultBlocked`: one request is more than the threshold)
deriving Repr, DecidableEq

/-- `MemoryAdaptiveTrafficShapingCalculator.CalculateAllowedTokens` (binary64 as in the code); `mem` is
    `system_metric.CurrentMemoryUsage()` (−1 = not retrieved) -/
def adaptiveAllowed (mem : Int) (r : FlowRule) : Float :=
  if mem = -1 then r.lowMem.toFloat
  else if mem ≤ r.memLow then r.lowMem.toFloat
  else if mem ≥ r.memHigh then r.highMem.toFloat
  else Float.ofInt ((r.highMem : Int) - r.lowMem) / Float.ofInt ((r.memHigh : Int) - r.memLow) * Float.ofInt (mem - r.memLow)
        + r.lowMem.toFloat

/-- `ThrottlingChecker.DoCheck` (batch 1) with a binary64 threshold (memory-adaptive calculator) -/
def throttleCheckF (nowMs : Nat) (thr : Float) (c : Ctl FlowRule FlowSt) : Verdict × Ctl FlowRule FlowSt :=
  if thr ≤ 0.0 then (.block, c) else
  if 1.0 > thr then (.blockAnon, c) else
  let cur := nowMs * 1000000
  let statNs : Nat := (if c.rule.statIv = 0 then 1000 else c.rule.statIv) * 1000000
  let ivl := (Float.ceil (1.0 / thr * statNs.toFloat)).toUInt64.toNat
  let last := c.st.lastPassed
  if last + ivl ≤ cur then (.pass, { c with st := { c.st with lastPassed := cur } })
  else
    let est := last + ivl - cur
    if est > c.rule.maxQ * 1000000 then (.block, c)
    else (.wait est, { c with st := { c.st with lastPassed := last + ivl } })

/-- sequential `ThrottlingChecker.DoCheck` with batch count 1 -/
def throttleCheck (nowMs : Nat) (c : Ctl FlowRule FlowSt) : Verdict × Ctl FlowRule FlowSt :=
  if c.rule.thr = 0 then (.block, c) else
  let cur := nowMs * 1000000
  let ivl := throttleInterval c.rule.thr c.rule.statIv
  let last := c.st.lastPassed
  if last + ivl ≤ cur then (.pass, { c with st := { c.st with lastPassed := cur } })
  else
    let est := last + ivl - cur
    if est > c.rule.maxQ * 1000000 then (.block, c)
    else (.wait est, { c with st := { c.st with lastPassed := last + ivl } })

/-- `WarmUpTrafficShapingCalculator.CalculateAllowedTokens` (binary64 as in the code): the allowed QPS and the
    controller with its tokens synchronised.  `prevQps` is `GetPreviousQPS(pass)` of its read statistic. -/
def warmUpAllowed (nowMs : Nat) (prevQps : Float) (c : Ctl FlowRule FlowSt) : Float × Ctl FlowRule FlowSt :=
  let thr := c.rule.thr.toFloat
  let period := c.rule.period.toFloat
  let cf := c.rule.cf
  let warning : Nat := (period * thr / (cf - 1).toFloat).toUInt64.toNat
  let maxTok : Nat := warning + (2.0 * period * thr / (1 + cf).toFloat).toUInt64.toNat
  let slope := (cf - 1).toFloat / thr / (maxTok - warning).toFloat
  let cur := nowMs - nowMs % 1000
  let st :=
    if cur ≤ c.st.lastFilled then c.st else
    let old := c.st.tokens
    let grown : Nat := (old.toFloat + (cur.toFloat - c.st.lastFilled.toFloat) * thr / 1000.0).toUInt64.toNat
    let nv :=
      if old < warning then grown
      else if old > warning then (if prevQps < (c.rule.thr / cf).toFloat then grown else old)
      else old
    let nv := min nv maxTok
    { c.st with tokens := nv - prevQps.toUInt64.toNat, lastFilled := cur }
  let rest := st.tokens
  let allowed :=
    if rest ≥ warning then
      let x := 1.0 / ((rest - warning).toFloat * slope + 1.0 / thr)
      Float.ofBits (x.toBits + 1)          -- math.Nextafter(x, MaxFloat64) for positive finite x
    else thr
  (allowed, { c with st := st })

/-- `PerformChecking` of one controller.  `sum` / `prevQps` are what its read statistic returns for the pass count of
    the current window and the QPS of the previous one. -/
def flowCheckOne (nowMs : Nat) (mem : Int) (sum : Nat) (prevQps : Float) (c : Ctl FlowRule FlowSt) :
    Verdict × Ctl FlowRule FlowSt :=
  if c.rule.tcs = 2 then
    let allowed := adaptiveAllowed mem c.rule
    if c.rule.cb = 1 then throttleCheckF nowMs allowed c
    else if sum.toFloat + 1.0 > allowed then (.block, c) else (.pass, c)
  else if c.rule.tcs = 1 then
    let (allowed, c') := warmUpAllowed nowMs prevQps c
    if c.rule.cb = 1 then throttleCheckF nowMs allowed c'
    else if sum.toFloat + 1.0 > allowed then (.block, c') else (.pass, c')
  else if c.rule.cb = 1 then throttleCheck nowMs c
  else if sum + 1 > c.rule.thr then (.block, c) else (.pass, c)

/-- `flow.Slot.Check`: controllers in order; the first refusal ends the scan, waits add up.
    Result: blocking rule `Id` (`-` when the refusal names none), total wait (ns), updated controllers. -/
def flowScan (nowMs : Nat) (mem : Int) (rd : Ctl FlowRule FlowSt → Nat × Float) :
    List (Ctl FlowRule FlowSt) → Option String × Nat × List (Ctl FlowRule FlowSt)
  | [] => (none, 0, [])
  | c :: cs =>
    -- (`checkInLocal` means to pass an associated rule whose referenced resource has no node yet, but its `actual == nil`
    -- compares an interface holding a nil `*ResourceNode`, which is never nil: the rule is always asked; the checkers read
    -- the statistic bound at construction, not that node)
    match flowCheckOne nowMs mem (rd c).1 (rd c).2 c with
    | (.block, c') => (some (toString c.rule.id), 0, c' :: cs)
    | (.blockAnon, c') => (some "-", 0, c' :: cs)
    | (.pass, c') => let (b, w, cs') := flowScan nowMs mem rd cs; (b, w, c' :: cs')
    | (.wait ns, c') => let (b, w, cs') := flowScan nowMs mem rd cs; (b, w + ns, c' :: cs')

/-- what a controller's read statistic returns at `now`: `(GetSum(pass), GetPreviousQPS(pass))`; `node res` is the pass
    array of that resource's node -/
def flowRead (node : Nat → LA.Arr Nat) (now : Nat) (c : Ctl FlowRule FlowSt) : Nat × Float :=
  let rd (a : LA.Arr Nat) (sc iv : Nat) : Nat × Float :=
    let lv := iv / sc
    let prev := if lv ≤ now then LA.viewSum a iv (now - lv) else 0
    (LA.viewSum a iv now, prev.toFloat / (iv.toFloat / 1000.0))
  match c.st.stat with
  | .nop => (0, 0.0)
  | .node res sc iv => rd (node res) sc iv
  | .own a sc iv => rd a sc iv

/-- `StandaloneStatSlot.OnEntryPassed`: every controller with an own array counts the pass -/
def flowRecordPass (now : Nat) (c : Ctl FlowRule FlowSt) : Ctl FlowRule FlowSt :=
  match c.st.stat with
  | .own a sc iv => { c with st := { c.st with stat := .own (LA.addAt a now 1).1 sc iv } }
  | _ => c

/-! ## hotspot (`core/hotspot/rule.go`), QPS metric -/

structure HotRule where
  id : Nat
  res : Nat
  mtype : Nat        -- MetricType: 0 Concurrency, 1 QPS
  cb : Nat           -- ControlBehavior: 0 Reject, 1 Throttling
  pidx : Int         -- ParamIndex (negative: from the end)
  pkey : Nat         -- ParamKey (0 = none): the attachment to look at first
  thr : Nat
  maxQ : Nat         -- MaxQueueingTimeMs
  burst : Nat
  dur : Nat          -- DurationInSec
  cap : Nat          -- ParamsMaxCapacity
  items : Nat        -- SpecificItems: 0 = nil map, 1 = empty map, 2 = {sval ↦ sthr}
  sval : Nat
  sthr : Nat
deriving Repr, DecidableEq

/-- `Rule.Equals` (`reflect.DeepEqual` on the item maps tells a nil map from an empty one) -/
def HotRule.eq (o n : HotRule) : Bool :=
  o.res == n.res && o.mtype == n.mtype && o.cb == n.cb && o.cap == n.cap && o.pidx == n.pidx && o.pkey == n.pkey && o.thr == n.thr
    && o.dur == n.dur && o.items == n.items && (o.items != 2 || (o.sval == n.sval && o.sthr == n.sthr))
    && (if o.cb == 0 then o.burst == n.burst else if o.cb == 1 then o.maxQ == n.maxQ else false)

def HotRule.sr (o n : HotRule) : Bool :=
  o.res == n.res && o.cb == n.cb && o.cap == n.cap && o.dur == n.dur && o.mtype == n.mtype

def HotRule.valid (r : HotRule) : Bool := !(r.mtype == 1 && r.dur == 0) && !(r.pidx > 0 && r.pkey != 0)

/-- `newBaseTrafficShapingControllerWithMetric` replaces a nil `SpecificItems` by an empty map in the rule object -/
def HotRule.norm (r : HotRule) : HotRule := if r.items = 0 then { r with items := 1 } else r

/-- fields that do not influence a rule's decisions: a hotspot concurrency rule never looks at `BurstCount` /
    `MaxQueueingTimeMs`, although `Equals` compares them — a rule modified only there must behave as if unchanged,
    through the stat-reuse path ("a modified rule whose statistic parameters are unchanged keeps its statistics") -/
def HotRule.neutral (r : HotRule) : HotRule := if r.mtype = 0 then { r with burst := 0, maxQ := 0 } else r

/-- `ParamsMetric` (QPS): per-value last-fill time and remaining tokens.  All mutable state of a hotspot controller
    lives here, so a stat-reusing rebuild keeps every counter. -/
structure HotSt where
  times : List (Nat × Nat) := []
  tokens : List (Nat × Nat) := []
  conc : List (Nat × Int) := []       -- ConcurrencyCounter: per-value calls in flight (a cell exists once the value was seen)
deriving Repr

def hotCalc : Calc HotRule HotSt where
  eq := HotRule.eq
  sr := HotRule.sr
  norm := HotRule.norm
  fresh := fun _ _ => {}
  reuse := fun _ old _ => old

/-- what a request carries for the hotspot rules: positional arguments and attachments (values ≥ 1; 0 stands for nil) -/
structure Req where
  args : List Nat := []
  att : List (Nat × Nat) := []
deriving Repr

/-- `ExtractArgs`: the attachment named by `ParamKey` if present, else the argument at `ParamIndex` (negative: counted
    from the end); 0 = nothing to look at, the rule is skipped for this request -/
def hotExtract (r : HotRule) (q : Req) : Nat :=
  let byKey := if r.pkey = 0 then 0 else ((q.att.find? (·.1 == r.pkey)).map (·.2)).getD 0
  if byKey != 0 then byKey else
  let idx : Int := if r.pidx < 0 then (q.args.length : Int) + r.pidx else r.pidx
  if idx < 0 then 0 else (q.args[idx.toNat]?).getD 0

def kvGet (xs : List (Nat × Nat)) (k : Nat) : Option Nat := (xs.find? (·.1 == k)).map (·.2)
def kvSet (xs : List (Nat × Nat)) (k v : Nat) : List (Nat × Nat) := (k, v) :: xs.filter (·.1 != k)

/-- `rejectTrafficShapingController.PerformChecking` (QPS, batch 1, no cache eviction): `true` = passed -/
def hotRejectOne (now : Nat) (arg : Nat) (c : Ctl HotRule HotSt) : Bool × Ctl HotRule HotSt :=
  let tokenCount := if c.rule.items = 2 && c.rule.sval = arg then c.rule.sthr else c.rule.thr
  if tokenCount = 0 then (false, c) else
  let maxCount := tokenCount + c.rule.burst
  match kvGet c.st.times arg with
  | none =>
    (true, { c with st := { times := kvSet c.st.times arg now,
                            tokens := if (kvGet c.st.tokens arg).isSome then c.st.tokens else kvSet c.st.tokens arg (maxCount - 1) } })
  | some last =>
    let passTime := now - last
    if passTime > c.rule.dur * 1000 then
      match kvGet c.st.tokens arg with
      | none => (true, { c with st := { times := kvSet c.st.times arg now, tokens := kvSet c.st.tokens arg (maxCount - 1) } })
      | some rest =>
        let toAdd := passTime * tokenCount / (c.rule.dur * 1000)
        if toAdd + rest > maxCount then
          (true, { c with st := { times := kvSet c.st.times arg now, tokens := kvSet c.st.tokens arg (maxCount - 1) } })
        else if toAdd + rest = 0 then (false, c)
        else (true, { c with st := { times := kvSet c.st.times arg now, tokens := kvSet c.st.tokens arg (toAdd + rest - 1) } })
    else
      match kvGet c.st.tokens arg with
      | some rest => if rest ≥ 1 then (true, { c with st := { c.st with tokens := kvSet c.st.tokens arg (rest - 1) } }) else (false, c)
      | none => (false, c)     -- unreachable without eviction (the code would spin)

/-- `throttlingTrafficShapingController.PerformChecking` (QPS, batch 1): per-value last pass time, waits in ms -/
def hotThrottleOne (now : Nat) (arg : Nat) (c : Ctl HotRule HotSt) : Verdict × Ctl HotRule HotSt :=
  let tokenCount := if c.rule.items = 2 && c.rule.sval = arg then c.rule.sthr else c.rule.thr
  if tokenCount = 0 then (.block, c) else
  let interval := c.rule.dur * 1000 / tokenCount
  match kvGet c.st.times arg with
  | none => (.pass, { c with st := { c.st with times := kvSet c.st.times arg now } })
  | some last =>
    let expected := last + interval
    if expected ≤ now then (.pass, { c with st := { c.st with times := kvSet c.st.times arg now } })
    else if expected - now < c.rule.maxQ then
      (.wait ((expected - now) * 1000000), { c with st := { c.st with times := kvSet c.st.times arg expected } })
    else (.block, c)

def kvGetI (xs : List (Nat × Int)) (k : Nat) : Option Int := (xs.find? (·.1 == k)).map (·.2)
def kvSetI (xs : List (Nat × Int)) (k : Nat) (v : Int) : List (Nat × Int) := (k, v) :: xs.filter (·.1 != k)

/-- `performCheckingForConcurrencyMetric` (as repaired: the first request of a value is compared too): the value's cell
    is created if absent; admitted iff in-flight + 1 ≤ the value's own threshold, else the general one -/
def hotConcOne (arg : Nat) (c : Ctl HotRule HotSt) : Verdict × Ctl HotRule HotSt :=
  let limit : Int := if c.rule.items = 2 && c.rule.sval = arg then c.rule.sthr else c.rule.thr
  match kvGetI c.st.conc arg with
  | some v => (if v + 1 ≤ limit then .pass else .block, c)
  | none => (if 1 ≤ limit then .pass else .block, { c with st := { c.st with conc := kvSetI c.st.conc arg 0 } })

/-- `ConcurrencyStatSlot.OnEntryPassed` (+1) / `OnCompleted` (−1) on one controller: only an existing cell moves -/
def hotConcAdd (d : Int) (arg : Nat) (c : Ctl HotRule HotSt) : Ctl HotRule HotSt :=
  if c.rule.mtype = 0 && arg != 0 then
    match kvGetI c.st.conc arg with
    | some v => { c with st := { c.st with conc := kvSetI c.st.conc arg (v + d) } }
    | none => c
  else c

def hotCheckOne (now : Nat) (arg : Nat) (c : Ctl HotRule HotSt) : Verdict × Ctl HotRule HotSt :=
  if c.rule.mtype = 0 then hotConcOne arg c
  else if c.rule.cb = 1 then hotThrottleOne now arg c
  else match hotRejectOne now arg c with
    | (true, c') => (.pass, c')
    | (false, c') => (.block, c')

/-- `hotspot.Slot.Check`: controllers in order (those with nothing to look at are skipped), the first refusal ends the
    scan, waits add up -/
def hotScan (now : Nat) (q : Req) : List (Ctl HotRule HotSt) → Option Nat × Nat × List (Ctl HotRule HotSt)
  | [] => (none, 0, [])
  | c :: cs =>
    match (if hotExtract c.rule q = 0 then (Verdict.pass, c) else hotCheckOne now (hotExtract c.rule q) c) with
    | (.block, c') => (some c.rule.id, 0, c' :: cs)
    | (.blockAnon, c') => (some c.rule.id, 0, c' :: cs)
    | (.pass, c') => let (b, w, cs') := hotScan now q cs; (b, w, c' :: cs')
    | (.wait ns, c') => let (b, w, cs') := hotScan now q cs; (b, w + ns, c' :: cs')

end Sentinel.Reuse
