/-!
# Pool discipline facts (core Lean only) — DESIGN.md 6.C01 layer (ii)

The table `Sentinel/Gen/PoolFacts.lean` is regenerated from the source tree on every run
(`go/internal/c01/poolfacts`).  It lists, for the pooled objects `base.EntryContext`, `base.SentinelInput`
and `api.EntryOptions`: how `Reset` treats every field; which fields `GetPooledContext` / `api.entry`
assign, whether unconditionally, and whether the right-hand side is a value, a copy into the context's own
array, or an **alias** of memory owned by another pooled object; and the guards of `SentinelEntry`.

`disciplined` is what the pooled model of `Sentinel/Model/EntryPool.lean` assumes about the code:
every context field is reset or always assigned; a backing array kept across `Reset` (`x = x[:0]`) is only
ever written by copying; an alias is taken only of memory whose owner drops its reference on `Reset`; late
`SetError` / `SetPair` / `Exit(WithError)` cannot reach the context after it has been handed back.
-/
namespace Sentinel.PoolFacts

inductive Kind | scalar | slice | map | ref
deriving DecidableEq, Repr

/-- what `Reset` does to a field: `zero` (nil / constant), `trunc` (`f = f[:0]`: backing array kept),
    `fresh` (new object), `freshIfNonEmpty` (`if len(f) != 0 { f = make(..) }`), `call` (the field's own reset
    method), `untouched`, `unknown` (not recognised by the extractor) -/
inductive Treat | zero | trunc | fresh | freshIfNonEmpty | call | untouched | unknown
deriving DecidableEq, Repr

structure FieldRow where
  owner : String
  name : String
  kind : Kind
  reset : Treat
deriving DecidableEq, Repr

inductive Rhs
  | value                      -- a scalar or a non-pooled local
  | copy                       -- `append(dst[:0], src...)` into the context's own array
  | alias (owner : String)     -- the pooled object's field itself ("EntryOptions.args")
  | unknown (src : String)
deriving DecidableEq, Repr

structure AssignRow where
  path : String                -- "<Owner>.<field>" of the pooled context
  always : Bool
  rhs : Rhs
deriving DecidableEq, Repr

structure Guards where
  setErrorGuarded : Bool       -- `SetError` does nothing once `exited`
  setPairGuarded : Bool
  exitErrInsideOnce : Bool     -- `Exit` applies `WithError` inside the `sync.Once`
  exitNoErrOutside : Bool      -- … and nowhere else
  exitedStoredInOnce : Bool    -- `exited` is set before the context is handed back
deriving DecidableEq, Repr

def ctxSide (r : FieldRow) : Bool := r.owner = "EntryContext" || r.owner = "SentinelInput"

def fieldOf (fs : List FieldRow) (path : String) : Option FieldRow :=
  fs.find? fun r => r.owner ++ "." ++ r.name = path

/-- 1. nothing unrecognised -/
def noUnknown (fs : List FieldRow) (as : List AssignRow) : Bool :=
  fs.all (fun r => r.reset ≠ .unknown && r.name ≠ "?") &&
  as.all (fun a => match a.rhs with | .unknown _ => false | _ => true)

/-- 2. every field of the pooled context is reset, or assigned on every entry -/
def resetOrAssigned (fs : List FieldRow) (as : List AssignRow) : Bool :=
  fs.all fun r => !ctxSide r || r.reset ≠ .untouched ||
    as.any (fun a => a.path = r.owner ++ "." ++ r.name && a.always)

/-- 3. a backing array that survives `Reset` is the context's own: it is only ever filled by copying -/
def keptArraysCopied (fs : List FieldRow) (as : List AssignRow) : Bool :=
  fs.all fun r => !(ctxSide r && r.reset = .trunc) ||
    as.all (fun a => a.path ≠ r.owner ++ "." ++ r.name || a.rhs = .copy)

/-- 4. an alias is taken only of memory whose owner drops its reference when it is reset -/
def aliasesDropped (fs : List FieldRow) (as : List AssignRow) : Bool :=
  as.all fun a => match a.rhs with
    | .alias o => (match fieldOf fs o with
        | some r => r.reset = .zero || r.reset = .fresh
        | none => false)
    | _ => true

def guarded (g : Guards) : Bool :=
  g.setErrorGuarded && g.setPairGuarded && g.exitErrInsideOnce && g.exitNoErrOutside && g.exitedStoredInOnce

def disciplined (fs : List FieldRow) (as : List AssignRow) (g : Guards) : Bool :=
  noUnknown fs as && resetOrAssigned fs as && keptArraysCopied fs as && aliasesDropped fs as && guarded g

/-- the rows that break a clause of `disciplined` (printed by the check when `pool_discipline` no longer holds) -/
def offenders (fs : List FieldRow) (as : List AssignRow) (g : Guards) : List String :=
  (fs.filter fun r => r.reset = .unknown || r.name = "?").map (fun r => s!"unrecognised Reset treatment: {r.owner}.{r.name}") ++
  (as.filterMap fun a => match a.rhs with | .unknown s => some s!"unrecognised assignment: {a.path} := {s}" | _ => none) ++
  (fs.filter fun r => !(resetOrAssigned [r] as)).map (fun r => s!"neither reset nor always assigned: {r.owner}.{r.name}") ++
  (fs.filter fun r => !(keptArraysCopied [r] as)).map (fun r => s!"array kept across Reset is written by aliasing: {r.owner}.{r.name}") ++
  (as.filter fun a => !(aliasesDropped fs [a])).map (fun a => s!"alias of pooled memory whose owner keeps it: {a.path}") ++
  (if g.setErrorGuarded then [] else ["SentinelEntry.SetError is not guarded by exited"]) ++
  (if g.setPairGuarded then [] else ["SentinelEntry.SetPair is not guarded by exited"]) ++
  (if g.exitErrInsideOnce && g.exitNoErrOutside then [] else ["Exit applies WithError outside the sync.Once"]) ++
  (if g.exitedStoredInOnce then [] else ["exited is not set inside the sync.Once"])

end Sentinel.PoolFacts
