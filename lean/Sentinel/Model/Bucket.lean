import Sentinel.Model.LeapArray
/-!
# MetricBucket payload and the `SlidingWindowMetric` / `BucketLeapArray` getters (core Lean only)

`core/stat/base/metric_bucket.go`: five `int64` counters, `minRt` (initially
`DefaultStatisticMaxRt = 60000`, lowered by `AddRt`), `maxConcurrency` (initially 0, raised by
`UpdateConcurrency`).  To make the payload a commutative monoid for *all* values the minimum RT is
stored as **headroom** `hr = 60000 - min(rt, 60000)` under `max` with identity 0, so that
`minRt = 60000 - hr`.
-/
namespace Sentinel.LA

def maxRt : Nat := 60000   -- base.DefaultStatisticMaxRt

structure Bucket where
  pass : Nat := 0
  block : Nat := 0
  complete : Nat := 0
  error : Nat := 0
  rt : Nat := 0
  hr : Nat := 0       -- headroom of the minimum RT below `maxRt`
  mc : Nat := 0       -- peak concurrency
deriving Repr, DecidableEq

instance : Zero Bucket := ⟨{}⟩
instance : Add Bucket := ⟨fun a b =>
  { pass := a.pass + b.pass, block := a.block + b.block, complete := a.complete + b.complete,
    error := a.error + b.error, rt := a.rt + b.rt, hr := max a.hr b.hr, mc := max a.mc b.mc }⟩

/-- the recordable events (`base.MetricEvent` plus the concurrency gauge sample) -/
inductive Ev where
  | pass | block | complete | error | rt
deriving Repr, DecidableEq

def Ev.ofString? : String → Option Ev
  | "pass" => some .pass | "block" => some .block | "complete" => some .complete
  | "error" => some .error | "rt" => some .rt | _ => none

/-- payload contributed by `MetricBucket.Add(ev, amt)` (`rt` goes through `AddRt`) -/
def evBucket (ev : Ev) (amt : Nat) : Bucket :=
  match ev with
  | .pass => { pass := amt } | .block => { block := amt } | .complete => { complete := amt }
  | .error => { error := amt } | .rt => { rt := amt, hr := maxRt - amt }

/-- payload contributed by `MetricBucket.UpdateConcurrency(c)` (`int32`; negative never stored) -/
def concBucket (c : Int) : Bucket := { mc := c.toNat }

def Bucket.get (b : Bucket) : Ev → Nat
  | .pass => b.pass | .block => b.block | .complete => b.complete | .error => b.error | .rt => b.rt

def Bucket.minRt (b : Bucket) : Nat := maxRt - b.hr

/-! ## getters of a view (`SlidingWindowMetric`, pure reads) -/

/-- `GetSum` -/
def vSum (a : Arr Bucket) (Iv now : Nat) (ev : Ev) : Nat := (viewSum a Iv now).get ev
/-- `GetMaxOfSingleBucket` -/
def vMaxBucket (a : Arr Bucket) (Iv now : Nat) (ev : Ev) : Nat :=
  ((viewVals a Iv now).map fun s => s.val.get ev).foldl max 0
/-- `MinRT` before the conversion to float: min over the window, clamped below by 1 -/
def vMinRt (a : Arr Bucket) (Iv now : Nat) : Nat := max 1 (viewSum a Iv now).minRt
/-- `MaxConcurrency` -/
def vMaxConc (a : Arr Bucket) (Iv now : Nat) : Nat := (viewSum a Iv now).mc
/-- `GetPreviousQPS` reads at `now - viewBucketLen` in `uint64`: for `now < Lv` the time wraps to a
    huge value at which every bucket is deprecated, i.e. the sum is 0 -/
def vPrevSum (a : Arr Bucket) (Iv Lv now : Nat) (ev : Ev) : Nat :=
  if Lv ≤ now then vSum a Iv (now - Lv) ev else 0

/-! ## array-level reads (`BucketLeapArray.Count/MinRt/MaxConcurrency`): refresh, then all valid buckets -/

def aTotal (a : Arr Bucket) (now : Nat) : Bucket := ((valuesAt a now).map (·.val)).sum
/-- `CountWithTime(now, ev)`: returns the refreshed array and the count -/
def aCount (a : Arr Bucket) (now : Nat) (ev : Ev) : Arr Bucket × Nat :=
  let a' := refresh a now
  (a', (aTotal a' now).get ev)

/-- `CheckValidityForReuseStatistic(sc, Iv, psc, pI)`: 0 = ok, 1 = illegal view params,
    2 = illegal parent params, 3 = not reusable -/
def validView (sc Iv psc pI : Nat) : Nat :=
  if Iv = 0 ∨ sc = 0 ∨ Iv % sc ≠ 0 then 1
  else if pI = 0 ∨ psc = 0 ∨ pI % psc ≠ 0 then 2
  else if pI % Iv ≠ 0 then 3
  else if (Iv / sc) % (pI / psc) ≠ 0 then 3
  else 0

/-- per-second metric items (`SecondMetricsOnCondition` with the predicate "start in [lo,hi]"):
    `(second, pass, block, error, complete, avgRt, concurrency)` sorted by second -/
def secondItems (a : Arr Bucket) (now lo hi : Nat) : List (Nat × Bucket) :=
  let vs := (if now = 0 then [] else a.slots.filter fun s =>
    !deprecated (a.n * a.L) now s.start && decide (lo ≤ s.start ∧ s.start ≤ hi))
  let secs := (vs.map fun s => s.start - s.start % 1000).eraseDups
  secs.map fun sec => (sec, ((vs.filter fun s => s.start - s.start % 1000 = sec).map (·.val)).sum)

end Sentinel.LA
