import Sentinel.Model.Entry
/-!
# M-ENTRY-POOL — the same lifecycle with pooled contexts (core Lean only)

`base.ctxPool` is a `sync.Pool` of `EntryContext` objects whose fields persist across `Put`/`Get`;
`SentinelEntry` keeps a pointer to its context for ever, also after `Exit` handed the object back.
Here the pool is a store of context objects plus a free list; **which** free object `Get` returns (or
whether it allocates a new one) is decided by an oracle number carried by the op — `sync.Pool` promises
nothing about it (per-P caches, victim cache, GC).  `Sentinel/Lemmas/EntryPool.lean` proves that the
observables are those of the pool-free model of `Entry.lean` for every oracle.

What is faithful to the repaired code: `api.entry` assigns `Resource`, `Input.BatchCount`, `Input.Args`
(copied, and only when the option list is non-empty), `startTime`; it relies on `Reset` for `err`,
`StatNode`, `RuleCheckResult`, and for the empty `Args` of an argument-less entry.  `SetError` and `Exit`
look at `exited` before touching the context.
-/
namespace Sentinel.EntryPool
open Sentinel.LA Sentinel.Entry

/-- `SentinelEntry`: the context pointer never changes -/
structure PEnt where
  ctx : Nat
  exited : Bool
  isNil : Bool := false      -- `api.Entry` returned a block error and no entry
deriving DecidableEq, Repr

structure PSt where
  inb : Node
  nodes : List (String × Node) := []
  log : List RecEv := []
  store : List Ctx := []          -- every `EntryContext` ever allocated (the `exited` field is not used here)
  free : List Nat := []           -- the pool
  ents : List (Nat × PEnt) := []
deriving Repr

def init (t0 : Nat) : PSt := { inb := newNode t0 }

/-- the part the statistic callbacks work on -/
def PSt.core (p : PSt) : St := { inb := p.inb, nodes := p.nodes, log := p.log, ents := [] }

def PSt.withCore (p : PSt) (s : St) : PSt := { p with inb := s.inb, nodes := s.nodes, log := s.log }

/-- `ctxPool.New` -/
def freshCtx : Ctx :=
  { e := { id := 0, res := "", inbound := false, batch := 1, args := [], chain := {} },
    start := 0, err := none, hasNode := false, blocked := false, exited := false }

/-- `EntryContext.Reset` (the fields that matter: `err`, `startTime`, `StatNode`, `Input.reset()`, `RuleCheckResult.ResetToPass()`) -/
def resetCtx (c : Ctx) : Ctx :=
  { c with e := { c.e with batch := 1, flag := 0, args := [], atts := [] }, start := 0, err := none, hasNode := false, blocked := false }

def findP (l : List (Nat × PEnt)) (id : Nat) : Option PEnt :=
  match l with
  | [] => none
  | (i, c) :: r => if i = id then some c else findP r id

/-- `ctxPool.Get()`: the `pick`-th free object if there is one, else a new one; returns (index, state) -/
def poolGet (p : PSt) (pick : Nat) : Nat × PSt :=
  match p.free[pick]? with
  | some i => (i, { p with free := p.free.eraseIdx pick })
  | none => (p.store.length, { p with store := p.store ++ [freshCtx] })

/-- `RefurbishContext`: `Reset` then `Put` -/
def poolPut (p : PSt) (i : Nat) : PSt :=
  { p with store := p.store.set i (resetCtx (p.store.getD i freshCtx)), free := i :: p.free }

/-- `ctx.Input` after `api.entry`'s assignments: `Args` / `Attachments` are assigned only when non-empty -/
def inputOf (e : EntryOp) (pc : Ctx) : EntryOp :=
  let a := if e.args.isEmpty then pc.e.args else e.args
  let b := if e.atts.isEmpty then pc.e.atts else e.atts
  { e with args := a, atts := b }

/-- `api.Entry` with pooled context -/
def apiEntry (fix : Bool) (p : PSt) (t : Nat) (e : EntryOp) (pick : Nat) : PSt :=
  match findP p.ents e.id with
  | some _ => p
  | none =>
    let g := poolGet p pick
    let i := g.1
    let p1 := g.2
    let pc := p1.store.getD i freshCtx
    -- GetPooledContext stamps the start time; api.entry assigns Resource / BatchCount / (non-empty) Args
    -- (`Args` / `Attachments` only when the option list / map is non-empty: otherwise what `Reset` left)
    let c0 : Ctx := { pc with e := inputOf e pc, start := t }
    let r := chainEntry fix p1.core c0 t
    let p2 := (p1.withCore r.1)
    let p3 := { p2 with store := p2.store.set i r.2.1 }
    match r.2.2 with
    | some .block => poolPut { p3 with ents := (e.id, { ctx := i, exited := true, isNil := true }) :: p3.ents } i
    | _ => { p3 with ents := (e.id, { ctx := i, exited := false }) :: p3.ents }

def apiTrace (p : PSt) (id : Nat) (err : Option String) : PSt :=
  match findP p.ents id with
  | none => p
  | some pe =>
    if pe.exited then p else
    match err with
    | none => p
    | some x => { p with store := p.store.set pe.ctx { p.store.getD pe.ctx freshCtx with err := some x } }

def apiExit (p : PSt) (t : Nat) (id : Nat) (err : Option String) : PSt :=
  match findP p.ents id with
  | none => p
  | some pe =>
    if pe.exited then p else
    let c := p.store.getD pe.ctx freshCtx
    let c1 := { c with err := orErr err c.err }
    let s1 := if c1.blocked then p.core else statCompleted p.core c1 t
    let p1 := { (p.withCore s1) with store := p.store.set pe.ctx c1 }
    poolPut { p1 with ents := (id, { pe with exited := true }) :: p1.ents } pe.ctx

/-- `SetError` as it was before `89ee7f5`: no look at `exited`, the write goes through the stale pointer -/
def apiTraceUnguarded (p : PSt) (id : Nat) (err : Option String) : PSt :=
  match findP p.ents id, err with
  | some pe, some x => { p with store := p.store.set pe.ctx { p.store.getD pe.ctx freshCtx with err := some x } }
  | _, _ => p

/-- `stat.ResetResourceNodeMap()` (see `Entry.resetNodes`) -/
def resetNodes (p : PSt) : PSt :=
  { p with nodes := [], store := p.store.map fun c => { c with hasNode := false } }

/-- an op together with the pool's choice (only `entry` consults the pool) -/
def step (fix : Bool) (p : PSt) (x : TOp) (pick : Nat) : PSt :=
  match x.2 with
  | .entry e => apiEntry fix p x.1 e pick
  | .trace id err => apiTrace p id err
  | .exit id err => apiExit p x.1 id err

/-- history newest first, each op paired with the pool oracle's number -/
def runR (fix : Bool) (t0 : Nat) : List (TOp × Nat) → PSt
  | [] => init t0
  | x :: r => step fix (runR fix t0 r) x.1 x.2

/-! ## observations (what the harness reads) -/

def nodeOf (p : PSt) : Key → Option Node
  | none => some p.inb
  | some r => findN p.nodes r

/-- what `api.Entry` returned: `some true` = an entry, `some false` = a block error -/
def obsEntered (p : PSt) (id : Nat) : Option Bool := (findP p.ents id).map fun pe => !pe.isNil

def obsWindow (p : PSt) (k : Key) (Iv now : Nat) : Option Bucket := (nodeOf p k).map fun n => viewSum n.arr Iv now
def obsConc (p : PSt) (k : Key) : Option Int := (nodeOf p k).map (·.conc)

/-- `entry.Context().Err()` / `.Input.Args` of a live entry -/
def obsCtx (p : PSt) (id : Nat) : Option (Option String × EntryOp) :=
  match findP p.ents id with
  | some pe => if pe.exited then none else
      let c := p.store.getD pe.ctx freshCtx
      some (c.err, c.e)
  | none => none

end Sentinel.EntryPool
