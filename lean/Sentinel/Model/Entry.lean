import Sentinel.Model.Bucket
/-!
# M-ENTRY — the entry lifecycle through the public API (core Lean only, executable)

Code-shaped model of `api.Entry` / `api.TraceError` / `SentinelEntry.Exit` on top of
`base.SlotChain.Entry/exit`, `stat.ResourceNodePrepareSlot`, `stat.Slot` and `stat.BaseStatNode`
(leap array 20 × 500 ms + the atomic concurrency gauge), **as repaired** by `3ae3ba7` (arguments are
copied into the context) and `89ee7f5` (`WithError` inside the `sync.Once`, `SetError` ignored on an
exited entry), and **as is** for the recovered-panic path (`fix = false`; `fix = true` is the
behaviour the property demands: a request that is passed because of an internal panic is accounted
as the pass it is).

A slot chain is described by a behaviour table: what each prepare slot does (`node` = the real
`ResourceNodePrepareSlot`, `noop`, `panic`), what each rule-check slot returns (`nil`, pass result,
blocked result, `panic`), whether `stat.DefaultSlot` is in the chain, and the ids of recording
statistic slots.  The default chain is the instance `[node] / [verdict] / std` where the verdict of
the built-in rule slots is supplied by the driver (flow / hotspot decisions are other properties').

Second part of the file: the **ledger** — the pool-free, array-free account recomputed from the
time-stamped op history (newest op first): `info` (what the ops addressed to one id amount to),
`gauge`, `evs` (the statistic events a node must have seen), `recLog` (what recording slots must have
been told).  `Sentinel/Lemmas/Entry.lean` proves that the model's observables are the ledger's.
-/
namespace Sentinel.Entry
open Sentinel.LA

/-! ## chains -/

inductive Pre | node | noop | panic
deriving DecidableEq, Repr

inductive Rule | nil | pass | block | panic
deriving DecidableEq, Repr

structure Chain where
  pre : List Pre := [.node]
  rules : List Rule := []
  std : Bool := true
  recs : List Nat := []
deriving DecidableEq, Repr

/-- result of the rule-check phase / of the whole chain -/
inductive Out | pass | block | panic
deriving DecidableEq, Repr

/-- the prepare loop: (a stat node was attached, a slot panicked) -/
def preRun : List Pre → Bool × Bool
  | [] => (false, false)
  | .node :: r => (true, (preRun r).2)
  | .noop :: r => preRun r
  | .panic :: _ => (false, true)

/-- the rule-check loop: `nil` and a pass result continue, the first blocked result breaks, a panic unwinds -/
def ruleOut : List Rule → Out
  | [] => .pass
  | .nil :: r => ruleOut r
  | .pass :: r => ruleOut r
  | .block :: _ => .block
  | .panic :: _ => .panic

def attached (c : Chain) : Bool := (preRun c.pre).1
def outcome (c : Chain) : Out := if (preRun c.pre).2 then .panic else ruleOut c.rules

/-- The built-in rule slots of the default chain, reduced to what the rules of a C01 case can make them do
    (the decisions themselves are C04's / C05's subject): an isolation rule with threshold `T` blocks iff
    `max(gauge, 0) + batch > T` (`isolation.checkPass` reads `CurrentConcurrency()` of the attached node);
    otherwise a hotspot rule on argument 0 panics on an unhashable value (prefix `u:`). -/
def defaultRule (iso : Option Nat) (hot : Bool) (conc : Int) (batch : Nat) (args : List String) : Rule :=
  let blocked := match iso with
    | some T => decide (conc.toNat + batch > T)
    | none => false
  let panics := hot && (match args.head? with | some a => a.startsWith "u:" | none => false)
  if blocked then .block else if panics then .panic else .pass

/-! ## ops -/

structure EntryOp where
  id : Nat
  res : String
  inbound : Bool
  batch : Nat
  args : List String
  chain : Chain
  /-- `api.WithResourceType`: carried by the op, looked at by nobody — `GetOrCreateResourceNode` finds the node by the
      resource NAME and only a newly created node takes the type; every account is per name -/
  rtype : String := "common"
  /-- `api.WithFlag` → `ctx.Input.Flag`; carried, looked at by nobody -/
  flag : Int := 0
  /-- the attachments in force at Entry time (`WithAttachments(map)` then `WithAttachment(k, v)`), sorted by key -/
  atts : List (String × String) := []
deriving DecidableEq, Repr

inductive Op
  | entry (e : EntryOp)
  | trace (id : Nat) (err : Option String)      -- `api.TraceError(entry, err)`; `none` = nil error
  | exit (id : Nat) (err : Option String)       -- `entry.Exit()` / `entry.Exit(WithError(err))`
deriving DecidableEq, Repr

/-- an op together with the (virtual) clock reading during it -/
abbrev TOp := Nat × Op

def Op.addr : Op → Nat
  | .entry e => e.id
  | .trace id _ => id
  | .exit id _ => id

/-! ## state -/

/-- `stat.ResourceNode`: the 20 × 500 ms bucket array and the gauge (`int32`, modelled unbounded) -/
structure Node where
  arr : Arr Bucket
  conc : Int
deriving Repr

/-- `EntryContext` + the owning `SentinelEntry`'s `exited` flag -/
structure Ctx where
  e : EntryOp
  start : Nat
  err : Option String
  hasNode : Bool
  blocked : Bool
  exited : Bool
deriving DecidableEq, Repr

/-- what a recording statistic slot was told -/
inductive RecEv
  | passed (slot : Nat) (res : String) (batch : Nat) (args : List String)
  | blocked (slot : Nat) (res : String) (batch : Nat)
  | completed (slot : Nat) (res : String) (batch : Nat) (err : Option String) (rt : Nat)
deriving DecidableEq, Repr

structure St where
  inb : Node
  nodes : List (String × Node) := []
  ents : List (Nat × Ctx) := []
  log : List RecEv := []
deriving Repr

def sampleCountTotal : Nat := 20     -- base.DefaultSampleCountTotal
def bucketLen : Nat := 500           -- DefaultIntervalMsTotal / DefaultSampleCountTotal

def newNode (t : Nat) : Node := { arr := mk sampleCountTotal bucketLen t, conc := 0 }

def init (t0 : Nat) : St := { inb := newNode t0 }

def findE (l : List (Nat × Ctx)) (id : Nat) : Option Ctx :=
  match l with
  | [] => none
  | (i, c) :: r => if i = id then some c else findE r id

def findN (l : List (String × Node)) (res : String) : Option Node :=
  match l with
  | [] => none
  | (r, n) :: rest => if r = res then some n else findN rest res

/-- `GetOrCreateResourceNode` -/
def getOrCreate (l : List (String × Node)) (res : String) (t : Nat) : List (String × Node) :=
  match findN l res with
  | some _ => l
  | none => (res, newNode t) :: l

def modifyN (l : List (String × Node)) (res : String) (f : Node → Node) : List (String × Node) :=
  match findN l res with
  | some n => (res, f n) :: l
  | none => l

/-! ## `stat.Slot` -/

def recordN (n : Node) (t : Nat) (x : Bucket) : Node := { n with arr := (addAt n.arr t x).1 }

/-- `recordPassFor`: `IncreaseConcurrency` (gauge + peak sample) then `AddCount(pass, batch)` -/
def recordPass (t batch : Nat) (n : Node) : Node :=
  let c := n.conc + 1
  recordN (recordN { n with conc := c } t (concBucket c)) t (evBucket .pass batch)

def recordBlock (t batch : Nat) (n : Node) : Node := recordN n t (evBucket .block batch)

/-- `recordCompleteFor` -/
def recordComplete (t batch rt : Nat) (err : Bool) (n : Node) : Node :=
  let n1 := if err then recordN n t (evBucket .error batch) else n
  let n2 := recordN n1 t (evBucket .rt rt)
  let n3 := recordN n2 t (evBucket .complete batch)
  { n3 with conc := n3.conc - 1 }

/-- apply a recording to `ctx.StatNode` (if attached) and to the inbound node (if the traffic is inbound) -/
def onStat (s : St) (c : Ctx) (f : Node → Node) : St :=
  let s1 := if c.hasNode then { s with nodes := modifyN s.nodes c.e.res f } else s
  if c.e.inbound then { s1 with inb := f s1.inb } else s1

def statPassed (s : St) (c : Ctx) (t : Nat) : St :=
  let s1 := if c.e.chain.std then onStat s c (recordPass t c.e.batch) else s
  { s1 with log := s1.log ++ c.e.chain.recs.map fun k => RecEv.passed k c.e.res c.e.batch c.e.args }

def statBlocked (s : St) (c : Ctx) (t : Nat) : St :=
  let s1 := if c.e.chain.std then onStat s c (recordBlock t c.e.batch) else s
  { s1 with log := s1.log ++ c.e.chain.recs.map fun k => RecEv.blocked k c.e.res c.e.batch }

def statCompleted (s : St) (c : Ctx) (t : Nat) : St :=
  let rt := t - c.start
  let s1 := if c.e.chain.std then onStat s c (recordComplete t c.e.batch rt c.err.isSome) else s
  { s1 with log := s1.log ++ c.e.chain.recs.map fun k => RecEv.completed k c.e.res c.e.batch c.err rt }

/-! ## `SlotChain.Entry` -/

/-- the deferred `recover()`: the error is stored in the context and `nil` is returned.
    As is, nothing else happens; `fix = true` additionally runs the statistic slots' `OnEntryPassed`. -/
def recoverPanic (fix : Bool) (s : St) (c : Ctx) (t : Nat) : St × Ctx × Option Out :=
  let c1 := { c with err := some "panic" }
  if fix then (statPassed s c1 t, c1, none) else (s, c1, none)

/-- returns the new state, the context and the `TokenResult` (`none` = nil, i.e. recovered panic) -/
def chainEntry (fix : Bool) (s : St) (c : Ctx) (t : Nat) : St × Ctx × Option Out :=
  let pr := preRun c.e.chain.pre
  let s1 := if pr.1 then { s with nodes := getOrCreate s.nodes c.e.res t } else s
  let c1 := { c with hasNode := pr.1 }
  if pr.2 then recoverPanic fix s1 c1 t else
  match ruleOut c.e.chain.rules with
  | .panic => recoverPanic fix s1 c1 t
  | .pass => (statPassed s1 c1 t, { c1 with blocked := false }, some .pass)
  | .block => (statBlocked s1 c1 t, { c1 with blocked := true }, some .block)

/-! ## the public API -/

/-- `api.Entry`: a blocked entry is exited internally (`sc.exit` returns at `IsBlocked`) and `nil` is
    handed to the caller; everything else (pass, recovered panic) yields a live entry. -/
def apiEntry (fix : Bool) (s : St) (t : Nat) (e : EntryOp) : St :=
  match findE s.ents e.id with
  | some _ => s
  | none =>
    let c : Ctx := { e := e, start := t, err := none, hasNode := false, blocked := false, exited := false }
    let r := chainEntry fix s c t
    match r.2.2 with
    | some .block => { r.1 with ents := (e.id, { r.2.1 with exited := true }) :: r.1.ents }
    | _ => { r.1 with ents := (e.id, r.2.1) :: r.1.ents }

/-- `if options.err != nil { ctx.SetError(options.err) }` -/
def orErr (a b : Option String) : Option String := match a with | some x => some x | none => b

/-- `api.TraceError` → `SentinelEntry.SetError`: ignored for a nil error and for an exited entry -/
def apiTrace (s : St) (id : Nat) (err : Option String) : St :=
  match findE s.ents id with
  | none => s
  | some c =>
    if c.exited then s else
    match err with
    | none => s
    | some x => { s with ents := (id, { c with err := some x }) :: s.ents }

/-- `SentinelEntry.Exit`: everything happens inside the `sync.Once`; afterwards the entry is `exited` -/
def apiExit (s : St) (t : Nat) (id : Nat) (err : Option String) : St :=
  match findE s.ents id with
  | none => s
  | some c =>
    if c.exited then s else
    let c1 := { c with err := orErr err c.err }
    let s1 := if c1.blocked then s else statCompleted s c1 t
    { s1 with ents := (id, { c1 with exited := true }) :: s1.ents }

/-- `stat.ResetResourceNodeMap()` (a test utility, callable at any moment): the node map is emptied; the nodes it held stay
    referenced by the contexts of the entries in flight (`ctx.StatNode`) but can never be looked up again — for every
    observation that is the same as those contexts having no node.  The inbound node is not touched. -/
def resetNodes (s : St) : St :=
  { s with nodes := [], ents := s.ents.map fun ic => (ic.1, { ic.2 with hasNode := false }) }

def step (fix : Bool) (s : St) (x : TOp) : St :=
  match x.2 with
  | .entry e => apiEntry fix s x.1 e
  | .trace id err => apiTrace s id err
  | .exit id err => apiExit s x.1 id err

/-- run a history given **newest op first** -/
def runR (fix : Bool) (t0 : Nat) : List TOp → St
  | [] => init t0
  | x :: r => step fix (runR fix t0 r) x

/-- run a history given in chronological order -/
def run (fix : Bool) (t0 : Nat) (ops : List TOp) : St := runR fix t0 ops.reverse

/-! ## observations -/

/-- node key: `none` = the inbound total, `some r` = resource `r` -/
abbrev Key := Option String

def nodeOf (s : St) : Key → Option Node
  | none => some s.inb
  | some r => findN s.nodes r

/-- the window payload of a view of interval `Iv` (1000 = the node's default metric) read at `now` -/
def obsWindow (s : St) (k : Key) (Iv now : Nat) : Option Bucket := (nodeOf s k).map fun n => viewSum n.arr Iv now
/-- `CurrentConcurrency()` -/
def obsConc (s : St) (k : Key) : Option Int := (nodeOf s k).map (·.conc)
/-- `entry.Context().Err()` and `.Input` (batch, flag, args, attachments) / `.Resource` of a live entry
    (`none`: no such entry, or exited) -/
def obsCtx (s : St) (id : Nat) : Option (Option String × EntryOp) :=
  match findE s.ents id with
  | some c => if c.exited then none else some (c.err, c.e)
  | none => none
/-- what `api.Entry` returned: `some true` = an entry, `some false` = a block error -/
def obsEntered (s : St) (id : Nat) : Option Bool :=
  (findE s.ents id).map fun c => !c.blocked

/-! # The ledger (history newest first) -/

structure Info where
  e : EntryOp
  t0 : Nat
  err : Option String
  done : Bool
deriving DecidableEq, Repr

/-- how one op addressed to an id changes that id's account -/
def infoStep (x : TOp) (prev : Option Info) : Option Info :=
  match x.2, prev with
  | .entry e, none => some { e := e, t0 := x.1, err := if outcome e.chain = .panic then some "panic" else none,
                              done := decide (outcome e.chain = .block) }
  | .entry _, some i => some i
  | .trace _ err, some i => if i.done then some i else some { i with err := orErr err i.err }
  | .exit _ err, some i => if i.done then some i else some { i with err := orErr err i.err, done := true }
  | _, none => none

/-- what the ops **addressed to `id`** amount to: the entry op, its time, the error set so far (by the
    chain's recover, by `trace`, by the first `exit`), and whether it is finished (blocked, or exited) -/
def info : List TOp → Nat → Option Info
  | [], _ => none
  | x :: r, id => if x.2.addr = id then infoStep x (info r id) else info r id

/-- does entry `e` account on node `k`? (needs `stat.DefaultSlot` in its chain; on the resource when the
    node was attached, on the inbound total when the traffic is inbound) -/
def touches (e : EntryOp) : Key → Bool
  | none => e.chain.std && e.inbound
  | some r => e.chain.std && attached e.chain && decide (e.res = r)

/-- is the entry counted as a pass? (`fix`: a recovered panic is a pass; as is: it is not counted) -/
def countsPass (fix : Bool) (c : Chain) : Bool :=
  match outcome c with
  | .pass => true
  | .block => false
  | .panic => fix

/-- change of the number of live accounted entries of `k` caused by op `x`, given the account `i` of the id it addresses -/
def gaugeDeltaI (fix : Bool) (i : Option Info) (x : TOp) (k : Key) : Int :=
  match x.2 with
  | .entry e => if i.isNone && touches e k && countsPass fix e.chain then 1 else 0
  | .exit _ _ => match i with
      | some i => if !i.done && touches i.e k then -1 else 0
      | none => 0
  | .trace _ _ => 0

def gaugeDelta (fix : Bool) (r : List TOp) (x : TOp) (k : Key) : Int := gaugeDeltaI fix (info r x.2.addr) x k

def gauge (fix : Bool) : List TOp → Key → Int
  | [], _ => 0
  | x :: r, k => gauge fix r k + gaugeDelta fix r x k

/-- the statistic events node `k` must see because of op `x`, given the account `i` of the id it addresses and
    the number `g` of live accounted entries of `k` before it -/
def contribI (fix : Bool) (i : Option Info) (g : Int) (x : TOp) (k : Key) : List (Nat × Bucket) :=
  match x.2 with
  | .entry e =>
    if i.isNone && touches e k then
      match outcome e.chain with
      | .block => [(x.1, evBucket .block e.batch)]
      | o => if o = .pass || fix then [(x.1, concBucket (g + 1)), (x.1, evBucket .pass e.batch)] else []
    else []
  | .exit _ err => match i with
      | some i =>
        if !i.done && touches i.e k then
          (if (orErr err i.err).isSome then [(x.1, evBucket .error i.e.batch)] else [])
            ++ [(x.1, evBucket .rt (x.1 - i.t0)), (x.1, evBucket .complete i.e.batch)]
        else []
      | none => []
  | .trace _ _ => []

def contrib (fix : Bool) (r : List TOp) (x : TOp) (k : Key) : List (Nat × Bucket) :=
  contribI fix (info r x.2.addr) (gauge fix r k) x k

def evs (fix : Bool) : List TOp → Key → List (Nat × Bucket)
  | [], _ => []
  | x :: r, k => evs fix r k ++ contrib fix r x k

/-- the resource node created by op `x` (first entry whose prepare phase reaches the node slot), if any -/
def nodeNewI (i : Option Info) (x : TOp) : Option String :=
  match x.2 with
  | .entry e => if i.isNone && attached e.chain then some e.res else none
  | _ => none

/-- has a resource node for `res` been created? -/
def nodeExists : List TOp → String → Bool
  | [], _ => false
  | x :: r, res => nodeExists r res || decide (nodeNewI (info r x.2.addr) x = some res)

def recContribI (fix : Bool) (i : Option Info) (x : TOp) : List RecEv :=
  match x.2 with
  | .entry e =>
    if i.isNone then
      match outcome e.chain with
      | .block => e.chain.recs.map fun k => RecEv.blocked k e.res e.batch
      | o => if o = .pass || fix then e.chain.recs.map fun k => RecEv.passed k e.res e.batch e.args else []
    else []
  | .exit _ err => match i with
      | some i => if !i.done then i.e.chain.recs.map fun k => RecEv.completed k i.e.res i.e.batch (orErr err i.err) (x.1 - i.t0) else []
      | none => []
  | .trace _ _ => []

def recContrib (fix : Bool) (r : List TOp) (x : TOp) : List RecEv := recContribI fix (info r x.2.addr) x

def recLog (fix : Bool) : List TOp → List RecEv
  | [] => []
  | x :: r => recLog fix r ++ recContrib fix r x

/-- time of the newest op -/
def lastT (t0 : Nat) : List TOp → Nat
  | [] => t0
  | x :: _ => x.1

/-- clock readings never decrease, from `t0` on (history newest first) -/
def MonoR (t0 : Nat) : List TOp → Prop
  | [] => True
  | x :: r => lastT t0 r ≤ x.1 ∧ MonoR t0 r

/-! ## ledger observations -/

/-- the aligned-window payload: sum of the events whose bucket lies in `[cbs now + L - Iv, cbs now]` -/
def ledWindow (fix : Bool) (h : List TOp) (k : Key) (Iv now : Nat) : Option Bucket :=
  let present := match k with | none => true | some r => nodeExists h r
  if present then some (refW bucketLen (evs fix h k) (cbs bucketLen now + bucketLen - Iv) (cbs bucketLen now)) else none

def ledConc (fix : Bool) (h : List TOp) (k : Key) : Option Int :=
  let present := match k with | none => true | some r => nodeExists h r
  if present then some (gauge fix h k) else none

def ledCtx (h : List TOp) (id : Nat) : Option (Option String × EntryOp) :=
  match info h id with
  | some i => if i.done then none else some (i.err, i.e)
  | none => none

def ledEntered (h : List TOp) (id : Nat) : Option Bool :=
  (info h id).map fun i => decide (outcome i.e.chain ≠ .block)

end Sentinel.Entry
