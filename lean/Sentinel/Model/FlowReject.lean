import Sentinel.Model.Bucket
/-!
# M-FLOW (reject mode) — QPS flow rules with the Direct calculator and the Reject checker (core Lean only)

Mirrors, for rules with `TokenCalculateStrategy = Direct`, `ControlBehavior = Reject`:

* `core/flow/rule_manager.go`  `IsValidRule`, `generateStatFor`, `buildResourceTrafficShapingController`
                               (first load into an empty manager: no controller is reused)
* `core/flow/tc_default.go`    `RejectTrafficShapingChecker.DoCheck`  (`float64(cur)+float64(b) > T`)
* `core/flow/slot.go`          `Slot.Check` (rules in order, first block wins), `selectNodeByRelStrategy`
* `core/stat/stat_slot.go`     `OnEntryPassed / OnEntryBlocked / OnCompleted` on the entered resource's node
* `core/flow/standalone_stat_slot.go` `OnEntryPassed` (every non-reusing controller **of the entered resource**)
* `core/stat/node_storage.go`  `GetOrCreateResourceNode` (node arrays are created at first use, with the clock of that moment)

Only the pass counter matters for this property, so the payload of every array is `Nat` (= the pass
count of a `MetricBucket`); a recording of any *other* event at time `t` is `addAt a t 0`
(it still runs `currentBucketOfTime(t)`, i.e. it may recycle a slot).
-/
namespace Sentinel.FlowReject
open Sentinel.LA

/-! ## thresholds: a float64 read as the exact number it denotes -/

/-- a `float64` threshold: `frac num den` is the exact dyadic `num/den` (`den` a power of two);
    `unbounded` is `+Inf` or `NaN` (`x > T` is false for every finite `x`); `invalid` is negative
    (rejected by `IsValidRule`: `Threshold < 0`; `-0.0` and `NaN` are *not* `< 0`). -/
inductive Thr where
  | unbounded
  | frac (num den : Nat)
  | invalid
deriving Repr, DecidableEq

def Thr.ofBits (b : Nat) : Thr :=
  let sign := b / 2^63 % 2
  let ex := b / 2^52 % 2048
  let fr := b % 2^52
  if ex = 2047 then (if fr ≠ 0 then .unbounded else if sign = 1 then .invalid else .unbounded)
  else if sign = 1 ∧ (ex ≠ 0 ∨ fr ≠ 0) then .invalid
  else if ex = 0 then .frac fr (2^1074)
  else if 1075 ≤ ex then .frac ((2^52 + fr) * 2^(ex - 1075)) 1
  else .frac (2^52 + fr) (2^(1075 - ex))

/-- `float64(cur) + float64(b) > T` for `N = cur + b < 2^53` (both conversions and the sum are exact) -/
def Thr.exceeds (T : Thr) (N : Nat) : Bool :=
  match T with
  | .unbounded => false
  | .frac num den => decide (num < N * den)
  | .invalid => false

/-! ## rules and the statistic bound to a rule -/

structure Rule where
  res : Nat                    -- Resource
  thr : Thr                    -- Threshold
  iv  : Nat                    -- StatIntervalInMs
  ref : Option Nat := none     -- `some r`: RelationStrategy = AssociatedResource, RefResource = r
deriving Repr, DecidableEq

/-- `IsValidRule` restricted to the fields of a Direct/Reject rule -/
def Rule.valid (r : Rule) : Bool := r.thr ≠ .invalid

-- default configuration (`core/base/constant.go`, `core/config/entity.go`)
def gN : Nat := 20        -- GlobalStatisticSampleCountTotal
def gI : Nat := 10000     -- GlobalStatisticIntervalMsTotal
def gL : Nat := 500       -- GlobalStatisticBucketLengthInMs
def dIv : Nat := 1000     -- MetricStatisticIntervalMs (sample count 2)

/-- which statistic `generateStatFor` builds -/
inductive Geom where
  | view (Iv : Nat)        -- a `SlidingWindowMetric` of interval `Iv` on the node's 20×500 array (reuseResourceStat)
  | own (n L : Nat)        -- an independent `BucketLeapArray(n, n·L)` read through a view of the full interval
  | bad                    -- error: the rule gets no controller
deriving Repr, DecidableEq

/-- the sample count computed in `generateStatFor` -/
def sampleCountFor (I : Nat) : Nat :=
  if I > gI then 1 else if I < gL then 1 else if I % gL = 0 then I / gL else 1

def geomFor (I : Nat) : Geom :=
  if I = 0 ∨ I = dIv then .view dIv
  else
    let sc := sampleCountFor I
    match validView sc I gN gI with
    | 0 => .view I
    | 3 => .own sc (I / sc)
    | _ => .bad

/-- a `TrafficShapingController` -/
structure Ctrl where
  idx : Nat              -- position of the rule in the loaded list (what a block reports)
  rule : Rule
  geom : Geom
  own : Arr Nat          -- `boundStat.writeOnlyMetric` (meaningful only for `geom = own ..`)
deriving Repr

/-- the resource whose **node** the rule is about: `RefResource` for an associated rule -/
def Rule.src (r : Rule) : Nat := r.ref.getD r.res

def Ctrl.L (c : Ctrl) : Nat := match c.geom with | .view _ => gL | .own _ L => L | .bad => 1
def Ctrl.Iv (c : Ctrl) : Nat := match c.geom with | .view Iv => Iv | .own n L => n * L | .bad => 1
def Ctrl.n (c : Ctrl) : Nat := match c.geom with | .view _ => gN | .own n _ => n | .bad => 1

/-- the resource whose admitted traffic actually reaches the counter the rule reads (as the code is):
    a reused view reads the node of `src`; an independent array is written by the standalone stat slot
    of the **entered** resource, i.e. the rule's own resource. -/
def Ctrl.feed (c : Ctrl) : Nat := match c.geom with | .own _ _ => c.rule.res | _ => c.rule.src

/-- the known finding `assoc-standalone-own-traffic`: the rule is meant to count `src` but counts `res` -/
def Ctrl.inFinding (c : Ctrl) : Bool := c.feed ≠ c.rule.src

/-! ## the resource node map -/

abbrev Nodes := List (Nat × Arr Nat)

def lookup : Nodes → Nat → Option (Arr Nat)
  | [], _ => none
  | (k, a) :: r, q => if k = q then some a else lookup r q

/-- `GetOrCreateResourceNode` -/
def ensure (ns : Nodes) (r now : Nat) : Nodes :=
  match lookup ns r with
  | some _ => ns
  | none => ns ++ [(r, mk gN gL now)]

/-- one `AddCount`/`UpdateConcurrency` on the node of `r` contributing `x` to the pass counter -/
def touch (ns : Nodes) (r now x : Nat) : Nodes :=
  ns.map fun p => if p.1 = r then (p.1, (addAt p.2 now x).1) else p

structure St where
  nodes : Nodes := []
  ctrls : List Ctrl := []
deriving Repr

/-! ## loading -/

/-- build the controller of one valid rule (`generateStatFor` + generator), `none` on error -/
def mkCtrl (idx : Nat) (r : Rule) (now : Nat) : Option Ctrl :=
  match geomFor r.iv with
  | .bad => none
  | .view Iv => some { idx := idx, rule := r, geom := .view Iv, own := { n := 1, L := 1, slots := [] } }
  | .own n L => some { idx := idx, rule := r, geom := .own n L, own := mk n L now }

def loadFrom (s : St) (now : Nat) : Nat → List Rule → St
  | _, [] => s
  | i, r :: rs =>
    if r.valid then
      -- `generateStatFor` creates the node of the referenced (or own) resource before anything else
      let ns := ensure s.nodes r.src now
      match mkCtrl i r now with
      | some c => loadFrom { nodes := ns, ctrls := s.ctrls ++ [c] } now (i + 1) rs
      | none => loadFrom { s with nodes := ns } now (i + 1) rs
    else loadFrom s now (i + 1) rs

/-- `flow.LoadRules(rules)` into an empty manager at time `now` -/
def load (rules : List Rule) (now : Nat) : St := loadFrom {} now 0 rules

/-! ## one entry: check phase, statistic phase -/

/-- `boundStat.readOnlyMetric.GetSum(MetricEventPass)` -/
def Ctrl.cur (c : Ctrl) (ns : Nodes) (now : Nat) : Nat :=
  match c.geom with
  | .view Iv => match lookup ns c.rule.src with
      | some a => viewSum a Iv now
      | none => 0
  | .own n L => viewSum c.own (n * L) now
  | .bad => 0

/-- `checkInLocal`: `true` = this rule blocks -/
def Ctrl.blocks (c : Ctrl) (ns : Nodes) (now b : Nat) : Bool :=
  match c.rule.ref with
  | some r => match lookup ns r with
      | none => false                                   -- "nil resource node": pass
      | some _ => c.rule.thr.exceeds (c.cur ns now + b)
  | none => c.rule.thr.exceeds (c.cur ns now + b)

/-- `Slot.Check`: index of the first blocking rule of `res` -/
def checkList (cs : List Ctrl) (ns : Nodes) (res now b : Nat) : Option Nat :=
  match cs with
  | [] => none
  | c :: r => if c.rule.res = res ∧ c.blocks ns now b then some c.idx else checkList r ns res now b

/-- the prepare slot followed by the rule-check slots (only flow rules are loaded) -/
def checkPhase (s : St) (res now b : Nat) : St × Option Nat :=
  let ns := ensure s.nodes res now
  ({ s with nodes := ns }, checkList s.ctrls ns res now b)

/-- `StandaloneStatSlot.OnEntryPassed` -/
def standaloneRecord (cs : List Ctrl) (res now b : Nat) : List Ctrl :=
  cs.map fun c => match c.geom with
    | .own _ _ => if c.rule.res = res then { c with own := (addAt c.own now b).1 } else c
    | _ => c

/-- several recordings on the node of `r` at the same instant -/
def touches (ns : Nodes) (r now : Nat) : List Nat → Nodes
  | [] => ns
  | x :: xs => touches (touch ns r now x) r now xs

/-- the statistic slots, and `Exit` at the same instant for an admitted entry:
    pass:  node: concurrency sample (0), pass += b; standalone arrays += b; exit: rt (0), complete (0)
    block: node: block count (0 to the pass counter) -/
def statPhase (s : St) (res now b : Nat) (d : Option Nat) : St :=
  match d with
  | none => { nodes := touches s.nodes res now [0, b, 0, 0], ctrls := standaloneRecord s.ctrls res now b }
  | some _ => { s with nodes := touches s.nodes res now [0] }

/-- `api.Entry(res, WithBatchCount(b))` (+ immediate `Exit`) at time `now`; `none` = admitted, `some i` = blocked by rule `i` -/
def entry (s : St) (res now b : Nat) : St × Option Nat :=
  let (s1, d) := checkPhase s res now b
  (statPhase s1 res now b d, d)

structure Arrival where
  t : Nat
  res : Nat
  b : Nat
deriving Repr, DecidableEq

def runEntries (s : St) : List Arrival → St × List (Option Nat)
  | [] => (s, [])
  | a :: r =>
    let (s1, d) := entry s a.res a.t a.b
    let (s2, ds) := runEntries s1 r
    (s2, d :: ds)

/-! ## the reference: no arrays, only the history of admitted arrivals -/

/-- admitted arrivals of resource `r` as `(time, tokens)` -/
def histOf (H : List Arrival) (r : Nat) : List (Nat × Nat) :=
  (H.filter fun a => a.res = r).map fun a => (a.t, a.b)

/-- tokens of resource `r` admitted in the aligned window of a statistic with bucket length `L` and
    interval `Iv`, read at `now`: bucket starts in `[cbs now + L - Iv, cbs now]` (filter and sum) -/
def windowTokens (H : List Arrival) (r L Iv now : Nat) : Nat :=
  refW L (histOf H r) (cbs L now + L - Iv) (cbs L now)

/-- static part of a controller (what `load` derives from the rule alone) -/
structure RuleInfo where
  idx : Nat
  rule : Rule
  geom : Geom
deriving Repr, DecidableEq

def RuleInfo.L (c : RuleInfo) : Nat := match c.geom with | .view _ => gL | .own _ L => L | .bad => 1
def RuleInfo.Iv (c : RuleInfo) : Nat := match c.geom with | .view Iv => Iv | .own n L => n * L | .bad => 1
def RuleInfo.feed (c : RuleInfo) : Nat := match c.geom with | .own _ _ => c.rule.res | _ => c.rule.src
def RuleInfo.inFinding (c : RuleInfo) : Bool := c.feed ≠ c.rule.src

def compileFrom : Nat → List Rule → List RuleInfo
  | _, [] => []
  | i, r :: rs =>
    if r.valid then
      match geomFor r.iv with
      | .bad => compileFrom (i + 1) rs
      | g => { idx := i, rule := r, geom := g } :: compileFrom (i + 1) rs
    else compileFrom (i + 1) rs

/-- the rules in force after `load rules` -/
def compile (rules : List Rule) : List RuleInfo := compileFrom 0 rules

def Ctrl.info (c : Ctrl) : RuleInfo := { idx := c.idx, rule := c.rule, geom := c.geom }

/-- reference decision. `srcOf` says whose admitted traffic a rule counts: `RuleInfo.feed` = the code
    as it is, `fun c => c.rule.src` = what the property demands. -/
def refCheck (srcOf : RuleInfo → Nat) (cs : List RuleInfo) (H : List Arrival) (res now b : Nat) : Option Nat :=
  match cs with
  | [] => none
  | c :: r =>
    if c.rule.res = res ∧ c.rule.thr.exceeds (windowTokens H (srcOf c) c.L c.Iv now + b) then some c.idx
    else refCheck srcOf r H res now b

def refRun (srcOf : RuleInfo → Nat) (cs : List RuleInfo) (H : List Arrival) : List Arrival → List Arrival × List (Option Nat)
  | [] => (H, [])
  | a :: r =>
    let d := refCheck srcOf cs H a.res a.t a.b
    let H1 := if d.isNone then H ++ [a] else H
    let (H2, ds) := refRun srcOf cs H1 r
    (H2, d :: ds)

/-! ## small-step execution of `k` simultaneous entries (yield point `chain.between-check-and-stat`)

A thread performs `checkPhase`, parks, and later performs `statPhase`. A schedule is a list of thread
ids: the first occurrence of `i` runs its check phase, the second its statistic phase. -/

structure Thread where
  res : Nat
  b : Nat
  /-- `none` = not started, `some (d, false)` = checked with decision `d`, `some (d, true)` = recorded -/
  st : Option (Option Nat × Bool) := none
deriving Repr

def stepThread (s : St) (now : Nat) (ths : List Thread) (i : Nat) : St × List Thread :=
  match ths[i]? with
  | none => (s, ths)
  | some th =>
    match th.st with
    | none =>
      let (s1, d) := checkPhase s th.res now th.b
      (s1, ths.set i { th with st := some (d, false) })
    | some (d, false) => (statPhase s th.res now th.b d, ths.set i { th with st := some (d, true) })
    | some (_, true) => (s, ths)

def runSched (s : St) (now : Nat) (ths : List Thread) : List Nat → St × List Thread
  | [] => (s, ths)
  | i :: r => let (s1, t1) := stepThread s now ths i; runSched s1 now t1 r

/-- reference small step: the history grows when an admitted thread *records* -/
def refStepThread (srcOf : RuleInfo → Nat) (cs : List RuleInfo) (H : List Arrival) (now : Nat)
    (ths : List Thread) (i : Nat) : List Arrival × List Thread :=
  match ths[i]? with
  | none => (H, ths)
  | some th =>
    match th.st with
    | none => (H, ths.set i { th with st := some (refCheck srcOf cs H th.res now th.b, false) })
    | some (d, false) =>
      ((if d.isNone then H ++ [{ t := now, res := th.res, b := th.b }] else H), ths.set i { th with st := some (d, true) })
    | some (_, true) => (H, ths)

def refRunSched (srcOf : RuleInfo → Nat) (cs : List RuleInfo) (H : List Arrival) (now : Nat)
    (ths : List Thread) : List Nat → List Arrival × List Thread
  | [] => (H, ths)
  | i :: r => let (H1, t1) := refStepThread srcOf cs H now ths i; refRunSched srcOf cs H1 now t1 r

end Sentinel.FlowReject
