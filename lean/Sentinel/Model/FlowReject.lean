import Sentinel.Model.Bucket
import Sentinel.Model.Throttle
/-!
# M-FLOW (reject mode) — QPS flow rules with the Direct calculator and the Reject checker (core Lean only)

Mirrors, for rules with `TokenCalculateStrategy = Direct`, `ControlBehavior = Reject`:

* `core/flow/rule_manager.go`  `IsValidRule`, `generateStatFor`, `buildResourceTrafficShapingController`
                               (first load into an empty manager: no controller is reused)
* `core/flow/tc_default.go`    `RejectTrafficShapingChecker.DoCheck`  (`float64(cur)+float64(b) > T`)
* `core/flow/slot.go`          `Slot.Check` (rules in order, first block wins), `selectNodeByRelStrategy`
* `core/stat/stat_slot.go`     `OnEntryPassed / OnEntryBlocked / OnCompleted` on the entered resource's node
* `core/flow/standalone_stat_slot.go` `OnEntryPassed` (every non-reusing controller **of the entered resource**)
* `core/stat/node_storage.go`  `GetOrCreateResourceNode` (node arrays are created at first use, with the clock of that moment)

Only the pass counter matters for this property, so the payload of every array is `Nat` (= the pass
count of a `MetricBucket`); a recording of any *other* event at time `t` is `addAt a t 0`
(it still runs `currentBucketOfTime(t)`, i.e. it may recycle a slot).
-/
namespace Sentinel.FlowReject
open Sentinel.LA

/-! ## thresholds: a float64 read as the exact number it denotes -/

/-- a `float64` threshold: `frac num den` is the exact dyadic `num/den` (`den` a power of two);
    `unbounded` is `+Inf` or `NaN` (`x > T` is false for every finite `x`); `invalid` is negative
    (rejected by `IsValidRule`: `Threshold < 0`; `-0.0` and `NaN` are *not* `< 0`). -/
inductive Thr where
  | unbounded
  | frac (num den : Nat)
  | invalid
deriving Repr, DecidableEq

def Thr.ofBits (b : Nat) : Thr :=
  let sign := b / 2^63 % 2
  let ex := b / 2^52 % 2048
  let fr := b % 2^52
  if ex = 2047 then (if fr ≠ 0 then .unbounded else if sign = 1 then .invalid else .unbounded)
  else if sign = 1 ∧ (ex ≠ 0 ∨ fr ≠ 0) then .invalid
  else if ex = 0 then .frac fr (2^1074)
  else if 1075 ≤ ex then .frac ((2^52 + fr) * 2^(ex - 1075)) 1
  else .frac (2^52 + fr) (2^(1075 - ex))

/-- `float64(cur) + float64(b) > T` for `N = cur + b < 2^53` (both conversions and the sum are exact) -/
def Thr.exceeds (T : Thr) (N : Nat) : Bool :=
  match T with
  | .unbounded => false
  | .frac num den => decide (num < N * den)
  | .invalid => false

/-! ## rules and the statistic bound to a rule -/

/-- `ControlBehavior`: `Reject`, or `Throttling` with `MaxQueueingTimeMs` (both with the Direct calculator) -/
inductive Kind where
  | reject
  | throttle (maxQ : Nat)
deriving Repr, DecidableEq

structure Rule where
  res : Nat                    -- Resource
  thr : Thr                    -- Threshold
  iv  : Nat                    -- StatIntervalInMs
  ref : Option Nat := none     -- `some r`: RelationStrategy = AssociatedResource, RefResource = r
  kind : Kind := .reject       -- ControlBehavior (+ MaxQueueingTimeMs)
deriving Repr, DecidableEq

/-- `IsValidRule` restricted to the fields of a Direct/Reject rule -/
def Rule.valid (r : Rule) : Bool := r.thr ≠ .invalid

-- default configuration (`core/base/constant.go`, `core/config/entity.go`)
def gN : Nat := 20        -- GlobalStatisticSampleCountTotal
def gI : Nat := 10000     -- GlobalStatisticIntervalMsTotal
def gL : Nat := 500       -- GlobalStatisticBucketLengthInMs
def dIv : Nat := 1000     -- MetricStatisticIntervalMs (sample count 2)

/-- which statistic `generateStatFor` builds -/
inductive Geom where
  | view (Iv : Nat)        -- a `SlidingWindowMetric` of interval `Iv` on the node's 20×500 array (reuseResourceStat)
  | own (n L : Nat)        -- an independent `BucketLeapArray(n, n·L)` read through a view of the full interval
  | bad                    -- error: the rule gets no controller
deriving Repr, DecidableEq

/-- the sample count computed in `generateStatFor` -/
def sampleCountFor (I : Nat) : Nat :=
  if I > gI then 1 else if I < gL then 1 else if I % gL = 0 then I / gL else 1

def geomFor (I : Nat) : Geom :=
  if I = 0 ∨ I = dIv then .view dIv
  else
    let sc := sampleCountFor I
    match validView sc I gN gI with
    | 0 => .view I
    | 3 => .own sc (I / sc)
    | _ => .bad

/-- a `TrafficShapingController` -/
structure Ctrl where
  idx : Nat              -- position of the rule in the loaded list (what a block reports)
  rule : Rule
  geom : Geom
  own : Arr Nat          -- `boundStat.writeOnlyMetric` (meaningful only for `geom = own ..`)
  last : Int := 0        -- `ThrottlingChecker.lastPassedTime` in ns (throttling controllers only)
deriving Repr

/-- the resource whose **node** the rule is about: `RefResource` for an associated rule -/
def Rule.src (r : Rule) : Nat := r.ref.getD r.res

def Ctrl.L (c : Ctrl) : Nat := match c.geom with | .view _ => gL | .own _ L => L | .bad => 1
def Ctrl.Iv (c : Ctrl) : Nat := match c.geom with | .view Iv => Iv | .own n L => n * L | .bad => 1
def Ctrl.n (c : Ctrl) : Nat := match c.geom with | .view _ => gN | .own n _ => n | .bad => 1

/-- the resource whose admitted traffic actually reaches the counter the rule reads (as the code is):
    a reused view reads the node of `src`; an independent array is written by the standalone stat slot
    of the **entered** resource, i.e. the rule's own resource. -/
def Ctrl.feed (c : Ctrl) : Nat := match c.geom with | .own _ _ => c.rule.res | _ => c.rule.src

/-- the known finding `assoc-standalone-own-traffic`: the rule is meant to count `src` but counts `res` -/
def Ctrl.inFinding (c : Ctrl) : Bool := c.feed ≠ c.rule.src

/-! ## the resource node map -/

abbrev Nodes := List (Nat × Arr Nat)

def lookup : Nodes → Nat → Option (Arr Nat)
  | [], _ => none
  | (k, a) :: r, q => if k = q then some a else lookup r q

/-- `GetOrCreateResourceNode` -/
def ensure (ns : Nodes) (r now : Nat) : Nodes :=
  match lookup ns r with
  | some _ => ns
  | none => ns ++ [(r, mk gN gL now)]

/-- one `AddCount`/`UpdateConcurrency` on the node of `r` contributing `x` to the pass counter -/
def touch (ns : Nodes) (r now x : Nat) : Nodes :=
  ns.map fun p => if p.1 = r then (p.1, (addAt p.2 now x).1) else p

structure St where
  nodes : Nodes := []
  ctrls : List Ctrl := []
deriving Repr

/-! ## loading -/

/-- build the controller of one valid rule (`generateStatFor` + generator), `none` on error -/
def mkCtrl (idx : Nat) (r : Rule) (now : Nat) : Option Ctrl :=
  match geomFor r.iv with
  | .bad => none
  | .view Iv => some { idx := idx, rule := r, geom := .view Iv, own := { n := 1, L := 1, slots := [] } }
  | .own n L => some { idx := idx, rule := r, geom := .own n L, own := mk n L now }

def loadFrom (s : St) (now : Nat) : Nat → List Rule → St
  | _, [] => s
  | i, r :: rs =>
    if r.valid then
      -- `generateStatFor` creates the node of the referenced (or own) resource before anything else
      let ns := ensure s.nodes r.src now
      match mkCtrl i r now with
      | some c => loadFrom { nodes := ns, ctrls := s.ctrls ++ [c] } now (i + 1) rs
      | none => loadFrom { s with nodes := ns } now (i + 1) rs
    else loadFrom s now (i + 1) rs

/-- `flow.LoadRules(rules)` into an empty manager at time `now` -/
def load (rules : List Rule) (now : Nat) : St := loadFrom {} now 0 rules

/-! ## one entry: check phase, statistic phase -/

/-- `boundStat.readOnlyMetric.GetSum(MetricEventPass)` -/
def Ctrl.cur (c : Ctrl) (ns : Nodes) (now : Nat) : Nat :=
  match c.geom with
  | .view Iv => match lookup ns c.rule.src with
      | some a => viewSum a Iv now
      | none => 0
  | .own n L => viewSum c.own (n * L) now
  | .bad => 0

/-- `checkInLocal`: `true` = this rule blocks -/
def Ctrl.blocks (c : Ctrl) (ns : Nodes) (now b : Nat) : Bool :=
  match c.rule.ref with
  | some r => match lookup ns r with
      | none => false                                   -- "nil resource node": pass
      | some _ => c.rule.thr.exceeds (c.cur ns now + b)
  | none => c.rule.thr.exceeds (c.cur ns now + b)

/-- `Slot.Check`: index of the first blocking rule of `res` -/
def checkList (cs : List Ctrl) (ns : Nodes) (res now b : Nat) : Option Nat :=
  match cs with
  | [] => none
  | c :: r => if c.rule.res = res ∧ c.blocks ns now b then some c.idx else checkList r ns res now b

/-- the prepare slot followed by the rule-check slots (only flow rules are loaded) -/
def checkPhase (s : St) (res now b : Nat) : St × Option Nat :=
  let ns := ensure s.nodes res now
  ({ s with nodes := ns }, checkList s.ctrls ns res now b)

/-- `StandaloneStatSlot.OnEntryPassed` -/
def standaloneRecord (cs : List Ctrl) (res now b : Nat) : List Ctrl :=
  cs.map fun c => match c.geom with
    | .own _ _ => if c.rule.res = res then { c with own := (addAt c.own now b).1 } else c
    | _ => c

/-- several recordings on the node of `r` at the same instant -/
def touches (ns : Nodes) (r now : Nat) : List Nat → Nodes
  | [] => ns
  | x :: xs => touches (touch ns r now x) r now xs

/-- the statistic slots, and `Exit` at the same instant for an admitted entry:
    pass:  node: concurrency sample (0), pass += b; standalone arrays += b; exit: rt (0), complete (0)
    block: node: block count (0 to the pass counter) -/
def statPhase (s : St) (res now b : Nat) (d : Option Nat) : St :=
  match d with
  | none => { nodes := touches s.nodes res now [0, b, 0, 0], ctrls := standaloneRecord s.ctrls res now b }
  | some _ => { s with nodes := touches s.nodes res now [0] }

/-- `api.Entry(res, WithBatchCount(b))` (+ immediate `Exit`) at time `now`; `none` = admitted, `some i` = blocked by rule `i` -/
def entry (s : St) (res now b : Nat) : St × Option Nat :=
  let (s1, d) := checkPhase s res now b
  (statPhase s1 res now b d, d)

structure Arrival where
  t : Nat
  res : Nat
  b : Nat
deriving Repr, DecidableEq

def runEntries (s : St) : List Arrival → St × List (Option Nat)
  | [] => (s, [])
  | a :: r =>
    let (s1, d) := entry s a.res a.t a.b
    let (s2, ds) := runEntries s1 r
    (s2, d :: ds)

/-! ## the reference: no arrays, only the history of admitted arrivals -/

/-- admitted arrivals of resource `r` as `(time, tokens)` -/
def histOf (H : List Arrival) (r : Nat) : List (Nat × Nat) :=
  (H.filter fun a => a.res = r).map fun a => (a.t, a.b)

/-- tokens of resource `r` admitted in the aligned window of a statistic with bucket length `L` and
    interval `Iv`, read at `now`: bucket starts in `[cbs now + L - Iv, cbs now]` (filter and sum) -/
def windowTokens (H : List Arrival) (r L Iv now : Nat) : Nat :=
  refW L (histOf H r) (cbs L now + L - Iv) (cbs L now)

/-- static part of a controller (what `load` derives from the rule alone) -/
structure RuleInfo where
  idx : Nat
  rule : Rule
  geom : Geom
deriving Repr, DecidableEq

def RuleInfo.L (c : RuleInfo) : Nat := match c.geom with | .view _ => gL | .own _ L => L | .bad => 1
def RuleInfo.Iv (c : RuleInfo) : Nat := match c.geom with | .view Iv => Iv | .own n L => n * L | .bad => 1
def RuleInfo.feed (c : RuleInfo) : Nat := match c.geom with | .own _ _ => c.rule.res | _ => c.rule.src
def RuleInfo.inFinding (c : RuleInfo) : Bool := c.feed ≠ c.rule.src

def compileFrom : Nat → List Rule → List RuleInfo
  | _, [] => []
  | i, r :: rs =>
    if r.valid then
      match geomFor r.iv with
      | .bad => compileFrom (i + 1) rs
      | g => { idx := i, rule := r, geom := g } :: compileFrom (i + 1) rs
    else compileFrom (i + 1) rs

/-- the rules in force after `load rules` -/
def compile (rules : List Rule) : List RuleInfo := compileFrom 0 rules

def Ctrl.info (c : Ctrl) : RuleInfo := { idx := c.idx, rule := c.rule, geom := c.geom }

/-- reference decision. `srcOf` says whose admitted traffic a rule counts: `RuleInfo.feed` = the code
    as it is, `fun c => c.rule.src` = what the property demands. -/
def refCheck (srcOf : RuleInfo → Nat) (cs : List RuleInfo) (H : List Arrival) (res now b : Nat) : Option Nat :=
  match cs with
  | [] => none
  | c :: r =>
    if c.rule.res = res ∧ c.rule.thr.exceeds (windowTokens H (srcOf c) c.L c.Iv now + b) then some c.idx
    else refCheck srcOf r H res now b

def refRun (srcOf : RuleInfo → Nat) (cs : List RuleInfo) (H : List Arrival) : List Arrival → List Arrival × List (Option Nat)
  | [] => (H, [])
  | a :: r =>
    let d := refCheck srcOf cs H a.res a.t a.b
    let H1 := if d.isNone then H ++ [a] else H
    let (H2, ds) := refRun srcOf cs H1 r
    (H2, d :: ds)

/-! ## small-step execution of `k` simultaneous entries (yield point `chain.between-check-and-stat`)

A thread performs `checkPhase`, parks, and later performs `statPhase`. A schedule is a list of thread
ids: the first occurrence of `i` runs its check phase, the second its statistic phase. -/

structure Thread where
  res : Nat
  b : Nat
  /-- `none` = not started, `some (d, false)` = checked with decision `d`, `some (d, true)` = recorded -/
  st : Option (Option Nat × Bool) := none
deriving Repr

def stepThread (s : St) (now : Nat) (ths : List Thread) (i : Nat) : St × List Thread :=
  match ths[i]? with
  | none => (s, ths)
  | some th =>
    match th.st with
    | none =>
      let (s1, d) := checkPhase s th.res now th.b
      (s1, ths.set i { th with st := some (d, false) })
    | some (d, false) => (statPhase s th.res now th.b d, ths.set i { th with st := some (d, true) })
    | some (_, true) => (s, ths)

def runSched (s : St) (now : Nat) (ths : List Thread) : List Nat → St × List Thread
  | [] => (s, ths)
  | i :: r => let (s1, t1) := stepThread s now ths i; runSched s1 now t1 r

/-- reference small step: the history grows when an admitted thread *records* -/
def refStepThread (srcOf : RuleInfo → Nat) (cs : List RuleInfo) (H : List Arrival) (now : Nat)
    (ths : List Thread) (i : Nat) : List Arrival × List Thread :=
  match ths[i]? with
  | none => (H, ths)
  | some th =>
    match th.st with
    | none => (H, ths.set i { th with st := some (refCheck srcOf cs H th.res now th.b, false) })
    | some (d, false) =>
      ((if d.isNone then H ++ [{ t := now, res := th.res, b := th.b }] else H), ths.set i { th with st := some (d, true) })
    | some (_, true) => (H, ths)

def refRunSched (srcOf : RuleInfo → Nat) (cs : List RuleInfo) (H : List Arrival) (now : Nat)
    (ths : List Thread) : List Nat → List Arrival × List Thread
  | [] => (H, ths)
  | i :: r => let (H1, t1) := refStepThread srcOf cs H now ths i; refRunSched srcOf cs H1 now t1 r

/-! ## the general flow slot: throttling rules in the chain, time in nanoseconds, reloading

Everything above is the reject-only core (one `LoadRules`, time in ms) about which the window theorems are
stated. The definitions below are what the driver executes; on rule lists without throttling rules and
for a first load they coincide with the core (`Sentinel.C02.loadG_eq_load`, `entryG_eq_entry`).

* A throttling controller has no statistic (`nopStat`); its state is `lastPassedTime`. Its check is
  `Sentinel.Throttle.doCheck` (C10's model of `ThrottlingChecker.DoCheck`); the request class is computed
  **exactly**: `intervalNs = ⌈b · statIntervalNs / T⌉` as a rational ceiling. The code computes it in float64
  (`math.Ceil(float64(b)/T*float64(statIntervalNs))`), which is the same number whenever `T` is a power of
  two and `b · statIntervalNs < 2^53` — the generator keeps throttling thresholds in that set.
* `Slot.Check` walks the resource's controllers in order; a positive wait is slept (`util.Sleep`, the virtual
  clock advances) before the next controller is asked, so later reject rules read their window at the
  advanced time, and the statistic slots record at the advanced time.
* `reloadG` = `buildResourceTrafficShapingController` for every resource: first equal old controller
  (`isEqualsTo`) is moved over unchanged, else the first stat-reusable one donates its statistic, else
  `generateStatFor`. -/

def nsPerMs : Nat := 1000000

/-- request class of `ThrottlingChecker.DoCheck` for batch `b` (exact arithmetic) -/
def throttleReq (T : Thr) (ivMs b : Nat) : Throttle.Req :=
  if b = 0 then .zero else
  match T with
  | .unbounded => .norm 0
  | .invalid => .excess
  | .frac num den =>
    if num = 0 then .excess                       -- threshold <= 0
    else if num < b * den then .excess            -- float64(b) > threshold
    else
      let statNs := (if ivMs = 0 then 1000 else ivMs) * nsPerMs
      .norm (((b * statNs * den + num - 1) / num : Nat) : Int)

/-- `float64(b) > threshold` blocks without naming a rule (`NewTokenResultBlocked`) -/
def throttleAnon (T : Thr) (b : Nat) : Bool :=
  match T with
  | .frac num den => b ≠ 0 && num ≠ 0 && decide (num < b * den)
  | _ => false

/-- what a block reports when the result carries no rule -/
def noRule : Nat := 1000000000

/-- what the chain walk needs from a controller (the model's `Ctrl`, or the reference's `RCtrl`) -/
structure ChainOps (α : Type) where
  rule : α → Rule
  idx : α → Nat
  last : α → Int
  setLast : α → Int → α
  /-- reject rule: does it block batch `b` at time `ms`? -/
  blocks : α → Nat → Nat → Bool

/-- `Slot.Check` at time `t` (ns): updated controllers, the time after the sleeps, the decision -/
def chainG {α : Type} (O : ChainOps α) (res : Nat) (b : Nat) : List α → Nat → List α × Nat × Option Nat
  | [], t => ([], t, none)
  | c :: r, t =>
    if (O.rule c).res ≠ res then
      let x := chainG O res b r t; (c :: x.1, x.2.1, x.2.2)
    else match (O.rule c).kind with
      | .reject =>
        if O.blocks c (t / nsPerMs) b then (c :: r, t, some (O.idx c))
        else let x := chainG O res b r t; (c :: x.1, x.2.1, x.2.2)
      | .throttle maxQ =>
        match Throttle.doCheck ((maxQ * nsPerMs : Nat) : Int) (O.last c) (t : Int) (throttleReq (O.rule c).thr (O.rule c).iv b) with
        | (l, .block) => (O.setLast c l :: r, t, some (if throttleAnon (O.rule c).thr b then noRule else O.idx c))
        | (l, .pass) => let x := chainG O res b r t; (O.setLast c l :: x.1, x.2.1, x.2.2)
        | (l, .wait w) => let x := chainG O res b r (t + w.toNat); (O.setLast c l :: x.1, x.2.1, x.2.2)

def modelOps (ns : Nodes) : ChainOps Ctrl :=
  { rule := (·.rule), idx := (·.idx), last := (·.last), setLast := fun c l => { c with last := l },
    blocks := fun c ms b => c.blocks ns ms b }

/-- prepare slot + rule-check slots at time `t` (ns) -/
def checkPhaseG (s : St) (res t b : Nat) : St × Nat × Option Nat :=
  let ns := ensure s.nodes res (t / nsPerMs)
  let x := chainG (modelOps ns) res b s.ctrls t
  ({ nodes := ns, ctrls := x.1 }, x.2.1, x.2.2)

/-- `api.Entry` + `Exit`: new state, the clock afterwards, the decision -/
def entryG (s : St) (res t b : Nat) : St × Nat × Option Nat :=
  let x := checkPhaseG s res t b
  (statPhase x.1 res (x.2.1 / nsPerMs) b x.2.2, x.2.1, x.2.2)

/-- `util.Float64Equals` on thresholds: `|x - y| < 1e-8` (NaN / Inf are equal to nothing) -/
def thrEq : Thr → Thr → Bool
  | .frac n1 d1, .frac n2 d2 => decide ((n1 * d2 - n2 * d1 + (n2 * d1 - n1 * d2)) * 100000000 < d1 * d2)
  | _, _ => false

/-- `old.isEqualsTo(new)` -/
def Rule.eqv (o n : Rule) : Bool :=
  o.res = n.res && o.ref = n.ref && o.iv = n.iv && o.kind = n.kind && thrEq o.thr n.thr

/-- `old.isStatReusable(new)` (a Direct+Throttling rule needs no statistic) -/
def Rule.statReusable (o n : Rule) : Bool :=
  o.res = n.res && o.ref = n.ref && o.iv = n.iv && o.kind = .reject && n.kind = .reject

/-- `calculateReuseIndexFor` over the old controllers' rules: `(equalIdx, reuseStatIdx)` -/
def reuseIdx (r : Rule) : List Rule → Nat → Option Nat → Option Nat × Option Nat
  | [], _, reuse => (none, reuse)
  | o :: os, i, reuse =>
    if o.eqv r then (some i, reuse)
    else if o.statReusable r && reuse.isNone then reuseIdx r os (i + 1) (some i)
    else reuseIdx r os (i + 1) reuse

/-- a brand-new controller for a valid rule (`none`: the generator failed) -/
def mkCtrlG (idx : Nat) (r : Rule) (now : Nat) : Option Ctrl :=
  match r.kind with
  | .reject => mkCtrl idx r now
  | .throttle _ => some { idx := idx, rule := r, geom := .bad, own := { n := 1, L := 1, slots := [] } }

def reloadFrom (pool : List Ctrl) (acc : St) (now : Nat) : Nat → List Rule → St
  | _, [] => acc
  | i, r :: rs =>
    if r.valid then
      match reuseIdx r (pool.map (·.rule)) 0 none with
      | (some e, _) =>
        match pool[e]? with
        | some c => reloadFrom (pool.eraseIdx e) { acc with ctrls := acc.ctrls ++ [c] } now (i + 1) rs
        | none => reloadFrom pool acc now (i + 1) rs          -- unreachable
      | (none, some j) =>
        match pool[j]? with
        | some c => reloadFrom (pool.eraseIdx j)
            { acc with ctrls := acc.ctrls ++ [{ idx := i, rule := r, geom := c.geom, own := c.own }] } now (i + 1) rs
        | none => reloadFrom pool acc now (i + 1) rs          -- unreachable
      | (none, none) =>
        let ns := match r.kind with | .reject => ensure acc.nodes r.src now | _ => acc.nodes
        match mkCtrlG i r now with
        | some c => reloadFrom pool { nodes := ns, ctrls := acc.ctrls ++ [c] } now (i + 1) rs
        | none => reloadFrom pool { acc with nodes := ns } now (i + 1) rs
    else reloadFrom pool acc now (i + 1) rs

/-- `flow.LoadRules(rules)` at time `now` (ms) on the state `s`; the rules get the ids `base, base+1, …` -/
def reloadG (s : St) (rules : List Rule) (now base : Nat) : St :=
  reloadFrom s.ctrls { nodes := s.nodes, ctrls := [] } now base rules

/-! ### reference with throttling rules and reloads (no arrays) -/

/-- reference controller: the rule in force, since which admitted arrival its own window counts
    (`since` = length of the admitted history when an independent window was created), `lastPassedTime` -/
structure RCtrl where
  info : RuleInfo
  since : Nat := 0
  last : Int := 0
  /-- ghost: length of the admitted history when this controller (this rule object) came into force;
      never read by a decision, only by the cap theorem `window_cap_after_reload` -/
  born : Nat := 0
deriving Repr

def RCtrl.tokens (srcOf : RuleInfo → Nat) (H : List Arrival) (c : RCtrl) (ms : Nat) : Nat :=
  match c.info.geom with
  | .own _ _ => windowTokens (H.drop c.since) (srcOf c.info) c.info.L c.info.Iv ms
  | _ => windowTokens H (srcOf c.info) c.info.L c.info.Iv ms

def refOps (srcOf : RuleInfo → Nat) (H : List Arrival) : ChainOps RCtrl :=
  { rule := (·.info.rule), idx := (·.info.idx), last := (·.last), setLast := fun c l => { c with last := l },
    blocks := fun c ms b => c.info.rule.thr.exceeds (c.tokens srcOf H ms + b) }

structure RSt where
  ctrls : List RCtrl := []
  H : List Arrival := []
deriving Repr

/-- reference `api.Entry`: the arrival is recorded at the time after the sleeps -/
def refEntryG (srcOf : RuleInfo → Nat) (s : RSt) (res t b : Nat) : RSt × Nat × Option Nat :=
  let x := chainG (refOps srcOf s.H) res b s.ctrls t
  ({ ctrls := x.1, H := if x.2.2.isNone && x.2.1 / nsPerMs != 0 then s.H ++ [{ t := x.2.1 / nsPerMs, res := res, b := b }] else s.H },
   x.2.1, x.2.2)

def refReloadFrom (pool : List RCtrl) (acc : List RCtrl) (hlen : Nat) : Nat → List Rule → List RCtrl
  | _, [] => acc
  | i, r :: rs =>
    if r.valid then
      match reuseIdx r (pool.map (·.info.rule)) 0 none with
      | (some e, _) =>
        match pool[e]? with
        | some c => refReloadFrom (pool.eraseIdx e) (acc ++ [c]) hlen (i + 1) rs
        | none => refReloadFrom pool acc hlen (i + 1) rs
      | (none, some j) =>
        match pool[j]? with
        | some c => refReloadFrom (pool.eraseIdx j)
            (acc ++ [{ info := { idx := i, rule := r, geom := c.info.geom }, since := c.since, born := hlen }]) hlen (i + 1) rs
        | none => refReloadFrom pool acc hlen (i + 1) rs
      | (none, none) =>
        match r.kind with
        | .throttle _ => refReloadFrom pool (acc ++ [{ info := { idx := i, rule := r, geom := .bad }, born := hlen }]) hlen (i + 1) rs
        | .reject =>
          match geomFor r.iv with
          | .bad => refReloadFrom pool acc hlen (i + 1) rs
          | g => refReloadFrom pool (acc ++ [{ info := { idx := i, rule := r, geom := g }, since := hlen, born := hlen }]) hlen (i + 1) rs
    else refReloadFrom pool acc hlen (i + 1) rs

def refReloadG (s : RSt) (rules : List Rule) (base : Nat) : RSt :=
  { s with ctrls := refReloadFrom s.ctrls [] s.H.length base rules }

/-! ### small steps with the general chain (the clock is shared and advanced by sleeps) -/

def stepThreadG (s : St) (t : Nat) (ths : List Thread) (i : Nat) : St × Nat × List Thread :=
  match ths[i]? with
  | none => (s, t, ths)
  | some th =>
    match th.st with
    | none =>
      let x := checkPhaseG s th.res t th.b
      (x.1, x.2.1, ths.set i { th with st := some (x.2.2, false) })
    | some (d, false) => (statPhase s th.res (t / nsPerMs) th.b d, t, ths.set i { th with st := some (d, true) })
    | some (_, true) => (s, t, ths)

def runSchedG (s : St) (t : Nat) (ths : List Thread) : List Nat → St × Nat × List Thread
  | [] => (s, t, ths)
  | i :: r => let x := stepThreadG s t ths i; runSchedG x.1 x.2.1 x.2.2 r

def refStepThreadG (srcOf : RuleInfo → Nat) (s : RSt) (t : Nat) (ths : List Thread) (i : Nat) : RSt × Nat × List Thread :=
  match ths[i]? with
  | none => (s, t, ths)
  | some th =>
    match th.st with
    | none =>
      let x := chainG (refOps srcOf s.H) th.res th.b s.ctrls t
      ({ s with ctrls := x.1 }, x.2.1, ths.set i { th with st := some (x.2.2, false) })
    | some (d, false) =>
      ({ s with H := if d.isNone && t / nsPerMs != 0 then s.H ++ [{ t := t / nsPerMs, res := th.res, b := th.b }] else s.H }, t,
        ths.set i { th with st := some (d, true) })
    | some (_, true) => (s, t, ths)

def refRunSchedG (srcOf : RuleInfo → Nat) (s : RSt) (t : Nat) (ths : List Thread) : List Nat → RSt × Nat × List Thread
  | [] => (s, t, ths)
  | i :: r => let x := refStepThreadG srcOf s t ths i; refRunSchedG srcOf x.1 x.2.1 x.2.2 r

/-! ### `flow.LoadRulesOfResource(res, rules)` -/

/-- `buildResourceTrafficShapingController(res, …)` ignores rules of another resource (and `IsValidRule` drops the
    invalid ones): keep the positions (ids), void the rules that do not count -/
def forRes (res : Nat) (rules : List Rule) : List Rule :=
  rules.map fun r => if r.res = res then r else { r with thr := .invalid }

/-- an empty list clears the resource's controllers; otherwise the resource's controllers are rebuilt from its old
    ones (same reuse order as `reloadG`), the other resources are untouched -/
def loadresG (s : St) (res : Nat) (rules : List Rule) (now base : Nat) : St :=
  let others := s.ctrls.filter fun c => c.rule.res ≠ res
  if rules.isEmpty then { s with ctrls := others }
  else
    let x := reloadFrom (s.ctrls.filter fun c => c.rule.res = res) { nodes := s.nodes, ctrls := [] } now base (forRes res rules)
    { nodes := x.nodes, ctrls := others ++ x.ctrls }

def refLoadresG (s : RSt) (res : Nat) (rules : List Rule) (base : Nat) : RSt :=
  let others := s.ctrls.filter fun c => c.info.rule.res ≠ res
  if rules.isEmpty then { s with ctrls := others }
  else { s with ctrls := others ++ refReloadFrom (s.ctrls.filter fun c => c.info.rule.res = res) [] s.H.length base (forRes res rules) }

/-! ### whole op histories: what the driver executes for `clock` / `load` / `loadres` / `entry` -/

inductive Op where
  | clock (ms : Nat)
  | load (rules : List Rule)
  | loadres (res : Nat) (rules : List Rule)
  | entry (res b : Nat)
deriving Repr

/-- an observation: nothing, the number of controllers after a load, or a decision with the time slept (ns) -/
inductive Out where
  | silent
  | loaded (n : Nat)
  | dec (d : Option Nat) (slept : Nat)
deriving Repr, DecidableEq

/-- executed side: state, virtual clock (ns), number of rules loaded so far (ids of the next load) -/
structure MSt where
  s : St := {}
  t : Nat := 0
  nrules : Nat := 0

def stepOp (m : MSt) : Op → MSt × Out
  | .clock ms => ({ m with t := max m.t (ms * nsPerMs) }, .silent)
  | .load rules =>
    let s := reloadG m.s rules (m.t / nsPerMs) m.nrules
    ({ m with s := s, nrules := m.nrules + rules.length }, .loaded s.ctrls.length)
  | .loadres res rules =>
    let s := loadresG m.s res rules (m.t / nsPerMs) m.nrules
    ({ m with s := s, nrules := m.nrules + rules.length }, .loaded s.ctrls.length)
  | .entry res b =>
    let x := entryG m.s res m.t b
    ({ m with s := x.1, t := x.2.1 }, .dec x.2.2 (x.2.1 - m.t))

def runOps (m : MSt) : List Op → MSt × List Out
  | [] => (m, [])
  | o :: r => let x := stepOp m o; let y := runOps x.1 r; (y.1, x.2 :: y.2)

/-- reference side -/
structure RMSt where
  r : RSt := {}
  t : Nat := 0
  nrules : Nat := 0

def refStepOp (srcOf : RuleInfo → Nat) (m : RMSt) : Op → RMSt × Out
  | .clock ms => ({ m with t := max m.t (ms * nsPerMs) }, .silent)
  | .load rules =>
    let r := refReloadG m.r rules m.nrules
    ({ m with r := r, nrules := m.nrules + rules.length }, .loaded r.ctrls.length)
  | .loadres res rules =>
    let r := refLoadresG m.r res rules m.nrules
    ({ m with r := r, nrules := m.nrules + rules.length }, .loaded r.ctrls.length)
  | .entry res b =>
    let x := refEntryG srcOf m.r res m.t b
    ({ m with r := x.1, t := x.2.1 }, .dec x.2.2 (x.2.1 - m.t))

def refRunOps (srcOf : RuleInfo → Nat) (m : RMSt) : List Op → RMSt × List Out
  | [] => (m, [])
  | o :: r => let x := refStepOp srcOf m o; let y := refRunOps srcOf x.1 r; (y.1, x.2 :: y.2)

end Sentinel.FlowReject
