import Sentinel.Model.LockModel
/-! The keys of the C15 known findings as the theorems use them (core Lean only, so that the report script of
    `checks/C15.py` can evaluate the table with and without them).  Must agree with `known/C15.jsonl`
    (the check module compares the two). -/
namespace Sentinel.C15

/-- known finding `outlier-nodemap-race`: the reads of the per-resource node map in
    `getNodeBreakersOfResource` happen after `RUnlock` -/
def knownReads : List (String × String) :=
  [("core/outlier.nodeBreakers[*][*]", "core/outlier.getNodeBreakersOfResource")]

/-- known finding `bucketstart-plain-read`: error-message reads of `BucketWrap.BucketStart` without `atomic.Load` -/
def knownPlainReads : List (String × String) :=
  [("core/stat/base.BucketWrap.BucketStart", "core/stat/base.LeapArray.currentBucketOfTime"),
   ("core/stat/base.BucketWrap.BucketStart", "core/stat/base.SlidingWindowMetric.metricItemFromBuckets")]

/-- known finding `outlier-multi-snapshot`: the outlier slots enter the rule lock several times per phase, and
    `outlier.LoadRules` (hence `ClearRules`) publishes the rules and the node breakers in two separate write sections -/
def knownSlots : List String :=
  ["core/outlier.Slot.Check", "core/outlier.MetricStatSlot.OnCompleted", "core/outlier.LoadRules", "core/outlier.ClearRules"]

/-- known finding `outlier-lost-insert`: map insertions that are not re-checked under a lock all writers share -/
def knownInserts : List (String × String) :=
  [("core/outlier.nodeBreakers[*][*]", "core/outlier.addNodeBreakerOfResource"),
   ("core/outlier.nodeBreakers[*]", "core/outlier.onResourceRuleUpdate")]

/-- the methods whose body must run at most once per object however many goroutines call them -/
def requiredOnce : List String := ["core/base.SentinelEntry.Exit"]

end Sentinel.C15
