import Sentinel.Lemmas.Chain
namespace Sentinel.Chain

theorem poolGet_ext (h : Heap) : h.Ext (poolGet h).1 := by
  unfold poolGet
  cases h.priv with
  | some c => exact Heap.Ext.of_eq rfl rfl rfl rfl
  | none =>
    cases h.shared with
    | cons c r => exact Heap.Ext.of_eq rfl rfl rfl rfl
    | nil => exact (newTokenResult_ext h 0 {}).trans (Heap.Ext.of_eq rfl rfl rfl rfl)

theorem poolPut_ext (h : Heap) (c : Nat) : h.Ext (poolPut h c) := by
  unfold poolPut
  cases h.priv <;> exact Heap.Ext.of_eq rfl rfl rfl rfl

theorem refurbish_ext (h : Heap) (c : Nat) : h.Ext (refurbish h c) :=
  (resetToPass_ext h _).trans (poolPut_ext _ c)

theorem doBlock_ext (c : Nat) (s : RSlot) (st : Style) (typ : Nat) (h : Heap) : h.Ext (doBlock c s st typ h).1 := by
  cases st with
  | fresh => exact newTokenResult_ext h 1 _
  | ctx => exact resetToBlockedWith_ext h _ _
  | own => exact resetToBlockedWith_ext h _ _

theorem runRules_ext (c : Nat) (rs : List RSlot) (h : Heap) : h.Ext (runRules c rs h).1 := by
  induction rs generalizing h with
  | nil => exact Heap.Ext.refl h
  | cons s r ih =>
    cases hb : s.beh with
    | panic => simpa [runRules, hb] using Heap.Ext.refl h
    | block st typ => simpa [runRules, hb] using doBlock_ext c s st typ h
    | wait => simpa [runRules, hb] using (newTokenResult_ext h 2 {}).trans (ih _)
    | pass => simpa [runRules, hb] using (newTokenResult_ext h 0 {}).trans (ih _)
    | nil => simpa [runRules, hb] using ih h

theorem chainEntry_ext (ch : ChainDef) (c : Nat) (h : Heap) : h.Ext (chainEntry ch c h).1 := by
  unfold chainEntry
  rcases runPrep ch.ps with ⟨l1, k1, p1⟩
  dsimp only
  cases p1 with
  | true => simpa using Heap.Ext.refl h
  | false =>
    simp only [Bool.false_eq_true, if_false]
    have hr := runRules_ext c ch.rs h
    rcases hrr : runRules c ch.rs h with ⟨h2, l2, k2, ro⟩
    rw [hrr] at hr
    dsimp only at hr
    cases ro with
    | panic => exact hr
    | allPass => exact hr.trans (resetToPass_ext h2 _)
    | blocked t => exact hr.trans (Heap.Ext.of_eq rfl rfl rfl rfl)

theorem exitBody_ext (ss : List SSlot) (hooks : Hooks) (c : Nat) (h : Heap) : h.Ext (exitBody ss hooks c h).1 := by
  simpa [exitBody] using refurbish_ext h c

/-- the deep copy handed to the caller -/
theorem hold_ext (h : Heap) (b : BErr) : h.Ext { (allocBE h b).1 with held := h.nbe :: h.held } := by
  intro hi
  refine ⟨⟨?_, ?_, ?_⟩, ?_⟩
  · intro a ha
    simp only [List.mem_cons] at ha
    rcases ha with rfl | ha
    · simp [allocBE]
    · have := hi.held_lt a ha; simp [allocBE]; omega
  · intro t a hta; have := hi.be_lt t a (by simpa [allocBE] using hta); simp [allocBE]; omega
  · intro t a hta hmem
    have hta' : (h.trs t).be = some a := by simpa [allocBE] using hta
    simp only [List.mem_cons] at hmem
    rcases hmem with rfl | hmem
    · have := hi.be_lt t _ hta'; omega
    · exact hi.be_nh t a hta' hmem
  · intro a ha
    have := hi.held_lt a ha
    refine ⟨List.mem_cons_of_mem _ ha, ?_⟩
    simp [allocBE, upd]; omega

theorem apiEntry_ext (ch : ChainDef) (h : Heap) : h.Ext (apiEntry ch h).1 := by
  unfold apiEntry
  have hg := poolGet_ext h
  rcases hpg : poolGet h with ⟨h1, c⟩
  rw [hpg] at hg
  dsimp only at hg ⊢
  have hc := chainEntry_ext ch c h1
  rcases hce : chainEntry ch c h1 with ⟨h2, l, ks, r⟩
  rw [hce] at hc
  dsimp only at hc ⊢
  cases r with
  | none => exact hg.trans hc
  | some t =>
    dsimp only
    split_ifs
    · cases getBE h2 t with
      | none => exact hg.trans hc
      | some b =>
        dsimp only [allocBE]
        exact (hg.trans hc).trans ((hold_ext h2 b).trans (exitBody_ext ch.ss ks c _))
    · exact hg.trans hc

theorem addSlot_ext (h : Heap) (ch : ChainDef) (x : SlotSpec) : h.Ext (addSlot h ch x).1 := by
  cases x with
  | p x => exact Heap.Ext.refl h
  | s x => exact Heap.Ext.refl h
  | r x =>
    simp only [addSlot]
    split_ifs
    · exact (newTokenResult_ext h 0 {}).trans (Heap.Ext.of_eq rfl rfl rfl rfl)
    · exact Heap.Ext.refl h

theorem addSlots_ext (xs : List SlotSpec) (h : Heap) (ch : ChainDef) : h.Ext (addSlots xs h ch).1 := by
  induction xs generalizing h ch with
  | nil => exact Heap.Ext.refl h
  | cons x r ih =>
    unfold addSlots
    have := addSlot_ext h ch x
    rcases hx : addSlot h ch x with ⟨h1, ch1⟩
    rw [hx] at this
    exact this.trans (ih h1 ch1)

@[simp] theorem setChain_h (s : State) (n : String) (ch : ChainDef) : (setChain s n ch).h = s.h := rfl
@[simp] theorem setEntry_h (s : State) (r : EntryRec) : (setEntry s r).h = s.h := rfl

theorem step_ext (s : State) (op : Op) : s.h.Ext (step s op).1.h := by
  cases op with
  | chain n slots =>
    simp only [step, stepChain]
    cases findChain s n with
    | some _ => exact Heap.Ext.refl _
    | none => exact addSlots_ext slots s.h {}
  | add n slot =>
    simp only [step, stepAdd]
    cases findChain s n with
    | none => exact Heap.Ext.refl _
    | some ch => exact addSlot_ext s.h ch slot
  | entry e n =>
    simp only [step, stepEntry]
    cases findEntry s e with
    | some _ => exact Heap.Ext.refl _
    | none =>
      cases findChain s n with
      | none => exact Heap.Ext.refl _
      | some ch =>
        have := apiEntry_ext ch s.h
        simp only [recordEntry]
        cases (apiEntry ch s.h).2.2 <;> exact this
  | whenexit e id b =>
    simp only [step, stepWhenExit]
    cases findEntry s e with
    | none => exact Heap.Ext.refl _
    | some r =>
      dsimp only
      split_ifs <;> exact Heap.Ext.refl _
  | exit e =>
    simp only [step, stepExit]
    cases findEntry s e with
    | none => exact Heap.Ext.refl _
    | some r =>
      dsimp only
      split_ifs
      · exact Heap.Ext.refl _
      · exact Heap.Ext.refl _
      · cases findChain s r.chain with
        | none => exact Heap.Ext.refl _
        | some ch => exact exitBody_ext ch.ss r.hooks r.ctx s.h
  | log => exact Heap.Ext.refl _
  | ident e =>
    simp only [step]
    cases findEntry s e <;> exact Heap.Ext.refl _
  | blockerr e =>
    simp only [step, stepBlockErr]
    cases findEntry s e with
    | none => exact Heap.Ext.refl _
    | some r => dsimp only; cases r.blockAt <;> exact Heap.Ext.refl _
  | globalorder => exact Heap.Ext.refl _

theorem runOps_ext (ops : List Op) (s : State) : s.h.Ext (runOps s ops).h := by
  induction ops generalizing s with
  | nil => exact Heap.Ext.refl _
  | cons o r ih => exact (step_ext s o).trans (ih _)

theorem init_inv : ({} : Heap).Inv := ⟨by simp, by simp, by simp⟩

end Sentinel.Chain
