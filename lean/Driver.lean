import Sentinel.Drv.C01
import Sentinel.Drv.C02
import Sentinel.Drv.C03
import Sentinel.Drv.C04
import Sentinel.Drv.C05
import Sentinel.Drv.C06
import Sentinel.Drv.C07
import Sentinel.Drv.C08
import Sentinel.Drv.C09
import Sentinel.Drv.C10
import Sentinel.Drv.C11
import Sentinel.Drv.C12
import Sentinel.Drv.C13
import Sentinel.Drv.C14
import Sentinel.Drv.C15
import Sentinel.Drv.C16
import Sentinel.Drv.C17
import Sentinel.Drv.C18
import Sentinel.Drv.C19
import Sentinel.Drv.C20
import Sentinel.Drv.INT
import Sentinel.Drv.AGG
/-! `sentinel-driver <property> <mode>` — line-protocol model driver (core Lean only, compiled).
    Modes: `model` (code-shaped model), `spec` (abstract reference) or `oracle` (judge an implementation trace). -/
def main (args : List String) : IO UInt32 := do
  match args with
  | ["C01", mode] => Sentinel.Drv.C01.run mode; return 0
  | ["C02", mode] => Sentinel.Drv.C02.run mode; return 0
  | ["C03", mode] => Sentinel.Drv.C03.run mode; return 0
  | ["C04", mode] => Sentinel.Drv.C04.run mode; return 0
  | ["C05", mode] => Sentinel.Drv.C05.run mode; return 0
  | ["C06", mode] => Sentinel.Drv.C06.run mode; return 0
  | ["C07", mode] => Sentinel.Drv.C07.run mode; return 0
  | ["C08", mode] => Sentinel.Drv.C08.run mode; return 0
  | ["C09", mode] => Sentinel.Drv.C09.run mode; return 0
  | ["C10", mode] => Sentinel.Drv.C10.run mode; return 0
  | ["C11", mode] => Sentinel.Drv.C11.run mode; return 0
  | ["C12", mode] => Sentinel.Drv.C12.run mode; return 0
  | ["C13", mode] => Sentinel.Drv.C13.run mode; return 0
  | ["C14", mode] => Sentinel.Drv.C14.run mode; return 0
  | ["C15", mode] => Sentinel.Drv.C15.run mode; return 0
  | ["C16", mode] => Sentinel.Drv.C16.run mode; return 0
  | ["C17", mode] => Sentinel.Drv.C17.run mode; return 0
  | ["C18", mode] => Sentinel.Drv.C18.run mode; return 0
  | ["C19", mode] => Sentinel.Drv.C19.run mode; return 0
  | ["C20", mode] => Sentinel.Drv.C20.run mode; return 0
  | ["INT", mode] => Sentinel.Drv.INT.run mode; return 0
  | ["AGG", mode] => Sentinel.Drv.AGG.run mode; return 0
  | _ => IO.eprintln "usage: sentinel-driver <property> <model|spec|oracle>"; return 2
