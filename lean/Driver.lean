import Sentinel.Drv.C08
/-! `sentinel-driver <property> <mode>` — line-protocol model driver (core Lean only, compiled) -/
def main (args : List String) : IO UInt32 := do
  match args with
  | ["C08", mode] => Sentinel.Drv.C08.run mode; return 0
  | _ => IO.eprintln "usage: sentinel-driver <property> <model|spec>"; return 2
