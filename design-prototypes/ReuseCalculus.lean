import Mathlib.Tactic
/-! Prototype: the controller-reuse calculus shared by flow / circuit breaker / hotspot rule managers (C14). -/
namespace Reuse

variable {R : Type} [DecidableEq R]

structure Ctl (R : Type) where
  id : Nat          -- identity of the controller object (and of its mutable state)
  statId : Nat      -- identity of the statistic object it is bound to
  rule : R
deriving Repr, DecidableEq

/-- calculateReuseIndexFor: first equal wins; otherwise the first stat-reusable -/
def reuseIdx (sr : R → R → Bool) (r : R) : List (Ctl R) → Nat → Option Nat → (Option Nat × Option Nat)
  | [], _, reuse => (none, reuse)
  | c :: cs, i, reuse =>
    if c.rule = r then (some i, reuse)
    else if sr c.rule r ∧ reuse.isNone then reuseIdx sr r cs (i+1) (some i)
    else reuseIdx sr r cs (i+1) reuse

/-- build*: processes the new rules in order, consuming old controllers -/
def build (sr : R → R → Bool) : List R → List (Ctl R) → Nat → List (Ctl R)
  | [], _, _ => []
  | r :: rs, old, next =>
    match reuseIdx sr r old 0 none with
    | (some i, _) => match old[i]? with
        | some c => c :: build sr rs (old.eraseIdx i) next
        | none => build sr rs old next
    | (none, some j) => match old[j]? with
        | some c => { id := next, statId := c.statId, rule := r } :: build sr rs (old.eraseIdx j) (next+1)
        | none => build sr rs old next
    | (none, none) => { id := next, statId := next, rule := r } :: build sr rs old (next+1)

/-! ### the defect: a modified sibling listed first steals the unchanged rule's controller -/
section witness
abbrev Rl := Nat × Nat     -- (resource/stat key, threshold)
def srRl (a b : Rl) : Bool := a.1 == b.1

/-- old = [A] (controller 0, say an open breaker); new = [A′, A] -/
theorem steal_witness :
    (build srRl [(7, 50), (7, 1)] [⟨0, 0, (7, 1)⟩] 1).map (fun c => (c.rule, c.id))
      = [((7, 50), 1), ((7, 1), 2)] := by decide        -- A is rebuilt as controller 2: its state is gone

/-- with the unchanged rule listed first its controller (id 0) is kept -/
example :
    (build srRl [(7, 1), (7, 50)] [⟨0, 0, (7, 1)⟩] 1).map (fun c => (c.rule, c.id))
      = [((7, 1), 0), ((7, 50), 1)] := by decide
end witness

/-! ### the partial theorem: without stat-only reuse, every unchanged rule keeps its controller -/

theorem reuseIdx_none_of_noSteal (sr : R → R → Bool) (r : R) (old : List (Ctl R)) (i : Nat)
    (hns : ∀ c ∈ old, sr c.rule r = true → c.rule = r) :
    (reuseIdx sr r old i none).2 = none ∨ (reuseIdx sr r old i none).1.isSome := by
  induction old generalizing i with
  | nil => left; rfl
  | cons c cs ih =>
    unfold reuseIdx
    by_cases h : c.rule = r
    · right; simp [h]
    · have hsr : sr c.rule r = false := by
        by_contra hc
        exact h (hns c (List.mem_cons_self ..) (by simpa using hc))
      simp only [h, if_false, hsr]
      simpa using ih (i+1) (fun c hc => hns c (List.mem_cons_of_mem _ hc))

theorem reuseIdx_finds (sr : R → R → Bool) (r : R) (old : List (Ctl R)) (i : Nat) (reuse : Option Nat)
    (c : Ctl R) (hc : c ∈ old) (hr : c.rule = r) :
    ∃ k, (reuseIdx sr r old i reuse).1 = some (i + k) ∧ ∃ c', old[k]? = some c' ∧ c'.rule = r ∧
         ∀ k' < k, ∀ c'', old[k']? = some c'' → c''.rule ≠ r := by
  induction old generalizing i reuse with
  | nil => simp at hc
  | cons d ds ih =>
    unfold reuseIdx
    by_cases h : d.rule = r
    · exact ⟨0, by simp [h], d, by simp, h, by intro k' hk'; omega⟩
    · have hcd : c ∈ ds := by
        rcases List.mem_cons.mp hc with rfl | h'
        · exact absurd hr h
        · exact h'
      simp only [h, if_false]
      split_ifs
      all_goals
        obtain ⟨k, hk, c', hc', hr', hmin⟩ := ih (i+1) _ hcd
        refine ⟨k+1, by rw [hk]; congr 1; omega, c', by simpa using hc', hr', ?_⟩
        intro k' hk' c'' hc''
        cases k' with
        | zero => simp at hc''; subst hc''; exact h
        | succ k'' => exact hmin k'' (by omega) c'' (by simpa using hc'')

/-- old controllers carry pairwise distinct rules (what a previous load of distinct rules produces) -/
def DistinctRules (old : List (Ctl R)) : Prop := (old.map (·.rule)).Nodup


theorem reuseIdx_fst_none (sr : R → R → Bool) (r : R) (old : List (Ctl R)) (i : Nat) (reuse : Option Nat)
    (h : ∀ c ∈ old, c.rule ≠ r) : (reuseIdx sr r old i reuse).1 = none := by
  induction old generalizing i reuse with
  | nil => rfl
  | cons d ds ih =>
    unfold reuseIdx
    have hd : d.rule ≠ r := h d (List.mem_cons_self ..)
    simp only [hd, if_false]
    split_ifs <;> exact ih _ _ (fun c hc => h c (List.mem_cons_of_mem _ hc))

/-- C14 (partial): if no new rule is merely stat-reusable with an old controller (every stat-reusable pair is an
    equal pair), then every old controller whose rule is still listed is carried over unchanged — same id, same
    statistic — whatever else is added, removed or reordered. -/
theorem unchanged_keeps_controller_partial (sr : R → R → Bool) (rules : List R) (old : List (Ctl R)) (next : Nat)
    (hd : DistinctRules old)
    (hns : ∀ r ∈ rules, ∀ c ∈ old, sr c.rule r = true → c.rule = r)
    (c : Ctl R) (hc : c ∈ old) (hr : c.rule ∈ rules) :
    c ∈ build sr rules old next := by
  induction rules generalizing old next with
  | nil => simp at hr
  | cons r rs ih =>
    unfold build
    by_cases hex : ∃ c0 ∈ old, c0.rule = r
    · obtain ⟨c0, hc0, hr0⟩ := hex
      obtain ⟨k, hk, c', hc', hr', _⟩ := reuseIdx_finds sr r old 0 none c0 hc0 hr0
      have hk' : (reuseIdx sr r old 0 none).1 = some k := by simpa using hk
      rcases hres : reuseIdx sr r old 0 none with ⟨a, b⟩
      rw [hres] at hk'
      simp only at hk'
      subst hk'
      simp only [hc']
      by_cases hcc : c = c'
      · subst hcc; exact List.mem_cons_self ..
      · apply List.mem_cons_of_mem
        have hmem' : c' ∈ old := List.mem_of_getElem? hc'
        have hne : c.rule ≠ r := by
          intro heq
          -- two distinct controllers with the same rule contradict DistinctRules
          have : c = c' := by
            have hinj := List.inj_on_of_nodup_map hd
            exact hinj hc hmem' (heq.trans hr'.symm)
          exact hcc this
        have hcin : c ∈ old.eraseIdx k := by
          rw [List.mem_eraseIdx_iff_getElem?]
          obtain ⟨j, hj⟩ := List.getElem?_of_mem hc
          refine ⟨j, ?_, hj⟩
          intro hjk; subst hjk
          rw [hj] at hc'; injection hc' with hc'; exact hcc hc'
        refine ih (old.eraseIdx k) next ?_ ?_ hcin ?_
        · exact (List.Nodup.sublist ((List.eraseIdx_sublist old k).map _) hd)
        · intro r' hr'' c'' hc''
          exact hns r' (List.mem_cons_of_mem _ hr'') c'' ((List.eraseIdx_sublist old k).subset hc'')
        · rcases List.mem_cons.mp hr with h | h
          · exact absurd h hne
          · exact h
    · have hall : ∀ c0 ∈ old, c0.rule ≠ r := fun c0 h0 h1 => hex ⟨c0, h0, h1⟩
      have h1 := reuseIdx_fst_none sr r old 0 none hall
      have h2 := reuseIdx_none_of_noSteal sr r old 0 (hns r (List.mem_cons_self ..))
      rcases hres : reuseIdx sr r old 0 none with ⟨a, b⟩
      rw [hres] at h1 h2
      simp only at h1 h2
      subst h1
      have hb : b = none := by simpa using h2
      subst hb
      simp only
      apply List.mem_cons_of_mem
      refine ih old (next+1) hd ?_ hc ?_
      · intro r' hr'' c'' hc''
        exact hns r' (List.mem_cons_of_mem _ hr'') c'' hc''
      · rcases List.mem_cons.mp hr with h | h
        · exact absurd h (hall c hc)
        · exact h
#print axioms unchanged_keeps_controller_partial
end Reuse
