/-! Prototype: small-step model of one leap-array slot under a resetting writer and a reader (C09).
    Hook granularity: every atomic load/store/CAS is one step. -/
namespace LC

structure Shared where
  start : Nat        -- BucketWrap.BucketStart of slot 0
  cnt   : Nat        -- MetricBucket.counter[pass] of slot 0
  lock  : Bool := false
  recorded2000 : Nat := 0   -- ghost: amount whose atomic add for bucket 2000 has been performed
deriving Repr

inductive WPc   -- writer: addCountWithTime(now=2000, 1) on slot 0 (bucket start 2000)
  | loadStart | tryLock | storeStart | zeroCnt | unlock | addCnt | done
deriving DecidableEq, Repr

inductive RPc   -- reader: SlidingWindowMetric.getSumWithTime(now=2000), window starts [1500,2000]
  | loadStartDeprecated | loadStartPredicate | loadCnt | done (sum : Nat)
deriving DecidableEq, Repr

structure Cfg where
  sh : Shared
  w  : WPc
  r  : RPc
deriving Repr

def stepW (c : Cfg) : Cfg :=
  match c.w with
  | .loadStart => if c.sh.start = 2000 then { c with w := .addCnt } else if c.sh.start < 2000 then { c with w := .tryLock } else { c with w := .done }
  | .tryLock => if c.sh.lock then { c with w := .loadStart } else { c with sh := { c.sh with lock := true }, w := .storeStart }
  | .storeStart => { c with sh := { c.sh with start := 2000 }, w := .zeroCnt }     -- atomic.StoreUint64(&bw.BucketStart, startTime)
  | .zeroCnt => { c with sh := { c.sh with cnt := 0 }, w := .unlock }               -- mb.reset()
  | .unlock => { c with sh := { c.sh with lock := false }, w := .addCnt }
  | .addCnt => { c with sh := { c.sh with cnt := c.sh.cnt + 1, recorded2000 := c.sh.recorded2000 + 1 }, w := .done }
  | .done => c

def stepR (c : Cfg) : Cfg :=
  match c.r with
  | .loadStartDeprecated => if c.sh.start ≤ 2000 ∧ 2000 - c.sh.start ≤ 1000 then { c with r := .loadStartPredicate } else { c with r := .done 0 }
  | .loadStartPredicate => if 1500 ≤ c.sh.start ∧ c.sh.start ≤ 2000 then { c with r := .loadCnt } else { c with r := .done 0 }
  | .loadCnt => { c with r := .done c.sh.cnt }
  | .done _ => c

def run (c : Cfg) : List Bool → Cfg      -- true = writer step, false = reader step
  | [] => c
  | true :: s => run (stepW c) s
  | false :: s => run (stepR c) s

/-- slot 0 still holds bucket 1000 (expired at t=2000 for the 1000 ms view) with 5 recorded passes -/
def init : Cfg := { sh := { start := 1000, cnt := 5 }, w := .loadStart, r := .loadStartDeprecated }

/-- expired data visible: the reader reports 5 for the window [1500,2000] in which nothing has been recorded yet -/
theorem expired_visible_witness :
    let c := run init [true, true, true, false, false, false]
    c.r = .done 5 ∧ c.sh.recorded2000 = 0 := by decide

/-- when the writer runs to completion first, the reader reports exactly what was recorded -/
example : (run init [true, true, true, true, true, true, false, false, false]).r = .done 1 := by decide
end LC
