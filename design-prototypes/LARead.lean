import LAWindow  -- prototype: place next to LAWindow.lean
/-! Prototype: the code-shaped view read (`SlidingWindowMetric.getSumWithTime`) equals the reference (C08). -/
namespace LA

/-- `isBucketDeprecated` with Go's unsigned subtraction: `now - ws` wraps to a huge value when `ws > now` -/
def deprecated (I now ws : Nat) : Bool := if ws ≤ now then decide (now - ws > I) else true

/-- `getBucketStartRange` in uint64: `start = end - interval + L` wraps when `end + L < interval` -/
def rangeOf (L Iv now : Nat) : Nat × Nat :=
  let e := cbs L now
  (if Iv ≤ e + L then e + L - Iv else 2^64 + e + L - Iv, e)

/-- `SlidingWindowMetric.getSumWithTime`: parent array `a` (interval n·L), view interval `Iv` -/
def viewSum (a : Arr) (Iv now : Nat) : Nat :=
  let (lo, hi) := rangeOf a.L Iv now
  ((a.slots.filter fun s => !deprecated (a.n * a.L) now s.start && decide (lo ≤ s.start ∧ s.start ≤ hi)).map (·.cnt)).sum

theorem sum_filter_eq_readW (sl : List Slot) (p : Slot → Bool) (lo hi : Nat)
    (hp : ∀ s ∈ sl, (lo ≤ s.start ∧ s.start ≤ hi) → p s = true) :
    ((sl.filter fun s => p s && decide (lo ≤ s.start ∧ s.start ≤ hi)).map (·.cnt)).sum = readW sl lo hi := by
  unfold readW
  induction sl with
  | nil => rfl
  | cons s r ih =>
    have ihr := ih (fun s hs => hp s (List.mem_cons_of_mem _ hs))
    by_cases hw : lo ≤ s.start ∧ s.start ≤ hi
    · have := hp s (List.mem_cons_self ..) hw
      simpa [List.filter_cons, this, hw] using ihr
    · simpa [List.filter_cons, hw] using ihr

/-- C08: for every geometry, every view interval `Iv ≤ n·L` (a multiple of L is not even needed here), every monotone
    history since creation and every read time `now` with no unsigned underflow (`Iv ≤ cbs now + L`),
    the view sum is exactly the sum of the recorded amounts whose bucket lies in the aligned window. -/
theorem viewSum_eq_ref (n L now0 : Nat) (hn : 0 < n) (hL : 0 < L) (h : List (Nat × Nat)) (mono : Mono now0 h)
    (now : Nat) (hnow : ∀ e ∈ h, e.1 ≤ now) (hnow0 : now0 ≤ now) (Iv : Nat) (hIv : Iv ≤ n * L) (hIv0 : 0 < Iv)
    (hnu : Iv ≤ cbs L now + L) :
    viewSum (runAdds (mk n L now0) h) Iv now = refW L h (cbs L now + L - Iv) (cbs L now) := by
  have hLn := runAdds_nL (mk n L now0) h
  have hL' : (runAdds (mk n L now0) h).L = L := by simpa [mk] using hLn.1
  have hn' : (runAdds (mk n L now0) h).n = n := by simpa [mk] using hLn.2
  unfold viewSum rangeOf
  simp only [hL', hn', hnu, if_true]
  rw [sum_filter_eq_readW]
  · exact window_eq_ref n L now0 hn hL h mono now hnow hnow0 _ _ (by omega)
  · intro s _ hw
    -- a slot whose start lies in the window is never deprecated
    have hc : cbs L now ≤ now := by unfold cbs; omega
    unfold deprecated
    have : s.start ≤ now := le_trans hw.2 hc
    simp only [this, if_true]
    have hlt : now < cbs L now + L := by
      unfold cbs; have := Nat.mod_lt now hL; omega
    simp; omega

/-- the underflow is real: array 2×500 created at t=100, one event at t=100, view 2×1000 read at t=100 → 0 -/
theorem underflow_witness : viewSum (runAdds (mk 2 500 100) [(100, 1)]) 1000 100 = 0
    ∧ refW 500 [(100, 1)] 0 (cbs 500 100) = 1 := by decide
#print axioms viewSum_eq_ref
end LA
