import Mathlib.Tactic
/-! Prototype: slot ordering and the rule-check phase of the slot chain (C16). -/
namespace Chain

/-- `sc.xs = append(sc.xs, s); sort.SliceStable(by Order)` on an already sorted list = insert after all ≤ -/
def insertSlot {α} (ord : α → Nat) (x : α) : List α → List α
  | [] => [x]
  | y :: ys => if ord y ≤ ord x then y :: insertSlot ord x ys else x :: y :: ys

def addAll {α} (ord : α → Nat) (xs : List α) : List α := xs.foldl (fun acc x => insertSlot ord x acc) []

theorem insert_sorted {α} (ord : α → Nat) (x : α) (l : List α) (h : l.Pairwise (fun a b => ord a ≤ ord b)) :
    (insertSlot ord x l).Pairwise (fun a b => ord a ≤ ord b) := by
  induction l with
  | nil => simp [insertSlot]
  | cons y ys ih =>
    unfold insertSlot
    rw [List.pairwise_cons] at h
    split_ifs with hc
    · rw [List.pairwise_cons]
      refine ⟨?_, ih h.2⟩
      intro z hz
      have : z = x ∨ z ∈ ys := by
        clear ih h
        induction ys with
        | nil => simp [insertSlot] at hz; exact Or.inl hz
        | cons w ws ihw =>
          unfold insertSlot at hz
          split_ifs at hz
          · rcases List.mem_cons.mp hz with rfl | hz
            · exact Or.inr (List.mem_cons_self ..)
            · rcases ihw hz with h | h
              · exact Or.inl h
              · exact Or.inr (List.mem_cons_of_mem _ h)
          · rcases List.mem_cons.mp hz with rfl | hz
            · exact Or.inl rfl
            · exact Or.inr hz
      rcases this with rfl | hz
      · exact hc
      · exact h.1 z hz
    · rw [List.pairwise_cons]
      refine ⟨?_, List.pairwise_cons.mpr h⟩
      intro z hz
      rcases List.mem_cons.mp hz with rfl | hz
      · omega
      · have := h.1 z hz; omega

/-- stability: slots with the same order value keep their insertion order -/
theorem insert_filter {α} (ord : α → Nat) (x : α) (l : List α) (k : Nat)
    (h : l.Pairwise (fun a b => ord a ≤ ord b)) :
    (insertSlot ord x l).filter (fun a => ord a = k) = l.filter (fun a => ord a = k) ++ (if ord x = k then [x] else []) := by
  induction l with
  | nil => by_cases hx : ord x = k <;> simp [insertSlot, hx]
  | cons y ys ih =>
    rw [List.pairwise_cons] at h
    unfold insertSlot
    by_cases hc : ord y ≤ ord x
    · simp only [hc, if_true, List.filter_cons, ih h.2]
      by_cases hy : ord y = k <;> simp [hy]
    · simp only [hc, if_false]
      by_cases hx : ord x = k
      · -- ord x < ord y ≤ everything in ys: nothing in y :: ys has order k
        have hnone : (y :: ys).filter (fun a => ord a = k) = [] := by
          rw [List.filter_eq_nil_iff]
          intro z hz
          rcases List.mem_cons.mp hz with rfl | hz
          · simp; omega
          · have := h.1 z hz; simp; omega
        rw [List.filter_cons, hnone]
        simp [hx]
      · rw [List.filter_cons]
        simp [hx]

theorem addAll_sorted_stable {α} (ord : α → Nat) (xs : List α) :
    (addAll ord xs).Pairwise (fun a b => ord a ≤ ord b) ∧
    ∀ k, (addAll ord xs).filter (fun a => ord a = k) = xs.filter (fun a => ord a = k) := by
  unfold addAll
  have : ∀ (acc : List α), acc.Pairwise (fun a b => ord a ≤ ord b) →
      (xs.foldl (fun acc x => insertSlot ord x acc) acc).Pairwise (fun a b => ord a ≤ ord b) ∧
      ∀ k, (xs.foldl (fun acc x => insertSlot ord x acc) acc).filter (fun a => ord a = k)
            = acc.filter (fun a => ord a = k) ++ xs.filter (fun a => ord a = k) := by
    induction xs with
    | nil => intro acc h; exact ⟨h, by simp⟩
    | cons x r ih =>
      intro acc h
      obtain ⟨h1, h2⟩ := ih (insertSlot ord x acc) (insert_sorted ord x acc h)
      refine ⟨h1, ?_⟩
      intro k
      rw [List.foldl_cons, h2 k, insert_filter ord x acc k h, List.filter_cons]
      by_cases hx : ord x = k <;> simp [hx]
  simpa using this [] List.Pairwise.nil

/-! ### rule-check phase and statistic phase of `SlotChain.Entry` -/

inductive Out | pass | block (be : Nat) | panic deriving DecidableEq, Repr

structure RSlot where
  id : Nat
  order : Nat
  out : Out
deriving Repr

def isPass (s : RSlot) : Bool := s.out = .pass

/-- the `for _, s := range rcs` loop: returns the ids that ran and the phase result -/
def runRules : List RSlot → List Nat × Out
  | [] => ([], .pass)
  | s :: r => match s.out with
    | .pass => let (ids, o) := runRules r; (s.id :: ids, o)
    | o => ([s.id], o)

/-- C16: slots run in list (= sorted) order, the first non-passing slot decides, nothing after it runs -/
theorem runRules_spec (l : List RSlot) :
    runRules l = match l.dropWhile isPass with
      | [] => (l.map (·.id), .pass)
      | s :: _ => ((l.takeWhile isPass).map (·.id) ++ [s.id], s.out) := by
  induction l with
  | nil => rfl
  | cons s r ih =>
    unfold runRules
    cases ho : s.out with
    | pass =>
      have hp : isPass s = true := by simp [isPass, ho]
      simp only [List.dropWhile_cons, List.takeWhile_cons, hp, if_true, ih]
      cases r.dropWhile isPass <;> simp
    | block be =>
      have hp : isPass s = false := by simp [isPass, ho]
      simp [List.dropWhile_cons, List.takeWhile_cons, hp, ho]
    | panic =>
      have hp : isPass s = false := by simp [isPass, ho]
      simp [List.dropWhile_cons, List.takeWhile_cons, hp, ho]

/-- what each statistic slot is told by Entry (none = chain panicked before the stat phase) and by Exit -/
inductive Told | passed | blocked (be : Nat) | completed deriving DecidableEq, Repr

def entryThenExit (rules : List RSlot) (stats : List Nat) : (Option Nat) × List (Nat × Told) :=
  match (runRules rules).2 with
  | .pass => (none, stats.map (·, Told.passed) ++ stats.map (·, Told.completed))      -- admitted; exit tells completion
  | .block be => (some be, stats.map (·, Told.blocked be))                          -- blocked; exited internally, no completion
  | .panic => (none, stats.map (·, Told.completed))                                 -- fail-open; (pinned code: completion without pass)

/-- C16: absent panics every statistic slot is told the final outcome exactly once, and completion iff passed -/
theorem stat_told_once (rules : List RSlot) (stats : List Nat) (hs : stats.Nodup) (hnp : (runRules rules).2 ≠ .panic)
    (sid : Nat) (hsid : sid ∈ stats) :
    let told := (entryThenExit rules stats).2.filter (·.1 = sid)
    (told.filter (fun t => t.2 ≠ Told.completed)).length = 1 ∧
    ((told.any (·.2 = Told.completed)) = true ↔ (runRules rules).2 = .pass) := by
  unfold entryThenExit
  have hcount : ∀ (t : Told), ((stats.map (·, t)).filter (·.1 = sid)) = [(sid, t)] := by
    intro t
    induction stats with
    | nil => simp at hsid
    | cons a r ih =>
      rw [List.nodup_cons] at hs
      by_cases ha : a = sid
      · subst ha
        have : (r.map (·, t)).filter (·.1 = a) = [] := by
          rw [List.filter_eq_nil_iff]; intro x hx
          obtain ⟨b, hb, rfl⟩ := List.mem_map.mp hx
          simp; intro h; subst h; exact hs.1 hb
        simp [List.filter_cons, this]
      · have hr : sid ∈ r := by
          rcases List.mem_cons.mp hsid with h | h
          · exact absurd h.symm ha
          · exact h
        simp [List.filter_cons, ha, ih hs.2 hr]
  cases hres : (runRules rules).2 with
  | pass => simp [List.filter_append, hcount]
  | block be => simp [hcount]
  | panic => exact absurd hres hnp
#print axioms addAll_sorted_stable
#print axioms runRules_spec
#print axioms stat_told_once
end Chain
