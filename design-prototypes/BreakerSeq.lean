import Mathlib.Tactic
/-! Prototype: sequential (big-step) circuit breaker over an abstract completion window (C03).
    The leap-array refinement (M-LA) replaces `win` by the bucket array; here `win` is the list of
    completions since the last reset and `inWindow` is the aligned-bucket predicate. -/
namespace Brk

inductive St | closed | halfOpen | opened deriving DecidableEq, Repr

/-- listener events -/
inductive Tr
  | toOpen (prev : St)
  | toHalfOpen          -- always from Open
  | toClosed            -- always from HalfOpen
deriving DecidableEq, Repr

structure Rule where
  retryMs  : Nat
  minReq   : Nat
  probeNum : Nat
  I : Nat            -- stat interval (ms)
  L : Nat            -- bucket length (ms), L ∣ I
  /-- trip predicate on (bad, total) — slow ratio / error ratio / error count; parameter of §3.3 -/
  reached : Nat → Nat → Bool

structure B where
  st : St := .closed
  nextRetry : Nat := 0
  curProbe : Nat := 0
  win : List (Nat × Bool) := []     -- (completion time, bad?)
deriving Repr

def cbs (L t : Nat) : Nat := t - t % L
def inWindow (r : Rule) (now t : Nat) : Bool := decide (cbs r.L now + r.L ≤ cbs r.L t + r.I ∧ cbs r.L t ≤ cbs r.L now)
def total (r : Rule) (b : B) (now : Nat) : Nat := (b.win.filter fun e => inWindow r now e.1).length
def bad (r : Rule) (b : B) (now : Nat) : Nat := (b.win.filter fun e => inWindow r now e.1 && e.2).length

/-- TryPass; third component: the entry registers the rollback hook -/
def tryPass (r : Rule) (b : B) (now : Nat) : B × Bool × List Tr × Bool :=
  match b.st with
  | .closed => (b, true, [], false)
  | .opened => if now ≥ b.nextRetry then ({ b with st := .halfOpen }, true, [.toHalfOpen], true) else (b, false, [], false)
  | .halfOpen => (b, decide (r.probeNum > 0), [], false)

/-- exit hook of a probe entry that ended up blocked by someone else -/
def rollback (b : B) : B × List Tr :=
  if b.st = .halfOpen then ({ b with st := .opened }, [.toOpen .halfOpen]) else (b, [])

def onComplete (r : Rule) (b : B) (now : Nat) (isBad : Bool) : B × List Tr :=
  let b1 := { b with win := b.win ++ [(now, isBad)] }
  match b.st with
  | .opened => (b1, [])
  | .halfOpen =>
      if isBad then ({ b1 with st := .opened, curProbe := 0, nextRetry := now + r.retryMs }, [.toOpen .halfOpen])
      else
        let cp := b1.curProbe + 1
        if r.probeNum = 0 ∨ cp ≥ r.probeNum then ({ b1 with st := .closed, curProbe := 0, win := [] }, [.toClosed])
        else ({ b1 with curProbe := cp }, [])
  | .closed =>
      if total r b1 now ≥ r.minReq ∧ r.reached (bad r b1 now) (total r b1 now) = true
      then ({ b1 with st := .opened, nextRetry := now + r.retryMs }, [.toOpen .closed]) else (b1, [])

/-- history ops on one breaker -/
inductive Op
  | request (now : Nat) (blockedElsewhere : Bool)   -- a request reaching this breaker; if it passes here it may still be blocked by a later breaker
  | complete (now : Nat) (isBad : Bool)
deriving Repr

def step (r : Rule) (b : B) : Op → B × List Tr
  | .request now be =>
      let (b1, pass, trs, hook) := tryPass r b now
      if pass ∧ be ∧ hook then let (b2, t2) := rollback b1; (b2, trs ++ t2) else (b1, trs)
  | .complete now isBad => onComplete r b now isBad

def run (r : Rule) (b : B) : List Op → B × List Tr
  | [] => (b, [])
  | o :: os => let (b1, t1) := step r b o; let (b2, t2) := run r b1 os; (b2, t1 ++ t2)

/-- legal transition graph -/
def applyTr : St → Tr → Option St
  | .closed, .toOpen .closed => some .opened
  | .halfOpen, .toOpen .halfOpen => some .opened
  | .opened, .toHalfOpen => some .halfOpen
  | .halfOpen, .toClosed => some .closed
  | _, _ => none

def walk : St → List Tr → Option St
  | s, [] => some s
  | s, t :: ts => match applyTr s t with | some s' => walk s' ts | none => none

theorem walk_append (s : St) (a b : List Tr) (s' : St) (h : walk s a = some s') : walk s (a ++ b) = walk s' b := by
  induction a generalizing s with
  | nil => simp [walk] at h; subst h; rfl
  | cons t ts ih =>
    simp only [walk, List.cons_append] at h ⊢
    cases ht : applyTr s t with
    | none => simp [ht] at h
    | some s1 => simp only [ht] at h ⊢; exact ih s1 h

/-- every step emits a legal walk from the current state to the new state -/
theorem step_walk (r : Rule) (b : B) (o : Op) : walk b.st (step r b o).2 = some (step r b o).1.st := by
  cases o with
  | request now be =>
    cases hst : b.st with
    | closed => simp [step, tryPass, hst, walk]
    | halfOpen => simp [step, tryPass, hst, walk]
    | opened =>
      by_cases h : b.nextRetry ≤ now
      · cases be <;> simp [step, tryPass, rollback, hst, h, walk, applyTr]
      · simp [step, tryPass, hst, h, walk]
  | complete now isBad =>
    cases hst : b.st with
    | opened => simp [step, onComplete, hst, walk]
    | halfOpen =>
      cases isBad
      · by_cases h : r.probeNum = 0 ∨ b.curProbe + 1 ≥ r.probeNum
        · simp [step, onComplete, hst, h, walk, applyTr]
        · simp [step, onComplete, hst, h, walk, applyTr]
      · simp [step, onComplete, hst, walk, applyTr]
    | closed =>
      simp only [step, onComplete, hst]
      split_ifs <;> simp [walk, applyTr]

/-- C03: the listener log of ANY history is a walk in the legal graph starting at the initial state,
    ending in the breaker's final state -/
theorem log_is_path (r : Rule) (b : B) (ops : List Op) : walk b.st (run r b ops).2 = some (run r b ops).1.st := by
  induction ops generalizing b with
  | nil => rfl
  | cons o os ih =>
    simp only [run]
    rw [walk_append _ _ _ _ (step_walk r b o)]
    exact ih _

/-- C03: while open and before the deadline every request is rejected and nothing changes -/
theorem open_rejects_until (r : Rule) (b : B) (now : Nat) (be : Bool) (ho : b.st = .opened) (hlt : now < b.nextRetry) :
    step r b (.request now be) = (b, []) ∧ (tryPass r b now).2.1 = false := by
  unfold step tryPass
  simp [ho, Nat.not_le.mpr hlt]

/-- C03: it opens exactly when, on a completion while closed, the window holds ≥ minReq and the metric reached the threshold;
    and then the deadline is a full timeout away -/
theorem opens_iff (r : Rule) (b : B) (now : Nat) (isBad : Bool) (hc : b.st = .closed) :
    let b1 := { b with win := b.win ++ [(now, isBad)] }
    ((onComplete r b now isBad).1.st = .opened ↔ (total r b1 now ≥ r.minReq ∧ r.reached (bad r b1 now) (total r b1 now) = true))
    ∧ ((onComplete r b now isBad).1.st = .opened → (onComplete r b now isBad).1.nextRetry = now + r.retryMs) := by
  unfold onComplete
  simp only [hc]
  split_ifs with h <;> simp_all

/-- C03: a failed probe re-opens for a full timeout; enough successful probes close and clear the statistics -/
theorem halfopen_outcomes (r : Rule) (b : B) (now : Nat) (hh : b.st = .halfOpen) :
    ((onComplete r b now true).1.st = .opened ∧ (onComplete r b now true).1.nextRetry = now + r.retryMs) ∧
    ((r.probeNum = 0 ∨ b.curProbe + 1 ≥ r.probeNum) →
       (onComplete r b now false).1.st = .closed ∧ (onComplete r b now false).1.win = [] ∧ (onComplete r b now false).1.curProbe = 0) := by
  unfold onComplete
  simp only [hh]
  refine ⟨by simp, ?_⟩
  intro h
  simp [h]
#print axioms log_is_path
end Brk
