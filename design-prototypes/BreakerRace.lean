/-! Prototype: small-step interleaving model of breaker open/probe race (C12) -/
namespace CB
inductive St | closed | halfOpen | opened deriving DecidableEq, Repr

structure Shared where
  st : St := .closed
  nextRetry : Nat := 0
  clock : Nat := 100
  timeout : Nat := 1000
  openedAt : Option Nat := none
  earlyProbe : Bool := false      -- monitor: a probe admitted before openedAt + timeout
deriving Repr

/-- thread-local program counters -/
inductive Pc
  | tpLoadState | tpLoadRetry | tpCas | tpDone (r : Bool)
  | ocCas | ocStoreRetry | ocDone
deriving DecidableEq, Repr

def step (s : Shared) (pc : Pc) : Shared × Pc :=
  match pc with
  | .tpLoadState => match s.st with
      | .closed => (s, .tpDone true)
      | .opened => (s, .tpLoadRetry)
      | .halfOpen => (s, .tpDone false)
  | .tpLoadRetry => if s.clock ≥ s.nextRetry then (s, .tpCas) else (s, .tpDone false)
  | .tpCas => if s.st = .opened then
        let early := match s.openedAt with | some o => decide (s.clock < o + s.timeout) | none => false
        ({ s with st := .halfOpen, earlyProbe := s.earlyProbe || early }, .tpDone true)
      else (s, .tpDone false)
  | .ocCas => if s.st = .closed then ({ s with st := .opened, openedAt := some s.clock }, .ocStoreRetry) else (s, .ocDone)
  | .ocStoreRetry => ({ s with nextRetry := s.clock + s.timeout }, .ocDone)
  | pc => (s, pc)

structure Cfg where
  sh : Shared
  th : List Pc
deriving Repr

def Cfg.sched (c : Cfg) (i : Nat) : Cfg :=
  match c.th[i]? with
  | none => c
  | some pc => let (s', pc') := step c.sh pc; { sh := s', th := c.th.set i pc' }

def run (c : Cfg) : List Nat → Cfg
  | [] => c
  | i :: r => run (c.sched i) r

def init : Cfg := { sh := {}, th := [.ocCas, .tpLoadState] }

/-- the property is false at atomic-access granularity: witness schedule -/
theorem early_probe_witness : (run init [0, 1, 1, 1]).sh.earlyProbe = true := by decide

/-- …while running the completion to its end first is fine -/
example : (run init [0, 0, 1, 1, 1]).sh.earlyProbe = false := by decide
end CB
