import Mathlib.Tactic
/-! Prototype: hotspot reject-mode token bucket for one value (C05), sequential, all histories. -/
namespace TB

structure Cfg where
  T : Nat        -- tokenCount (threshold or specific item), > 0
  burst : Nat
  Dms : Nat      -- durationInSec * 1000, > 0
deriving Repr

structure St where
  first : Nat      -- time the value was first seen (ghost)
  lastAdd : Nat    -- RuleTimeCounter cell
  tokens : Nat     -- RuleTokenCounter cell (never negative in the code: guarded)
  admitted : Nat   -- ghost: tokens admitted so far
deriving Repr

def maxC (c : Cfg) : Nat := c.T + c.burst

/-- first request for a value (cache miss) -/
def firstSeen (c : Cfg) (now b : Nat) : Option St :=
  if b > maxC c then none else some { first := now, lastAdd := now, tokens := maxC c - b, admitted := b }

/-- subsequent request; returns new state and whether it passed -/
def req (c : Cfg) (s : St) (now b : Nat) : St × Bool :=
  if b > maxC c then (s, false) else
  let passTime := now - s.lastAdd
  if passTime > c.Dms then
    let toAdd := passTime * c.T / c.Dms
    let avail := if toAdd + s.tokens > maxC c then maxC c else toAdd + s.tokens
    if avail < b then (s, false)
    else ({ s with lastAdd := now, tokens := avail - b, admitted := s.admitted + b }, true)
  else
    if s.tokens < b then (s, false)
    else ({ s with tokens := s.tokens - b, admitted := s.admitted + b }, true)

/-- envelope invariant: admitted + tokens ≤ max + T·(lastAdd − first)/D, with first ≤ lastAdd -/
structure Inv (c : Cfg) (s : St) : Prop where
  ord : s.first ≤ s.lastAdd
  cap : s.tokens ≤ maxC c
  env : s.admitted + s.tokens ≤ maxC c + (s.lastAdd - s.first) * c.T / c.Dms

theorem div_add_div_le (a b d : Nat) : a / d + b / d ≤ (a + b) / d := by
  rcases Nat.eq_zero_or_pos d with h | h
  · simp [h]
  · rw [Nat.add_div h]; split_ifs <;> omega

theorem req_inv (c : Cfg) (s : St) (now b : Nat) (hnow : s.lastAdd ≤ now)
    (inv : Inv c s) : Inv c (req c s now b).1 := by
  obtain ⟨ho, hc, he⟩ := inv
  unfold req
  by_cases h1 : b > maxC c
  · simpa [h1] using ⟨ho, hc, he⟩
  · simp only [h1, if_false]
    by_cases h2 : now - s.lastAdd > c.Dms
    · simp only [h2, if_true]
      -- key arithmetic fact: refills over disjoint intervals add up to at most the refill over the union
      have hsum : (s.lastAdd - s.first) * c.T / c.Dms + (now - s.lastAdd) * c.T / c.Dms
            ≤ (now - s.first) * c.T / c.Dms := by
        have h := div_add_div_le ((s.lastAdd - s.first) * c.T) ((now - s.lastAdd) * c.T) c.Dms
        have e : (s.lastAdd - s.first) * c.T + (now - s.lastAdd) * c.T = (now - s.first) * c.T := by
          rw [← Nat.add_mul]; congr 1; omega
        rwa [e] at h
      by_cases h3 : (now - s.lastAdd) * c.T / c.Dms + s.tokens > maxC c
      · simp only [h3, if_true]
        by_cases h4 : maxC c < b
        · exact absurd h4 (by omega)
        · simp only [h4, if_false]
          exact ⟨by simp; omega, by simp, by simp; omega⟩
      · simp only [h3, if_false]
        by_cases h4 : (now - s.lastAdd) * c.T / c.Dms + s.tokens < b
        · simpa [h4] using ⟨ho, hc, he⟩
        · simp only [h4, if_false]
          exact ⟨by simp; omega, by simp; omega, by simp; omega⟩
    · simp only [h2, if_false]
      by_cases h4 : s.tokens < b
      · simpa [h4] using ⟨ho, hc, he⟩
      · simp only [h4, if_false]
        exact ⟨ho, by simp; omega, by simp; omega⟩

/-- all histories: fold of requests with non-decreasing times -/
def runReqs (c : Cfg) (s : St) : List (Nat × Nat) → St
  | [] => s
  | (t, b) :: r => runReqs c (req c s t b).1 r

theorem lastAdd_le (c : Cfg) (s : St) (now b : Nat) (h : s.lastAdd ≤ now) : (req c s now b).1.lastAdd ≤ now := by
  unfold req
  by_cases h1 : b > maxC c
  · simpa [h1] using h
  · simp only [h1, if_false]
    by_cases h2 : now - s.lastAdd > c.Dms
    · simp only [h2, if_true]
      split_ifs <;> simp <;> omega
    · simp only [h2, if_false]
      split_ifs <;> simp <;> omega

/-- request times are non-decreasing, starting at or after `prev` -/
def Mono (prev : Nat) : List (Nat × Nat) → Prop
  | [] => True
  | (t, _) :: r => prev ≤ t ∧ Mono t r

theorem run_inv (c : Cfg) (s : St) (h : List (Nat × Nat)) (prev : Nat) (inv : Inv c s)
    (hp : s.lastAdd ≤ prev) (mono : Mono prev h) : Inv c (runReqs c s h) := by
  induction h generalizing s prev with
  | nil => exact inv
  | cons e r ih =>
    obtain ⟨t, b⟩ := e
    obtain ⟨h1, h2⟩ := mono
    have hle : s.lastAdd ≤ t := le_trans hp h1
    exact ih _ t (req_inv c s t b hle inv) (lastAdd_le c s t b hle) h2

/-- the property's envelope, for every history of requests for one value:
    admitted ≤ (T+burst) + T·(elapsed since first seen)/D -/
theorem envelope (c : Cfg) (now0 b0 : Nat) (s0 : St) (h0 : firstSeen c now0 b0 = some s0)
    (h : List (Nat × Nat)) (mono : Mono now0 h) :
    let s' := runReqs c s0 h
    s'.admitted ≤ maxC c + (s'.lastAdd - now0) * c.T / c.Dms := by
  unfold firstSeen at h0
  split_ifs at h0 with hb
  injection h0 with h0; subst h0
  have inv0 : Inv c { first := now0, lastAdd := now0, tokens := maxC c - b0, admitted := b0 } :=
    ⟨le_refl _, by simp, by simp; omega⟩
  have hfirst : ∀ (s : St) (l : List (Nat × Nat)), (runReqs c s l).first = s.first := by
    intro s l
    induction l generalizing s with
    | nil => rfl
    | cons e r ih =>
      obtain ⟨t, b⟩ := e
      simp only [runReqs]; rw [ih]
      unfold req; dsimp only; split_ifs <;> rfl
  have := (run_inv c _ h now0 inv0 (le_refl _) mono).env
  rw [hfirst] at this
  simp only at this ⊢; omega
#print axioms envelope
end TB
