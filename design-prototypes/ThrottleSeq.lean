import Mathlib.Tactic
/-! Prototype: flow ThrottlingChecker.DoCheck, sequential callers, all histories in virtual ns (C10). -/
namespace ThS

inductive Res
  | pass (at_ : Int) (wait : Int)    -- admitted; scheduled pass time = now + wait
  | block
deriving DecidableEq, Repr

/-- DoCheck with `last` = lastPassedTime, `iv` = interval for this batch (> 0), `maxQ` ≥ 0 -/
def doCheck (last maxQ now iv : Int) : Int × Res :=
  if last + iv ≤ now then (now, .pass now 0)                       -- idle: CAS to now
  else
    let est := last + iv - now
    if est > maxQ then (last, .block)                               -- pre-check
    else
      let new := last + iv                                          -- atomic add
      let est2 := new - now
      if est2 > maxQ then (new - iv, .block)                        -- rollback
      else (new, .pass (now + est2) est2)

/-- history: (now, iv) with non-decreasing `now` -/
def run (last maxQ : Int) : List (Int × Int) → Int × List Res
  | [] => (last, [])
  | (now, iv) :: r => let (l1, o) := doCheck last maxQ now iv; let (l2, os) := run l1 maxQ r; (l2, o :: os)

/-- per-call facts -/
theorem doCheck_cases (last maxQ now iv : Int) :
    (last + iv ≤ now ∧ doCheck last maxQ now iv = (now, .pass now 0)) ∨
    (¬ last + iv ≤ now ∧ last + iv - now > maxQ ∧ doCheck last maxQ now iv = (last, .block)) ∨
    (¬ last + iv ≤ now ∧ ¬ last + iv - now > maxQ ∧
       doCheck last maxQ now iv = (last + iv, .pass (now + (last + iv - now)) (last + iv - now))) := by
  unfold doCheck
  by_cases h1 : last + iv ≤ now
  · left; exact ⟨h1, by simp [h1]⟩
  · by_cases h2 : last + iv - now > maxQ
    · right; left; exact ⟨h1, h2, by simp [h1, h2]⟩
    · right; right; exact ⟨h1, h2, by simp [h1, h2]⟩

theorem pass_case (last maxQ now iv l' p w : Int) (hiv : 0 < iv) (hq : 0 ≤ maxQ)
    (h : doCheck last maxQ now iv = (l', .pass p w)) :
    p = now + w ∧ 0 ≤ w ∧ w ≤ maxQ ∧ last + iv ≤ p ∧ l' = p := by
  rcases doCheck_cases last maxQ now iv with ⟨h1, he⟩ | ⟨h1, h2, he⟩ | ⟨h1, h2, he⟩
  · rw [he] at h; simp only [Prod.mk.injEq, Res.pass.injEq] at h
    obtain ⟨rfl, rfl, rfl⟩ := h; omega
  · rw [he] at h; simp at h
  · rw [he] at h; simp only [Prod.mk.injEq, Res.pass.injEq] at h
    obtain ⟨rfl, rfl, rfl⟩ := h; omega

theorem block_case (last maxQ now iv l' : Int) (hiv : 0 < iv) (hq : 0 ≤ maxQ)
    (h : doCheck last maxQ now iv = (l', .block)) :
    l' = last ∧ last + iv - now > maxQ := by
  rcases doCheck_cases last maxQ now iv with ⟨h1, he⟩ | ⟨h1, h2, he⟩ | ⟨h1, h2, he⟩
  · rw [he] at h; simp at h
  · rw [he] at h; simp only [Prod.mk.injEq, and_true] at h
    exact ⟨h.symm, h2⟩
  · rw [he] at h; simp at h

/-- invariant along a history: `last` is the latest scheduled pass time (or the initial value) -/
def passTimes : List Res → List Int
  | [] => []
  | .pass p _ :: r => p :: passTimes r
  | .block :: r => passTimes r

/-- C10 (sequential): consecutive pass times are at least the later request's interval apart, no wait exceeds
    maxQ, and a rejection happens only when honouring the spacing would exceed maxQ. Stated as a checkable
    predicate over the trace, threaded with the running `last`. -/
def okTrace (maxQ : Int) : Int → List (Int × Int) → List Res → Prop
  | _, [], [] => True
  | last, (now, iv) :: hs, (.pass p w) :: rs => p = now + w ∧ 0 ≤ w ∧ w ≤ maxQ ∧ last + iv ≤ p ∧ okTrace maxQ p hs rs
  | last, (now, iv) :: hs, .block :: rs => last + iv - now > maxQ ∧ okTrace maxQ last hs rs
  | _, _, _ => False

theorem run_ok (last maxQ : Int) (hq : 0 ≤ maxQ) (h : List (Int × Int)) (hiv : ∀ e ∈ h, 0 < e.2) :
    okTrace maxQ last h (run last maxQ h).2 := by
  induction h generalizing last with
  | nil => simp [run, okTrace]
  | cons e r ih =>
    obtain ⟨now, iv⟩ := e
    have hiv0 := hiv (now, iv) (List.mem_cons_self ..)
    have ihr := fun l => ih l (fun e he => hiv e (List.mem_cons_of_mem _ he))
    simp only [run]
    rcases hres : doCheck last maxQ now iv with ⟨l', o⟩
    cases o with
    | pass p w =>
      obtain ⟨h1, h2, h3, h4, h5⟩ := pass_case last maxQ now iv l' p w hiv0 hq hres
      simp only [okTrace]
      subst h5
      exact ⟨h1, h2, h3, h4, ihr _⟩
    | block =>
      obtain ⟨h1, h2⟩ := block_case last maxQ now iv l' hiv0 hq hres
      simp only [okTrace]
      subst h1
      exact ⟨h2, ihr _⟩
#print axioms run_ok
end ThS
