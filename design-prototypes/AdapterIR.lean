/-! Prototype: adapter IR, event-trace semantics with Go defer/panic, conformance by kernel evaluation (C19) -/
namespace Ad

inductive Handler | ok | err | panic deriving DecidableEq, Repr
structure Scenario where
  blocked : Bool
  handler : Handler
deriving DecidableEq, Repr

inductive Ev | entryAsked | handlerRun | traced | exit | fallback | nilDeref deriving DecidableEq, Repr

/-- straight-line adapter body; `ifBlocked` carries the then-branch -/
inductive Stmt
  | entry                      -- e, b := sentinel.Entry(...)
  | ifBlocked (thenB : List Stmt)   -- if b != nil { thenB }   (thenB normally ends in ret)
  | fallback                   -- options.blockFallback(...) / default rejection
  | ret
  | deferExit                  -- defer e.Exit()
  | exitNow                    -- e.Exit()
  | callNext (traceOnErr : Bool)  -- err := next(...); if err != nil && traceOnErr { TraceError(e, err) }
deriving Repr

structure St where
  trace    : List Ev := []
  deferred : Nat := 0           -- pending deferred Exit calls
  entryNil : Bool := false      -- e == nil (request was blocked)
  stopped  : Bool := false      -- returned or panicking
deriving Repr

mutual
def exec (sc : Scenario) (s : St) : Stmt → St
  | .entry => { s with trace := s.trace ++ [.entryAsked], entryNil := sc.blocked }
  | .ifBlocked th => if sc.blocked then execList sc s th else s
  | .fallback => { s with trace := s.trace ++ [.fallback] }
  | .ret => { s with stopped := true }
  | .deferExit => { s with deferred := s.deferred + 1 }
  | .exitNow => if s.entryNil then { s with trace := s.trace ++ [.nilDeref], stopped := true } else { s with trace := s.trace ++ [.exit] }
  | .callNext tr =>
      let s1 := { s with trace := s.trace ++ [.handlerRun] }
      match sc.handler with
      | .ok => s1
      | .err => if tr then { s1 with trace := s1.trace ++ [.traced] } else s1
      | .panic => { s1 with stopped := true }
def execList (sc : Scenario) (s : St) : List Stmt → St
  | [] => s
  | x :: r => if s.stopped then s else execList sc (exec sc s x) r
end

/-- run body, then run deferred exits (they run on return and on panic alike) -/
def runProg (sc : Scenario) (p : List Stmt) : List Ev :=
  let s := execList sc {} p
  let rec unwind (n : Nat) (tr : List Ev) (nil : Bool) : List Ev :=
    match n with
    | 0 => tr
    | k+1 => unwind k (tr ++ [if nil then .nilDeref else .exit]) nil
  unwind s.deferred s.trace s.entryNil

def count (e : Ev) (l : List Ev) : Nat := l.count e

/-- the property's sentence on a trace -/
def conforms (sc : Scenario) (tr : List Ev) : Bool :=
  tr.head? = some .entryAsked &&
  count .nilDeref tr = 0 &&
  (if sc.blocked then count .handlerRun tr = 0 && count .fallback tr = 1 && count .exit tr = 0
   else count .handlerRun tr = 1 && count .exit tr = 1 && count .fallback tr = 0 &&
        (sc.handler != .err || count .traced tr = 1) &&
        -- exit after the handler
        (tr.getLast? = some .exit))

def scenarios : List Scenario :=
  [⟨true,.ok⟩,⟨true,.err⟩,⟨true,.panic⟩,⟨false,.ok⟩,⟨false,.err⟩,⟨false,.panic⟩]

def conformsAll (p : List Stmt) : Bool := scenarios.all fun sc => conforms sc (runProg sc p)

-- what the translator would emit for grpc NewUnaryServerInterceptor / kitex server / micro handler wrapper
def grpcUnaryServer : List Stmt :=
  [.entry, .ifBlocked [.fallback, .ret], .deferExit, .callNext true, .ret]
-- micro NewStreamWrapper: exits immediately, never wraps the stream
def microStreamWrapper : List Stmt :=
  [.entry, .ifBlocked [.fallback, .ret], .exitNow, .ret]
-- micro/kitex/kratos outlier branch: block result ignored, defer on a possibly nil entry
def outlierBranch : List Stmt :=
  [.entry, .deferExit, .callNext true, .ret]
-- echo: handler error not traced
def echoMw : List Stmt :=
  [.entry, .ifBlocked [.fallback, .ret], .deferExit, .callNext false, .ret]

theorem grpc_ok : conformsAll grpcUnaryServer = true := by decide
theorem microStream_bad : conformsAll microStreamWrapper = false := by decide
theorem outlier_bad : conforms ⟨true,.ok⟩ (runProg ⟨true,.ok⟩ outlierBranch) = false := by decide
theorem echo_bad : conforms ⟨false,.err⟩ (runProg ⟨false,.err⟩ echoMw) = false := by decide
#eval scenarios.map fun sc => (sc, runProg sc outlierBranch)
end Ad
