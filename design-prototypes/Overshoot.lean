import Mathlib.Tactic
/-! Prototype: unbounded-thread small-step invariant (C04 overshoot ≤ k-1) -/
namespace Iso

inductive Pc | idle | checked | inflight | rejected | done deriving DecidableEq, Repr

structure Cfg where
  g  : Nat            -- gauge
  th : List Pc
deriving Repr

def nChecked (c : Cfg) : Nat := c.th.countP (· = .checked)
def nInflight (c : Cfg) : Nat := c.th.countP (· = .inflight)

/-- one step of thread i; N = threshold, k = max threads allowed between check and record -/
def step (N k : Nat) (c : Cfg) (i : Nat) : Cfg :=
  match c.th[i]? with
  | some .idle =>
      if nChecked c < k then           -- admission-path width bound (enabling condition)
        if c.g + 1 ≤ N then { c with th := c.th.set i .checked } else { c with th := c.th.set i .rejected }
      else c
  | some .checked => { g := c.g + 1, th := c.th.set i .inflight }
  | some .inflight => { g := c.g - 1, th := c.th.set i .done }
  | _ => c

def run (N k : Nat) (c : Cfg) : List Nat → Cfg
  | [] => c
  | i :: r => run N k (step N k c i) r

structure Inv (N k : Nat) (c : Cfg) : Prop where
  gauge : c.g = nInflight c
  pot   : c.g + nChecked c ≤ N + (k - 1)
  width : nChecked c ≤ k

theorem countP_set_of {l : List Pc} {i : Nat} {old new : Pc} (p : Pc)
    (h : l[i]? = some old) :
    (l.set i new).countP (· = p) + (if old = p then 1 else 0) = l.countP (· = p) + (if new = p then 1 else 0) := by
  induction l generalizing i with
  | nil => simp at h
  | cons a r ih =>
    cases i with
    | zero =>
      simp at h; subst h
      simp only [List.set_cons_zero, List.countP_cons, decide_eq_true_eq]
      split_ifs <;> omega
    | succ j =>
      simp at h
      have := ih h
      simp only [List.set_cons_succ, List.countP_cons]
      omega

theorem step_inv (N k : Nat) (hk : 1 ≤ k) (c : Cfg) (i : Nat) (inv : Inv N k c) : Inv N k (step N k c i) := by
  obtain ⟨hg, hp, hw⟩ := inv
  unfold step
  cases hth : c.th[i]? with
  | none => simpa using ⟨hg, hp, hw⟩
  | some pc =>
    have hc := fun new p => countP_set_of (l := c.th) (i := i) (old := pc) (new := new) p hth
    cases pc <;> simp only []
    · -- idle
      split_ifs with h1 h2
      · have a := hc .checked .checked; have b := hc .checked .inflight
        simp at a b
        exact ⟨by simp [nInflight, nChecked] at *; omega, by simp [nInflight, nChecked] at *; omega, by simp [nChecked] at *; omega⟩
      · have a := hc .rejected .checked; have b := hc .rejected .inflight
        simp at a b
        exact ⟨by simp [nInflight, nChecked] at *; omega, by simp [nInflight, nChecked] at *; omega, by simp [nChecked] at *; omega⟩
      · exact ⟨hg, hp, hw⟩
    · -- checked → inflight
      have a := hc .inflight .checked; have b := hc .inflight .inflight
      simp at a b
      exact ⟨by simp [nInflight, nChecked] at *; omega, by simp [nInflight, nChecked] at *; omega, by simp [nChecked] at *; omega⟩
    · -- inflight → done
      have a := hc .done .checked; have b := hc .done .inflight
      simp at a b
      exact ⟨by simp [nInflight, nChecked] at *; omega, by simp [nInflight, nChecked] at *; omega, by simp [nChecked] at *; omega⟩
    · exact ⟨hg, hp, hw⟩
    · exact ⟨hg, hp, hw⟩

theorem run_inv (N k : Nat) (hk : 1 ≤ k) (c : Cfg) (s : List Nat) (inv : Inv N k c) : Inv N k (run N k c s) := by
  induction s generalizing c with
  | nil => exact inv
  | cons i r ih => exact ih _ (step_inv N k hk c i inv)

/-- any number of threads, any schedule: in-flight never exceeds N + (k-1) -/
theorem overshoot (N k m : Nat) (hk : 1 ≤ k) (s : List Nat) :
    (run N k { g := 0, th := List.replicate m .idle } s).g ≤ N + (k - 1) := by
  have h0 : Inv N k { g := 0, th := List.replicate m .idle } := by
    refine ⟨?_, ?_, ?_⟩ <;> simp [nInflight, nChecked, List.countP_replicate]
  have := (run_inv N k hk _ s h0).pot
  omega
#print axioms overshoot
end Iso
