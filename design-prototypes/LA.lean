/-! Prototype: leap array sequential model and refinement to aligned-bucket reference -/
namespace LA

structure Slot where
  start : Nat
  cnt   : Nat
deriving Repr, DecidableEq

structure Arr where
  n : Nat
  L : Nat
  slots : List Slot
deriving Repr

def cbs (L t : Nat) : Nat := t - t % L
def idx (a : Arr) (t : Nat) : Nat := (t / a.L) % a.n

/-- NewAtomicBucketWrapArrayWithTime -/
def mk (n L now : Nat) : Arr :=
  let i0 := (now / L) % n
  let s0 := cbs L now
  { n := n, L := L,
    slots := (List.range n).map fun j =>
      { start := if i0 ≤ j then s0 + (j - i0) * L else s0 + (n - i0 + j) * L, cnt := 0 } }

inductive AddRes | ok | dropped deriving Repr, DecidableEq

def add (a : Arr) (t amt : Nat) : Arr × AddRes :=
  let i := idx a t
  let bs := cbs a.L t
  match a.slots[i]? with
  | none => (a, .dropped)
  | some s =>
    if bs = s.start then ({ a with slots := a.slots.set i { s with cnt := s.cnt + amt } }, .ok)
    else if s.start < bs then ({ a with slots := a.slots.set i { start := bs, cnt := amt } }, .ok)
    else if a.n = 1 then ({ a with slots := a.slots.set i { s with cnt := s.cnt + amt } }, .ok)
    else (a, .dropped)

/-- view read: interval I (multiple of L) -/
def read (a : Arr) (I now : Nat) : Nat :=
  let hi := cbs a.L now
  let lo := hi + a.L - I     -- assumes no underflow
  (a.slots.filter fun s => decide (s.start ≤ now ∧ now - s.start ≤ a.n * a.L ∧ lo ≤ s.start ∧ s.start ≤ hi)).foldl (fun acc s => acc + s.cnt) 0

def ref (L : Nat) (h : List (Nat × Nat)) (lo hi : Nat) : Nat :=
  (h.filter fun e => decide (lo ≤ cbs L e.1 ∧ cbs L e.1 ≤ hi)).foldl (fun acc e => acc + e.2) 0

def runAdds (a : Arr) : List (Nat × Nat) → Arr
  | [] => a
  | (t, x) :: r => runAdds (add a t x).1 r

#eval
  let a := mk 4 500 10100
  let h := [(10100, 1), (10600, 2), (11100, 4), (12200, 8), (12300,16), (13700, 32)]
  let a' := runAdds a h
  (a', read a' 1000 13700, ref 500 h (cbs 500 13700 + 500 - 1000) (cbs 500 13700))
end LA
