import LARead  -- prototype: place next to LARead.lean
/-! Prototype: reject-mode QPS admission over the leap array (C02, sequential): decision ⇔ reference window sum. -/
namespace LA

structure FS where
  a : Arr
  hist : List (Nat × Nat)      -- admitted arrivals (time, batch), oldest first

/-- one arrival: RejectTrafficShapingChecker.DoCheck on the view, then stat.Slot.OnEntryPassed records the batch.
    `T` is the threshold as an exact number (dyadic thresholds are scaled to integers by the caller). -/
def arrive (Iv T : Nat) (s : FS) (now b : Nat) : FS × Bool :=
  if viewSum s.a Iv now + b ≤ T then ({ a := (add s.a now b).1, hist := s.hist ++ [(now, b)] }, true)
  else (s, false)

def runArr (Iv T : Nat) (s : FS) : List (Nat × Nat) → FS × List Bool
  | [] => (s, [])
  | (now, b) :: r => let (s1, d) := arrive Iv T s now b; let (s2, ds) := runArr Iv T s1 r; (s2, d :: ds)

/-- representation invariant: the array is exactly what the admitted history produced -/
structure Rep (n L now0 : Nat) (s : FS) (latest : Nat) : Prop where
  arr : s.a = runAdds (mk n L now0) s.hist
  mono : Mono now0 s.hist
  le : ∀ e ∈ s.hist, e.1 ≤ latest
  l0 : now0 ≤ latest

theorem runAdds_append (a : Arr) (h : List (Nat × Nat)) (t x : Nat) :
    runAdds a (h ++ [(t, x)]) = (add (runAdds a h) t x).1 := by
  induction h generalizing a with
  | nil => rfl
  | cons e r ih => obtain ⟨t', x'⟩ := e; simp only [List.cons_append, runAdds]; exact ih _

theorem mono_append (p : Nat) (h : List (Nat × Nat)) (t x latest : Nat) (hm : Mono p h)
    (hle : ∀ e ∈ h, e.1 ≤ latest) (hp : p ≤ latest) (ht : latest ≤ t) : Mono p (h ++ [(t, x)]) := by
  induction h generalizing p with
  | nil => exact ⟨le_trans hp ht, trivial⟩
  | cons e r ih =>
    obtain ⟨t', x'⟩ := e
    obtain ⟨h1, h2⟩ := hm
    refine ⟨h1, ih t' h2 (fun e he => hle e (List.mem_cons_of_mem _ he)) (hle (t', x') (List.mem_cons_self ..))⟩

/-- C02 (sequential core): at every arrival, for every geometry, the request is admitted if and only if the tokens
    admitted in the aligned window plus the batch do not exceed the threshold — `refW` is the reference over the
    history of admitted requests, not the array. -/
theorem admit_iff (n L now0 : Nat) (hn : 0 < n) (hL : 0 < L) (Iv T : Nat) (hIv : Iv ≤ n * L) (hIv0 : 0 < Iv)
    (s : FS) (latest now b : Nat) (rep : Rep n L now0 s latest) (hnow : latest ≤ now) (hnu : Iv ≤ cbs L now + L) :
    ((arrive Iv T s now b).2 = true ↔ refW L s.hist (cbs L now + L - Iv) (cbs L now) + b ≤ T)
    ∧ Rep n L now0 (arrive Iv T s now b).1 now := by
  have hv : viewSum s.a Iv now = refW L s.hist (cbs L now + L - Iv) (cbs L now) := by
    rw [rep.arr]
    exact viewSum_eq_ref n L now0 hn hL s.hist rep.mono now (fun e he => le_trans (rep.le e he) hnow)
      (le_trans rep.l0 hnow) Iv hIv hIv0 hnu
  unfold arrive
  by_cases hc : viewSum s.a Iv now + b ≤ T
  · simp only [hc, if_true]
    refine ⟨by rw [← hv]; simp [hc], ?_⟩
    refine ⟨?_, mono_append now0 s.hist now b latest rep.mono rep.le rep.l0 hnow, ?_, le_trans rep.l0 hnow⟩
    · show (add s.a now b).1 = runAdds (mk n L now0) (s.hist ++ [(now, b)])
      rw [runAdds_append, rep.arr]
    · intro e he
      rcases List.mem_append.mp he with h | h
      · exact le_trans (rep.le e h) hnow
      · simp at h; subst h; exact le_refl _
  · simp only [hc, if_false]
    refine ⟨by rw [← hv]; simp [hc], ⟨rep.arr, rep.mono, fun e he => le_trans (rep.le e he) hnow, le_trans rep.l0 hnow⟩⟩
#print axioms admit_iff
end LA
