import Mathlib.Tactic
/-! Prototype: "no update is duplicated or invented" for concurrent recorders, resetters and readers (C09),
    any number of threads, any schedule, at atomic-access granularity. -/
namespace NI

inductive Th
  | adder (k a : Nat) (done : Bool)          -- atomic.AddInt64(&counter[k], a)
  | resetter (k : Nat) (done : Bool)         -- atomic.StoreInt64(&counter[k], 0)   (one word of MetricBucket.reset)
  | reader (j acc : Nat)                     -- loop over slots: acc += atomic.LoadInt64(&counter[j])
deriving Repr

structure Cfg where
  cnt : List Nat         -- counter word per slot
  tot : List Nat         -- ghost: everything ever added to that slot
  th  : List Th
deriving Repr

def stepTh (cnt tot : List Nat) : Th → List Nat × List Nat × Th
  | .adder k a false => (cnt.set k (cnt.getD k 0 + a), tot.set k (tot.getD k 0 + a), .adder k a true)
  | .resetter k false => (cnt.set k 0, tot, .resetter k true)
  | .reader j acc => if j < cnt.length then (cnt, tot, .reader (j+1) (acc + cnt.getD j 0)) else (cnt, tot, .reader j acc)
  | t => (cnt, tot, t)

def Cfg.sched (c : Cfg) (i : Nat) : Cfg :=
  match c.th[i]? with
  | none => c
  | some t => let (c1, t1, t') := stepTh c.cnt c.tot t; { cnt := c1, tot := t1, th := c.th.set i t' }

def run (c : Cfg) : List Nat → Cfg
  | [] => c
  | i :: r => run (c.sched i) r

def thOk (tot : List Nat) : Th → Prop
  | .reader j acc => acc ≤ (tot.take j).sum
  | _ => True

structure Inv (c : Cfg) : Prop where
  len : c.cnt.length = c.tot.length
  le  : ∀ i, c.cnt.getD i 0 ≤ c.tot.getD i 0
  rd  : ∀ t ∈ c.th, thOk c.tot t

theorem take_sum_set_le (l : List Nat) (k v j : Nat) (h : l.getD k 0 ≤ v) :
    (l.take j).sum ≤ ((l.set k v).take j).sum := by
  induction l generalizing k j with
  | nil => simp
  | cons a r ih =>
    cases j with
    | zero => simp
    | succ j' =>
      cases k with
      | zero => simp at h; simp; omega
      | succ k' =>
        simp only [List.set_cons_succ, List.take_succ_cons, List.sum_cons]
        have := ih k' j' (by simpa using h)
        omega

theorem take_succ_sum (l : List Nat) (j : Nat) (hj : j < l.length) :
    (l.take (j+1)).sum = (l.take j).sum + l.getD j 0 := by
  induction l generalizing j with
  | nil => simp at hj
  | cons a r ih =>
    cases j with
    | zero => simp
    | succ j' =>
      simp only [List.take_succ_cons, List.sum_cons]
      have := ih j' (by simpa using hj)
      simp only [List.getD_cons_succ]
      omega

theorem getD_set (l : List Nat) (k v i : Nat) : (l.set k v).getD i 0 = if i = k ∧ k < l.length then v else l.getD i 0 := by
  simp only [List.getD_eq_getElem?_getD, List.getElem?_set]
  by_cases h : k = i
  · subst h
    by_cases hk : k < l.length <;> simp [hk]
  · have : ¬ (i = k ∧ k < l.length) := fun hh => h hh.1.symm
    simp [h, this]

theorem sched_inv (c : Cfg) (i : Nat) (inv : Inv c) : Inv (c.sched i) := by
  obtain ⟨hl, hle, hrd⟩ := inv
  unfold Cfg.sched
  cases hth : c.th[i]? with
  | none => exact ⟨hl, hle, hrd⟩
  | some t =>
    have hmem : t ∈ c.th := List.mem_of_getElem? hth
    have others : ∀ (tot' : List Nat), (∀ t0 ∈ c.th, thOk c.tot t0 → thOk tot' t0) → ∀ t' , thOk tot' t' →
        ∀ u ∈ c.th.set i t', thOk tot' u := by
      intro tot' hmono t' ht' u hu
      rcases List.mem_or_eq_of_mem_set hu with hu | rfl
      · exact hmono u hu (hrd u hu)
      · exact ht'
    cases t with
    | adder k a done =>
      cases done with
      | true =>
        simp only [stepTh]
        exact ⟨hl, hle, others c.tot (fun _ _ h => h) (.adder k a true) trivial⟩
      | false =>
        simp only [stepTh]
        refine ⟨by simp [hl], ?_, ?_⟩
        · intro i'
          rw [getD_set, getD_set, hl]
          have := hle i'; have := hle k
          split_ifs <;> omega
        · refine others (c.tot.set k (c.tot.getD k 0 + a)) ?_ (.adder k a true) trivial
          intro t0 _ h0
          cases t0 with
          | reader j acc => exact le_trans h0 (take_sum_set_le c.tot k _ j (by omega))
          | adder => trivial
          | resetter => trivial
    | resetter k done =>
      cases done with
      | true =>
        simp only [stepTh]
        exact ⟨hl, hle, others c.tot (fun _ _ h => h) (.resetter k true) trivial⟩
      | false =>
        simp only [stepTh]
        refine ⟨by simp [hl], ?_, ?_⟩
        · intro i'
          rw [getD_set]
          have := hle i'
          split_ifs <;> omega
        · exact others c.tot (fun _ _ h => h) (.resetter k true) trivial
    | reader j acc =>
      simp only [stepTh]
      split_ifs with hj
      · refine ⟨hl, hle, ?_⟩
        apply others _ (fun _ _ h => h)
        show acc + c.cnt.getD j 0 ≤ (c.tot.take (j+1)).sum
        rw [take_succ_sum c.tot j (by omega)]
        have h1 : acc ≤ (c.tot.take j).sum := hrd _ hmem
        have := hle j
        omega
      · exact ⟨hl, hle, others _ (fun _ _ h => h) _ (hrd _ hmem)⟩

theorem run_inv (c : Cfg) (s : List Nat) (inv : Inv c) : Inv (run c s) := by
  induction s generalizing c with
  | nil => exact inv
  | cons i r ih => exact ih _ (sched_inv c i inv)

/-- C09 (a): whatever the schedule and the number of recorders, resetters and readers, a reader never reports
    more than has been recorded. -/
theorem no_invention (n : Nat) (ths : List Th) (hfresh : ∀ t ∈ ths, thOk (List.replicate n 0) t) (s : List Nat)
    (j acc : Nat) (h : Th.reader j acc ∈ (run { cnt := List.replicate n 0, tot := List.replicate n 0, th := ths } s).th) :
    acc ≤ (run { cnt := List.replicate n 0, tot := List.replicate n 0, th := ths } s).tot.sum := by
  have inv0 : Inv { cnt := List.replicate n 0, tot := List.replicate n 0, th := ths } :=
    ⟨by simp, fun i => le_refl _, hfresh⟩
  have := (run_inv _ s inv0).rd _ h
  exact le_trans this (List.Sublist.sum_le_sum (List.take_sublist _ _) (fun _ _ => Nat.zero_le _))
#print axioms no_invention
end NI
