import LAProof  -- prototype: place next to LAProof.lean
namespace LA

/-- all monotone histories -/
def Mono (prev : Nat) : List (Nat × Nat) → Prop
  | [] => True
  | (t, _) :: r => prev ≤ t ∧ Mono t r

theorem runAdds_inv (a : Arr) (h0 : List (Nat × Nat)) (t0 latest : Nat) (h : List (Nat × Nat))
    (inv : Inv a h0 t0 latest) (mono : Mono latest h)
    (m : Nat) (hm0 : latest ≤ m) (hmh : ∀ e ∈ h, e.1 ≤ m) :
    ∃ latest', latest ≤ latest' ∧ latest' ≤ m ∧ Inv (runAdds a h) (h0 ++ h) t0 latest' := by
  induction h generalizing a h0 latest with
  | nil => exact ⟨latest, le_refl _, hm0, by simpa [runAdds] using inv⟩
  | cons e r ih =>
    obtain ⟨t, x⟩ := e
    obtain ⟨hle, hm⟩ := mono
    have hs := (add_step a h0 t0 latest t x inv hle).1
    have htm : t ≤ m := hmh (t, x) (List.mem_cons_self ..)
    obtain ⟨l', hl', hl'm, hinv⟩ := ih (add a t x).1 (h0 ++ [(t, x)]) t hs hm htm
      (fun e he => hmh e (List.mem_cons_of_mem _ he))
    exact ⟨l', le_trans hle hl', hl'm, by simpa [runAdds, List.append_assoc] using hinv⟩

end LA

namespace LA

theorem mk_slot (n L now j : Nat) (hj : j < n) :
    (mk n L now).slots[j]? = some { start := if (now / L) % n ≤ j then cbs L now + (j - (now / L) % n) * L
                                             else cbs L now + (n - (now / L) % n + j) * L, cnt := 0 } := by
  simp [mk, hj]

theorem readW_zero (sl : List Slot) (h : ∀ s ∈ sl, s.cnt = 0) (lo hi : Nat) : readW sl lo hi = 0 := by
  unfold readW
  apply List.sum_eq_zero
  intro x hx
  obtain ⟨s, hs, rfl⟩ := List.mem_map.mp hx
  split_ifs
  · exact h s hs
  · rfl

theorem mk_inv (n L now : Nat) (hn : 0 < n) (hL : 0 < L) : Inv (mk n L now) [] now now := by
  have hlen : (mk n L now).slots.length = n := by simp [mk]
  refine ⟨⟨hL, hn, hlen, ?_⟩, le_refl _, ?_, ?_⟩
  · intro j hj
    have hj' : j < n := by rw [hlen] at hj; exact hj
    have hs := mk_slot n L now j hj'
    rw [List.getElem?_eq_getElem hj] at hs
    injection hs with hs
    rw [hs]
    set q := now / L with hq
    have hqd : q = n * (q / n) + q % n := (Nat.div_add_mod q n).symm
    have hi0 : q % n < n := Nat.mod_lt _ hn
    show ∃ k, (if q % n ≤ j then cbs L now + (j - q % n) * L else cbs L now + (n - q % n + j) * L) = k * L ∧ k % n = j
    split_ifs with hc
    · refine ⟨q + (j - q % n), by rw [cbs_eq]; ring, ?_⟩
      have : q + (j - q % n) = j + n * (q / n) := by omega
      rw [this, Nat.add_mul_mod_self_left, Nat.mod_eq_of_lt hj']
    · refine ⟨q + (n - q % n + j), by rw [cbs_eq]; ring, ?_⟩
      have : q + (n - q % n + j) = j + n * (q / n + 1) := by
        have : n * (q / n + 1) = n * (q / n) + n := by ring
        omega
      rw [this, Nat.add_mul_mod_self_left, Nat.mod_eq_of_lt hj']
  · intro j hj
    have hj' : j < n := by rw [hlen] at hj; exact hj
    have hs := mk_slot n L now j hj'
    rw [List.getElem?_eq_getElem hj] at hs
    injection hs with hs
    right
    rw [hs]
    have hi0 : (now / L) % n < n := Nat.mod_lt _ hn
    show cbs L now ≤ _ ∧ _ < cbs L now + n * L
    dsimp only
    split_ifs with hc
    · refine ⟨Nat.le_add_right _ _, ?_⟩
      have : (j - now / L % n) * L < n * L := Nat.mul_lt_mul_of_pos_right (by omega) hL
      omega
    · refine ⟨Nat.le_add_right _ _, ?_⟩
      have : (n - now / L % n + j) * L < n * L := Nat.mul_lt_mul_of_pos_right (by omega) hL
      omega
  · intro lo hi _
    rw [readW_zero]
    · simp [refW]
    · intro s hs
      simp [mk] at hs
      obtain ⟨j, _, rfl⟩ := hs
      rfl

theorem add_nL (a : Arr) (t x : Nat) : (add a t x).1.L = a.L ∧ (add a t x).1.n = a.n := by
  unfold add
  dsimp only
  cases a.slots[idx a t]? with
  | none => exact ⟨rfl, rfl⟩
  | some s => dsimp only; split_ifs <;> exact ⟨rfl, rfl⟩

theorem runAdds_nL (a : Arr) (h : List (Nat × Nat)) : (runAdds a h).L = a.L ∧ (runAdds a h).n = a.n := by
  induction h generalizing a with
  | nil => exact ⟨rfl, rfl⟩
  | cons e r ih =>
    obtain ⟨t, x⟩ := e
    have h1 := ih (add a t x).1
    have h2 := add_nL a t x
    simp only [runAdds]
    exact ⟨h1.1.trans h2.1, h1.2.trans h2.2⟩

/-- C08 core: after ANY monotone history starting at the creation time, every window no older than one
    array cycle reads exactly the reference sum over the history. -/
theorem window_eq_ref (n L now0 : Nat) (hn : 0 < n) (hL : 0 < L) (h : List (Nat × Nat)) (mono : Mono now0 h)
    (now : Nat) (hnow : ∀ e ∈ h, e.1 ≤ now) (hnow0 : now0 ≤ now) (lo hi : Nat)
    (hlo : cbs L now < lo + n * L) :
    readW (runAdds (mk n L now0) h).slots lo hi = refW L h lo hi := by
  obtain ⟨l', hl', hl'm, hinv⟩ := runAdds_inv (mk n L now0) [] now0 now0 h (mk_inv n L now0 hn hL) mono now hnow0 hnow
  have hLn := runAdds_nL (mk n L now0) h
  have hL' : (runAdds (mk n L now0) h).L = L := by simpa [mk] using hLn.1
  have hn' : (runAdds (mk n L now0) h).n = n := by simpa [mk] using hLn.2
  have he := hinv.e lo hi
  rw [hL', hn'] at he
  simp only [List.nil_append] at he
  apply he
  -- latest' ≤ now: latest' is either now0 or the time of the last event
  have : cbs L l' ≤ cbs L now := cbs_mono L hl'm
  omega
end LA

#print axioms LA.window_eq_ref
