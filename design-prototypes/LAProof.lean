import LA  -- prototype: place LA.lean next to this file
import Mathlib.Tactic
import Mathlib.Data.Nat.ModEq
namespace LA

theorem cbs_eq (L t : Nat) : cbs L t = t / L * L := by
  unfold cbs
  have := Nat.div_add_mod t L
  have h2 : L * (t / L) = t / L * L := Nat.mul_comm _ _
  omega

theorem residue_gap {n k1 k2 : Nat} (h : k1 % n = k2 % n) (hlt : k1 < k2) : k1 + n ≤ k2 := by
  have hme : k1 ≡ k2 [MOD n] := h
  have hd : n ∣ k2 - k1 := (Nat.modEq_iff_dvd' (le_of_lt hlt)).mp hme
  have hpos : 0 < k2 - k1 := by omega
  have := Nat.le_of_dvd hpos hd
  omega

/-- window sum over slots -/
def readW (sl : List Slot) (lo hi : Nat) : Nat :=
  (sl.map fun s => if lo ≤ s.start ∧ s.start ≤ hi then s.cnt else 0).sum

def refW (L : Nat) (h : List (Nat × Nat)) (lo hi : Nat) : Nat :=
  (h.map fun e => if lo ≤ cbs L e.1 ∧ cbs L e.1 ≤ hi then e.2 else 0).sum

theorem refW_append (L h t x lo hi) :
    refW L (h ++ [(t, x)]) lo hi = refW L h lo hi + (if lo ≤ cbs L t ∧ cbs L t ≤ hi then x else 0) := by
  simp [refW, List.map_append, List.sum_append]

theorem sum_map_set {α} (f : α → Nat) (l : List α) (i : Nat) (v : α) (hi : i < l.length) :
    ((l.set i v).map f).sum + f l[i] = (l.map f).sum + f v := by
  induction l generalizing i with
  | nil => simp at hi
  | cons a r ih =>
    cases i with
    | zero => simp; omega
    | succ j =>
      have hj : j < r.length := by simpa using hi
      have := ih j hj
      simp only [List.set_cons_succ, List.map_cons, List.sum_cons, List.getElem_cons_succ]
      omega

/-- structural invariant: slot i holds an L-aligned start whose bucket number has residue i -/
def WF (a : Arr) : Prop :=
  0 < a.L ∧ 0 < a.n ∧ a.slots.length = a.n ∧
  ∀ i (h : i < a.slots.length), ∃ k, a.slots[i].start = k * a.L ∧ k % a.n = i

end LA

namespace LA
structure Inv (a : Arr) (h : List (Nat × Nat)) (t0 latest : Nat) : Prop where
  wf : WF a
  le0 : t0 ≤ latest
  d : ∀ i (hi : i < a.slots.length), a.slots[i].start ≤ cbs a.L latest ∨
        (cbs a.L t0 ≤ a.slots[i].start ∧ a.slots[i].start < cbs a.L t0 + a.n * a.L)
  e : ∀ lo hi, cbs a.L latest < lo + a.n * a.L → readW a.slots lo hi = refW a.L h lo hi

theorem idx_lt (a : Arr) (hw : WF a) (t : Nat) : idx a t < a.slots.length := by
  obtain ⟨_, hn, hl, _⟩ := hw
  unfold idx; rw [hl]; exact Nat.mod_lt _ hn

theorem cbs_mono (L : Nat) {s t : Nat} (h : s ≤ t) : cbs L s ≤ cbs L t := by
  rw [cbs_eq, cbs_eq]; exact Nat.mul_le_mul_right _ (Nat.div_le_div_right h)

/-- same residue, aligned starts, strictly smaller ⇒ at least n buckets apart -/
theorem start_gap (a : Arr) (hw : WF a) (t : Nat) (hlt : (a.slots[idx a t]'(idx_lt a hw t)).start < cbs a.L t) :
    (a.slots[idx a t]'(idx_lt a hw t)).start + a.n * a.L ≤ cbs a.L t := by
  obtain ⟨hL, hn, hl, hres⟩ := hw
  obtain ⟨k, hk, hkr⟩ := hres (idx a t) (idx_lt a ⟨hL, hn, hl, hres⟩ t)
  rw [hk] at hlt ⊢
  rw [cbs_eq] at hlt ⊢
  have hklt : k < t / a.L := by
    by_contra hc
    have : t / a.L ≤ k := Nat.le_of_not_lt hc
    have := Nat.mul_le_mul_right a.L this
    omega
  have := residue_gap (n := a.n) (k1 := k) (k2 := t / a.L) (by rw [hkr]; rfl) hklt
  calc k * a.L + a.n * a.L = (k + a.n) * a.L := by ring
    _ ≤ t / a.L * a.L := Nat.mul_le_mul_right _ this
end LA

namespace LA

theorem readW_set (sl : List Slot) (i : Nat) (v : Slot) (hi : i < sl.length) (lo hi' : Nat) :
    readW (sl.set i v) lo hi' + (if lo ≤ sl[i].start ∧ sl[i].start ≤ hi' then sl[i].cnt else 0)
      = readW sl lo hi' + (if lo ≤ v.start ∧ v.start ≤ hi' then v.cnt else 0) := by
  unfold readW
  exact sum_map_set (fun s => if lo ≤ s.start ∧ s.start ≤ hi' then s.cnt else 0) sl i v hi

theorem add_step (a : Arr) (h : List (Nat × Nat)) (t0 latest t x : Nat)
    (inv : Inv a h t0 latest) (hle : latest ≤ t) :
    Inv (add a t x).1 (h ++ [(t, x)]) t0 t ∧ (add a t x).2 = .ok := by
  have hw := inv.wf
  have hidx := idx_lt a hw t
  obtain ⟨hL, hn, hl, hres⟩ := hw
  have hsome : a.slots[idx a t]? = some (a.slots[idx a t]) := List.getElem?_eq_getElem hidx
  unfold add
  simp only [hsome]
  set s := a.slots[idx a t] with hs
  by_cases h1 : cbs a.L t = s.start
  · -- same bucket: accumulate
    simp only [h1, if_true]
    refine ⟨⟨?_, le_trans inv.le0 hle, ?_, ?_⟩, by first | rfl | trivial⟩
    · refine ⟨hL, hn, by simpa using hl, ?_⟩
      intro i hi
      simp only [List.length_set] at hi
      by_cases hii : idx a t = i
      · subst hii; simpa using hres _ hidx
      · simpa [List.getElem_set_ne hii] using hres i hi
    · intro i hi
      simp only [List.length_set] at hi
      have hcm := cbs_mono a.L hle
      by_cases hii : idx a t = i
      · subst hii; left; simp [← h1]
      · rcases inv.d i hi with hd | hd
        · left; simp [List.getElem_set_ne hii]; omega
        · right; simpa [List.getElem_set_ne hii] using hd
    · intro lo hi hlo
      dsimp only at hlo ⊢
      have hcm := cbs_mono a.L hle
      have he := inv.e lo hi (by omega)
      have hset := readW_set a.slots (idx a t) { s with cnt := s.cnt + x } hidx lo hi
      rw [refW_append, ← he]
      simp only [← hs] at hset
      simp only [h1]
      split_ifs at hset ⊢ <;> simp_all <;> omega
  · simp only [h1, if_false]
    by_cases h2 : s.start < cbs a.L t
    · simp only [h2, if_true]
      have hgap : s.start + a.n * a.L ≤ cbs a.L t := start_gap a ⟨hL, hn, hl, hres⟩ t h2
      refine ⟨⟨?_, le_trans inv.le0 hle, ?_, ?_⟩, by first | rfl | trivial⟩
      · refine ⟨hL, hn, by simpa using hl, ?_⟩
        intro i hi
        simp only [List.length_set] at hi
        by_cases hii : idx a t = i
        · subst hii
          refine ⟨t / a.L, ?_, rfl⟩
          simp [cbs_eq]
        · simpa [List.getElem_set_ne hii] using hres i hi
      · intro i hi
        simp only [List.length_set] at hi
        have hcm := cbs_mono a.L hle
        by_cases hii : idx a t = i
        · subst hii; left; simp
        · rcases inv.d i hi with hd | hd
          · left; simp [List.getElem_set_ne hii]; omega
          · right; simpa [List.getElem_set_ne hii] using hd
      · intro lo hi hlo
        dsimp only at hlo ⊢
        have hcm := cbs_mono a.L hle
        have he := inv.e lo hi (by omega)
        have hset := readW_set a.slots (idx a t) { start := cbs a.L t, cnt := x } hidx lo hi
        rw [refW_append, ← he]
        simp only [← hs] at hset
        have hout : ¬ (lo ≤ s.start ∧ s.start ≤ hi) := by omega
        simp only [hout, if_false] at hset
        simpa using hset
    · -- impossible: slot start ahead of a monotone timestamp
      exfalso
      have hgt : cbs a.L t < s.start := by omega
      have hcm := cbs_mono a.L hle
      have hcm0 := cbs_mono a.L inv.le0
      rcases inv.d _ hidx with hd | ⟨hd1, hd2⟩
      · rw [← hs] at hd; omega
      · rw [← hs] at hd1 hd2
        -- both cbs t and s.start lie in the first cycle with the same residue
        obtain ⟨k, hk, hkr⟩ := hres _ hidx
        rw [← hs] at hk
        have hklt : t / a.L < k := by
          by_contra hc
          have : k ≤ t / a.L := Nat.le_of_not_lt hc
          have := Nat.mul_le_mul_right a.L this
          rw [cbs_eq] at hgt; omega
        have hg := residue_gap (n := a.n) (k1 := t / a.L) (k2 := k) (by rw [hkr]; rfl) hklt
        have h3 : (t / a.L + a.n) * a.L ≤ k * a.L := Nat.mul_le_mul_right _ hg
        have e1 : (t / a.L + a.n) * a.L = cbs a.L t + a.n * a.L := by rw [cbs_eq]; ring
        have hcm1 : cbs a.L t0 ≤ cbs a.L t := cbs_mono a.L (le_trans inv.le0 hle)
        omega
end LA
