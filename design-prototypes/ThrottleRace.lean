/-! Prototype: small-step model of flow ThrottlingChecker.DoCheck (C10) at atomic-access granularity.
    Shared: lastPassed (Int). Each thread: one DoCheck call with its own clock reading `now` and interval `iv`. -/
namespace Thr

inductive Pc
  | load1            -- loaded := Load(last)
  | cas (loaded : Int)  -- if loaded+iv ≤ now then CAS(last, loaded, now) else goto load2
  | load2            -- est := Load(last)+iv-now ; if est > maxQ then blocked else add
  | add              -- new := Add(last, iv); est := new-now; if est > maxQ then rollback else pass(new or now)
  | rollback         -- Add(last, -iv); blocked
  | passed (at_ : Int)  -- scheduled pass time = now + wait
  | blocked
deriving DecidableEq, Repr

structure Th where
  now : Int
  iv  : Int
  pc  : Pc
deriving Repr

structure Cfg where
  last : Int
  maxQ : Int
  th   : List Th
deriving Repr

def stepTh (last maxQ : Int) (t : Th) : Int × Th :=
  match t.pc with
  | .load1 => (last, { t with pc := if last + t.iv ≤ t.now then .cas last else .load2 })
  | .cas loaded => if last = loaded then (t.now, { t with pc := .passed t.now }) else (last, { t with pc := .load2 })
  | .load2 => (last, { t with pc := if last + t.iv - t.now > maxQ then .blocked else .add })
  | .add =>
      let new := last + t.iv
      let est := new - t.now
      if est > maxQ then (new, { t with pc := .rollback })
      else (new, { t with pc := .passed (if est > 0 then t.now + est else t.now) })
  | .rollback => (last - t.iv, { t with pc := .blocked })
  | _ => (last, t)

def Cfg.sched (c : Cfg) (i : Nat) : Cfg :=
  match c.th[i]? with
  | none => c
  | some t => let (l', t') := stepTh c.last c.maxQ t; { c with last := l', th := c.th.set i t' }

def run (c : Cfg) : List Nat → Cfg
  | [] => c
  | i :: r => run (c.sched i) r

def passTimes (c : Cfg) : List Int :=
  c.th.filterMap fun t => match t.pc with | .passed a => some a | _ => none

/-- spacing violated: two admitted requests share a pass time (interval 100) -/
def collide (l : List Int) : Bool :=
  match l with
  | [] => false
  | a :: r => r.any (fun b => (a - b).natAbs < 100) || collide r

-- last = 1200 (two earlier requests queued), maxQ = 250, interval 100.
-- X: now=1000; Y,Z: now=1150.
def init : Cfg :=
  { last := 1200, maxQ := 250,
    th := [ {now := 1000, iv := 100, pc := .load1},     -- X
            {now := 1150, iv := 100, pc := .load1},     -- Y
            {now := 1150, iv := 100, pc := .load1} ] }  -- Z

-- X: load1, load2 (est 300 > 250 → blocked)?  need X to pass load2 then exceed at add: make X's load2 happen before last grew.
def init2 : Cfg :=
  { last := 1100, maxQ := 250,
    th := [ {now := 1000, iv := 100, pc := .load1},     -- X  (est at load2: 1100+100-1000 = 200 ≤ 250)
            {now := 1000, iv := 100, pc := .load1},     -- W  (same instant; takes the slot 1200 first)
            {now := 1150, iv := 100, pc := .load1},     -- Y
            {now := 1150, iv := 100, pc := .load1} ] }  -- Z

#eval
  -- X: load1, load2 ; W: load1, load2, add (last=1200, pass@1200) ; X: add (last=1300, est 300>250 → rollback pending)
  -- Y: load1, load2 (est=1300+100-1150=250 ok), add (last=1400, est 250 ok → pass@1400) ; X: rollback (last=1300)
  -- Z: load1, load2 (est=250 ok), add (last=1400 → pass@1400)
  let c := run init2 [0,0, 1,1,1, 0, 2,2,2, 0, 3,3,3]
  (c.last, passTimes c, collide (passTimes c))

theorem spacing_witness :
    collide (passTimes (run init2 [0,0, 1,1,1, 0, 2,2,2, 0, 3,3,3])) = true := by decide

/-- the same requests executed one after the other (each runs to completion) keep the spacing -/
example : collide (passTimes (run init2 [0,0,0,0, 1,1,1,1, 2,2,2,2, 3,3,3,3])) = false := by decide
end Thr
