import Mathlib.Tactic
/-! Prototype: lock discipline ⇒ ordered (never concurrent) accesses (C15, the general theorem proved once). -/
namespace Lk

abbrev Thread := Nat
abbrev Lock := Nat

inductive Ev
  | acq (t : Thread) (l : Lock)
  | rel (t : Thread) (l : Lock)
  | acc (t : Thread) (x : Nat) (write : Bool)
deriving DecidableEq, Repr

/-- lock state: who holds each (exclusive) lock -/
abbrev LS := Lock → Option Thread

def stepLS (s : LS) : Ev → LS
  | .acq t l => fun l' => if l' = l then some t else s l'
  | .rel _ l => fun l' => if l' = l then none else s l'
  | .acc .. => s

/-- well-formed execution: acquire only a free lock, release only a lock you hold -/
def WFrom (s : LS) : List Ev → Prop
  | [] => True
  | .acq t l :: r => s l = none ∧ WFrom (stepLS s (.acq t l)) r
  | .rel t l :: r => s l = some t ∧ WFrom (stepLS s (.rel t l)) r
  | .acc t x w :: r => WFrom s r

def runLS (s : LS) : List Ev → LS
  | [] => s
  | e :: r => runLS (stepLS s e) r

/-- whoever holds `l` at the end and did not hold it at the start acquired it on the way -/
theorem acq_exists (s : LS) (m : List Ev) (l : Lock) (t2 : Thread)
    (hwf : WFrom s m) (hn : s l ≠ some t2) (h2 : runLS s m l = some t2) :
    ∃ b c, m = b ++ [Ev.acq t2 l] ++ c := by
  induction m generalizing s with
  | nil => simp [runLS] at h2; exact absurd h2 hn
  | cons e r ih =>
    by_cases he : e = Ev.acq t2 l
    · subst he; exact ⟨[], r, by simp⟩
    · have hw' : WFrom (stepLS s e) r := by
        cases e with
        | acc => exact hwf
        | acq => exact hwf.2
        | rel => exact hwf.2
      have hn' : stepLS s e l ≠ some t2 := by
        cases e with
        | acc => simpa [stepLS] using hn
        | acq t' l' =>
          by_cases hl : l = l'
          · subst hl
            simp only [stepLS, if_true]
            intro hc; injection hc with hc; subst hc; exact he rfl
          · simpa [stepLS, hl] using hn
        | rel t' l' =>
          by_cases hl : l = l'
          · subst hl; simp [stepLS]
          · simpa [stepLS, hl] using hn
      obtain ⟨b, c, hb⟩ := ih _ hw' hn' (by simpa [runLS] using h2)
      exact ⟨e :: b, c, by simp [hb]⟩

/-- if `t1` holds `l` now and `t2 ≠ t1` holds it after `mid`, then `mid` contains a release of `l` by `t1`
    followed (not necessarily immediately) by an acquire of `l` by `t2` — the happens-before edge. -/
theorem handover (s : LS) (mid : List Ev) (l : Lock) (t1 t2 : Thread) (hne : t1 ≠ t2)
    (hwf : WFrom s mid) (h1 : s l = some t1) (h2 : runLS s mid l = some t2) :
    ∃ a b c, mid = a ++ [Ev.rel t1 l] ++ b ++ [Ev.acq t2 l] ++ c := by
  induction mid generalizing s with
  | nil => simp [runLS] at h2; rw [h1] at h2; injection h2 with h2; exact absurd h2 hne
  | cons e r ih =>
    by_cases he : e = Ev.rel t1 l
    · subst he
      have hfree : stepLS s (.rel t1 l) l ≠ some t2 := by simp [stepLS]
      obtain ⟨b, c, hb⟩ := acq_exists _ r l t2 hwf.2 hfree (by simpa [runLS] using h2)
      exact ⟨[], b, c, by simp [hb]⟩
    · have hw' : WFrom (stepLS s e) r := by
        cases e with
        | acc => exact hwf
        | acq => exact hwf.2
        | rel => exact hwf.2
      have h1' : stepLS s e l = some t1 := by
        cases e with
        | acc => simpa [stepLS] using h1
        | acq t' l' =>
          have hl : l ≠ l' := by intro hl; subst hl; have := hwf.1; rw [h1] at this; simp at this
          simpa [stepLS, hl] using h1
        | rel t' l' =>
          by_cases hl : l = l'
          · subst hl
            have := hwf.1; rw [h1] at this; injection this with this; subst this
            exact absurd rfl he
          · simpa [stepLS, hl] using h1
      obtain ⟨a, b, c, hb⟩ := ih _ hw' h1' (by simpa [runLS] using h2)
      exact ⟨e :: a, b, c, by simp [hb]⟩

/-- C15 core: two accesses by different threads, each made while holding the common lock `l`, are separated by
    `rel t1 l … acq t2 l` — they are ordered by the lock, hence never concurrent (no data race on `x`). -/
theorem discipline_implies_order (s0 : LS) (pre mid post : List Ev) (l : Lock) (t1 t2 : Thread) (x : Nat) (w1 w2 : Bool)
    (hne : t1 ≠ t2) (hwf : WFrom s0 (pre ++ [Ev.acc t1 x w1] ++ mid ++ [Ev.acc t2 x w2] ++ post))
    (hold1 : runLS s0 pre l = some t1)
    (hold2 : runLS s0 (pre ++ [Ev.acc t1 x w1] ++ mid) l = some t2) :
    ∃ a b c, mid = a ++ [Ev.rel t1 l] ++ b ++ [Ev.acq t2 l] ++ c := by
  have runLS_append : ∀ (s : LS) (u v : List Ev), runLS s (u ++ v) = runLS (runLS s u) v := by
    intro s u v; induction u generalizing s with
    | nil => rfl
    | cons e r ih => simp [runLS, ih]
  have wf_append : ∀ (s : LS) (u v : List Ev), WFrom s (u ++ v) → WFrom (runLS s u) v := by
    intro s u v h; induction u generalizing s with
    | nil => exact h
    | cons e r ih =>
      cases e with
      | acc => exact ih _ h
      | acq => exact ih _ h.2
      | rel => exact ih _ h.2
  have wf_prefix : ∀ (s : LS) (u v : List Ev), WFrom s (u ++ v) → WFrom s u := by
    intro s u v h; induction u generalizing s with
    | nil => trivial
    | cons e r ih =>
      cases e with
      | acc => exact ih _ h
      | acq => exact ⟨h.1, ih _ h.2⟩
      | rel => exact ⟨h.1, ih _ h.2⟩
  have h1 : WFrom (runLS s0 (pre ++ [Ev.acc t1 x w1])) mid := by
    have := wf_append s0 (pre ++ [Ev.acc t1 x w1]) (mid ++ [Ev.acc t2 x w2] ++ post) (by simpa [List.append_assoc] using hwf)
    exact wf_prefix _ mid ([Ev.acc t2 x w2] ++ post) (by simpa [List.append_assoc] using this)
  have hs : runLS s0 (pre ++ [Ev.acc t1 x w1]) l = some t1 := by
    rw [runLS_append]; simpa [runLS, stepLS] using hold1
  apply handover _ mid l t1 t2 hne h1 hs
  rw [← runLS_append]; simpa [List.append_assoc] using hold2
#print axioms discipline_implies_order
end Lk
