/-! Prototype (executable, no proofs): record-level model of the metric log writer and searcher (C17).
    Offsets are byte offsets; every line has `lineLen` bytes. Files are intact (no truncation here). -/
namespace ML

structure Item where
  ts  : Nat       -- ms
  res : String
  pass : Nat
deriving Repr, DecidableEq, Inhabited

def lineLen (_ : Item) : Nat := 55      -- prototype: constant; real model: length of ToFatString + 1

structure File where
  name : Nat                 -- roll sequence number (sorted order = numeric order within one day)
  lines : List Item
  idx : List (Nat × Nat)     -- (second, byte offset)
deriving Repr, Inhabited

def File.size (f : File) : Nat := (f.lines.map lineLen).sum

structure Writer where
  files : List File          -- oldest first; last = current
  latestOpSec : Nat
  nextName : Nat
  maxSize : Nat
  maxFiles : Nat
deriving Repr

def Writer.roll (w : Writer) : Writer :=
  -- removeDeprecatedFiles: keep at most maxFiles-1, then create
  let drop := w.files.length + 1 - w.maxFiles
  { w with files := w.files.drop drop ++ [{ name := w.nextName, lines := [], idx := [] }], nextName := w.nextName + 1 }

def Writer.new (nowMs maxSize maxFiles : Nat) : Writer :=
  ({ files := [], latestOpSec := nowMs / 1000, nextName := 0, maxSize, maxFiles } : Writer).roll

def modLast (l : List File) (f : File → File) : List File :=
  match l.reverse with
  | [] => []
  | x :: r => (f x :: r).reverse

def Writer.write (w : Writer) (ts : Nat) (items : List Item) : Writer :=
  if items.isEmpty then w else
  let sec := ts / 1000
  if sec < w.latestOpSec then w else
  let w1 := if sec > w.latestOpSec then
      { w with files := modLast w.files fun f => { f with idx := f.idx ++ [(sec, f.size)] } }   -- day roll omitted in prototype
    else w
  let items' := items.map fun i => { i with ts := ts }
  let w2 := { w1 with files := modLast w1.files fun f => { f with lines := f.lines ++ items' } }
  let w3 := match w2.files.getLast? with
    | some f => if f.size ≥ w2.maxSize then w2.roll else w2
    | none => w2
  { w3 with latestOpSec := max w3.latestOpSec sec }

structure Cache where
  metricFile : Option Nat := none
  idxFile : Option Nat := none
  curOffsetInIdx : Nat := 0      -- byte offset in idx file (16 bytes per entry)
  curSecInIdx : Nat := 0
deriving Repr

def findFile (fs : List File) (n : Nat) : Option File := fs.find? (·.name == n)

/-- isPositionInTimeFor -/
def cacheOk (fs : List File) (c : Cache) (beginMs : Nat) : Bool :=
  if beginMs / 1000 < c.curSecInIdx then false else
  match c.idxFile with
  | none => false
  | some n => match findFile fs n with
    | none => false
    | some f => match f.idx[c.curOffsetInIdx / 16]? with
      | some (sec, _) => sec == c.curSecInIdx
      | none => false

/-- getOffsetStartAndFileIdx (with the `!=` of the source) -/
def offsetStartAndFile (fs : List File) (c : Cache) (beginMs : Nat) : Nat × Nat :=
  if cacheOk fs c beginMs then
    match (fs.zipIdx).find? (fun (f, _) => some f.name != c.metricFile) with
    | some (_, j) => (c.curOffsetInIdx, j)
    | none => (0, 0)
  else (0, 0)

/-- findOffsetToStart: returns (cache', some offset) or (cache', none) for "not found" -/
def findOffsetToStart (f : File) (c : Cache) (beginMs lastPos : Nat) : Cache × Option Nat :=
  let c0 := { c with idxFile := none, metricFile := none, curOffsetInIdx := lastPos }
  let beginSec := beginMs / 1000
  let rec go (es : List (Nat × Nat)) (pos : Nat) (c : Cache) : Cache × Option Nat :=
    match es with
    | [] => (c, none)
    | (sec, off) :: r =>
      if sec ≥ beginSec then ({ c with metricFile := some f.name, idxFile := some f.name, curSecInIdx := sec }, some off)
      else go r (pos + 16) { c with curOffsetInIdx := pos + 16 }
  go (f.idx.drop (lastPos / 16)) lastPos c0

def linesFrom (f : File) (off : Nat) : List Item := f.lines.drop (off / 55)

/-- ReadMetricsByEndTime -/
def readByEnd (fs : List File) (fileNo off beginMs endMs : Nat) (res : String) : List Item :=
  let beginSec := beginMs / 1000; let endSec := endMs / 1000
  let rec oneFile (ls : List Item) (acc : List Item) : List Item × Bool :=
    match ls with
    | [] => (acc, true)
    | i :: r => if i.ts / 1000 < beginSec ∨ i.ts / 1000 > endSec then (acc, false)
                else oneFile r (if res == "" ∨ res == i.res then acc ++ [i] else acc)
  let rec files (k : Nat) (fuel : Nat) (first : Bool) (acc : List Item) : List Item :=
    match fuel with
    | 0 => acc
    | fuel+1 => match fs[k]? with
      | none => acc
      | some f =>
        let (acc', cont) := oneFile (if first then linesFrom f off else f.lines) acc
        if cont then files (k+1) fuel false acc' else acc'
  files fileNo (fs.length + 1) true []

def find (fs : List File) (c : Cache) (beginMs endMs : Nat) (res : String) : Cache × List Item :=
  let (offStart, fileNo) := offsetStartAndFile fs c beginMs
  let rec loop (i : Nat) (fuel : Nat) (c : Cache) : Cache × List Item :=
    match fuel with
    | 0 => (c, [])
    | fuel+1 => match fs[i]? with
      | none => (c, [])
      | some f => match findOffsetToStart f c beginMs offStart with
        | (c', some off) => (c', readByEnd fs i off beginMs endMs res)
        | (c', none) => loop (i+1) fuel c'
  loop fileNo (fs.length + 1) c

-- the Go experiment: writer created at second 0, 10 seconds × 2 items, maxSize 300 ⇒ 3 seconds per file
def base0 : Nat := 1900000000000
def w10 : Writer := (List.range 10).foldl
  (fun w s => w.write (base0 + s*1000) [{ ts := 0, res := "a", pass := s+1 }, { ts := 0, res := "b", pass := 7 }])
  (Writer.new base0 300 4)

def disp (r : List Item) : List (Nat × Nat) := r.map fun i => ((i.ts - base0) / 1000, i.pass)

#eval w10.files.map fun f => (f.name, f.size, f.idx.map fun (s, o) => (s - base0/1000, o))
#eval disp (find w10.files {} (base0 + 0) (base0 + 9000) "a").2            -- Go: 1..9  (second 0 missing)
#eval let (c, _) := find w10.files {} (base0 + 0) (base0 + 9000) "a"
      disp (find w10.files c (base0 + 1000) (base0 + 9000) "a").2          -- Go: 3..9  (file 0 skipped)
#eval disp (find w10.files {} (base0 + 2000) (base0 + 9000) "a").2         -- Go: 2..9
#eval let (c, _) := find w10.files {} (base0 + 6000) (base0 + 9000) "a"
      disp (find w10.files c (base0 + 7000) (base0 + 9000) "a").2          -- Go: 7..9
end ML
