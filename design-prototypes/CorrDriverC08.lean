import LA  -- prototype: place LA.lean next to this file
/-! Feasibility sketch of the Lean driver for C08: same line protocol as corrproto/main.go -/
open LA

def deprecated (I now ws : Nat) : Bool := if ws ≤ now then decide (now - ws > I) else true
def rangeOf (L Iv now : Nat) : Nat × Nat :=
  let e := cbs L now
  (if Iv ≤ e + L then e + L - Iv else 2^64 + e + L - Iv, e)
def viewSum (a : Arr) (Iv now : Nat) : Nat :=
  let (lo, hi) := rangeOf a.L Iv now
  ((a.slots.filter fun s => !deprecated (a.n * a.L) now s.start && decide (lo ≤ s.start ∧ s.start ≤ hi)).map (·.cnt)).sum

structure S where
  a : Arr := { n := 1, L := 1, slots := [] }
  iv : Nat := 1
  now : Nat := 0

def step (s : S) (line : String) : S × String :=
  match (line.trimAscii.toString.splitOn " ").filter (· ≠ "") with
  | ["new", n, l, iv, t] => match n.toNat?, l.toNat?, iv.toNat?, t.toNat? with
      | some n, some l, some iv, some t => ({ a := mk n l t, iv := iv, now := t }, line.trimAscii.toString)
      | _, _, _, _ => (s, "bad-op")
  | ["clock", t] => match t.toNat? with
      | some t => ({ s with now := t }, line.trimAscii.toString)
      | none => (s, "bad-op")
  | ["add", x] => match x.toNat? with
      | some x => ({ s with a := (add s.a s.now x).1 }, line.trimAscii.toString)
      | none => (s, "bad-op")
  | "sum" :: _ => (s, s!"sum → {viewSum s.a s.iv s.now}")
  | _ => (s, "bad-op")

partial def loop (h : IO.FS.Stream) (s : S) : IO Unit := do
  let line ← h.getLine
  if line.isEmpty then return ()
  let (s', out) := step s line
  IO.println out
  loop h s'

def main : IO Unit := do loop (← IO.getStdin) {}
