import LeapArrayGeneric  -- prototype: place next to LeapArrayGeneric.lean
namespace LAG
variable {M : Type} [AddCommMonoid M]

def Mono (prev : Nat) : List (Nat × M) → Prop
  | [] => True
  | (t, _) :: r => prev ≤ t ∧ Mono t r

theorem runAdds_inv (a : Arr M) (h0 : List (Nat × M)) (t0 latest : Nat) (h : List (Nat × M))
    (inv : Inv a h0 t0 latest) (mono : Mono latest h)
    (m : Nat) (hm0 : latest ≤ m) (hmh : ∀ e ∈ h, e.1 ≤ m) :
    ∃ latest', latest ≤ latest' ∧ latest' ≤ m ∧ Inv (runAdds a h) (h0 ++ h) t0 latest' := by
  induction h generalizing a h0 latest with
  | nil => exact ⟨latest, le_refl _, hm0, by simpa [runAdds] using inv⟩
  | cons e r ih =>
    obtain ⟨t, x⟩ := e
    obtain ⟨hle, hm⟩ := mono
    have hs := (add_step a h0 t0 latest t x inv hle).1
    have htm : t ≤ m := hmh (t, x) (List.mem_cons_self ..)
    obtain ⟨l', hl', hl'm, hinv⟩ := ih (add a t x).1 (h0 ++ [(t, x)]) t hs hm htm
      (fun e he => hmh e (List.mem_cons_of_mem _ he))
    exact ⟨l', le_trans hle hl', hl'm, by simpa [runAdds, List.append_assoc] using hinv⟩

theorem readW_zero (sl : List (Slot M)) (h : ∀ s ∈ sl, s.val = 0) (lo hi : Nat) : readW sl lo hi = 0 := by
  unfold readW
  apply List.sum_eq_zero
  intro x hx
  obtain ⟨s, hs, rfl⟩ := List.mem_map.mp hx
  split_ifs
  · exact h s hs
  · rfl

theorem mk_slot (n L now j : Nat) (hj : j < n) :
    ((mk n L now : Arr M).slots[j]?).map (·.start) =
      some (if (now / L) % n ≤ j then cbs L now + (j - (now / L) % n) * L else cbs L now + (n - (now / L) % n + j) * L) := by
  simp [mk, hj]

theorem mk_inv (n L now : Nat) (hn : 0 < n) (hL : 0 < L) : Inv (mk n L now : Arr M) [] now now := by
  have hlen : (mk n L now : Arr M).slots.length = n := by simp [mk]
  have hstart : ∀ j (hj : j < (mk n L now : Arr M).slots.length),
      (mk n L now : Arr M).slots[j].start =
        (if (now / L) % n ≤ j then cbs L now + (j - (now / L) % n) * L else cbs L now + (n - (now / L) % n + j) * L) := by
    intro j hj
    have hj' : j < n := by rw [hlen] at hj; exact hj
    have := mk_slot (M := M) n L now j hj'
    rw [List.getElem?_eq_getElem hj] at this
    simpa using this
  have hi0 : (now / L) % n < n := Nat.mod_lt _ hn
  refine ⟨⟨hL, hn, hlen, ?_⟩, le_refl _, ?_, ?_⟩
  · intro j hj
    have hj' : j < n := by rw [hlen] at hj; exact hj
    rw [hstart j hj]
    set q := now / L with hq
    have hqd : q = n * (q / n) + q % n := (Nat.div_add_mod q n).symm
    show ∃ k, (if q % n ≤ j then cbs L now + (j - q % n) * L else cbs L now + (n - q % n + j) * L) = k * L ∧ k % n = j
    split_ifs with hc
    · refine ⟨q + (j - q % n), by rw [cbs_eq]; ring, ?_⟩
      have : q + (j - q % n) = j + n * (q / n) := by omega
      rw [this, Nat.add_mul_mod_self_left, Nat.mod_eq_of_lt hj']
    · refine ⟨q + (n - q % n + j), by rw [cbs_eq]; ring, ?_⟩
      have : q + (n - q % n + j) = j + n * (q / n + 1) := by
        have : n * (q / n + 1) = n * (q / n) + n := by ring
        omega
      rw [this, Nat.add_mul_mod_self_left, Nat.mod_eq_of_lt hj']
  · intro j hj
    have hj' : j < n := by rw [hlen] at hj; exact hj
    right
    rw [hstart j hj]
    show cbs L now ≤ _ ∧ _ < cbs L now + n * L
    split_ifs with hc
    · refine ⟨Nat.le_add_right _ _, ?_⟩
      have : (j - now / L % n) * L < n * L := Nat.mul_lt_mul_of_pos_right (by omega) hL
      omega
    · refine ⟨Nat.le_add_right _ _, ?_⟩
      have : (n - now / L % n + j) * L < n * L := Nat.mul_lt_mul_of_pos_right (by omega) hL
      omega
  · intro lo hi _
    rw [readW_zero]
    · simp [refW]
    · intro s hs
      simp [mk] at hs
      obtain ⟨j, _, rfl⟩ := hs
      rfl

theorem add_nL (a : Arr M) (t : Nat) (x : M) : (add a t x).1.L = a.L ∧ (add a t x).1.n = a.n := by
  unfold add
  dsimp only
  cases a.slots[idx a t]? with
  | none => exact ⟨rfl, rfl⟩
  | some s => dsimp only; split_ifs <;> exact ⟨rfl, rfl⟩

theorem runAdds_nL (a : Arr M) (h : List (Nat × M)) : (runAdds a h).L = a.L ∧ (runAdds a h).n = a.n := by
  induction h generalizing a with
  | nil => exact ⟨rfl, rfl⟩
  | cons e r ih =>
    obtain ⟨t, x⟩ := e
    have h1 := ih (add a t x).1
    have h2 := add_nL a t x
    simp only [runAdds]
    exact ⟨h1.1.trans h2.1, h1.2.trans h2.2⟩

/-- generic C08 core: any commutative-monoid payload (counter vectors, max, min …) -/
theorem window_eq_ref (n L now0 : Nat) (hn : 0 < n) (hL : 0 < L) (h : List (Nat × M)) (mono : Mono now0 h)
    (now : Nat) (hnow : ∀ e ∈ h, e.1 ≤ now) (hnow0 : now0 ≤ now) (lo hi : Nat)
    (hlo : cbs L now < lo + n * L) :
    readW (runAdds (mk n L now0) h).slots lo hi = refW L h lo hi := by
  obtain ⟨l', _, hl'm, hinv⟩ := runAdds_inv (mk n L now0) [] now0 now0 h (mk_inv n L now0 hn hL) mono now hnow0 hnow
  have hLn := runAdds_nL (mk n L now0 : Arr M) h
  have hL' : (runAdds (mk n L now0 : Arr M) h).L = L := by simpa [mk] using hLn.1
  have hn' : (runAdds (mk n L now0 : Arr M) h).n = n := by simpa [mk] using hLn.2
  have he := hinv.e lo hi
  rw [hL', hn'] at he
  simp only [List.nil_append] at he
  apply he
  have : cbs L l' ≤ cbs L now := cbs_mono L hl'm
  omega

/-! instances: the payloads the code actually uses -/

/-- five event counters at once -/
example : AddCommMonoid (Fin 5 → ℕ) := inferInstance

/-- peak concurrency per bucket: ℕ under `max` with identity 0 -/
@[ext] structure MaxNat where v : ℕ deriving DecidableEq
instance : Add MaxNat := ⟨fun a b => ⟨max a.v b.v⟩⟩
instance : Zero MaxNat := ⟨⟨0⟩⟩
@[simp] theorem MaxNat.add_v (a b : MaxNat) : (a + b).v = max a.v b.v := rfl
@[simp] theorem MaxNat.zero_v : (0 : MaxNat).v = 0 := rfl
instance : AddCommMonoid MaxNat where
  add_assoc a b c := by ext; simp [max_assoc]
  zero_add a := by ext; simp
  add_zero a := by ext; simp
  add_comm a b := by ext; simp [max_comm]
  nsmul := nsmulRec

/-- minimum response time per bucket: `ℕ` under `min` with identity `cap` (DefaultStatisticMaxRt), values clamped to `cap` -/
example : ∀ a b c : ℕ, min (min a b) c = min a (min b c) := fun a b c => min_assoc a b c

#print axioms window_eq_ref
end LAG
