import Mathlib.Tactic
import Mathlib.Data.Nat.ModEq
/-! Prototype: leap array generic in the bucket payload (any commutative monoid): sums, max, min, vectors of counters. -/
namespace LAG

structure Slot (M : Type) where
  start : Nat
  val   : M

structure Arr (M : Type) where
  n : Nat
  L : Nat
  slots : List (Slot M)

def cbs (L t : Nat) : Nat := t - t % L
def idx {M} (a : Arr M) (t : Nat) : Nat := (t / a.L) % a.n

def mk {M} [Zero M] (n L now : Nat) : Arr M :=
  let i0 := (now / L) % n
  let s0 := cbs L now
  { n := n, L := L,
    slots := (List.range n).map fun j =>
      { start := if i0 ≤ j then s0 + (j - i0) * L else s0 + (n - i0 + j) * L, val := 0 } }

/-- record `x` at time `t`: accumulate into the current bucket, or recycle the slot -/
def add {M} [Add M] (a : Arr M) (t : Nat) (x : M) : Arr M × Bool :=
  let i := idx a t
  let bs := cbs a.L t
  match a.slots[i]? with
  | none => (a, false)
  | some s =>
    if bs = s.start then ({ a with slots := a.slots.set i { s with val := s.val + x } }, true)
    else if s.start < bs then ({ a with slots := a.slots.set i { start := bs, val := x } }, true)
    else if a.n = 1 then ({ a with slots := a.slots.set i { s with val := s.val + x } }, true)
    else (a, false)

def runAdds {M} [Add M] (a : Arr M) : List (Nat × M) → Arr M
  | [] => a
  | (t, x) :: r => runAdds (add a t x).1 r

variable {M : Type} [AddCommMonoid M]

def readW (sl : List (Slot M)) (lo hi : Nat) : M :=
  (sl.map fun s => if lo ≤ s.start ∧ s.start ≤ hi then s.val else 0).sum

def refW (L : Nat) (h : List (Nat × M)) (lo hi : Nat) : M :=
  (h.map fun e => if lo ≤ cbs L e.1 ∧ cbs L e.1 ≤ hi then e.2 else 0).sum

theorem cbs_eq (L t : Nat) : cbs L t = t / L * L := by
  unfold cbs
  have := Nat.div_add_mod t L
  have h2 : L * (t / L) = t / L * L := Nat.mul_comm _ _
  omega

theorem cbs_mono (L : Nat) {s t : Nat} (h : s ≤ t) : cbs L s ≤ cbs L t := by
  rw [cbs_eq, cbs_eq]; exact Nat.mul_le_mul_right _ (Nat.div_le_div_right h)

theorem residue_gap {n k1 k2 : Nat} (h : k1 % n = k2 % n) (hlt : k1 < k2) : k1 + n ≤ k2 := by
  have hme : k1 ≡ k2 [MOD n] := h
  have hd : n ∣ k2 - k1 := (Nat.modEq_iff_dvd' (le_of_lt hlt)).mp hme
  have hpos : 0 < k2 - k1 := by omega
  have := Nat.le_of_dvd hpos hd
  omega

theorem refW_append (L : Nat) (h : List (Nat × M)) (t : Nat) (x : M) (lo hi : Nat) :
    refW L (h ++ [(t, x)]) lo hi = refW L h lo hi + (if lo ≤ cbs L t ∧ cbs L t ≤ hi then x else 0) := by
  simp [refW, List.map_append, List.sum_append]

/-- replacing one element whose contribution grows by `d` grows the total by `d` (no cancellation needed) -/
theorem sum_map_set_add {α} (f : α → M) (l : List α) (i : Nat) (v : α) (d : M) (hi : i < l.length)
    (hv : f v = f l[i] + d) : ((l.set i v).map f).sum = (l.map f).sum + d := by
  induction l generalizing i with
  | nil => simp at hi
  | cons a r ih =>
    cases i with
    | zero =>
      simp only [List.set_cons_zero, List.map_cons, List.sum_cons, List.getElem_cons_zero] at hv ⊢
      rw [hv]; abel
    | succ j =>
      have hj : j < r.length := by simpa using hi
      simp only [List.set_cons_succ, List.map_cons, List.sum_cons, List.getElem_cons_succ] at hv ⊢
      rw [ih j hj hv]; abel

def WF (a : Arr M) : Prop :=
  0 < a.L ∧ 0 < a.n ∧ a.slots.length = a.n ∧
  ∀ i (h : i < a.slots.length), ∃ k, a.slots[i].start = k * a.L ∧ k % a.n = i

structure Inv (a : Arr M) (h : List (Nat × M)) (t0 latest : Nat) : Prop where
  wf : WF a
  le0 : t0 ≤ latest
  d : ∀ i (hi : i < a.slots.length), a.slots[i].start ≤ cbs a.L latest ∨
        (cbs a.L t0 ≤ a.slots[i].start ∧ a.slots[i].start < cbs a.L t0 + a.n * a.L)
  e : ∀ lo hi, cbs a.L latest < lo + a.n * a.L → readW a.slots lo hi = refW a.L h lo hi

theorem idx_lt (a : Arr M) (hw : WF a) (t : Nat) : idx a t < a.slots.length := by
  obtain ⟨_, hn, hl, _⟩ := hw
  unfold idx; rw [hl]; exact Nat.mod_lt _ hn

theorem start_gap (a : Arr M) (hw : WF a) (t : Nat)
    (hlt : (a.slots[idx a t]'(idx_lt a hw t)).start < cbs a.L t) :
    (a.slots[idx a t]'(idx_lt a hw t)).start + a.n * a.L ≤ cbs a.L t := by
  obtain ⟨hL, hn, hl, hres⟩ := hw
  obtain ⟨k, hk, hkr⟩ := hres (idx a t) (idx_lt a ⟨hL, hn, hl, hres⟩ t)
  rw [hk] at hlt ⊢
  rw [cbs_eq] at hlt ⊢
  have hklt : k < t / a.L := by
    by_contra hc
    have : t / a.L ≤ k := Nat.le_of_not_lt hc
    have := Nat.mul_le_mul_right a.L this
    omega
  have := residue_gap (n := a.n) (k1 := k) (k2 := t / a.L) (by rw [hkr]; rfl) hklt
  calc k * a.L + a.n * a.L = (k + a.n) * a.L := by ring
    _ ≤ t / a.L * a.L := Nat.mul_le_mul_right _ this

theorem add_step (a : Arr M) (h : List (Nat × M)) (t0 latest t : Nat) (x : M)
    (inv : Inv a h t0 latest) (hle : latest ≤ t) :
    Inv (add a t x).1 (h ++ [(t, x)]) t0 t ∧ (add a t x).2 = true := by
  have hw := inv.wf
  have hidx := idx_lt a hw t
  obtain ⟨hL, hn, hl, hres⟩ := hw
  have hsome : a.slots[idx a t]? = some (a.slots[idx a t]) := List.getElem?_eq_getElem hidx
  unfold add
  simp only [hsome]
  set s := a.slots[idx a t] with hs
  have hcm := cbs_mono a.L hle
  -- structural facts shared by both updating branches
  have wf_set : ∀ v : Slot M, (∃ k, v.start = k * a.L ∧ k % a.n = idx a t) →
      WF ({ a with slots := a.slots.set (idx a t) v } : Arr M) := by
    intro v hv
    refine ⟨hL, hn, by simpa using hl, ?_⟩
    intro i hi
    simp only [List.length_set] at hi
    by_cases hii : idx a t = i
    · subst hii; simpa using hv
    · simpa [List.getElem_set_ne hii] using hres i hi
  have d_set : ∀ v : Slot M, v.start ≤ cbs a.L t →
      ∀ i (hi : i < (a.slots.set (idx a t) v).length),
        (a.slots.set (idx a t) v)[i].start ≤ cbs a.L t ∨
        (cbs a.L t0 ≤ (a.slots.set (idx a t) v)[i].start ∧ (a.slots.set (idx a t) v)[i].start < cbs a.L t0 + a.n * a.L) := by
    intro v hv i hi
    simp only [List.length_set] at hi
    by_cases hii : idx a t = i
    · subst hii; left; simpa using hv
    · rcases inv.d i hi with hd | hd
      · left; simp [List.getElem_set_ne hii]; omega
      · right; simpa [List.getElem_set_ne hii] using hd
  by_cases h1 : cbs a.L t = s.start
  · simp only [h1, if_true]
    refine ⟨⟨wf_set _ (by simpa using hres _ hidx), le_trans inv.le0 hle, ?_, ?_⟩, trivial⟩
    · exact d_set _ (by simp [← h1])
    · intro lo hi hlo
      dsimp only at hlo ⊢
      have he := inv.e lo hi (by omega)
      rw [refW_append, ← he]
      unfold readW
      apply sum_map_set_add _ _ _ _ _ hidx
      simp only [← hs, h1]
      split_ifs
      · rfl
      · simp
  · simp only [h1, if_false]
    by_cases h2 : s.start < cbs a.L t
    · simp only [h2, if_true]
      have hgap : s.start + a.n * a.L ≤ cbs a.L t := start_gap a ⟨hL, hn, hl, hres⟩ t h2
      refine ⟨⟨wf_set _ ⟨t / a.L, by simp [cbs_eq], rfl⟩, le_trans inv.le0 hle, ?_, ?_⟩, trivial⟩
      · exact d_set _ (by simp)
      · intro lo hi hlo
        dsimp only at hlo ⊢
        have he := inv.e lo hi (by omega)
        rw [refW_append, ← he]
        unfold readW
        apply sum_map_set_add _ _ _ _ _ hidx
        have hout : ¬ (lo ≤ s.start ∧ s.start ≤ hi) := by omega
        simp only [← hs, hout, if_false, zero_add]
    · exfalso
      have hgt : cbs a.L t < s.start := by omega
      have hcm0 := cbs_mono a.L inv.le0
      rcases inv.d _ hidx with hd | ⟨hd1, hd2⟩
      · rw [← hs] at hd; omega
      · rw [← hs] at hd1 hd2
        obtain ⟨k, hk, hkr⟩ := hres _ hidx
        rw [← hs] at hk
        have hklt : t / a.L < k := by
          by_contra hc
          have : k ≤ t / a.L := Nat.le_of_not_lt hc
          have := Nat.mul_le_mul_right a.L this
          rw [cbs_eq] at hgt; omega
        have hg := residue_gap (n := a.n) (k1 := t / a.L) (k2 := k) (by rw [hkr]; rfl) hklt
        have h3 : (t / a.L + a.n) * a.L ≤ k * a.L := Nat.mul_le_mul_right _ hg
        have e1 : (t / a.L + a.n) * a.L = cbs a.L t + a.n * a.L := by rw [cbs_eq]; ring
        have hcm1 : cbs a.L t0 ≤ cbs a.L t := cbs_mono a.L (le_trans inv.le0 hle)
        omega
#print axioms add_step
end LAG
