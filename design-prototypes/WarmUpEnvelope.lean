import Mathlib.Tactic
/-! Prototype: static envelope of the warm-up threshold over exact rationals (C11). -/
namespace WU

/-- warningQps of `WarmUpTrafficShapingCalculator.CalculateAllowedTokens` in exact arithmetic
    (slope = (cf-1)/T/(max-warn); none = the NaN/Inf case of the float code) -/
def allowed (T : ℚ) (cf warn mx rest : ℕ) : Option ℚ :=
  if rest < warn then some T
  else if mx = warn ∨ T = 0 then none        -- slope is +Inf (or 0·Inf = NaN): the defect region
  else
    let above : ℚ := (rest : ℚ) - warn
    let slope : ℚ := ((cf : ℚ) - 1) / T / ((mx : ℚ) - warn)
    some (1 / (above * slope + 1 / T))

theorem allowed_closed_form (T : ℚ) (hT : 0 < T) (cf warn mx rest : ℕ) (hmw : warn < mx) (hr : warn ≤ rest) :
    allowed T cf warn mx rest = some (T * ((mx:ℚ) - warn) / (((rest:ℚ) - warn) * ((cf:ℚ) - 1) + ((mx:ℚ) - warn))) := by
  unfold allowed
  have h1 : ¬ rest < warn := by omega
  have h2 : ¬ (mx = warn ∨ T = 0) := by
    push_neg; exact ⟨by omega, ne_of_gt hT⟩
  simp only [h1, h2, if_false]
  congr 1
  have hd : (0:ℚ) < (mx:ℚ) - warn := by
    have : (warn:ℚ) < mx := by exact_mod_cast hmw
    linarith
  have hT' : T ≠ 0 := ne_of_gt hT
  have hd' : (mx:ℚ) - warn ≠ 0 := ne_of_gt hd
  field_simp

/-- C11: for every non-degenerate warm-up configuration the effective threshold lies in [T/cf, T] -/
theorem envelope (T : ℚ) (hT : 0 < T) (cf warn mx rest : ℕ) (hcf : 2 ≤ cf) (hmw : warn < mx)
    (hr : warn ≤ rest) (hrm : rest ≤ mx) :
    ∃ q, allowed T cf warn mx rest = some q ∧ T / cf ≤ q ∧ q ≤ T := by
  refine ⟨_, allowed_closed_form T hT cf warn mx rest hmw hr, ?_, ?_⟩
  all_goals
    have hd : (0:ℚ) < (mx:ℚ) - warn := by
      have : (warn:ℚ) < mx := by exact_mod_cast hmw
      linarith
    have ha0 : (0:ℚ) ≤ (rest:ℚ) - warn := by
      have : (warn:ℚ) ≤ rest := by exact_mod_cast hr
      linarith
    have ha1 : (rest:ℚ) - warn ≤ (mx:ℚ) - warn := by
      have : (rest:ℚ) ≤ mx := by exact_mod_cast hrm
      linarith
    have hc : (1:ℚ) ≤ (cf:ℚ) - 1 := by
      have : (2:ℚ) ≤ cf := by exact_mod_cast hcf
      linarith
    have hcf0 : (0:ℚ) < cf := by linarith
    have hden : (0:ℚ) < ((rest:ℚ) - warn) * ((cf:ℚ) - 1) + ((mx:ℚ) - warn) := by positivity
  · rw [div_le_div_iff₀ hcf0 hden]
    nlinarith [mul_le_mul_of_nonneg_right ha1 (by linarith : (0:ℚ) ≤ (cf:ℚ) - 1)]
  · rw [div_le_iff₀ hden]
    nlinarith [mul_nonneg ha0 (by linarith : (0:ℚ) ≤ (cf:ℚ) - 1)]

/-- the defect region is reachable by a valid rule: T = 1, period = 1 s, cf = 3 ⇒ warn = 0 = max -/
example : allowed 1 3 0 0 0 = none := by decide
#print axioms envelope
end WU
