// Translator fixtures for C19 (the directory is called hertz because that framework's table row accepts both ways of
// invoking the next handler and has Abort-style stop calls)
//
// Translator fixtures for C19 (parsed by go/cmd/extract19, never compiled): each function is one shape the
// extractor must either translate exactly or reject (`unknown`).  `Good*` must conform in all six scenarios,
// `Bad*` must not.  Expected IR: ../../../expected.ir
package hertz

import (
	sentinel "github.com/alibaba/sentinel-golang/api"
)

type Ctx interface {
	Next()
	Abort()
	AbortWithStatus(int)
	Status(int)
}
type Handler func(c Ctx) error
type options struct {
	fallback func(c Ctx) error
	skip     func(c Ctx) bool
}

func GoodCanonical(next Handler, o *options) Handler {
	return func(c Ctx) error {
		entry, blockErr := sentinel.Entry("r")
		if blockErr != nil {
			if o.fallback != nil {
				return o.fallback(c)
			}
			return blockErr
		}
		defer entry.Exit()
		err := next(c)
		if err != nil {
			sentinel.TraceError(entry, err)
		}
		return err
	}
}

func GoodVoid() func(c Ctx) {
	return func(c Ctx) {
		entry, err := sentinel.Entry("r")
		if err != nil {
			c.AbortWithStatus(429)
			return
		}
		defer entry.Exit()
		c.Next()
	}
}

func GoodIfInit(next Handler) Handler {
	return func(c Ctx) error {
		entry, blockErr := sentinel.Entry("r")
		if blockErr != nil {
			return blockErr
		}
		defer entry.Exit()
		if err := next(c); err != nil {
			sentinel.TraceError(entry, err)
			return err
		}
		return nil
	}
}

func GoodElse() func(c Ctx) {
	return func(c Ctx) {
		entry, err := sentinel.Entry("r")
		if err != nil {
			c.AbortWithStatus(429)
			return
		} else {
			defer entry.Exit()
			c.Next()
		}
	}
}

func BadInverted() func(c Ctx) {
	return func(c Ctx) {
		entry, err := sentinel.Entry("r")
		if err == nil {
			c.AbortWithStatus(429)
			return
		}
		defer entry.Exit()
		c.Next()
	}
}

func BadGoroutine() func(c Ctx) {
	return func(c Ctx) {
		entry, err := sentinel.Entry("r")
		if err != nil {
			c.AbortWithStatus(429)
			return
		}
		defer entry.Exit()
		go c.Next()
	}
}

func BadClosureDefer() func(c Ctx) {
	return func(c Ctx) {
		entry, err := sentinel.Entry("r")
		if err != nil {
			c.AbortWithStatus(429)
			return
		}
		defer func() { entry.Exit() }()
		c.Next()
	}
}

func BadNoExit() func(c Ctx) {
	return func(c Ctx) {
		_, err := sentinel.Entry("r")
		if err != nil {
			c.AbortWithStatus(429)
			return
		}
		c.Next()
	}
}

func BadEarlyNext(o *options) func(c Ctx) {
	return func(c Ctx) {
		if o.skip(c) {
			c.Next()
			return
		}
		entry, err := sentinel.Entry("r")
		if err != nil {
			c.AbortWithStatus(429)
			return
		}
		defer entry.Exit()
		c.Next()
	}
}

func BadExitTwice() func(c Ctx) {
	return func(c Ctx) {
		entry, err := sentinel.Entry("r")
		if err != nil {
			c.AbortWithStatus(429)
			return
		}
		defer entry.Exit()
		c.Next()
		entry.Exit()
	}
}

func BadLoop(next Handler) func(c Ctx) {
	return func(c Ctx) {
		entry, err := sentinel.Entry("r")
		if err != nil {
			c.AbortWithStatus(429)
			return
		}
		defer entry.Exit()
		for i := 0; i < 2; i++ {
			_ = next(c)
		}
	}
}

func BadAlias() func(c Ctx) {
	return func(c Ctx) {
		entry, err := sentinel.Entry("r")
		if err != nil {
			c.AbortWithStatus(429)
			return
		}
		e2 := entry
		defer e2.Exit()
		c.Next()
	}
}

func BadSilentBlock(next Handler) Handler {
	return func(c Ctx) error {
		entry, blockErr := sentinel.Entry("r")
		if blockErr != nil {
			return nil
		}
		defer entry.Exit()
		err := next(c)
		if err != nil {
			sentinel.TraceError(entry, err)
		}
		return err
	}
}

func BadLocalFuncVar(next Handler) func(c Ctx) {
	return func(c Ctx) {
		entry, err := sentinel.Entry("r")
		if err != nil {
			c.AbortWithStatus(429)
			return
		}
		defer entry.Exit()
		h := next
		_ = h(c)
	}
}

func BadTraceAfterExit(next Handler) Handler {
	return func(c Ctx) error {
		entry, blockErr := sentinel.Entry("r")
		if blockErr != nil {
			return blockErr
		}
		err := next(c)
		entry.Exit()
		if err != nil {
			sentinel.TraceError(entry, err)
		}
		return err
	}
}

func BadDroppedError(next Handler) func(c Ctx) {
	return func(c Ctx) {
		entry, err := sentinel.Entry("r")
		if err != nil {
			c.AbortWithStatus(429)
			return
		}
		defer entry.Exit()
		_ = next(c)
	}
}

func BadHandlerInBlockBranch(next Handler) Handler {
	return func(c Ctx) error {
		entry, blockErr := sentinel.Entry("r")
		if blockErr != nil {
			return next(c)
		}
		defer entry.Exit()
		err := next(c)
		if err != nil {
			sentinel.TraceError(entry, err)
		}
		return err
	}
}

func BadSwitch(mode int) func(c Ctx) {
	return func(c Ctx) {
		entry, err := sentinel.Entry("r")
		if err != nil {
			c.AbortWithStatus(429)
			return
		}
		switch mode {
		case 1:
			return
		}
		defer entry.Exit()
		c.Next()
	}
}

// the chain is not stopped: in a Next-loop framework the handler still runs
func BadReturnNoStop() func(c Ctx) {
	return func(c Ctx) {
		entry, err := sentinel.Entry("r")
		if err != nil {
			c.Status(429)
			return
		}
		defer entry.Exit()
		c.Next()
	}
}

func GoodStatusThenAbort() func(c Ctx) {
	return func(c Ctx) {
		entry, err := sentinel.Entry("r")
		if err != nil {
			c.Status(429)
			c.Abort()
			return
		}
		defer entry.Exit()
		c.Next()
	}
}

// stops the chain but produces no rejection
func BadAbortOnly() func(c Ctx) {
	return func(c Ctx) {
		entry, err := sentinel.Entry("r")
		if err != nil {
			c.Abort()
			return
		}
		defer entry.Exit()
		c.Next()
	}
}

// the configured fallback stops, the default rejection does not
func BadDefaultNoStop(o *options) func(c Ctx) {
	return func(c Ctx) {
		entry, err := sentinel.Entry("r")
		if err != nil {
			if o.fallback != nil {
				_ = o.fallback(c)
			} else {
				c.Status(429)
			}
			return
		}
		defer entry.Exit()
		c.Next()
	}
}

type opts2 struct {
	extract        func(c Ctx) string
	streamExtract  func(c Ctx) string
	fallback       func(c Ctx) error
	streamFallback func(c Ctx) error
}

// the fallback that is called is not the one that was tested
func BadMisguardedFallback(o *opts2) func(c Ctx) {
	return func(c Ctx) {
		entry, err := sentinel.Entry("r")
		if err != nil {
			if o.fallback != nil {
				_ = o.streamFallback(c)
				return
			}
			c.AbortWithStatus(429)
			return
		}
		defer entry.Exit()
		c.Next()
	}
}

// the resource extractor that is called is not the one that was tested
func BadMisguardedExtractor(o *opts2) func(c Ctx) {
	return func(c Ctx) {
		name := "r"
		if o.extract != nil {
			name = o.streamExtract(c)
		}
		entry, err := sentinel.Entry(name)
		if err != nil {
			c.AbortWithStatus(429)
			return
		}
		defer entry.Exit()
		c.Next()
	}
}

// each call under its own test (also through a conjunction, and nested)
func GoodGuards(o *opts2) func(c Ctx) {
	return func(c Ctx) {
		name := "r"
		if o.extract != nil && o.streamExtract != nil {
			name = o.extract(c) + o.streamExtract(c)
		}
		entry, err := sentinel.Entry(name)
		if err != nil {
			if o.fallback != nil {
				if o.streamFallback != nil {
					_ = o.streamFallback(c)
				}
				_ = o.fallback(c)
				return
			}
			c.AbortWithStatus(429)
			return
		}
		defer entry.Exit()
		c.Next()
	}
}
