// Translator fixture for C19: delegation to the embedded wrapped client (see ../hertz/fx.go).
package micro

import (
	"context"

	sentinel "github.com/alibaba/sentinel-golang/api"
)

type wrapped interface {
	Call(ctx context.Context) error
}
type wrapper struct {
	wrapped
	n int
}

func (w *wrapper) Call(ctx context.Context) error {
	entry, blockErr := sentinel.Entry("r")
	if blockErr != nil {
		return blockErr
	}
	defer entry.Exit()
	err := w.wrapped.Call(ctx)
	if err != nil {
		sentinel.TraceError(entry, err)
	}
	return err
}
