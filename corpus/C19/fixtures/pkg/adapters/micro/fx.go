// Translator fixture for C19: delegation to the embedded wrapped client (see ../hertz/fx.go).
package micro

import (
	"context"

	sentinel "github.com/alibaba/sentinel-golang/api"
)

type wrapped interface {
	Call(ctx context.Context) error
}
type wrapper struct {
	wrapped
	n int
}

func (w *wrapper) Call(ctx context.Context) error {
	entry, blockErr := sentinel.Entry("r")
	if blockErr != nil {
		return blockErr
	}
	defer entry.Exit()
	err := w.wrapped.Call(ctx)
	if err != nil {
		sentinel.TraceError(entry, err)
	}
	return err
}

// Regression for /repo d41329a (known/C19.jsonl `micro/server.go:NewStreamWrapper:option-guards`, kind fixed): the
// stream wrapper as it was, testing the unary option fields and calling the stream ones.  (`Bad`: must not conform;
// its IR must differ from the recorded finding `micro/server.go:NewStreamWrapper.func1`, which is only the early Exit.)
type Stream interface {
	Send(v interface{}) error
	Method() string
}
type streamOptions struct {
	serverResourceExtract       func(ctx context.Context) string
	streamServerResourceExtract func(s Stream) string
	serverBlockFallback         func(ctx context.Context) error
	streamServerBlockFallback   func(s Stream, err error) Stream
}

func evaluate() *streamOptions { return &streamOptions{} }

func BadStreamWrapperGuards() func(stream Stream) Stream {
	return func(stream Stream) Stream {
		opts := evaluate()
		resourceName := stream.Method()
		if opts.serverResourceExtract != nil {
			resourceName = opts.streamServerResourceExtract(stream)
		}
		entry, blockErr := sentinel.Entry(resourceName)
		if blockErr != nil {
			if opts.serverBlockFallback != nil {
				return opts.streamServerBlockFallback(stream, blockErr)
			}

			stream.Send(blockErr)
			return stream
		}

		entry.Exit()
		return stream
	}
}
