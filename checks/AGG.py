"""AGG — the metric aggregator bridge: what happened on a resource in a second is what the metric log says.

An internal check (not a property): run as an extra phase of C17 (`ALSO = ["AGG"]`), whose statement starts at "every
metric item accepted by the writer"; AGG covers the piece in front of it (core/log/metric/aggregator.go: doAggregate,
currentMetricItems, isItemTimestampInTime, isActiveMetricItem, aggregateIntoMap, writeTaskLoop) and composes C08's
per-second items with C17's writer / searcher.  `bin/check AGG quick` works standalone and writes evidence/AGG.json."""
import collections
import glob
import os
import shutil
import tempfile

from vlib import core, std
from vlib.core import Case, ROOT

PROP = "AGG"
SPEC_MODE = "spec"
KEEP_PREFIX = 2                      # clock + agg.new
SIZES = {"quick": 3000, "thorough": 40000}
BATCH = 1000
SHRINK_BUDGET = 250
EXTRA_MODULES = ("Sentinel.Lemmas.Aggregator", "Sentinel.Lemmas.AggregatorList", "Sentinel.Lemmas.AggregatorSys",
                 "Sentinel.Lemmas.AggregatorTick", "Sentinel.Lemmas.AggregatorLog")
RULE = ("per case: `clock T0` (T0 = 1.9e12 + whole seconds + {0,1,200,499,500,999}; one in ten a few seconds before midnight UTC), "
        "`agg.new <maxSize> <maxFiles> <n> <I>` (log limits from {1..100000} x {1..6} so that size rolls, day rolls and removals happen; "
        "array geometry 65% the library default 20x10000, else from {2x1000, 4x2000, 10x5000, 40x20000, 10x10000, 5x5000, 1x1000, 100x10000, "
        "16x10000 (625 ms buckets), 10x3000 (300 ms buckets)}), 2-5 resources with classifications 0..4 plus the inbound node; then 15-70 "
        "steps, each: advance the clock (steps {0,1,100,250,499,500,501,999,1000,1001,1500,2000,3000}, snaps to the next bucket / second "
        "boundary +-1), 0-4 recordings (pass/block/complete/error/rt with amounts {0,1,1,2,5,100}, concurrency samples; bursts on one "
        "resource), an aggregate according to the case's timing mode (tick = every second with jitter; boundary = exactly on second "
        "boundaries; irregular; late = lastFetch + n*L + {-1001,-1000,-999,-501,-500,-1,0,1,500,1000} with or without a recording at that very "
        "instant; lost = gaps beyond the array interval; double = two aggregates in the same second), queries after aggregates "
        "(FindByTimeAndResource by resource / * / inbound on fresh searchers and on a shared one, FindFromTimeWithMaxLines with limits "
        "1..100, log.files).  Non-trivial = at least two non-empty aggregates and one non-empty query result; distinct by (geometry, limits, "
        "op-kind sequence).")

B0 = 1_900_000_000_000
MIDNIGHT = 1_900_022_400_000          # 2030-03-18 00:00:00 UTC
GEOS = [(2, 1000), (4, 2000), (10, 5000), (40, 20000), (10, 10000), (5, 5000), (1, 1000), (100, 10000), (16, 10000), (10, 3000)]
RES = [("a", 0), ("b", 1), ("svc", 2), ("/api/x", 3), ("été", 4), ("q_q", 0)]
EVS = ["pass", "pass", "pass", "block", "complete", "complete", "error", "rt", "rt"]
STEPS = [0, 0, 1, 100, 250, 499, 500, 501, 999, 1000, 1000, 1001, 1500, 2000, 3000]
MODES = ["tick", "tick", "boundary", "irregular", "irregular", "late", "late", "lost", "double"]
# C17's known findings surface end to end through the aggregator (same keys, AGG's own replays where there is one)
KNOWN_FROM_C17 = {
    "metriclog-first-second": "replays/known/AGG-metriclog-first-second.ops",
    "metriclog-orphan-head": None,
    "metriclog-cache-skip": None,
}

GEN_STATS = collections.Counter()


def gen_case(rng, cid, forced=None):
    mode = forced or rng.choice(MODES)
    n, I = (20, 10000) if rng.random() < 0.65 else rng.choice(GEOS)
    L = I // n
    if rng.random() < 0.1:
        t0 = MIDNIGHT - rng.choice([1, 2, 3, 5, 8]) * 1000 + rng.choice([0, 0, 500, 999])
    else:
        t0 = B0 + rng.randint(0, 50000) * 1000 + rng.choice([0, 0, 1, 200, 499, 500, 999])
    max_size = rng.choice([1, 100, 200, 300, 300, 500, 1000, 100000, 100000])
    max_files = rng.choice([1, 2, 2, 3, 4, 6])
    ops = [f"clock {t0}", f"agg.new {max_size} {max_files} {n} {I}"]
    res = rng.sample(RES, rng.randint(2, 5)) + [("IN", 0)]
    now = t0
    last_fetch = None            # the generator's idea of lastFetchTime (only used to aim at the boundaries)
    secs = [t0 // 1000 * 1000]
    nq = 0
    nagg = 0

    def clock(t):
        nonlocal now
        now = max(now, t)
        ops.append(f"clock {now}")
        if now // 1000 * 1000 not in secs:
            secs.append(now // 1000 * 1000)

    def records(k):
        for _ in range(k):
            r, c = rng.choice(res)
            burst = rng.choice([1, 1, 1, 2, 3])
            for _ in range(burst):
                if rng.random() < 0.15:
                    ops.append(f"conc {r} {c} {rng.choice([0, 1, 1, 2, 7, -1])}")
                else:
                    ops.append(f"record {r} {c} {rng.choice(EVS)} {rng.choice([0, 1, 1, 1, 2, 5, 100])}")
        GEN_STATS["records"] += k

    def queries():
        nonlocal nq
        for _ in range(rng.choice([0, 1, 1, 2])):
            sid = "s1" if rng.random() < 0.15 else f"f{nq}"
            nq += 1
            b = rng.choice(secs + [secs[0], secs[-1]]) + rng.choice([0, 0, 0, 1, 999, -1000, 1000])
            b = max(b, 1)
            x = rng.random()
            if x < 0.7:
                e = rng.choice([b, b + 1000, b + 3000, now, 10 ** 14, max(1, b - 1000)])
                r = rng.choice(["*", "*", "IN", "nosuch"] + [r for r, _ in res])
                ops.append(f"log.find {sid} {b} {e} {r}")
            elif x < 0.93:
                ops.append(f"log.from {sid} {b} {rng.choice([0, 1, 2, 3, 5, 8, 100])}")
            else:
                ops.append("log.files")

    def aggregate():
        nonlocal last_fetch, nagg
        ops.append("aggregate")
        nagg += 1
        cur = now // 1000 * 1000
        if last_fetch is None or cur > last_fetch:
            last_fetch = cur
        if mode == "double" and rng.random() < 0.5:
            ops.append("aggregate")
        if rng.random() < 0.55:
            queries()

    for _ in range(rng.randint(15, 70)):
        x = rng.random()
        if x < 0.55:
            clock(now + rng.choice(STEPS))
        elif x < 0.7:
            clock((now // L + 1) * L + rng.choice([0, 0, 0, 1, -1]))           # next bucket boundary
        elif x < 0.8:
            clock((now // 1000 + 1) * 1000 + rng.choice([0, 0, 0, 1, -1]))     # next second boundary
        records(rng.choice([0, 1, 1, 2, 2, 3, 4]))
        y = rng.random()
        if mode == "tick":
            if last_fetch is None or now >= last_fetch + 1000 + rng.choice([0, 0, 3, 50, 400]):
                aggregate()
        elif mode == "boundary":
            if y < 0.5:
                clock((now // 1000 + 1) * 1000)
                if rng.random() < 0.5:
                    records(1)
                aggregate()
        elif mode in ("irregular", "double"):
            if y < 0.3:
                aggregate()
        elif mode == "late":
            if y < 0.25 and last_fetch is not None:
                clock(last_fetch + I + rng.choice([-1001, -1000, -999, -501, -500, -1, 0, 0, 1, 500, 1000]))
                if rng.random() < 0.5:
                    records(1)                       # touches the current bucket: the slot one interval old is recycled
                aggregate()
                GEN_STATS["late-aggregates"] += 1
            elif y < 0.45:
                aggregate()
        elif mode == "lost":
            if y < 0.2:
                clock(now + I + rng.choice([0, 1, 999, 1000, 5000, 60000]))
                aggregate()
                GEN_STATS["lost-aggregates"] += 1
            elif y < 0.4:
                aggregate()
    clock((now // 1000 + 1) * 1000 + rng.choice([0, 5, 999]))
    aggregate()
    ops.append(f"log.find z {t0} {10 ** 14} *")
    ops.append(f"log.find y {t0 // 1000 * 1000 + 1000} {10 ** 14} *")
    queries()
    ops.append("log.files")
    GEN_STATS["mode=" + mode] += 1
    GEN_STATS["default-geometry" if (n, I) == (20, 10000) else "other-geometry"] += 1
    GEN_STATS["aggregates"] += nagg
    return Case(cid, ops, tags=(mode, f"geo={n}x{I}", f"size={max_size}", f"files={max_files}"))


def gen(ctx, n):
    out = []
    base = ctx.cov.get("traces_validated_against_impl", 0)
    for i in range(n):
        forced = MODES[i % len(MODES)] if i % 4 == 0 else None
        out.append(gen_case(ctx.rng, f"g{ctx.seed}-{base}-{i}", forced))
    return out


def corpus():
    res = []
    for p in sorted(glob.glob(os.path.join(ROOT, "corpus", PROP, "*.ops"))):
        ops = [l.rstrip("\n") for l in open(p) if l.strip() and not l.startswith("#") and not l.startswith("case ")]
        res.append(Case(os.path.basename(p), ops, tags=("corpus",)))
    return res


def densify(ops, rng):
    """a whole-log query on a fresh searcher after every aggregate, aggregates after every clock step"""
    out = []
    t0 = int(ops[0].split()[1]) if ops and ops[0].startswith("clock ") else B0
    k = 0
    for o in ops:
        out.append(o)
        if o == "aggregate" or (o.startswith("clock ") and len(out) > 2 and rng.random() < 0.3):
            if o != "aggregate":
                out.append("aggregate")
            out.append(f"log.find d{k} {t0 // 1000 * 1000 + 1000} {10 ** 14} *")
            k += 1
    return out


def nontrivial(case, impl):
    nonempty_aggs = sum(1 for l in impl if l.startswith("aggregate => [") and not l.endswith("=> []"))
    nonempty_q = any(l.startswith(("log.find", "log.from")) and " => [" in l and not l.endswith("=> []") for l in impl)
    if nonempty_aggs >= 2 and nonempty_q:
        kinds = "".join(o[0] if not o.startswith("log.") else o[4] for o in case.ops[2:])
        return hash((case.ops[1], kinds))
    return None


def _sweep():
    """remove temp directories of harness processes that are gone (never those of a live process)"""
    for d in glob.glob(os.path.join(tempfile.gettempdir(), "verif-agg-*")):
        parts = os.path.basename(d).split("-")
        if len(parts) >= 4 and parts[2].isdigit() and not os.path.exists(f"/proc/{parts[2]}"):
            shutil.rmtree(d, ignore_errors=True)


def _load_known(orig):
    def load(prop):
        if prop != PROP:
            return orig(prop)
        out = []
        for e in orig("C17"):
            if e.get("key") in KNOWN_FROM_C17:
                e = dict(e)
                e["replay"] = KNOWN_FROM_C17[e["key"]]
                out.append(e)
        return out
    return load


def _with_c17_known(f):
    orig = core.load_known
    core.load_known = _load_known(orig)
    try:
        return f()
    finally:
        core.load_known = orig
        _sweep()


def run(ctx):
    return _with_c17_known(lambda: std.run(ctx, __import__("checks.AGG", fromlist=["x"])))


def replay(path):
    return _with_c17_known(lambda: std.replay(__import__("checks.AGG", fromlist=["x"]), path))


META = {
    "technique": "Lean 4 proof (composition of the C08 leap-array model and the C17 metric-log model through a code-shaped doAggregate, "
                 "induction over histories of recordings and aggregator ticks) + differential correspondence model/impl on the real stat nodes, "
                 "the real doAggregate / writeTaskLoop (go:linkname) and a real writer / searcher on a temp directory",
    "level_text": ("Theorems in lean/Sentinel/Props/AGG.lean about lean/Sentinel/Model/Aggregator.lean (the file the driver runs; it imports the C08 "
                   "and C17 models, nothing is re-modelled): for every history of recordings and aggregator ticks with non-decreasing time in which "
                   "every tick arrives while its fetch window is still inside the node arrays (now < max(lastFetch, second of creation) + n*L; implied "
                   "by ticks at most n*L - 1000 ms apart; tight by a decide witness), every (resource, second) strictly before the latest fetch is "
                   "handed to the writer exactly once iff it was active, with fields equal to the per-second reference over the recorded events; "
                   "the seconds handed to the writer are strictly increasing and not before its creation, so every Write is accepted and C17's "
                   "round-trip theorem applies end to end (a fresh searcher returns exactly the active per-second reference items in range, outside "
                   "C17's known-finding regions). Tied to the code by running the same op files through the real packages and the compiled model."),
    "level_note": ("Trusted: Lean kernel; axioms propext/Classical.choice/Quot.sound; Go harness (virtual clock, UTC; the inbound node is re-created per "
                   "case; the write loop runs in lock step with an end-of-drain marker). The order of the nodes inside one second (Go map iteration) is "
                   "canonicalised. C17's known findings metriclog-first-second / -orphan-head / -cache-skip surface end to end and are marked by the "
                   "spec. Not modelled: concurrent recordings during doAggregate (C09), a full writeChan (60 pending maps), writer errors."),
    "design_ref": "DESIGN.md 6.C17 / 6.C08 (notes/AGG.md)",
}
