"""C06 — hot-parameter concurrency is capped per value and its counters conserved."""
from vlib.core import Case

PROP = "C06"
SPEC_MODE = "oracle"
KEEP_PREFIX = 1
SHRINK_BUDGET = 150
EXTRA_MODULES = ("Sentinel.Lemmas.HotConc", "Sentinel.Lemmas.HotConcCap", "Sentinel.Lemmas.HotConcReload")
SIZES = {"quick": 6000, "thorough": 120000}
BATCH = 3000
RULE = ("[plus a real-parallelism phase: 8 (thorough 20) `storm` cases, 20k (200k) rounds in all, each round = 2-6 goroutines "
        "calling api.Entry for one fresh value at once under GOMAXPROCS>1, their exits, and a sequential probe that must admit exactly "
        "the threshold; in every second case each admitted entry is exited by two goroutines at the same moment] per case 1-4 hotspot rules (mostly MetricType=Concurrency; general threshold from {0,1,1,2,3}, 0-2 specific items with "
        "thresholds from {0,1,2,5,-1}; ParamIndex from {0,1,-1,-2,2}, ParamKey '' / k / u incl. the invalid index>0+key combination and "
        "negative thresholds; ParamsMaxCapacity from {0 (=4000),1,2,3,8}; sometimes two rules on one resource, sometimes an inert QPS rule) on "
        "1-3 resources; in 35% of the cases QPS rules (Reject with a generous threshold, Throttling that queues every closely following "
        "request of a value and never blocks) stand before and after the concurrency rules of a resource; then 15-90 ops: entries whose "
        "arguments are drawn from a pool of 2-9 values of five dynamic types (so that the same value recurs and thresholds are reached, "
        "crossed by one and released), with 0-3 positional arguments - in 25% of the cases up to 12, ParamIndex at late positions "
        "(7..11, -8..-12), several entries with more than 8 arguments alive at once, lists re-used with one position changed - optional "
        "attachments, the positional arguments split over two or three WithArgs options on 30% of the multi-argument entries, WithBatchCount from {0,1,2,5,2^31,2^32-1} on 30% of the entries (<= 5 next to QPS rules), exits of any earlier entry in any order (nested and interleaved across values and resources); in a third of the "
        "cases some Entry calls are made by other goroutines that are held at the yield point between the rule-check loop and the "
        "statistic loop and resumed later in any order (schedules: check/commit interleavings, up to 4 parked at once); reads of a live "
        "entry's Input.Args, a flow rule with threshold 0 on a resource (entries blocked by another slot); in half of the cases some entries end with a business "
        "error (api.TraceError before the exit, or Exit(WithError)); concurrency rules with ControlBehavior Reject or Throttling; in half of the "
        "cases `reload`s on top of the rules in force with entries alive across them (identical list, thresholds / items changed, argument "
        "position changed, behaviour / capacity changed, reordered, a twin rule added so that two new rules could reuse one old rule, a rule "
        "or all rules of a resource dropped and re-added later, unchanged or changed), through hotspot.LoadRules (`reload`) and "
        "hotspot.LoadRulesOfResource (`reloadres`, incl. the empty list), occasionally a clean `load`; "
        "non-trivial = some entry was blocked by the hotspot rule, some entry passed after an exit, and at least two entries with "
        "different values were alive at once; distinct by (rules, op-kind/result sequence)")

VALS = ["i:1", "i:2", "l:1", "s:a", "s:b", "b:1", "s:1", "i:0", "b:0", "i:-3", "l:2", "s:zz"]


BIG_BATCH = [2147483648, 4294967295]


def gen_rule(rng, res, pool, wide=False, qps=False):
    kind = "c" if rng.random() < 0.8 else "ct"      # ControlBehavior of a concurrency rule: Reject / Throttling
    if qps and rng.random() < 0.45:
        kind = rng.choice(["q", "t", "t"])
    elif rng.random() < 0.03:
        kind = "q"
    idx = rng.choice([0, 0, 0, 1, -1, -1, -2, 2])
    if wide and rng.random() < 0.7:
        # late positions of long argument lists, from the front and from the end
        idx = rng.choice([3, 7, 8, 9, 10, 11, -1, -3, -8, -9, -10, -12])
    key = rng.choice(["", "", "", "k", "u"])
    if key and idx > 0 and rng.random() < 0.8:
        idx = rng.choice([0, -1])
    thr = rng.choice([0, 1, 1, 1, 2, 2, 3]) if rng.random() < 0.95 else rng.choice([-1, 1000000])
    pmc = rng.choice([0, 0, 0, 0, 0, 0, 8, 3, 2, 1]) if rng.random() < 0.9 else rng.choice([-1, 4000, 5])
    items = []
    if kind in ("c", "ct"):
        for v in rng.sample(pool, rng.choice([0, 0, 1, 1, 2])):
            items.append(f"{v}={rng.choice([0, 1, 1, 2, 2, 5, -1])}")
    return f"{res};{kind};{idx};{key};{thr};{pmc};{','.join(items)}"


def readd(rng, grave):
    """a rule that was dropped earlier in the case comes back: unchanged (most of the time) or with another threshold"""
    r = list(rng.choice(grave))
    if rng.random() < 0.35:
        r[4] = str(rng.choice([1, 2, 3]))
    return r


def mutate_rules(rng, cur, pool, grave=None):
    """a rule list for `reload`, derived from the rules in force: identical, thresholds / items changed (cells inherited),
    argument position changed, behaviour / capacity changed (fresh cells), reordered, a rule added next to its twin
    (two new rules that could both reuse one old rule), a rule dropped"""
    rs = [r.split(";") for r in cur]
    grave = grave if grave is not None else []
    for _ in range(rng.choice([0, 1, 1, 1, 2, 3])):
        if grave and rng.random() < 0.35:
            # re-add rules that an earlier load dropped (all dropped rules of one resource, or one of them)
            if rng.random() < 0.5:
                res = rng.choice(grave)[0]
                back = [g for g in grave if g[0] == res]
                for g in back:
                    rs.append(list(g))
                    grave.remove(g)
            else:
                rs.append(readd(rng, grave))
            continue
        if not rs:
            break
        if rng.random() < 0.15 and len({r[0] for r in rs}) > 1:
            # a whole-set load that leaves one resource without rules (the others keep theirs)
            res = rng.choice(sorted({r[0] for r in rs}))
            grave.extend(r for r in rs if r[0] == res)
            rs = [r for r in rs if r[0] != res]
            continue
        i = rng.randrange(len(rs))
        r = list(rs[i])
        m = rng.random()
        if m < 0.25:
            r[4] = str(rng.choice([0, 1, 1, 2, 2, 3, 5]))
        elif m < 0.35:
            r[6] = ",".join(f"{v}={rng.choice([0, 1, 2, 5])}" for v in rng.sample(pool, rng.choice([0, 1, 2])))
        elif m < 0.45:
            r[2] = str(rng.choice([0, 1, -1, 2]))
            if r[3] and int(r[2]) > 0:
                r[3] = ""
        elif m < 0.49:
            r[1] = {"c": "ct", "ct": "c", "q": "t", "t": "q"}[r[1]]
        elif m < 0.56:
            # only the MetricType switches (QPS <-> Concurrency), behaviour / capacity / duration stay: no statistics may be
            # inherited across that
            r[1] = {"c": "q", "q": "c", "ct": "t", "t": "ct"}[r[1]]
            if rng.random() < 0.8:
                r[5] = "0"
            if r[1] in ("c", "ct") and rng.random() < 0.7:
                r[4] = str(rng.choice([1, 1, 2]))
        elif m < 0.60:
            r[5] = str(rng.choice([0, 1, 2, 3, 8]))
        elif m < 0.80:
            # the twin: same rule looking at another position (or with another threshold), placed before or after
            t = list(r)
            if rng.random() < 0.7:
                t[2] = str(rng.choice([0, 1, -1]))
                if t[3] and int(t[2]) > 0:
                    t[3] = ""
            else:
                t[4] = str(rng.choice([1, 2, 3]))
            if rng.random() < 0.5:
                r[4] = str(rng.choice([1, 2, 3]))      # so that neither is equal to the old rule
            rs.insert(i + rng.choice([0, 1]), t)
            if len(rs) > 6:
                rs.pop(rng.randrange(len(rs)))
        elif m < 0.88:
            grave.append(rs.pop(i))
            continue
        else:
            rng.shuffle(rs)
            continue
        if i < len(rs) and rs[i][0] == r[0]:
            rs[i] = r
    return [";".join(r) for r in rs]


def gen_entry(rng, eid, res, pool, wide=False, batches=None, template=None):
    """template: an earlier argument list of the same case; reusing it with one position changed gives long lists
    that agree or differ exactly at the position a rule looks at"""
    if template is not None and rng.random() < 0.6:
        toks = list(template)
        if toks and rng.random() < 0.5:
            toks[rng.randrange(len(toks))] = rng.choice(pool)
    else:
        n = rng.choice([0, 1, 1, 1, 1, 2, 2, 3])
        if wide and rng.random() < 0.7:
            n = rng.choice([4, 8, 9, 9, 10, 11, 12, 12])
        toks = [rng.choice(pool) if rng.random() < 0.93 else "nil" for _ in range(n)]
    if rng.random() < 0.25:
        for k in rng.sample(["k", "u", "w"], rng.choice([1, 1, 2])):
            toks.append(f"@{k}={rng.choice(pool) if rng.random() < 0.9 else 'nil'}")
    # the positional arguments split over two or three WithArgs options of the one call (they are appended)
    npos = len([t for t in toks if t[0] != "@"])
    if npos >= 2 and rng.random() < 0.3:
        for cut in sorted(rng.sample(range(1, npos), min(npos - 1, rng.choice([1, 1, 2]))), reverse=True):
            toks.insert(cut, "+")
    elif npos >= 1 and rng.random() < 0.04:
        toks.insert(rng.choice([0, npos]), "+")      # an empty option before / after
    head = [f"entry {eid} {res}"]
    if batches and rng.random() < 0.3:
        head.append(f"#{rng.choice(batches)}")
    return " ".join(head + toks)


def gen_case(rng, cid, big=False):
    nres = rng.choice([1, 1, 2, 2, 3])
    ress = [f"r{i + 1}" for i in range(nres)]
    pool = rng.sample(VALS, rng.choice([2, 3, 4, 4, 5, 6, 9]))
    wide = rng.random() < 0.25      # argument lists of up to 12 values (beyond any small-buffer fast path)
    qps = rng.random() < 0.35       # QPS rules (reject, queueing throttle) before / after the concurrency rules
    has_qps = [False]
    def rules():
        rs = []
        for r in ress:
            if rng.random() < 0.9:
                rs.append(gen_rule(rng, r, pool, wide, qps))
                while rng.random() < (0.5 if qps else 0.3) and len(rs) < 5:
                    rs.append(gen_rule(rng, r, pool, wide, qps))
        if not rs:
            rs.append(gen_rule(rng, ress[0], pool, wide, qps))
        if rng.random() < 0.3:
            rng.shuffle(rs)
        if any(";q;" in x or ";t;" in x for x in rs):
            has_qps[0] = True
        return rs
    cur = rules()
    ops = ["load " + " ".join(cur)]
    ids, k = [], 0
    parked = []
    fb = set()
    p_reload = rng.choice([0, 0, 0, 0.02, 0.04, 0.08])     # reloads on top of the rules in force, entries alive across them
    grave = []                                             # rules dropped by a reload (they come back later)
    p_err = rng.choice([0, 0, 0.15, 0.4])                  # entries that end with a business error
    templates = []
    p_race = rng.choice([0, 0, 0, 0.08, 0.2, 0.35])
    nops = rng.randint(15, 90) if not big else rng.randint(100, 300)
    # phases bias the mix: filling (many entries), draining (many exits)
    p_exit = rng.choice([0.2, 0.3, 0.4])
    def batches(res):
        # a batch count never changes what a concurrency cell does; with QPS rules around only small ones (their
        # "never blocks" parameters hold for batches <= 5), and no 0 on a flow-blocked resource (0 passes that rule)
        bs = [0, 1, 2, 5] if has_qps[0] else [0, 1, 2, 5] + BIG_BATCH
        return [b for b in bs if not (b == 0 and res in fb)]
    for _ in range(nops):
        r = rng.random()
        if rng.random() < 0.04:
            p_exit = rng.choice([0.1, 0.3, 0.5, 0.8])
        if parked and rng.random() < 0.45:
            eid = parked.pop(rng.randrange(len(parked)))
            ops.append(f"resume {eid}")
            ids.append(eid)
        elif rng.random() < p_reload:
            if rng.random() < 0.6:
                cur = mutate_rules(rng, cur, pool, grave)
                ops.append(("reload " + " ".join(cur)).rstrip())
            else:
                # hotspot.LoadRulesOfResource: empty (the resource loses its rules), its dropped rules re-added, or its
                # current rules mutated; the other resources are untouched
                res = rng.choice(ress)
                mine = [x for x in cur if x.split(";")[0] == res]
                gone = [g for g in grave if g[0] == res]
                m = rng.random()
                if m < 0.3 and mine:
                    grave.extend(x.split(";") for x in mine)
                    new = []
                elif gone and m < 0.75:
                    new = mine + [";".join(g if rng.random() < 0.7 else readd(rng, [g])) for g in gone]
                    for g in gone:
                        grave.remove(g)
                else:
                    new = [x for x in mutate_rules(rng, mine or [gen_rule(rng, res, pool, wide, qps)], pool, None) if x.split(";")[0] == res]
                cur = [x for x in cur if x.split(";")[0] != res] + new
                ops.append(("reloadres " + res + " " + " ".join(new)).rstrip())
            if any(";q;" in x or ";t;" in x for x in cur):
                has_qps[0] = True
        elif r < p_exit and ids:
            i = rng.randrange(len(ids)) if rng.random() < 0.7 else (len(ids) - 1 if rng.random() < 0.5 else 0)
            eid = ids.pop(i)
            if rng.random() < p_err:
                if rng.random() < 0.5:
                    ops.append(f"trace {eid}")
                    ops.append(f"exit {eid}")
                else:
                    ops.append(f"exit {eid} err")
            else:
                ops.append(f"exit {eid}")
        elif r < p_exit + 0.08 and ids:
            ops.append(f"args {rng.choice(ids)}")
        elif r < p_exit + 0.09 and rng.random() < 0.25:
            res = rng.choice(ress)
            fb.add(res)
            ops.append(f"flowblock {res}")
        elif r < p_exit + 0.10 and rng.random() < 0.15:
            cur = rules()
            ops.append("load " + " ".join(cur))
        else:
            k += 1
            eid = f"e{k}"
            res = rng.choice(ress)
            e = gen_entry(rng, eid, res, pool, wide, batches(res), rng.choice(templates) if (wide and templates) else None)
            if wide:
                templates.append([t for t in e.split()[3:] if t[0] not in "#@+"])
            if rng.random() < p_race and len(parked) < 4:
                # the same call made by another goroutine, parked between its check and its statistic slots;
                # often a second one for the same value right behind it (the check-then-act window)
                ops.append("p" + e)
                parked.append(eid)
                if rng.random() < 0.5:
                    k += 1
                    ops.append("p" + " ".join(["entry", f"e{k}"] + e.split()[2:]))
                    parked.append(f"e{k}")
            else:
                ops.append(e)
                ids.append(eid)
    # drain and probe: after everything has exited every value must be admissible again (returns to zero)
    rng.shuffle(parked)
    for eid in parked:
        ops.append(f"resume {eid}")
        ids.append(eid)
    if rng.random() < 0.7:
        rng.shuffle(ids)
        for eid in ids:
            ops.append(f"exit {eid} err" if rng.random() < p_err else f"exit {eid}")
        for v in rng.sample(pool, min(len(pool), 3)):
            k += 1
            ops.append(f"entry e{k} {rng.choice(ress)} {v}")
    return Case(cid, ops, tags=(f"res={nres}", f"pool={len(pool)}") + (("wide",) if wide else ()) + (("qps",) if qps else ()))


def gen(ctx, n):
    return [gen_case(ctx.rng, f"g{ctx.seed}-{ctx.rng.randrange(10**9)}", big=(ctx.rng.random() < 0.03)) for _ in range(n)]


STORM_ROUNDS = {"quick": 20000, "thorough": 200000}


def storm_cases(ctx):
    """real-parallelism cases (`storm`): G goroutines enter one fresh value at once, exit, then a sequential probe must
    find the value's cell back at 0 (it admits exactly the threshold).  Deterministic on correct code whatever the schedule."""
    rng = ctx.rng
    ncases = 8 if ctx.tier == "quick" else 20
    per = STORM_ROUNDS[ctx.tier] // ncases
    cases = []
    for i in range(ncases):
        g = [2, 3, 4, 2, 3, 4, 2, 3][i % 8]
        thr = rng.choice([1, 1, 2, 3])
        kind = rng.choice(["c", "c", "ct"])
        pmc = rng.choice([0, 0, 1, 2, 8])
        idx = rng.choice([0, 0, -1])
        rules = [f"r1;{kind};{idx};;{thr};{pmc};"]
        if rng.random() < 0.4:
            rules.insert(rng.choice([0, 1]), f"r1;c;{rng.choice([0, -1])};;{rng.choice([1, 2, 4])};{rng.choice([0, 3])};i:7=1")
        if rng.random() < 0.3:
            rules.append(f"r2;c;0;;1;0;")
        ops = ["load " + " ".join(rules)]
        # some ordinary traffic first (other values, all exited before the storm)
        for k in range(rng.choice([0, 0, 2, 4])):
            ops += [f"entry w{k} r1 s:a", f"exit w{k}"]
        ops.append(f"storm r1 {rng.choice(['i', 's'])} {g} {per}" + (" x2" if i % 2 == 1 else ""))
        cases.append(Case(f"storm{ctx.seed}-{i}", ops, tags=("storm", f"g={g}", f"thr={thr}")))
    return cases


def _storm_phase(ctx, eng):
    cases = storm_cases(ctx)
    eng.check(cases, "storm")
    ctx.cov["storm"] = {"cases": len(cases), "rounds": sum(int(c.ops[-1].split()[4]) for c in cases),
                        "goroutines": sorted({int(c.ops[-1].split()[3]) for c in cases}),
                        "double_exit_cases": sum(1 for c in cases if c.ops[-1].endswith(" x2"))}


def run(ctx):
    import sys
    from vlib import std
    return std.run(ctx, sys.modules[__name__], extra=_storm_phase)


def corpus():
    import glob, os
    from vlib.core import ROOT
    res = []
    for p in sorted(glob.glob(os.path.join(ROOT, "corpus", PROP, "*.ops"))):
        cur, name, k = None, os.path.basename(p), 0
        for l in open(p):
            l = l.rstrip("\n")
            if not l.strip() or l.startswith("#"):
                continue
            if l.startswith("case "):
                if cur:
                    res.append(Case(f"{name}#{k}", cur, tags=("corpus",)))
                    k += 1
                cur = []
                continue
            if cur is None:
                cur = []
            cur.append(l.split(" => ")[0])
        if cur:
            res.append(Case(f"{name}#{k}", cur, tags=("corpus",)))
    # the default capacity (ConcurrencyMaxCount = 4000, ParamsMaxCapacity = 0): one long-running request for value 0 and
    # n other values passing through; n = 3999 fills the cache exactly (value 0 still capped), n = 4000 evicts value 0's cell
    for n in (3999, 4000):
        ops = ["load r1;c;0;;1;0;", "entry long r1 i:0", "entry dup r1 i:0"]
        for i in range(1, n + 1):
            ops += [f"entry x{i} r1 i:{i}", f"exit x{i}"]
        ops += ["entry second r1 i:0", "exit long", "exit second", "entry a r1 i:0", "entry b r1 i:0", "entry c r1 i:0"]
        res.append(Case(f"default-capacity-{n}", ops, tags=("corpus", "capacity")))
    return res


def densify(ops, rng):
    """read the arguments of every entry issued so far after random ops, and probe admission with entry/exit pairs"""
    out, ids, n = [], [], 0
    for o in ops:
        out.append(o)
        t = o.split()
        if t[0] in ("entry", "resume"):
            ids.append(t[1])
        if rng.random() < 0.4 and ids:
            for i in rng.sample(ids, min(len(ids), 3)):
                out.append(f"args {i}")
        if rng.random() < 0.15 and t[0] == "entry":
            n += 1
            out.append(" ".join(["entry", f"p{n}"] + [x for x in t[2:] if x != "#0"]))
            if rng.random() < 0.5:
                out.append(f"exit p{n}")
    return out


def nontrivial(case, impl):
    blocked = passed_after_exit = False
    seen_exit = False
    live = {}
    parked = {}
    two = False
    sig = []
    for l in impl:
        op, _, r = l.partition(" => ")
        t = op.split()
        if t[0] == "exit":
            seen_exit = t[1] in live or seen_exit
            live.pop(t[1], None)
            sig.append("x")
        elif t[0] == "pentry":
            parked[t[1]] = tuple(t[3:])
            sig.append("c")
        elif t[0] in ("entry", "resume"):
            if t[0] == "resume":
                t = ["entry", t[1], "?"] + list(parked.pop(t[1], ()))
            if r == "block hot":
                blocked = True
                sig.append("b")
            elif r == "pass":
                live[t[1]] = tuple(t[3:])
                if seen_exit:
                    passed_after_exit = True
                if len(set(live.values())) >= 2:
                    two = True
                sig.append("p")
            else:
                sig.append("f")
    if blocked and passed_after_exit and two:
        return hash((case.ops[0], "".join(sig)))
    return None


META = {
    "technique": "Lean 4 proof (inductive invariant over entry/exit histories of the code-shaped LRU-cell model) + differential correspondence model/impl + trace oracle + real-parallelism storm phase with a schedule-independent observation",
    "level_text": ("Theorems in lean/Sentinel/Props/C06.lean, kernel-checked for every rule set, every argument list and every history of entries "
                   "and exits in any order: while a rule's counter cache has not evicted, the cell of every value equals the number of live entries "
                   "admitted with it (cell_eq_live), admission is exactly live(v) < threshold(v) for every value and every threshold incl. 0 "
                   "(admit_iff at full strength, check_verdict_iff under any check/commit interleaving), the cap live(v) <= threshold(v) in sequential "
                   "histories (capped_sequential) and live(v) <= threshold(v) + P - 1 under any schedule with at most P goroutines inside "
                   "api.Entry (capped_sched), no eviction while at most ParamsMaxCapacity distinct values were seen "
                   "(no_evict_of_few_values), cells return to zero, entries for other values / blocked entries / entries blocked by another slot leave a "
                   "value's cell untouched.  The model (LRU cells, re-extraction at exit) is tied to core/hotspot + api.Entry "
                   "by running the same op files through the real packages and the compiled Lean driver and comparing every answer; the property "
                   "itself (ledger recomputed from the trace) is judged on the implementation's own trace."),
    "level_note": ("Trusted: Lean kernel; axioms propext/Classical.choice/Quot.sound; Go harness and canonical printing. Two deviations of the code "
                   "from the statement are recorded as known findings with Lean witnesses (LRU eviction of a live value's cell beyond ParamsMaxCapacity distinct "
                   "values; the check-then-act race between goroutines, bounded by threshold + P - 1); the first-touch shortcut (9ba0999) and the args "
                   "aliasing (3ae3ba7) are repaired in the tree: regression corpus + witnesses on the old semantics. Sequential histories "
                   "and check/commit interleavings at the one yield point that matters for the cells (cache operations are under a lock, counter updates "
                   "are single atomic adds). Values: int, int64, string, bool, nil (no float/NaN, "
                   "no unhashable values); QPS rules (Reject 1e9/s, Throttling 1/s queueing with MaxQueueingTimeMs 1e9) stand before/after the concurrency rules and "
                   "are inert in the model, valid for batch counts <= 5 (C05 is about them); the batch count, business errors on exit and the "
                   "ControlBehavior of a concurrency rule are not read by any modelled step; reloads on top of rules in force (LoadRules and LoadRulesOfResource, resources dropped and re-added) follow the code's reuse "
                   "algorithm in the executable model (reload_fresh, reload_same proved; the theorems of the property quantify over one rule set)."),
    "design_ref": "DESIGN.md 6.C06",
}
