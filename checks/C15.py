"""C15 — the public API is race free and rule switches are atomic under live traffic.

Translator-backed: `go/cmd/extract15` regenerates `lean/Sentinel/Gen/Access.lean` (the access table) from the Go
source of $VERIF_REPO on every run; `Sentinel.Props.C15` re-proves `table_disciplined`, `atomics_never_mixed`,
`lock_order_acyclic`, `slots_single_snapshot`, `inserts_rechecked`, `sections_panic_safe`, `caller_data_never_mutated`,
`extractor_understood_everything` on it by kernel evaluation, next to
the general theorems (`discipline_implies_exclusion`, `switch_is_atomic`, ...).  The dynamic cross-check is the stress
program `go/cmd/race15` built with `-race -tags verif`: every report of the race detector has to be predicted by a
table pair that the static check flags (and that a listed known finding excuses), and the atomic-switch oracles must
hold on every request.
"""
import json
import os
import re
import subprocess
import time

from vlib import core

PROP = "C15"
SPEC_MODE = "oracle"
EXTRA_MODULES = ("Sentinel.Lemmas.LockDiscipline",)
SIZES = {"quick": 1, "thorough": 1}
RACE_SECONDS = {"quick": (4.0, 2.5, 2.0), "thorough": (45.0, 15.0, 20.0)}     # (all modules but outlier, with outlier, clock-step mode)
RACE_SEEDS = {"quick": 1, "thorough": 3}
RULE = ("static: one table row per read/write site of every package-level variable of api, core/base, core/stat, core/flow, "
        "core/isolation, core/hotspot, core/circuitbreaker, core/system, core/outlier (object classes G / G[*] / G[*][*], "
        "aliases followed through package-local calls) and of every data field of a struct with a mutex field accessed through "
        "its method receiver (LruCacheMap, Recycler, Retryer, LeapArray, ...), one row per plain use of a sync/atomic field, per nested lock "
        "acquisition and per slot phase; every (live write row, live row of the same class) pair is evaluated by the kernel. "
        "dynamic: race15 under the race detector, 6 traffic goroutines + 5-6 rule churners + 2 readers, randomized yields at the "
        "verif hooks; an evaluation = one oracle-checked request (sw / sw2 / fixedB / fixedP); non-trivial = a request on `sw` "
        "or `sw2` decided while at least one rule switch of that run had already happened; distinct by (resource, outcome, "
        "triggering rule)")
META = {
    "technique": "translator (go/types) -> generated Lean access table, kernel-evaluated lock discipline + general lock-semantics "
                 "theorem; cross-checked by a -race stress run with atomic-switch oracles",
    "level_text": ("Translator-backed proof. On every run go/cmd/extract15 (go/parser + go/types, fails closed) regenerates from the current "
                   "source an access table: every read/write of the package-level rule maps, caches and listener slices of api and core/* "
                   "(classified by object class G / G[*] / G[*][*], with local aliases followed), the mutexes provably held there, every "
                   "sync/atomic field with all its plain uses, nested lock acquisitions and the lock sections of every slot phase and "
                   "Load*/Clear* function. Lean then re-proves by kernel evaluation on that table: table_disciplined (conflicting accesses "
                   "share a mutex, write mode for writes), atomics_never_mixed, lock_order_acyclic, slots_single_snapshot, "
                   "extractor_understood_everything; and, once and for all, discipline_implies_exclusion (reader-writer lock trace semantics: "
                   "two accesses holding a common mutex, one in write mode, are never concurrent) and switch_is_atomic / switch_independent "
                   "(one snapshot per phase => a request sees the old or the new rule list; other resources unaffected). A changed lock, a "
                   "second snapshot or a new plain access breaks the build of Sentinel.Props.C15 and the failing rows are the replay. The "
                   "table is cross-checked dynamically by a generated stress program under the race detector (every report must match a "
                   "flagged row) with old-or-new and independence oracles."),
    "level_note": "data-race freedom is proved for the extracted access discipline of package-level state (and atomic-field "
                  "discipline), not for arbitrary heap aliasing; the Go memory model is represented by the reader-writer lock "
                  "trace semantics; schedules are additionally sampled under the race detector",
    "design_ref": "DESIGN.md 6.C15",
}

GEN = os.path.join(core.LEAN, "Sentinel", "Gen", "Access.lean")


def _json_path():
    return os.path.join(core.BUILD, "access.json")


# ----------------------------------------------------------------------------------------------
# translator
# ----------------------------------------------------------------------------------------------

def build_extractor():
    os.makedirs(core.BUILD, exist_ok=True)
    out = os.path.join(core.BUILD, "extract15")
    rc, so, se = core.sh(["go", "build", "-o", out, "./cmd/extract15"], cwd=core.GO, env=core.goenv(), timeout=900)
    if rc != 0:
        return None, so + se
    return out, so + se


def pregen():
    """Delete and regenerate lean/Sentinel/Gen/Access.lean from $VERIF_REPO. Returns (ok, log)."""
    if os.path.exists(GEN):
        os.remove(GEN)
    exe, log = build_extractor()
    if exe is None:
        _write_placeholder("extractor does not build")
        return False, "extract15 does not build:\n" + log
    tmp = GEN + ".tmp"
    rc, so, se = core.sh([exe, "-repo", core.REPO, "-lean", tmp, "-json", _json_path()], cwd=core.REPO, env=core.goenv(), timeout=900)
    if rc != 0 or not os.path.exists(tmp):
        _write_placeholder("extractor failed on the tree")
        return False, "extract15 failed on %s:\n%s%s" % (core.REPO, so, se)
    os.replace(tmp, GEN)
    return True, so.strip()


def _write_placeholder(why):
    """Fail closed: a table the theorems reject (one live unknown row), so that the Lean library still elaborates."""
    with open(GEN, "w") as f:
        f.write("import Sentinel.Model.LockModel\n/-! GENERATED placeholder: " + why + " -/\n"
                "namespace Sentinel.Gen.Access\nopen Sentinel.LockModel\n"
                "def classNames : List (Nat × String) := []\ndef mutexNames : List (Nat × String) := []\n"
                "def accesses : List Access := []\ndef atomicFields : List (Nat × String) := []\n"
                "def plainUses : List PlainUse := []\ndef lockEdges : List LockEdge := []\ndef lockRanks : List (Nat × Nat) := []\n"
                "def slotShapes : List SlotShape := []\ndef inserts : List Insert := []\ndef riskyOps : List RiskyOp := []\n"
                "def callerStores : List CallerStore := []\ndef fieldWrites : List FieldWrite := []\ndef onceFacts : List OnceFact := []\n"
                "def unknowns : List Unknown := [⟨0, .live, \"extract15\", \"-\", \"" + why + "\"⟩]\n"
                "def setupOnly : List String := []\nend Sentinel.Gen.Access\n")


# ----------------------------------------------------------------------------------------------
# the Lean report: which rows break which check, with and without the listed known keys
# ----------------------------------------------------------------------------------------------

REPORT = """import Sentinel.Model.LockModel
import Sentinel.Model.LockKnown
import Sentinel.Gen.Access
open Sentinel.LockModel Sentinel.Gen.Access Sentinel.C15
def exR := resolve classNames knownReads
def exP := resolve atomicFields knownPlainReads
def exI := resolve classNames knownInserts
#eval do
  IO.println s!"DISCIPLINED {disciplinedB exR accesses}"
  for (a, b) in badPairs exR accesses do IO.println s!"BAD {a.id} {b.id}"
  for (a, b) in badPairs [] accesses do IO.println s!"RAW {a.id} {b.id}"
  for p in plainUses do
    if !plainOkB exP p then IO.println s!"BADPLAIN {p.id}"
    if !plainOkB [] p then IO.println s!"RAWPLAIN {p.id}"
  for e in lockEdges do
    if !(rankOf lockRanks e.outer < rankOf lockRanks e.inner) then IO.println s!"BADEDGE {e.outer} {e.inner}"
  for s in slotShapes do
    if !shapeOkB knownSlots s then IO.println s!"BADSHAPE {s.id}"
    if !shapeOkB [] s then IO.println s!"RAWSHAPE {s.id}"
  for r in inserts do
    if !insertOkB accesses exI r then IO.println s!"BADINSERT {r.id}"
    if !insertOkB accesses [] r then IO.println s!"RAWINSERT {r.id}"
  for r in riskyOps do
    if !riskyOkB r then IO.println s!"BADRISKY {r.id}"
  for (s, w) in callerDataBad callerStores fieldWrites do IO.println s!"BADCALLER {s.id} {w.id}"
  if !onceOkB requiredOnce onceFacts then IO.println s!"BADONCE 0"
  for u in unknowns do
    if u.phase == Phase.live then IO.println s!"BADUNKNOWN {u.id}"
  IO.println s!"KNOWNINSERTS {knownInserts}"
  IO.println s!"KNOWNREADS {knownReads}"
  IO.println s!"KNOWNPLAIN {knownPlainReads}"
  IO.println s!"KNOWNSLOTS {knownSlots}"
  IO.println "REPORT-END"
"""


def lean_report():
    """Evaluate the table checks in Lean (same definitions the theorems use). Returns dict or raises RuntimeError."""
    ok, log = core.lake_build(["Sentinel.Gen.Access", "Sentinel.Model.LockKnown"])
    if not ok:
        raise RuntimeError("generated table does not elaborate:\n" + log[-3000:])
    src = os.path.join(core.BUILD, "c15_report.lean")
    with open(src, "w") as f:
        f.write(REPORT)
    rc, so, se = core.sh(["lake", "env", "lean", src], cwd=core.LEAN, timeout=1800)
    if rc != 0 or "REPORT-END" not in so:
        raise RuntimeError("report script failed:\n" + (so + se)[-3000:])
    rep = {"BAD": [], "RAW": [], "BADPLAIN": [], "RAWPLAIN": [], "BADEDGE": [], "BADSHAPE": [], "RAWSHAPE": [], "BADUNKNOWN": [],
           "BADINSERT": [], "RAWINSERT": [], "BADRISKY": [], "BADCALLER": [], "BADONCE": [], "text": so}
    for l in so.splitlines():
        t = l.split()
        if t and t[0] in rep and t[0] != "text":
            rep[t[0]].append(tuple(int(x) for x in t[1:]))
    return rep


def fmt_row(r):
    held = ",".join(h["mu"] + ("(W)" if h["w"] else "(R)") for h in r["held"]) or "-"
    return "%s %s %s @ %s held={%s}%s" % ("WRITE" if r["write"] else "READ ", r["class"], r["fn"], r["pos"], held,
                                         (" via " + r["via"]) if r.get("via") else "")


def known_entries():
    return core.load_known(PROP)


# which known key excuses which kind of table row
KEY_SAMEENTRY = "same-entry-seterror-exit-race"
# findings that only the race detector shows (heap fields the table does not track): one side's stack runs through a
# function of the first set, the other side's through a function of either set
DYN_KNOWN = [(KEY_SAMEENTRY, {"core/base.SentinelEntry.SetError", "core/base.SentinelEntry.SetPair"}, {"core/base.SentinelEntry.Exit"})]
KEY_NODEMAP, KEY_PLAIN, KEY_SNAP, KEY_INSERT = "outlier-nodemap-race", "bucketstart-plain-read", "outlier-multi-snapshot", "outlier-lost-insert"


def static_stage(ctx, tab):
    """Returns (violation_text or None, present_known_keys:set, flagged_pairs:list[(rowa,rowb,key or None)], report)."""
    rep = lean_report()
    acc = tab["accesses"]
    bad = set(rep["BAD"])
    pairs = []
    for (i, j) in rep["RAW"]:
        pairs.append((acc[i], acc[j], None if (i, j) in bad else KEY_NODEMAP))
    badplain = {i for (i,) in rep["BADPLAIN"]}
    for (i,) in rep["RAWPLAIN"]:
        p = dict(tab["plainUses"][i])
        p.update({"class": "plain use of atomic " + p["field"], "held": [], "plain": True})
        pairs.append((p, p, None if i in badplain else KEY_PLAIN))
    present = set()
    if any(k == KEY_NODEMAP for _, _, k in pairs):
        present.add(KEY_NODEMAP)
    if set(rep["RAWPLAIN"]) - set(rep["BADPLAIN"]):
        present.add(KEY_PLAIN)
    if set(rep["RAWSHAPE"]) - set(rep["BADSHAPE"]):
        present.add(KEY_SNAP)
    if set(rep["RAWINSERT"]) - set(rep["BADINSERT"]):
        present.add(KEY_INSERT)
    lines = []
    if rep["BADONCE"]:
        lines.append("exit_runs_once fails: core/base.SentinelEntry.Exit does not run all its effects on the entry inside `exitCtl.Do(func(){…})` (sync.Once): "
                     "facts found: %s — concurrent Exit calls on one entry would both run the exit chain" %
                     ([(f["fn"], f["once"], "inside=%d" % f["effectsInside"], "outside=%d" % f["effectsOutside"]) for f in tab["onceFacts"]] or "none"))
    for (i,) in rep["BADRISKY"]:
        r = tab["riskyOps"][i]
        lines.append("sections_panic_safe fails: unlockNotDeferred: %s @ %s runs `%s` inside the critical section of %s, which is closed by an explicit "
                     "(non-deferred) unlock — a panic on caller-controlled data, recovered further up, leaves the mutex locked forever"
                     % (r["fn"], r["pos"], r["op"], r["mu"]))
    for (i, j) in rep["BADCALLER"]:
        st, fw = tab["callerStores"][i], tab["fieldWrites"][j]
        lines.append("caller_data_never_mutated fails: callerDataMutated: %s @ %s stores the caller's `%s` in %s without copying, and %s @ %s writes "
                     "through that field (%s)" % (st["fn"], st["pos"], st["param"], st["field"], fw["fn"], fw["pos"], fw["op"]))
    for (i,) in rep["BADINSERT"]:
        r = tab["inserts"][i]
        writers = sorted({b["fn"] for b in acc if b["class"] == r["class"] and b["write"] and b["phase"] == "live"})
        lines.append("inserts_rechecked fails (lost-insert rule): INSERT %s[%s] in %s @ %s recheckedUnderWriteLock=%s guards={%s}: no mutex is "
                     "held in write mode here since function entry / since a lookup of the same element AND by every writer of the class (%s) "
                     "— a check in one critical section and the insert in another let concurrent callers each insert their own object"
                     % (r["class"], r["key"], r["fn"], r["pos"], str(r["recheckedUnderWriteLock"]).lower(), ",".join(r["guards"]) or "-", ", ".join(writers)))
    for (i, j) in rep["BAD"]:
        lines.append("table_disciplined fails: no common mutex (one side in write mode) for\n    %s\n    %s" % (fmt_row(acc[i]), fmt_row(acc[j])))
    for (i,) in rep["BADPLAIN"]:
        p = tab["plainUses"][i]
        lines.append("atomics_never_mixed fails: plain %s of %s in %s @ %s" % ("write" if p["write"] else "read", p["field"], p["fn"], p["pos"]))
    mn = tab.get("mutexNames") or []
    for (o, i) in rep["BADEDGE"]:
        on, inn = (mn[o] if o < len(mn) else "#%d" % o), (mn[i] if i < len(mn) else "#%d" % i)
        at = [e["pos"] + " in " + e["fn"] for e in tab["lockEdges"] if e["outer"] == on and e["inner"] == inn]
        lines.append("lock_order_acyclic fails: nested acquisition %s -> %s (%s) lies on a cycle of the lock order" % (on, inn, "; ".join(at)))
    for (i,) in rep["BADSHAPE"]:
        s = tab["slotShapes"][i]
        upd = s["slot"].split(".")[-1].startswith(("Load", "Clear"))
        lines.append("slots_single_snapshot / switch_is_atomic fails: %s enters %d %s sections of %s on one path%s" %
                     (s["slot"], s["sections"], "write" if upd else "read", s["mu"], " (in a loop)" if s["inLoop"] else ""))
    for (i,) in rep["BADUNKNOWN"]:
        u = tab["unknowns"][i]
        lines.append("extractor_understood_everything fails: %s @ %s: %s" % (u["fn"], u["pos"], u["what"]))
    ctx.cov["table"] = {"accesses": len(acc), "classes": len(tab["vars"]), "plain_uses": len(tab["plainUses"]), "atomic_fields": len(tab["atomicFields"]),
                        "atomic_uses": tab["atomicUses"], "lock_edges": len(tab["lockEdges"]), "slot_shapes": len(tab["slotShapes"]),
                        "unknowns": len(tab["unknowns"]), "inserts": len(tab["inserts"]), "risky_ops_in_sections": len(tab["riskyOps"]),
                        "caller_stores": len(tab["callerStores"]), "field_writes": len(tab["fieldWrites"]),
                        "inserts_live": sum(1 for r in tab["inserts"] if r["phase"] == "live"), "live_rows": sum(1 for r in acc if r["phase"] == "live"),
                        "live_writes": sum(1 for r in acc if r["phase"] == "live" and r["write"]),
                        "pairs_flagged_raw": len(rep["RAW"]), "pairs_flagged_unexcused": len(rep["BAD"])}
    return ("\n".join(lines) if lines else None), present, pairs, rep


# ----------------------------------------------------------------------------------------------
# the race run
# ----------------------------------------------------------------------------------------------

def build_race():
    return core.build_harness(cmd="race15", race=True)


HEAD = re.compile(r"^(Read|Write|Previous read|Previous write|Atomic read|Atomic write|Previous atomic read|Previous atomic write)[^\n]* at 0x", re.M)


def parse_races(stderr, repo):
    """-> list of reports; a report = {"text", "accesses": [ {"kind", "frames": [(fn, file:line)]} x2 ]}"""
    res = []
    for blk in stderr.split("WARNING: DATA RACE")[1:]:
        blk = blk.split("==================")[0]
        heads = list(HEAD.finditer(blk))
        accs = []
        for n, h in enumerate(heads[:2]):
            end = heads[n + 1].start() if n + 1 < len(heads) else len(blk)
            seg = blk[h.start():end]
            seg = seg.split("\nGoroutine ")[0]
            frames = []
            for m in re.finditer(r"\n\s+(\S+)\(\)\n\s+(\S+?):(\d+)", seg):
                fn, fil, line = m.group(1), m.group(2), m.group(3)
                if fil.startswith(repo + "/"):
                    fn = fn.split("sentinel-golang/")[-1]
                    fn = re.sub(r"\(\*?([A-Za-z0-9_]+)\)", r"\1", fn)
                    fn = re.sub(r"\.func\d+(\.\d+)*$", "", fn)
                    frames.append((fn, fil[len(repo) + 1:] + ":" + line))
            accs.append({"kind": h.group(1), "frames": frames[:4], "stack": frames})
        if accs and all(not a["stack"] for a in accs):
            continue        # both stacks entirely inside the stress program itself (its result record, read while goroutines are stuck after a deadlock)
        res.append({"text": "WARNING: DATA RACE" + blk, "accesses": accs})
    return res


def frame_matches(frames, row, callsites):
    for fn, pos in frames[:3]:
        if pos == row["pos"] or fn == row["fn"]:
            return True
        if any(c["pos"] == pos and c["callee"] == row["fn"] for c in callsites):
            return True
    return False


def stack_touches(stack, row, callsites):
    """the stack runs through the row's function or through a function that calls it"""
    fns = {fn for fn, _ in stack}
    return row["fn"] in fns or any(c["callee"] == row["fn"] and c["caller"] in fns for c in callsites)


def explain(report, pairs, callsites):
    """Which statically flagged pair predicts this detector report? -> (key|None, pair, how) or None.
    how = "direct": the two racing accesses are the two table rows;
    how = "downstream": an object that was obtained through the flagged (racy) container is used without a happens-before
    edge to its construction / publication: one side's stack runs through the pair's *reader* function or a direct caller
    of it (e.g. a breaker picked up from the map that getNodeBreakersOfResource ranges over after RUnlock, racing with
    its construction in addNodeBreakerOfResource).  This is deliberately loose: a second, unrelated race inside the direct
    callers of a flagged reader would be attributed to the flagged pair."""
    if len(report["accesses"]) < 2:
        return None
    a1, a2 = report["accesses"][0]["frames"], report["accesses"][1]["frames"]
    for (ra, rb, key) in pairs:
        if ra.get("plain"):
            if frame_matches(a1[:1], ra, []) or frame_matches(a2[:1], ra, []):
                return key, (ra, rb), "direct"
            continue
        if (frame_matches(a1, ra, callsites) and frame_matches(a2, rb, callsites)) or \
           (frame_matches(a1, rb, callsites) and frame_matches(a2, ra, callsites)):
            return key, (ra, rb), "direct"
    s1, s2 = report["accesses"][0]["stack"], report["accesses"][1]["stack"]
    for (ra, rb, key) in pairs:
        if ra.get("plain"):
            continue
        readers = [r for r in (ra, rb) if not r["write"]] or [ra, rb]
        if any(stack_touches(s1, r, callsites) or stack_touches(s2, r, callsites) for r in readers):
            return key, (ra, rb), "downstream"
    f1, f2 = {fn for fn, _ in s1}, {fn for fn, _ in s2}
    for key, first, second in DYN_KNOWN:
        if (f1 & first and f2 & (first | second)) or (f2 & first and f1 & (first | second)):
            return key, (None, None), "dynamic-known"
    return None


def run_race(binary, seconds, seed, outlier, mode="mix"):
    env = core.goenv()
    env["GORACE"] = "halt_on_error=0 exitcode=0 history_size=3"
    env.setdefault("GOMEMLIMIT", "6GiB")
    p = subprocess.run([binary, "-seconds", str(seconds), "-seed", str(seed), "-outlier=" + ("true" if outlier else "false"), "-mode=" + mode],
                       capture_output=True, text=True, timeout=seconds + 240, env=env)
    res = None
    for l in p.stdout.splitlines():
        if l.startswith("RESULT "):
            res = json.loads(l[7:])
    return p.returncode, res, p.stderr


def race_stage(ctx, tab, pairs, present, static_bad_rows):
    """Runs the stress program; returns (confirmed_static:bool). Adds violations for unpredicted reports / oracle failures."""
    binary, log = build_race()
    if binary is None:
        ctx.violation("race-build.txt", "the stress program go/cmd/race15 does not build with -race against the current tree, so the "
                      "dynamic cross-check cannot run and the property is not shown\n" + log[-4000:], no_input=True)
        return False
    secs_main, secs_out, secs_clock = RACE_SECONDS[ctx.tier]
    cs = tab["callSites"]
    tot = {"runs": 0, "reports": 0, "reports_by_key": {}, "oracle_checked": 0, "requests": {}, "churn_ops": 0, "reads": 0, "switches": 0,
           "internal_panics_entry": 0, "internal_panics_exit": 0, "yields": 0, "seconds": 0.0, "outcomes": {}}
    confirmed = False
    nontrivial = set()
    for s in range(RACE_SEEDS[ctx.tier]):
        seed = ctx.seed * 1000 + s
        for outlier, secs, mode in ((False, secs_main, "mix"), (True, secs_out, "mix"), (False, secs_clock, "clockstep")):
            rc, res, err = run_race(binary, secs, seed, outlier, mode)
            tag = "seed=%d outlier=%s seconds=%s mode=%s" % (seed, outlier, secs, mode)
            tot["runs"] += 1
            if res is None:
                # no RESULT line: the runtime killed the process (e.g. `fatal error: concurrent map read and map write`)
                hit = None
                for rep in parse_races(err, core.REPO):
                    ex = explain(rep, pairs, cs)
                    if ex is not None and ex[0] is None:
                        hit = "race detector report before the crash:\n" + rep["text"][:3000]
                        break
                fatal = re.search(r"fatal error: [^\n]*", err)
                if hit is None and fatal:
                    blk = err[fatal.start():].split("\n\n")
                    blk = "\n\n".join(blk[:2])
                    stack = []
                    for m in re.finditer(r"\n(\S+?)\([^\n]*\)\n\t(\S+?):(\d+)", blk):
                        fn = m.group(1).split("sentinel-golang/")[-1]
                        fn = re.sub(r"\(\*?([A-Za-z0-9_]+)\)", r"\1", fn)
                        if m.group(2).startswith(core.REPO + "/"):
                            stack.append((fn, m.group(2)[len(core.REPO) + 1:] + ":" + m.group(3)))
                    known_hit = None
                    for (ra, rb, key) in pairs:
                        if ra.get("plain"):
                            continue
                        if stack_touches(stack, ra, cs) or stack_touches(stack, rb, cs):
                            if key is None:
                                hit = "runtime crash in a flagged function:\n" + blk[:3000]
                                break
                            known_hit = key
                    if hit is None and known_hit is not None:
                        # the runtime's own map-race check fired inside a function of a listed known finding
                        tot["crashes_by_key"] = tot.get("crashes_by_key", {})
                        tot["crashes_by_key"][known_hit] = tot["crashes_by_key"].get(known_hit, 0) + 1
                        tot["runs"] += 0
                        continue
                if hit is not None:
                    static_bad_rows.append("confirmed dynamically (race %s): %s" % (tag, hit))
                    ctx.cov["race"] = tot
                    return True
                ctx.violation("race-crash-%d.txt" % seed, "race15 (%s) exited %s without a RESULT line (escaped panic / fatal error)\nreplay: race %s\n%s\n...\n%s"
                              % (tag, rc, tag, err[fatal.start():fatal.start() + 4000] if fatal else "", err[-3000:]))
                ctx.cov["race"] = tot
                return confirmed
            tot["seconds"] += res["seconds"]
            tot["oracle_checked"] += res["oracleChecked"]
            tot["churn_ops"] += sum(res["churn"].values())
            tot["reads"] += res["reads"]
            if mode == "clockstep":
                tot["clock_steps"] = tot.get("clock_steps", 0) + res["switches"]
                tot["getter_calls_under_stepping_clock"] = tot.get("getter_calls_under_stepping_clock", 0) + res["reads"]
            else:
                tot["switches"] += res["switches"]
            tot["yields"] += res["yields"]
            for k, v in res["requests"].items():
                tot["requests"][k] = tot["requests"].get(k, 0) + v
            for k, v in res["outcomes"].items():
                tot["outcomes"][k] = tot["outcomes"].get(k, 0) + v
                if v and res["switches"] > 0 and (k.startswith("sw:") or k.startswith("sw2:")):
                    nontrivial.add((seed, outlier, k))
            pe = res.get("internalEntry", 0)
            if res["deadlock"]:
                ctx.violation("deadlock-%d.txt" % seed, "race15 (%s): goroutines did not finish within 30 s after stop — deadlock\nreplay: race %s\n%s"
                              % (tag, tag, res.get("stuck", "")[:8000]))
            if res["oracleBadCount"]:
                ctx.violation("switch-not-atomic-%d.txt" % seed, "race15 (%s): %d requests violate the atomic-switch / independence oracle\nreplay: race %s\n%s"
                              % (tag, res["oracleBadCount"], tag, "\n".join(res["oracleBad"])))
            if res["panicCount"]:
                ctx.violation("panic-%d.txt" % seed, "race15 (%s): %d panics escaped the API\nreplay: race %s\n%s" % (tag, res["panicCount"], tag, "\n".join(res["panics"])))
            if res["internalPanics"]:
                if not outlier:
                    ctx.violation("internal-panic-%d.txt" % seed, "race15 (%s): %d panics inside the slot chain (recovered and logged by sentinel)\nreplay: race %s\n%s"
                                  % (tag, res["internalPanics"], tag, "\n".join(res["internalFirst"])))
                else:
                    tot["internal_panics_entry"] += pe
                    tot["internal_panics_exit"] += res["internalPanics"] - pe
            for rep in parse_races(err, core.REPO):
                tot["reports"] += 1
                ex = explain(rep, pairs, cs)
                if ex is None:
                    ctx.violation("race-%d-%d.txt" % (seed, tot["reports"]),
                                  "race15 (%s): the race detector reports a data race that no flagged pair of the access table predicts\n"
                                  "replay: race %s\n%s" % (tag, tag, rep["text"][:6000]))
                    return confirmed
                key, (ra, rb), how = ex
                tot["reports_" + how] = tot.get("reports_" + how, 0) + 1
                if key is None:
                    confirmed = True        # a statically flagged, unexcused pair observed by the detector
                    static_bad_rows.append("confirmed by the race detector (%s):\n%s" % (tag, rep["text"][:3000]))
                else:
                    tot["reports_by_key"][key] = tot["reports_by_key"].get(key, 0) + 1
            if ctx.violations:
                break
        if ctx.violations:
            break
    ctx.cov["race"] = tot
    ctx.cov["evaluations"] = tot["oracle_checked"]
    ctx.cov["distinct_nontrivial"] = len(nontrivial)
    ctx.cov["traces_validated_against_impl"] = tot["runs"]
    return confirmed


# ----------------------------------------------------------------------------------------------
# the check
# ----------------------------------------------------------------------------------------------

def check_known_consistency(rep_text):
    """known/C15.jsonl and Sentinel.Model.LockKnown must list the same keys."""
    listed = {e["key"] for e in known_entries() if e.get("kind") == "known"}
    problems = []
    if ("getNodeBreakersOfResource" in rep_text.split("KNOWNREADS")[1].split("\n")[0]) != (KEY_NODEMAP in listed):
        problems.append(KEY_NODEMAP)
    if ("BucketStart" in rep_text.split("KNOWNPLAIN")[1].split("\n")[0]) != (KEY_PLAIN in listed):
        problems.append(KEY_PLAIN)
    if ("outlier" in rep_text.split("KNOWNSLOTS")[1].split("\n")[0]) != (KEY_SNAP in listed):
        problems.append(KEY_SNAP)
    if ("addNodeBreakerOfResource" in rep_text.split("KNOWNINSERTS")[1].split("\n")[0]) != (KEY_INSERT in listed):
        problems.append(KEY_INSERT)
    return problems


def corpus_checks(tab):
    """Regression cases of fixed findings: facts the regenerated table must contain (corpus/C15/*.json)."""
    import glob
    bad, n = [], 0
    for p in sorted(glob.glob(os.path.join(core.ROOT, "corpus", PROP, "*.json"))):
        c = json.load(open(p))
        rows = [r for r in tab["accesses"] if r["fn"] == c["fn"] and r["class"].startswith(c["class_prefix"])]
        n += 1
        if len(rows) < c.get("min_rows", 1):
            bad.append("%s: expected at least %d rows of %s* in %s, found %d" % (os.path.basename(p), c.get("min_rows", 1), c["class_prefix"], c["fn"], len(rows)))
        for r in rows:
            if not any(h["mu"] == c["must_hold"] for h in r["held"]):
                bad.append("%s: %s" % (os.path.basename(p), fmt_row(r)))
    return n, bad


def run(ctx):
    t0 = time.time()
    ok_gen, gen_log = pregen()
    ctx.log("translator:", gen_log.splitlines()[-1] if gen_log else "", "(%.1fs)" % (time.time() - t0))
    ok, problem = core.lean_stage(ctx, EXTRA_MODULES)
    ctx.log("lean stage:", "ok" if ok else "BROKEN", f"({ctx.cov.get('discharged')}/{ctx.cov.get('obligations')} theorems)")
    ctx.cov["checker_cmd"] = ("go run ./go/cmd/extract15 -repo $VERIF_REPO -lean lean/Sentinel/Gen/Access.lean && " + ctx.cov.get("checker_cmd", "") +
                              " && go build -race -tags verif ./go/cmd/race15 && race15 (every detector report must be predicted by a flagged table pair)")
    ctx.cov["trusted_base"] = [
        "Lean 4.33 kernel (lake build; table theorems by `decide +kernel`, i.e. kernel evaluation of the Boolean checks proved sound in Sentinel.Lemmas.LockDiscipline)",
        "axioms allowed: propext, Classical.choice, Quot.sound (audited per theorem with collectAxioms)",
        "go/cmd/extract15 (go/parser + go/types): the access table is what it says the source does; fail-closed `unknown` rows; validated dynamically by the race run",
        "reader-writer lock trace semantics of Sentinel.Model.LockModel as the model of sync.Mutex / sync.RWMutex and of the Go memory model's lock ordering",
        "Go race detector (ThreadSanitizer) for the dynamic cross-check",
    ]
    ctx.cov["rule"] = RULE
    ctx.level = "proof"
    if not ok_gen:
        ctx.violation("extract.txt", "the translator could not produce the access table for this tree, so no theorem of C15 is about this source and "
                      "the property is not shown\n" + gen_log[-6000:], no_input=True)
        ctx.cov.setdefault("obligations", 1)
        ctx.cov["discharged"] = 0
        return ctx.finish()
    tab = json.load(open(_json_path()))
    try:
        static_problem, present, pairs, rep = static_stage(ctx, tab)
    except RuntimeError as e:
        ctx.violation("table.txt", str(e), no_input=True)
        return ctx.finish()
    # consistency of the two lists of known keys
    incons = check_known_consistency(rep["text"])
    if incons:
        ctx.violation("known-keys.txt", "known/C15.jsonl and Sentinel.Model.LockKnown disagree about: " + ", ".join(incons), no_input=True)
    ncorp, corp_bad = corpus_checks(tab)
    ctx.cov["corpus_cases"] = ncorp
    if corp_bad:
        static_problem = (static_problem or "") + "\nregression cases of fixed findings no longer hold:\n" + "\n".join(corp_bad)
    ctx.log("table: %d rows, %d flagged pairs (%d not excused by a listed key); known findings present: %s" %
            (len(tab["accesses"]), ctx.cov["table"]["pairs_flagged_raw"], ctx.cov["table"]["pairs_flagged_unexcused"], sorted(present)))
    static_rows = [static_problem] if static_problem else []
    confirmed = False
    if not ctx.violations:
        confirmed = race_stage(ctx, tab, pairs, present, static_rows)
        r = ctx.cov.get("race", {})
        ctx.log("race: %d runs, %.0fs, %d requests oracle-checked, %d rule switches, %d churn ops, %d detector reports %s" %
                (r.get("runs", 0), r.get("seconds", 0), r.get("oracle_checked", 0), r.get("switches", 0), r.get("churn_ops", 0), r.get("reports", 0), r.get("reports_by_key", {})))
    if static_problem:
        confirmed = confirmed or bool(ctx.violations)      # an oracle failure / crash / unpredicted report of this run is a failing input
        ctx.violation("table-rows.txt", "theorems of Sentinel.Props.C15 fail on the table regenerated from this tree (evaluated with the same Lean definitions):\n"
                      + "\n".join(static_rows) + "\n", no_input=not confirmed)
    elif not ok and not ctx.violations:
        ctx.violation("proof-broken.txt", f"proof obligations of Sentinel.Props.{PROP} no longer check:\n{problem}\n"
                      "the table evaluation found no failing row and the race run no failing schedule\n", no_input=True)
    # known findings: printed while the regenerated table still shows them
    kn = {e["key"]: e for e in known_entries()}
    replayed = []
    for key in {k for k, _, _ in DYN_KNOWN}:
        if ctx.cov.get("race", {}).get("reports_by_key", {}).get(key):
            present.add(key)
    for key in sorted(present):
        e = kn.get(key)
        if e is None or e.get("kind") != "known":
            ctx.violation("unlisted-%s.txt" % key, "the table shows finding %s but known/C15.jsonl does not list it as kind known" % key, no_input=True)
            continue
        extra = ""
        r = ctx.cov.get("race", {})
        if key == KEY_NODEMAP:
            extra = " [race detector: %d matching reports, %d runtime `concurrent map` crashes in these functions this run]" % (
                r.get("reports_by_key", {}).get(key, 0), r.get("crashes_by_key", {}).get(key, 0))
        if key == KEY_SNAP:
            extra = " [stress: %d recovered panics in SlotChain.Entry with outlier churn this run]" % r.get("internal_panics_entry", 0)
        if key == KEY_SAMEENTRY:
            extra = " [race detector: %d matching reports this run]" % r.get("reports_by_key", {}).get(key, 0)
        if key == KEY_INSERT:
            extra = " [table: %s]" % "; ".join("%s[%s] in %s" % (tab["inserts"][i]["class"], tab["inserts"][i]["key"], tab["inserts"][i]["fn"])
                                                for (i,) in rep["RAWINSERT"] if (i,) not in set(rep["BADINSERT"]))
        ctx.known(f"key={key} {e['what']}{extra}")
        replayed.append(f"{PROP}:{key}")
    ctx.cov["known_findings_replayed"] = replayed
    ctx.cov["samples"] = [fmt_row(r) for r in tab["accesses"] if r["class"].startswith("core/flow.tcMap")][:6] + \
                         [fmt_row(a) + "  ~~  " + fmt_row(b) for a, b, _ in pairs[:2]]
    if ctx.tier == "thorough" and ok and not ctx.violations:
        rc, so, se = core.sh(["lake", "env", "leanchecker", f"Sentinel.Props.{PROP}"], cwd=core.LEAN, timeout=3600)
        ctx.cov["leanchecker"] = "ok" if rc == 0 else ("failed: " + (so + se)[-500:])
        if rc != 0:
            ctx.violation("leanchecker.txt", so + se, no_input=True)
    return ctx.finish()


# ----------------------------------------------------------------------------------------------
# replay:  bin/check C15 replay <file>
# ----------------------------------------------------------------------------------------------

def replay(path):
    """A C15 replay file names table rows and/or `replay: race seed=<n> outlier=<b> seconds=<s>` lines.  Re-extract the table,
    re-evaluate it in Lean, re-run the named race runs; exit 1 if anything the file is about still fails."""
    txt = open(path).read()
    ok_gen, gen_log = pregen()
    print(gen_log)
    if not ok_gen:
        return 1
    tab = json.load(open(_json_path()))
    ctx = core.Ctx(PROP, "quick", 0)
    try:
        static_problem, present, pairs, _ = static_stage(ctx, tab)
    except RuntimeError as e:
        print(e)
        return 1
    fail = 0
    if static_problem:
        print(static_problem)
        fail = 1
    want = set(re.findall(r"key=([a-z-]+)", txt))
    for k in sorted(present):
        print("known finding still present in the table:", k)
        for a, b, key in pairs:
            if key == k:
                print("   ", fmt_row(a), "\n    ", fmt_row(b))  # noqa
        if k in want:
            fail = 1
    runs = re.findall(r"race seed=(\d+) outlier=(True|False|true|false) seconds=([0-9.]+)(?: mode=(\w+))?", txt)
    if runs:
        binary, log = build_race()
        if binary is None:
            print(log)
            return 2
        for seed, outl, secs, mode in runs[:4]:
            rc, res, err = run_race(binary, float(secs), int(seed), outl.lower() == "true", mode or "mix")
            reps = parse_races(err, core.REPO)
            print("race seed=%s outlier=%s: %d detector reports, oracle bad=%s, internal panics=%s" %
                  (seed, outl, len(reps), res and res["oracleBadCount"], res and res["internalPanics"]))
            for rep in reps:
                ex = explain(rep, pairs, tab["callSites"])
                print("  report:", [a["frames"][:1] for a in rep["accesses"]], "->", "UNPREDICTED" if ex is None else (ex[0] or "flagged, not excused"))
                if ex is None or ex[0] is None or ex[0] in want:  # noqa
                    fail = 1
            if res is None or res["oracleBadCount"] or res["panicCount"] or res["deadlock"]:
                fail = 1
    print("property C15 FAILS on this replay" if fail else "nothing in this replay fails on the current tree")
    return fail
