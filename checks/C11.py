"""C11 — adaptive thresholds (warm-up, memory-adaptive) stay inside their configured envelope."""
import collections
import os
import struct

from vlib import core
from vlib.core import Case

PROP = "C11"
SPEC_MODE = "oracle"
KEEP_PREFIX = 1
SIZES = {"quick": 1500, "thorough": 40000}
BATCH = 1500
RULE = ("one flow rule (WarmUp+Reject 72%, MemoryAdaptive+Reject 22%, invalid 6%) on one resource, in about a third of the cases reloaded "
        "1-4 times between demand phases with exactly one field changed (threshold, period, cold factor, statistic interval; each water mark, each "
        "memory threshold), unchanged, made invalid and restored, or switched to the other strategy and back; 12% of the cases use "
        "ControlBehavior Throttling (MemoryAdaptive 60% / WarmUp 40%, queueing limits 0..2000 ms, probes with batches around both thresholds, "
        "reloads incl. Reject<->Throttling); 0.4% are soak cases (goroutines overwriting the memory gauge while requests run); thresholds from "
        "{0, small integers, fractions, cold-factor boundaries +-, medium, large}, periods 1..60 s, cold factors {0(default),2..10,1(invalid)}, "
        "StatIntervalInMs from the reusable views {0,500,1000,2000,5000,10000} and the non-reusable {250,700,1500,3000,20000,700000} plus non-round legal values {1,7,499,501,997,1250,1300,1501,1600,1750,2750,3001,9973,9999,10001,12345} (the rule then owns a "
        "BucketLeapArray fed by the standalone stat slot); in 60% of the cases a second, generous Direct+Reject rule is listed before (40%) or after (20%) "
        "the adaptive rule; demand = phases of saturating per-second bursts, "
        "sub-second streams, steady single-token demand, idle gaps (short / longer than the refill time), optional traffic before the "
        "rule is loaded, batch sizes 1..5; memory readings at/around both water marks, -1, 0, negative values down to MinInt64 and values far above the high water mark (2^33 .. 2^62, MaxInt64; also right after a reading that gives the largest threshold); non-trivial = the rule is in force and at least "
        "one request line is partially admitted (0 < k < n) or (warm-up) two lines of equal demand admit different counts; distinct by "
        "(rule parameters, demand-phase kinds)")

T0 = 1_900_000_000_000


def fb(x):
    return "f:%016x" % struct.unpack(">Q", struct.pack(">d", float(x)))[0]


def pick_T(rng, cf):
    ecf = 3 if cf <= 1 else cf
    r = rng.random()
    if r < 0.06:
        return 0.0
    if r < 0.28:
        return float(rng.randint(1, 12))
    if r < 0.42:
        return rng.choice([0.1, 0.25, 0.5, 0.75, 0.9, 1.25, 1.5, 2.5, 3.5, 4.75, 7.3, 9.99, 12.5])
    if r < 0.60:
        return ecf + rng.choice([-1, -0.5, -0.001, 0, 0, 0.001, 0.5, 1, ecf, 2 * ecf])
    if r < 0.90:
        return float(rng.choice([15, 20, 25, 33, 50, 64, 100, 120, 150, 200, rng.randint(13, 300)])) + rng.choice([0, 0, 0, 0.5, 0.37])
    return float(rng.choice([500, 1000, 2500]))


ODD_IVS = [1, 7, 250, 499, 501, 700, 997, 1250, 1300, 1501, 1600, 1750, 2750, 3001, 9973, 9999, 10001, 12345]   # legal, not a multiple of the 500 ms bucket / beyond the 10 s array: one-bucket statistic of the rule's own
IVS = [0, 0, 0, 0, 0, 0, 0, 0, 1000, 500, 2000, 5000, 10000, 1500, 3000, 20000, 700, 250, 700000] + ODD_IVS[::3] + ODD_IVS[1::3] + ODD_IVS[2::3]


def reload_wu(rng, ops, cur):
    """reload the resource's warm-up rule with exactly one field changed (or none); returns the kind.
    Kept out: an identical reload / a reload to the explicit default when the bound rule had its cold factor
    defaulted (that is C14's finding normalised-rule-reload / warmup-reload-resets, not this property)."""
    kinds = ["T", "T", "p", "cf", "iv", "same", "invalid", "to-ma"]
    k = rng.choice(kinds)
    new = dict(cur)
    if k == "same":
        if cur["cf"] <= 1:
            k = "T"
    if k == "T":
        while True:
            t = rng.choice([cur["T"] * 2, cur["T"] + 1, cur["T"] / 2, cur["T"] + 0.5, pick_T(rng, cur["cf"])])
            if abs(t - cur["T"]) >= 0.001:
                break
        new["T"] = float(t)
    elif k == "p":
        new["p"] = rng.choice([x for x in [1, 2, 3, 5, 10, 20, 30, 60] if x != cur["p"]])
    elif k == "cf":
        new["cf"] = rng.choice([x for x in [2, 3, 4, 5, 7, 10] if x != cur["cf"] and not (cur["cf"] <= 1 and x == 3)])
    elif k == "iv":
        new["iv"] = rng.choice([x for x in [0, 500, 1000, 2000, 5000, 10000, 1500, 3000, 20000] + ODD_IVS if x != cur["iv"]])
    if k == "invalid":
        ops.append(rng.choice([f"load wu {fb(cur['T'])} 0 {cur['cf']} {cur['iv']}", f"load wu {fb(cur['T'])} {cur['p']} 1 {cur['iv']}"]))
        # the resource is now unprotected; put the rule back a little later
        ops.append(f"req {rng.choice([1, 30])} 1")
        ops.append(f"load wu {fb(cur['T'])} {cur['p']} {cur['cf']} {cur['iv']}")
        return "reload-invalid"
    if k == "to-ma":
        ops.append("load ma 10 2 1000 2000 0")
        ops.append(f"mem {rng.choice([-1, 500, 1500, 2500])}")
        ops.append(f"req 12 1")
        ops.append(f"load wu {fb(cur['T'])} {cur['p']} {cur['cf']} {cur['iv']}")
        return "reload-kind"
    cur.update(new)
    ops.append(f"load wu {fb(cur['T'])} {cur['p']} {cur['cf']} {cur['iv']}")
    return "reload-" + k


def reload_ma(rng, ops, cur):
    """reload the memory-adaptive rule with exactly one field changed (each water mark, each threshold, the
    statistic interval), unchanged, or invalid"""
    k = rng.choice(["lowT", "highT", "lowM", "highM", "highM", "iv", "same", "invalid"])
    new = dict(cur)
    if k == "lowT":
        new["lowT"] = cur["lowT"] + rng.choice([1, 5, cur["lowT"]])
    elif k == "highT":
        c = [x for x in [1, cur["highT"] + 1, max(1, cur["highT"] - 1), max(1, cur["lowT"] // 2), cur["lowT"] - 1] if x != cur["highT"] and 0 < x < cur["lowT"]]
        if not c:
            k = "same"
        else:
            new["highT"] = rng.choice(c)
    elif k == "lowM":
        c = [x for x in [1, max(1, cur["lowM"] // 2), cur["lowM"] + 1, cur["highM"] - 1, (cur["lowM"] + cur["highM"]) // 2] if x != cur["lowM"] and 0 < x < cur["highM"]]
        if not c:
            k = "same"
        else:
            new["lowM"] = rng.choice(c)
    elif k == "highM":
        c = [x for x in [cur["highM"] * 2, cur["highM"] + 1, cur["highM"] + 1000, cur["highM"] - 1, (cur["lowM"] + cur["highM"]) // 2 + 1] if x != cur["highM"] and x > cur["lowM"]]
        new["highM"] = rng.choice(c)
    elif k == "iv":
        new["iv"] = rng.choice([x for x in [0, 500, 1000, 2000, 5000, 10000, 1500, 3000, 20000] + ODD_IVS if x != cur["iv"]])
    elif k == "invalid":
        ops.append(rng.choice([f"load ma {cur['lowT']} {cur['lowT']} {cur['lowM']} {cur['highM']} {cur['iv']}",
                               f"load ma {cur['lowT']} {cur['highT']} {cur['highM']} {cur['highM']} {cur['iv']}"]))
        ops.append(f"req {rng.choice([1, 30])} 1")
        k = "invalid"
    cur.update(new)
    ops.append(f"load ma {cur['lowT']} {cur['highT']} {cur['lowM']} {cur['highM']} {cur['iv']}")
    return "reload-" + k


def demand(rng, ops, now, cur, secs_hint, reloads):
    """append demand phases to ops (with rule reloads between them), return (now, kinds)"""
    kinds = []
    nph = rng.randint(2, 5)
    for _ in range(nph):
        if kinds and rng.random() < reloads:
            kinds.append(reload_wu(rng, ops, cur))
        T = cur["T"]
        N = min(int(T) + rng.choice([1, 2, 5]), 3000)
        k = rng.choice(["sat", "sat", "sat", "stream", "steady", "idle", "longidle", "partial"])
        kinds.append(k)
        if k == "sat":
            # saturating burst at the first instant of each second (optionally off the boundary)
            off = rng.choice([0, 0, 0, 1, 250, 499, 500, 999])
            now = now - now % 1000 + 1000 + off
            b = rng.choice([1, 1, 1, 1, 2, 3, 5])
            for _s in range(rng.randint(2, secs_hint)):
                ops.append(f"clock {now}")
                ops.append(f"req {max(1, N // b + 1)} {b}")
                now += 1000
        elif k == "partial":
            # demand at a fraction of the threshold, per second
            frac = rng.choice([0.1, 0.3, 0.5, 0.8, 1.0])
            n = max(1, int(T * frac))
            for _s in range(rng.randint(2, secs_hint)):
                now += rng.choice([1000, 1000, 1000, 997, 1003, 1500])
                ops.append(f"clock {now}")
                ops.append(f"req {min(n, 3000)} 1")
        elif k == "stream":
            # several bursts per second at irregular offsets
            for _s in range(rng.randint(4, 4 * min(secs_hint, 12))):
                now += rng.choice([1, 50, 100, 250, 250, 333, 499, 500, 501, 750])
                ops.append(f"clock {now}")
                ops.append(f"req {max(1, min(N, 400) // rng.choice([1, 2, 4]))} {rng.choice([1, 1, 1, 2])}")
        elif k == "steady":
            d = rng.choice([100, 200, 250, 500, 1000, 1100, 2000])
            for _s in range(rng.randint(5, 40)):
                now += d
                ops.append(f"clock {now}")
                ops.append("req 1 1")
        elif k == "idle":
            now += rng.choice([1000, 1500, 2000, 3000, 5000, 9999, 10000, 10001])
            ops.append(f"clock {now}")
        else:
            now += rng.choice([20000, 60000, 120000, 600000, 3600000]) + rng.choice([0, 1, 499, 500, 999])
            ops.append(f"clock {now}")
        if rng.random() < 0.15:
            ops.append("sum")
    return now, kinds


MAXI64 = 9223372036854775807


def pick_mem(rng, lowM, highM):
    """memory readings for a memory-adaptive rule: around both water marks, and the whole int64 range beyond them — the gauge may
    report anything (0, negative garbage, more than the host's physical memory up to MaxInt64); -1 is "not retrieved" """
    r = rng.random()
    if r < 0.55:
        return rng.choice([lowM - 1, lowM, lowM + 1, (lowM + highM) // 2, highM - 1, highM, highM + 1, 2 * highM,
                           rng.randint(lowM, highM), rng.randint(lowM, highM)])
    if r < 0.70:
        return rng.choice([-1, 0, 0, 1])
    if r < 0.90:
        return rng.choice([1 << 33, 1 << 36, 1 << 37, 1 << 40, 1 << 47, 1 << 62, MAXI64 - 1, MAXI64, 100 * highM])
    return rng.choice([-2, -5, -(1 << 20), -(1 << 40), -MAXI64, -MAXI64 - 1])


def companion(rng, ops, tags):
    """a second, generous Direct+Reject rule on the default statistic, listed before or after the adaptive rule: it never decides,
    but the resource then has two controllers (the standalone stat slot must feed the adaptive rule's own statistic in both orders)"""
    c = rng.choice(["none", "none", "pre", "pre", "post"])
    if c != "none":
        ops.append(f"companion {c}")
        tags.append("companion-" + c)


def gen_case(rng, cid, t0):
    now = t0 + rng.choice([0, 0, 1, 250, 499, 500, 501, 999])
    ops = [f"clock {now}"]
    tags = []
    companion(rng, ops, tags)
    if rng.random() < 0.2:
        # traffic before the rule exists (admitted unconditionally, seen by the first token sync)
        ops.append(f"req {rng.choice([1, 3, 10, 50])} 1")
        now += rng.choice([0, 1, 400, 600, 1000, 1700])
        ops.append(f"clock {now}")
        tags.append("preload")
    r = rng.random()
    iv = rng.choice(IVS)
    if r < 0.72:
        cf = rng.choice([0, 0, 3, 3, 2, 2, 4, 5, 7, 10])
        T = pick_T(rng, cf)
        p = rng.choice([1, 1, 2, 3, 5, 5, 10, 10, 20, 30, 60])
        ops.append(f"load wu {fb(T)} {p} {cf} {iv}")
        tags += ["wu", f"T={T}", f"p={p}", f"cf={cf}", f"iv={iv}"]
        cur = {"T": T, "p": p, "cf": cf, "iv": iv}
        now, kinds = demand(rng, ops, now, cur, min(2 * p + 6, 45), 0.3 if rng.random() < 0.5 else 0.0)
        tags += kinds
    elif r < 0.94:
        lowT = rng.choice([2, 5, 10, 50, 100, 1000, rng.randint(2, 500)])
        highT = rng.choice([1, max(1, lowT // 10), max(1, lowT // 2), lowT - 1])
        lowM = rng.choice([1, 100, 1000, 1 << 20, rng.randint(1, 10 ** 6)])
        highM = lowM + rng.choice([1, 2, 10, 1000, 1 << 20, rng.randint(1, 10 ** 6)])
        ops.append(f"load ma {lowT} {highT} {lowM} {highM} {iv}")
        tags += ["ma", f"lowT={lowT}", f"highT={highT}", f"iv={iv}"]
        cur = {"lowT": lowT, "highT": highT, "lowM": lowM, "highM": highM, "iv": iv}
        reloads = 0.25 if rng.random() < 0.6 else 0.0
        for _ in range(rng.randint(3, 14)):
            if rng.random() < reloads:
                tags.append(reload_ma(rng, ops, cur))
            lowT, lowM, highM = cur["lowT"], cur["lowM"], cur["highM"]
            m = pick_mem(rng, lowM, highM)
            if rng.random() < 0.15:
                # a reading that gives the largest threshold, demand, then a reading far above everything
                ops.append(f"mem {rng.choice([0, lowM, lowM - 1])}")
                now += 2000
                ops.append(f"clock {now}")
                ops.append(f"req {min(3000, lowT + 2)} 1")
                m = rng.choice([1 << 36, 1 << 40, 1 << 62, MAXI64])
            ops.append(f"mem {m}")
            now += rng.choice([1, 400, 500, 1000, 1000, 2000, 12000])
            ops.append(f"clock {now}")
            b = rng.choice([1, 1, 1, 2, 3, 7])
            ops.append(f"req {min(3000, lowT // b + 2)} {b}")
        tags.append("mem-sweep")
    else:
        k = rng.choice(["cf1", "p0", "neg", "ma-order", "ma-marks", "ma-zero", "ma-lowmark0", "ma-highmark-neg", "ma-highmark-huge"])
        if k == "cf1":
            ops.append(f"load wu {fb(5)} 10 1 {iv}")
        elif k == "p0":
            ops.append(f"load wu {fb(5)} 0 3 {iv}")
        elif k == "neg":
            ops.append(f"load wu {fb(-1.5)} 10 3 {iv}")
        elif k == "ma-order":
            ops.append(f"load ma 10 {rng.choice([10, 11, 100])} 100 200 {iv}")
        elif k == "ma-marks":
            ops.append(f"load ma 10 5 {rng.choice([200, 201])} 200 {iv}")
        elif k == "ma-lowmark0":
            ops.append(f"load ma 10 5 {rng.choice([0, -7])} 200 {iv}")
        elif k == "ma-highmark-neg":
            ops.append(f"load ma 10 5 100 {rng.choice([0, -200])} {iv}")
        elif k == "ma-highmark-huge":
            ops.append(f"load ma 10 5 100 {MAXI64} {iv}")        # above the total memory of any machine
        else:
            ops.append(f"load ma {rng.choice([0, -1, 10])} {rng.choice([0, -3])} {rng.choice([0, 100])} 200 {iv}")
        tags += ["invalid", k]
        for _ in range(3):
            now += rng.choice([1, 500, 1000])
            ops.append(f"clock {now}")
            ops.append(f"req {rng.choice([1, 20])} 1")
    return Case(cid, ops, tags=tuple(tags)), now


def throttle_case(rng, cid, t0):
    """MemoryAdaptive / WarmUp rules with ControlBehavior Throttling (`q=<maxQueueingMs>`), exercised with `probe <batch>`:
    the calculated threshold feeds the throttling checker (blocked when <= 0 or < batch, paced with ceil(batch/threshold*interval))."""
    now = t0 + rng.choice([0, 1, 250, 500, 999])
    ops = [f"clock {now}"]
    tags = ["throttle"]
    companion(rng, ops, tags)
    maxq = rng.choice([0, 0, 100, 300, 500, 1000, 2000])
    iv = rng.choice([0, 0, 0, 1000, 500, 2000, 1500, 3000, 1750, 1300, 2750, 997, 250])
    if rng.random() < 0.6:
        lowT = rng.choice([2, 5, 10, 50, 100, rng.randint(2, 300)])
        highT = rng.choice([1, max(1, lowT // 10), max(1, lowT // 2), lowT - 1])
        lowM = rng.choice([1, 100, 1000, 1 << 20, rng.randint(1, 10 ** 6)])
        highM = lowM + rng.choice([1, 2, 10, 1000, 1 << 20, rng.randint(1, 10 ** 6)])
        cur = {"lowT": lowT, "highT": highT, "lowM": lowM, "highM": highM, "iv": iv, "q": maxq}
        tags.append("mat")

        def emit():
            ops.append(f"load ma {cur['lowT']} {cur['highT']} {cur['lowM']} {cur['highM']} {cur['iv']}" + ("" if cur["q"] is None else f" q={cur['q']}"))
        emit()
        for _ in range(rng.randint(3, 12)):
            if rng.random() < 0.2:
                k = rng.choice(["highM", "lowM", "lowT", "highT", "q", "behav", "same"])
                if k == "highM":
                    cur["highM"] = cur["highM"] * 2
                elif k == "lowM":
                    cur["lowM"] = max(1, cur["lowM"] // 2)
                elif k == "lowT":
                    cur["lowT"] += rng.choice([1, 7])
                elif k == "highT" and cur["highT"] > 1:
                    cur["highT"] -= 1
                elif k == "q":
                    cur["q"] = rng.choice([x for x in [0, 100, 500, 1000] if x != cur["q"]])
                elif k == "behav":
                    cur["q"] = None if cur["q"] is not None else rng.choice([0, 500])
                tags.append("reload-" + k)
                emit()
            lowT, highT, lowM, highM = cur["lowT"], cur["highT"], cur["lowM"], cur["highM"]
            m = pick_mem(rng, lowM, highM)
            ops.append(f"mem {m}")
            # every earlier probe may have slept up to the queueing limit: stay ahead of the real clock
            now += rng.choice([1, 500, 1000, 1000, 3000, 12000])
            ops.append(f"clock {now}")
            if cur["q"] is None:
                ops.append(f"req {min(3000, lowT + 2)} 1")
                continue
            for _ in range(rng.randint(1, 6)):
                b = rng.choice([1, 1, 1, 2, highT, highT + 1, max(1, lowT // 2), lowT, lowT + 1])
                ops.append(f"probe {b}")
                now += cur["q"]
    else:
        cf = rng.choice([0, 3, 2, 4, 5])
        ecf = 3 if cf <= 1 else cf
        T = float(rng.choice([ecf, ecf + 0.5, 2 * ecf, 10, 20, 33, 100, rng.randint(ecf, 200)]))    # T >= cf: outside warmup-nan / starvation
        p = rng.choice([1, 2, 3, 5, 10, 30])
        ops.append(f"load wu {fb(T)} {p} {cf} {iv} q={maxq}")
        tags += ["wut", f"T={T}", f"p={p}", f"cf={cf}"]
        for _ in range(rng.randint(4, 25)):
            now += rng.choice([1, 100, 500, 1000, 1000, 1000, 2000, 15000])
            ops.append(f"clock {now}")
            for _ in range(rng.randint(1, 5)):
                b = rng.choice([1, 1, 1, 2, max(1, int(T / ecf)), int(T / ecf) + 1, max(1, int(T) // 2), int(T), int(T) + 1])
                ops.append(f"probe {b}")
                now += maxq
    return Case(cid, ops, tags=tuple(tags)), now


def soak_case(rng, cid, t0):
    """concurrent memory-gauge updates (goroutines) against sequential requests on a MemoryAdaptive+Reject rule; verdict only"""
    lowT = rng.choice([10, 50, 200])
    highT = rng.choice([1, max(1, lowT // 10), lowT - 1])
    lowM = rng.choice([1000000, 5000000, 1 << 30])
    highM = lowM + rng.choice([2, 100, 4096])
    ops = [f"clock {t0}", f"soak {lowT} {highT} {lowM} {highM} {rng.choice([10000, 20000])} {rng.choice([1, 2, 3])}"]
    if rng.random() < 0.5:
        ops += [f"load ma {lowT} {highT} {lowM} {highM} 0", f"mem {lowM + 1}", f"req {lowT + 2} 1"]
    return Case(cid, ops, tags=("soak",)), t0 + 1000


def known_slice(rng, cid, t0):
    """a fixed slice inside each recorded finding's region (so that a silent repair is noticed)"""
    k = rng.choice(["nan", "nan0", "nan-cf2", "starve", "starve-frac", "stuck0", "stuck", "stuck", "late", "phase", "firsthalf"])
    now = t0
    ops = [f"clock {now}"]
    if k == "stuck":
        # drain the bucket of T=10/period=10/cf=3 (warning 50, max 100) to exactly (or nearly) the warning line, idle, come back
        ops.append(f"load wu {fb(10)} 10 3 0")
        seq = [3, 3, 3, 3, 3, 4, 4, 3, 3, 3, 3, 3, 3, 3, 3, rng.choice([3, 3, 3, 2, 4])]
        for q in seq:
            ops.append(f"clock {now}")
            ops.append(f"req {q} 1")
            now += 1000
        ops.append(f"clock {now}")
        ops.append("req 1 1")
        now += rng.choice([30000, 3600000, 11000])
        for _ in range(rng.randint(1, 4)):
            ops.append(f"clock {now}")
            ops.append(f"req {rng.choice([20, 5, 11])} 1")
            now += rng.choice([500, 1000, 2000])
        return Case(cid, ops, tags=("known-slice", k)), now
    if k == "phase":
        # sustained demand whose phase alternates between the half-second buckets (warmup-phase-stall) or is random
        T, p, cf = rng.choice([(10, 10, 3), (20, 5, 4), (6, 3, 2), (33, 10, 0)])
        now = now - now % 1000 + 1000
        ops = [f"clock {now}", f"load wu {fb(T)} {p} {cf} 0"]
        mode = rng.choice(["alt", "alt", "random"])
        for s_ in range(p + rng.randint(5, 30)):
            off = (600 if s_ % 2 else 100) if mode == "alt" else rng.choice([0, 100, 400, 499, 500, 600, 900])
            ops.append(f"clock {now + off}")
            ops.append(f"req {T + rng.choice([1, 5])} 1")
            now += 1000
        return Case(cid, ops, tags=("known-slice", k)), now
    if k == "firsthalf":
        # sustained demand confined to the first half-second bucket, several bursts per second, beyond the proved bound maxToken-warningToken+1
        T, p, cf, D = rng.choice([(2, 3, 2, 4), (3, 5, 3, 7), (4, 10, 0, 20), (6, 2, 3, 6)])
        now = now - now % 1000 + 1000
        ops = [f"clock {now}", f"load wu {fb(T)} {p} {cf} 0"]
        for s_ in range(D + rng.randint(3, 8)):
            offs = sorted(rng.sample(range(0, 500), rng.randint(1, 3)))
            left = T + rng.choice([1, 2])
            for i, off in enumerate(offs):
                n = left if i == len(offs) - 1 else rng.randint(1, max(1, left - 1))
                left = max(1, left - n) if i < len(offs) - 1 else 0
                ops.append(f"clock {now + off}")
                ops.append(f"req {n} 1")
            now += 1000
        return Case(cid, ops, tags=("known-slice", k)), now
    if k == "late":
        T, p, cf = rng.choice([(2, 3, 2), (3, 5, 3), (3, 30, 2), (4, 10, 0), (100, 10, 3), (20, 5, 4)])
        now = now - now % 1000 + 1000
        ops = [f"clock {now}", f"load wu {fb(T)} {p} {cf} 0"]
        for _ in range(p + rng.randint(2, 2 * p + 6)):
            ops.append(f"clock {now}")
            ops.append(f"req {T + rng.choice([1, 3])} 1")
            now += 1000
        return Case(cid, ops, tags=("known-slice", k)), now
    if k == "nan":
        ops.append(f"load wu {fb(1)} 1 {rng.choice([0, 3, 4])} 0")
    elif k == "nan0":
        ops.append(f"load wu {fb(0)} {rng.choice([1, 10])} 3 0")
    elif k == "nan-cf2":
        ops.append(f"load wu {fb(rng.choice([1, 1.25, 1.4]))} 1 2 0")
    elif k == "starve":
        ops.append(f"load wu {fb(rng.choice([1, 2, 2.5, 2.99]))} {rng.choice([2, 10, 30])} 3 0")
    elif k == "starve-frac":
        ops.append(f"load wu {fb(rng.choice([4, 6.5, 9]))} {rng.choice([5, 10])} 10 0")
    else:
        ops.append(f"load wu {fb(rng.choice([2.5, 3, 8]))} 1 {rng.choice([5, 10])} 0")   # warningToken = 0 < maxToken
    for _ in range(rng.randint(3, 30)):
        now += rng.choice([10, 100, 500, 1000, 1000, 2500])
        ops.append(f"clock {now}")
        ops.append(f"req {rng.choice([1, 1, 5, 50])} 1")
    return Case(cid, ops, tags=("known-slice", k)), now


_seq = [0]


def gen(ctx, n):
    res = []
    t0 = T0
    for i in range(n):
        _seq[0] += 1
        cid = f"g{ctx.seed}-{_seq[0]}"
        r0 = ctx.rng.random()
        if r0 < 0.004:
            c, end = soak_case(ctx.rng, cid, t0)
        elif r0 < 0.124:
            c, end = throttle_case(ctx.rng, cid, t0)
        elif r0 < 0.20:
            c, end = known_slice(ctx.rng, cid, t0)
        else:
            c, end = gen_case(ctx.rng, cid, t0)
        res.append(c)
        t0 = end - end % 1000 + 20000
    return res


def corpus():
    import glob
    res = []
    for p in sorted(glob.glob(os.path.join(core.ROOT, "corpus", PROP, "*.ops"))):
        ops = [l.rstrip("\n") for l in open(p) if l.strip() and not l.startswith("#") and not l.startswith("case ")]
        res.append(Case(os.path.basename(p), ops, tags=("corpus",)))
    return res


def densify(ops, rng):
    """more observations around every op: extra single requests just before/after each burst and window reads"""
    out = []
    now = None
    for o in ops:
        t = o.split()
        if t[0] == "clock":
            now = int(t[1])
        out.append(o)
        if t[0] == "req" and rng.random() < 0.5:
            out.append("sum")
            if now is not None and rng.random() < 0.5:
                now += rng.choice([1, 250, 500, 999, 1000])
                out.append(f"clock {now}")
                out.append(f"req {rng.choice([1, 2, 10, 200])} 1")
    return out


def nontrivial(case, impl):
    loads = [l for l in impl if l.startswith("load ")]
    if not loads or not any(l.endswith("=> ok 1") for l in loads):
        return None
    load = " ; ".join(l.split(" => ")[0] for l in loads)
    partial = False
    seen = {}
    varied = False
    for l in impl:
        op, _, r = l.partition(" => ")
        t = op.split()
        if t[0] == "req" and r.isdigit():
            k, n = int(r), int(t[1])
            if 0 < k < n:
                partial = True
            if (t[1], t[2]) in seen and seen[(t[1], t[2])] != k:
                varied = True
            seen[(t[1], t[2])] = k
    if partial or varied:
        return hash((load, tuple(x for x in case.tags if x in ("sat", "stream", "steady", "idle", "longidle", "partial", "preload", "mem-sweep"))))
    return None


def exact_vs_float(ctx, eng):
    """Run the same definitions with the exact-rational carrier on a fresh batch and count the observations on which the
    float carrier (== implementation, checked above) and the exact carrier differ: the size of the rounding residue."""
    cases = gen(ctx, min(400, SIZES[ctx.tier]))
    text = core.cases_text(cases)
    fl, err = core.run_lean(PROP, "model", text)
    ex, err2 = core.run_lean(PROP, "exact", text)
    if fl is None or ex is None:
        ctx.violation("exact-run.txt", f"exact-carrier run failed: {err or err2}", no_input=True)
        return
    diff_lines, diff_cases, obs = 0, 0, 0
    for a, b in zip(core.split_cases(fl), core.split_cases(ex)):
        d = sum(1 for x, y in zip(a, b) if x != y)
        obs += sum(1 for x in a if " => " in x)
        diff_lines += d
        diff_cases += 1 if d else 0
    ctx.cov["float_vs_exact"] = {"cases": len(cases), "observations": obs, "differing_observations": diff_lines, "cases_with_difference": diff_cases}
    ctx.log(f"float vs exact carrier: {diff_lines} of {obs} observations differ ({diff_cases} of {len(cases)} cases)")


def run(ctx):
    from vlib import std
    import sys
    pm = sys.modules[__name__]
    ctx.assumptions.append("float64 expressions (slope, warning-region threshold incl. math.Nextafter, token refill, memory interpolation) are "
                           "evaluated with Lean Float in the executed model and with exact rationals in the theorems; decisions of the two carriers "
                           "are compared on every run (coverage.float_vs_exact) and the oracle keeps a 1e-9 relative guard band")
    return std.run(ctx, pm, extra=exact_vs_float)


META = {
    "technique": "Lean 4 proof (algebra over exact rationals, induction over request histories on the leap-array model) + differential "
                 "correspondence model/impl through api.Entry + trace oracle for the envelope claims",
    "level_text": ("Theorems in lean/Sentinel/Props/C11.lean about the carrier-generic calculator model of lean/Sentinel/Model/WarmUp.lean (the same "
                   "definitions the driver executes with Float) instantiated at the exact rationals: for every non-degenerate warm-up configuration "
                   "T/cf <= allowed <= T, finite, non-negative, equal to T/cf at maxToken, antitone in the stored tokens; memory-adaptive threshold equals the "
                   "low/high value at/beyond the water marks, is antitone in between, always finite and positive for every valid rule; negative theorems on "
                   "the faithful model for the recorded findings (NaN threshold admits everything; T < coldFactor starves every request forever, by "
                   "induction over arbitrary request histories). The model is tied to core/flow by executing the same op files through flow.LoadRules + "
                   "api.Entry under a virtual clock and comparing every admitted count; the envelope claims are judged on the implementation's own trace."),
    "level_note": ("Trusted: Lean kernel; axioms propext/Classical.choice/Quot.sound; Go harness + virtual clock; Lean Float == Go float64 on the executed "
                   "expressions (validated by the bit-exact correspondence of admitted counts; rounding and math.Nextafter are not reasoned about: exact-vs-float "
                   "decision differences are counted per run). Dynamic convergence (full threshold reached after the period) is proved only as a partial "
                   "(token-level, integral per-second demand, T >= coldFactor) and otherwise explored by the correspondence runs. Sequential use only; "
                   "standalone (non-reusable) StatIntervalInMs not modelled; one rule per resource."),
    "design_ref": "DESIGN.md 6.C11",
}
