"""C14 — reloading rules does not disturb the runtime state of unchanged rules (metamorphic double run)."""
from vlib.core import Case

PROP = "C14"
SPEC_MODE = "oracle"
KEEP_PREFIX = 0
SIZES = {"quick": 12000, "thorough": 240000}
BATCH = 3000
SHRINK_BUDGET = 400
RULE = ("each case = the same traffic twice (phase A with reload ops; the op `phase B` clears all module state and runs the recorded "
        "ops of phase A again without the reloads, at the same virtual times, answering with the list of its decisions): 1-4 resources, initial circuit-breaker (error count / error ratio / slow-request ratio, requests with a response time), flow (throttling, warm-up, reject, memory-adaptive x reject/throttling with a `mem` reading) and hotspot (QPS reject and throttling, concurrency metric, "
        "per-value items) rule lists, entries with/without error (entry+exit in one op, or `in`/`out` pairs that stay in flight across reloads) at time steps from {0,1,…,retry timeout, window length}, 1-3 reloads through "
        "LoadRules / LoadRulesOfResource whose edits are add / remove / modify / duplicate / reorder / never-refusing sibling "
        "before or after an unchanged rule; non-trivial = a reload happened while some controller held state (a block or a wait "
        "was observed before it) and a block/wait was observed after it; distinct by (rule lists, reload ops, op-kind sequence)")

T0 = 1_900_000_000_000
BIG = 1_000_000


def cb_rule(rng, rid, res, inert=False):
    strat = 2 if inert or rng.random() < 0.7 else rng.choice([0, 1])
    retry = rng.choice([1, 500, 1000, 3000, 60000])
    minreq = rng.choice([0, 1, 1, 2, 5])
    stativ = rng.choice([1000, 1000, 2000, 10000])
    buckets = rng.choice([0, 1, 2, 3, 10])
    thr = BIG if inert else (rng.choice([1, 1, 2, 3, 5]) if strat == 2 else rng.choice([0, 1]))
    probe = rng.choice([0, 0, 1, 2, 3])
    return [rid, res, strat, retry, minreq, stativ, buckets, rng.choice([0, 5, 50]) if strat == 0 else 0, thr, probe]


def flow_rule(rng, rid, res, inert=False):
    if inert or rng.random() < 0.12:
        return [rid, res, 0, 0, BIG + rng.choice([0, 1, 5]), 0, 0, 0, 0, 0, rng.choice([0, 0, 1000, 2000, 3000])]
    k = rng.random()
    if k < 0.5:      # throttling
        thr = rng.choice([1, 2, 3, 5, 10, 100, 1000])
        maxq = rng.choice([0, 0, 100, 500, 2000])
        stativ = rng.choice([0, 0, 1000, 2000, 500])
        return [rid, res, 0, 1, thr, 0, 0, maxq, 0, 0, stativ]
    if k < 0.62:     # memory adaptive (x reject / x throttling): the threshold follows the `mem` reading between two water marks
        cb = rng.choice([0, 1, 1])
        return [rid, res, 2, cb, rng.choice([0, 7]), 0, 0, rng.choice([0, 100, 500, 2000]) if cb else 0, 0, 0,
                rng.choice([0, 0, 1000, 2000]) if cb else rng.choice([0, 0, 1000, 3000]),
                rng.choice([5, 10, 100]), rng.choice([1, 2, 3]), rng.choice([1000, 2000]), rng.choice([3000, 4000])]
    stativ = rng.choice([0, 0, 0, 1000, 2000, 500, 3000, 3000, 700, 20000])
    if k < 0.78:     # direct + reject
        return [rid, res, 0, 0, rng.choice([0, 1, 2, 3, 5, 10]), 0, 0, 0, 0, 0, stativ]
    # warm-up + reject; cold factor 0 = left to default
    return [rid, res, 1, 0, rng.choice([2, 3, 5, 10, 20, 100]), 0, 0, 0, rng.choice([1, 2, 5, 10]), rng.choice([0, 2, 3, 3, 5]), stativ]


def hot_rule(rng, rid, res, inert=False):
    items = rng.choice([2, 2, 2, 0])
    sval, sthr = (rng.choice([1, 2, 3]), BIG if inert else rng.choice([0, 1, 4])) if items == 2 else (0, 0)
    thr = BIG if inert else rng.choice([0, 1, 1, 2, 3, 5])
    cb = 1 if rng.random() < 0.3 else 0
    if rng.random() < 0.35:      # concurrency metric: per-value calls in flight
        thr = BIG if inert else rng.choice([0, 1, 1, 2, 3])
        if items == 2 and not inert:
            sthr = rng.choice([0, 1, 2])
        return [rid, res, 0, cb, 0, thr, rng.choice([0, 100]) if cb else 0, 0 if cb else rng.choice([0, 0, 3]), rng.choice([0, 1]),
                rng.choice([0, 0, 100]), items, sval, sthr]
    return [rid, res, 1, cb, 0, thr, rng.choice([0, 100, 2000]) if cb else 0, rng.choice([0, 0, 1, 3]), rng.choice([1, 1, 2, 10]),
            rng.choice([0, 0, 100]), items, sval, sthr]


# Every field of the three rule structs (corpus `struct-fields.ops` checks the lists against the Go structs by reflection):
# (index in the rule token, alphabet).  The pair slice makes each of them "the only difference" between two sibling rules.
FIELDS = {
    "cb": {"Id": (0, None), "Resource": (1, [1, 2]), "Strategy": (2, [0, 1, 2]), "RetryTimeoutMs": (3, [1, 500, 1000, 3000, 60000]),
           "MinRequestAmount": (4, [0, 1, 2, 5]), "StatIntervalMs": (5, [1000, 2000, 10000]),
           "StatSlidingWindowBucketCount": (6, [0, 1, 2, 3, 10]), "MaxAllowedRtMs": (7, [0, 5, 50]), "Threshold": (8, [0, 1, 2, 3, 5]),
           "ProbeNum": (9, [0, 1, 2, 3])},
    "flow": {"ID": (0, None), "Resource": (1, [1, 2]), "TokenCalculateStrategy": (2, [0, 1, 2]), "ControlBehavior": (3, [0, 1]),
             "Threshold": (4, [0, 1, 2, 3, 5, 10, 100]), "RelationStrategy": (5, [0, 1]), "RefResource": (6, [0, 1, 2, 3]),
             "MaxQueueingTimeMs": (7, [0, 100, 500, 2000]), "WarmUpPeriodSec": (8, [0, 1, 2, 5, 10]), "WarmUpColdFactor": (9, [0, 1, 2, 3, 5]),
             "StatIntervalInMs": (10, [0, 100, 500, 700, 1000, 2000, 3000]), "LowMemUsageThreshold": (11, [0, 5, 10, 100]),
             "HighMemUsageThreshold": (12, [0, 1, 2, 3]), "MemLowWaterMarkBytes": (13, [0, 1000, 2000]),
             "MemHighWaterMarkBytes": (14, [0, 3000, 4000])},
    "hot": {"ID": (0, None), "Resource": (1, [1, 2]), "MetricType": (2, [0, 1]), "ControlBehavior": (3, [0, 1]),
            "ParamIndex": (4, [0, 1, 1001, 1002]), "Threshold": (5, [0, 1, 2, 3, 5]), "MaxQueueingTimeMs": (6, [0, 100, 2000]),
            "BurstCount": (7, [0, 1, 3]), "DurationInSec": (8, [0, 1, 2, 10]), "ParamsMaxCapacity": (9, [0, 100]),
            "SpecificItems": (10, [0, 2]), "SpecificItems.key": (11, [1, 2, 3]), "SpecificItems.value": (12, [0, 1, 4]),
            "ParamKey": (13, [0, 3, 4])},
}
WIDTH = {"cb": 10, "flow": 15, "hot": 14}


def pad(mod, r):
    return list(r) + [0] * (WIDTH[mod] - len(r))


def supported(mod, r):
    """what the Lean model executes (anything else makes the case ill-formed, not failing)"""
    if mod == "cb":
        return r[2] <= 2
    if mod == "flow":
        return r[5] <= 1 and r[3] <= 1 and r[2] <= 2 and not (r[2] == 1 and r[4] == 0)
    return r[2] <= 1 and r[3] <= 1 and r[10] != 1


def enc(rules):
    return ",".join(":".join(str(x) for x in r) for r in rules) if rules else "-"


RES = {"cb": 1, "flow": 1}
THR = {"cb": 8, "flow": 4}


def req(rng):
    """a request token: 0-2 positional arguments, sometimes an attachment for key 3 / 4"""
    k = rng.random()
    a = "0" if k < 0.15 else (str(rng.choice([1, 1, 2, 3])) if k < 0.7 else f"{rng.choice([1, 2, 3])}.{rng.choice([1, 2, 3])}")
    if rng.random() < 0.2:
        a += f"@{rng.choice([3, 3, 4])}={rng.choice([1, 2, 3])}"
    return a


class G:
    def __init__(self, rng):
        self.rng = rng
        self.nid = 0

    def rid(self):
        self.nid += 1
        return self.nid

    nres = 1

    def mk(self, mod, res, inert=False):
        rng = self.rng
        r = pad(mod, {"cb": cb_rule, "flow": flow_rule, "hot": hot_rule}[mod](rng, self.rid(), res, inert))
        if inert:
            return r
        # decorations: the less common fields
        if mod == "flow":
            if rng.random() < 0.12 and self.nres >= 2:      # associated rule: limits `res` by the traffic of another resource
                r[5], r[6] = 1, rng.choice([y for y in range(1, self.nres + 1) if y != res])
            if r[2] == 1 and rng.random() < 0.25:           # warm-up + throttling
                r[3], r[7] = 1, rng.choice([0, 100, 500, 2000])
            if rng.random() < 0.05:
                r[10] = 100
        elif mod == "hot":
            if rng.random() < 0.2:
                r[13] = rng.choice([3, 4])
            if rng.random() < 0.25:
                r[4] = rng.choice([1001, 1001, 1002, 1]) if r[13] == 0 else rng.choice([1001, 1002])
        if rng.random() < 0.04:                             # an invalid rule: must simply be ignored by every load
            if mod == "cb":
                r[rng.choice([3, 5])] = 0
            elif mod == "flow":
                if r[2] == 1:
                    r[8] = 0
                else:
                    r[5], r[6] = 1, 0
            elif r[2] == 1:
                r[8] = 0
        return r

    @staticmethod
    def is_inert(mod, r):
        if mod == "cb":
            return r[2] == 2 and r[8] >= BIG
        if mod == "flow":
            return r[2] == 0 and r[3] == 0 and r[4] >= BIG
        return r[5] >= BIG and (r[10] != 2 or r[12] >= BIG)

    def inert_variant(self, mod, r):
        """`r` with another (never-refusing) threshold: stat-reusable with `r`, not equal"""
        r2 = list(r)
        r2[0] = self.rid()
        if mod == "cb":
            r2[2] = 2 if r[2] == 2 else r[2]
            r2[8] = BIG if r[2] == 2 else (0 if r[8] else 1)
        elif mod == "flow":
            r2[2], r2[3], r2[4] = 0, 0, BIG + 7
        else:
            r2[5] = BIG
            if r2[10] == 2:
                r2[12] = BIG
        return r2

    def edit(self, mod, cur, protect, nres):
        """returns (new list, per-resource target or None)"""
        rng = self.rng
        new = [list(r) for r in cur]
        others = [i for i, r in enumerate(new) if r[1] not in protect]
        for _ in range(rng.choice([1, 1, 2, 3])):
            k = rng.random()
            if k < 0.22:      # add a rule for another resource / a never-refusing one anywhere
                res = rng.randint(1, nres)
                r = self.mk(mod, res, inert=(res in protect) or rng.random() < 0.3)
                new.insert(rng.randint(0, len(new)), r)
            elif k < 0.36 and others:      # remove
                new.pop(rng.choice(others))
            elif k < 0.52 and others:      # modify one field (value from the field's own domain, so that it matters)
                i = rng.choice(others)
                r = new[i] = pad(mod, new[i])
                dom = {ix: al for (ix, al) in FIELDS[mod].values() if al is not None and ix != 1}
                if mod == "flow" and r[3] == 0 and r[2] == 0 and r[4] >= BIG:
                    dom = {4: [BIG, BIG + 1, BIG + 5]}
                if mod == "hot" and r[2] == 0 and rng.random() < 0.4:
                    dom = {(6 if r[3] == 1 else 7): [0, 1, 3, 100]}     # the field a concurrency rule never looks at
                f = rng.choice(sorted(dom))
                vals = [v for v in dom[f] if v != r[f]]
                old = r[f]
                r[f] = rng.choice(vals)
                if not supported(mod, r):
                    r[f] = old
            elif k < 0.57 and any(self.is_inert(mod, r) for r in new):
                # modify a never-refusing rule (it stays never-refusing and stat-reusable): the resource's other rules are unchanged
                i = rng.choice([j for j, r in enumerate(new) if self.is_inert(mod, r)])
                if mod == "cb":
                    f = rng.choice([3, 4, 9])
                    new[i][f] = rng.choice([v for v in {3: [1, 500, 3000, 60000], 4: [0, 1, 2, 5], 9: [0, 1, 2, 3]}[f] if v != new[i][f]])
                elif mod == "flow":
                    new[i][4] += rng.choice([1, 2])
                else:
                    new[i][5] += rng.choice([1, 2])
            elif k < 0.62 and new:         # duplicate a rule (next to it or at the end)
                i = rng.randrange(len(new))
                new.insert(rng.choice([i, i + 1, len(new)]), list(new[i]))
            elif k < 0.74 and len(new) > 1:   # reorder: move one rule / rotate / reverse
                m = rng.random()
                if m < 0.5:
                    r = new.pop(rng.randrange(len(new)))
                    new.insert(rng.randint(0, len(new)), r)
                elif m < 0.8:
                    new = new[1:] + new[:1]
                else:
                    new.reverse()
            elif new:                      # never-refusing modification of an existing rule, before or after it
                i = rng.randrange(len(new))
                v = self.inert_variant(mod, new[i])
                new.insert(rng.choice([0, i, i, i + 1, len(new)]), v)
            others = [i for i, r in enumerate(new) if r[1] not in protect]
        return new


def gen_case(rng, cid):
    g = G(rng)
    nres = rng.choice([1, 2, 2, 3, 4])
    g.nres = nres
    protect = set(rng.sample(range(1, nres + 1), rng.choice([0, 1, 1, min(2, nres)])))
    mods = rng.choice([["cb"], ["cb"], ["flow"], ["flow"], ["hot"], ["hot"], ["cb", "flow"], ["cb", "hot"], ["flow", "hot", "cb"]])
    cur = {}
    now = T0 + rng.choice([0, 1, 499, 500, 999, rng.randint(0, 10 ** 7)])
    A = [f"t {now}"]
    for m in mods:
        rules = []
        for res in range(1, nres + 1):
            for _ in range(rng.choice([0, 1, 1, 1, 2, 3])):
                rules.append(g.mk(m, res))
        if rng.random() < 0.3:
            rng.shuffle(rules)
        if rng.random() < 0.06 and rules:
            rules.append(list(rng.choice(rules)))      # a duplicate from the start
        cur[m] = rules
        A.append(f"{m}.load {enc(rules)}")
    live, nh = [], 0
    pin = rng.choice([0.0, 0.0, 0.25, 0.5]) if "hot" not in mods else rng.choice([0.0, 0.3, 0.5, 0.7])
    MEM = [500, 1000, 1500, 2000, 2500, 3000, 3500, 5000]
    if "flow" in mods and rng.random() < 0.8:
        A.insert(1, f"mem {rng.choice(MEM)}")
    nreload = rng.choice([1, 1, 2, 3])
    nseg = rng.randint(2, 6)
    reload_at = sorted(rng.sample(range(1, nseg + 1), min(nreload, nseg)))
    steps = [0, 0, 1, 1, 10, 100, 250, 333, 500, 999, 1000, 1001, 2000, 3000, 10000, 60000]
    for seg in range(nseg + 1):
        if seg in reload_at:
            m = rng.choice(mods)
            new = g.edit(m, cur[m], protect, nres)
            if rng.random() < 0.35:
                x = rng.randint(1, nres)
                lst = [r for r in new if r[1] == x]
                if rng.random() < 0.06 and nres > 1:      # a rule naming another resource: the builder must skip it
                    lst.insert(rng.randint(0, len(lst)), g.mk(m, rng.choice([y for y in range(1, nres + 1) if y != x])))
                A.append(f"{m}.reloadres {x} {enc(lst)}")
                cur[m] = [r for r in cur[m] if r[1] != x] + [r for r in new if r[1] == x]
            else:
                A.append(f"{m}.reload {enc(new)}")
                cur[m] = new
        hot = rng.randint(1, nres)
        perr = rng.choice([0.0, 0.3, 0.7, 1.0])
        if "flow" in mods and rng.random() < 0.08:
            A.append(f"mem {rng.choice(MEM)}")
        for _ in range(rng.randint(1, 12)):
            if rng.random() < 0.45:
                now += rng.choice(steps)
                A.append(f"t {now}")
            x = hot if rng.random() < 0.7 else rng.randint(1, nres)
            if live and rng.random() < 0.3:
                A.append(f"out {live.pop(rng.randrange(len(live)))} {1 if rng.random() < perr else 0}")
            if rng.random() < pin:        # an entry that stays in flight (maybe across a reload)
                nh += 1
                live.append(nh)
                A.append(f"in {nh} {x} {req(rng) if 'hot' in mods else 0}")
                continue
            arg = f" {req(rng)}" if "hot" in mods else ""
            if "cb" in mods and rng.random() < 0.4:
                rt = rng.choice([1, 5, 6, 10, 51, 100])
                arg = (arg or " 0") + f" {rt}"
                now += rt
            A.append(f"e {x} {1 if rng.random() < perr else 0}{arg}")
    return Case(cid, A + ["phase B"], tags=(f"nres={nres}", "+".join(mods), f"reloads={len(reload_at)}"))


def gen_steal(rng, cid):
    """fixed slice inside the region of `reuse-steals-controller`: a never-refusing variant listed before the rule"""
    g = G(rng)
    now = T0 + rng.randint(0, 10 ** 6)
    a = cb_rule(rng, g.rid(), 1)
    a[2], a[8], a[4], a[3] = 2, 1, rng.choice([0, 1]), rng.choice([3000, 60000])
    extra = [g.mk("cb", 2)] if rng.random() < 0.5 else []
    A = [f"t {now}", f"cb.load {enc([a] + extra)}", "e 1 1"]
    now += rng.choice([0, 1, 10])
    A += [f"t {now}", "e 1 0"]
    v = g.inert_variant("cb", a)
    new = rng.choice([[v, a], [v] + extra + [a], extra + [v, a], [a, v]])
    A.append(f"cb.reload {enc(new)}" if rng.random() < 0.6 else f"cb.reloadres 1 {enc([r for r in new if r[1] == 1])}")
    for _ in range(rng.randint(1, 5)):
        now += rng.choice([0, 1, 100, 1000, 3000])
        A += [f"t {now}", f"e 1 {rng.choice([0, 1])}"]
    return Case(cid, A + ["phase B"], tags=("steal-slice",))


def gen_warm(rng, cid):
    """fixed slice inside the regions of `warmup-reload-resets` (cold factor left to default, identical reload) and of the
    flow form of `reuse-steals-controller` (a never-refusing reject rule listed before the warm-up rule)"""
    g = G(rng)
    now = T0 + rng.randint(0, 10 ** 6)
    thr, period = rng.choice([(10, 2), (10, 2), (20, 1), (5, 3)])
    steal = rng.random() < 0.4
    w = [g.rid(), 1, 1, 0, thr, 0, 0, 0, period, 3 if steal and rng.random() < 0.7 else 0, rng.choice([0, 0, 1000])]
    A = [f"t {now}", f"flow.load {enc([w])}"]
    per = rng.choice([thr // 2 + 1, thr, thr + 2])
    nsec = rng.randint(3, 7)
    at = rng.randint(2, nsec)
    for sec in range(1, nsec + 1):
        if sec == at:
            new = [g.inert_variant("flow", w), w] if steal else [w]
            if not steal and rng.random() < 0.3:
                new = new + [g.mk("flow", 2)]
            A.append(f"flow.reload {enc(new)}" if rng.random() < 0.6 else f"flow.reloadres 1 {enc([r for r in new if r[1] == 1])}")
        for k in range(per):
            A += [f"t {now + sec * 1000 + k * (900 // per)}", "e 1 0"]
    return Case(cid, A + ["phase B"], tags=("warm-slice",))


def gen_order(rng, cid):
    """three or more stat-compatible breakers on one resource, one of them never-refusing; the last one is open; the reload
    modifies only the never-refusing one (retry / min request / probe): which candidate its statistic comes from depends on
    the order in which the builder keeps the remaining candidates"""
    g = G(rng)
    now = T0 + rng.randint(0, 10 ** 6)
    stativ, buckets = rng.choice([1000, 2000, 10000]), rng.choice([0, 1, 2])
    def mk(thr, minreq, retry):
        return [g.rid(), 1, 2, retry, minreq, stativ, buckets, 0, thr, rng.choice([0, 1])]
    a = mk(rng.choice([3, 5]), rng.choice([1, 5]), 3000)
    i1 = mk(BIG, 1, 1000)
    c = mk(1, rng.choice([0, 1]), 60000)
    rules = rng.choice([[a, i1, c], [a, i1, mk(2, 1, 60000), c], [i1, a, c], [a, c, i1]])
    A = [f"t {now}", f"cb.load {enc(rules)}", "e 1 1"]
    now += rng.choice([1, 10])
    A += [f"t {now}", "e 1 0"]
    i2 = list(i1)
    f = rng.choice([3, 4, 9])
    i2[f] = {3: 500, 4: 2, 9: 3}[f]
    new = [i2 if r is i1 else r for r in rules]
    A.append(f"cb.reload {enc(new)}" if rng.random() < 0.5 else f"cb.reloadres 1 {enc(new)}")
    for _ in range(rng.randint(1, 4)):
        now += rng.choice([0, 1, 100, 3000])
        A += [f"t {now}", f"e 1 {rng.choice([0, 1])}"]
    return Case(cid, A + ["phase B"], tags=("order-slice",))


def gen_pair(rng, cid):
    """two sibling rules on one resource that differ in exactly ONE field — every field of every rule struct in turn (FIELDS) —
    get different states; then a reload removes one of them / swaps them / keeps both and adds a rule / turns one into the
    other: the survivor must keep *its own* controller (an equality or stat-reuse check that ignores the field mixes them up)"""
    g = G(rng)
    g.nres = 3
    now = T0 + rng.randint(0, 10 ** 6)
    mod = rng.choice(["cb", "flow", "hot", "hot"])
    name = rng.choice(sorted(FIELDS[mod]))
    ix, al = FIELDS[mod][name]
    for _ in range(20):
        a = g.mk(mod, 1)
        if mod == "hot":
            a[10], a[11], a[12] = 2, rng.choice([1, 2]), rng.choice([0, 1, 4])       # equal non-nil items, so Equals can hold
            if name in ("ParamIndex", "ParamKey") or rng.random() < 0.3:
                a[13] = rng.choice([3, 4]) if name != "ParamKey" else a[13]
                a[4] = rng.choice([0, 1001]) if a[13] else a[4]
            if rng.random() < 0.6:
                a[5], a[7] = 1, 0                                                     # strict: state shows quickly
        if mod == "cb" and rng.random() < 0.6:
            a[2], a[8], a[4], a[3] = 2, 1, rng.choice([0, 1]), 60000
        if mod == "flow" and name in ("LowMemUsageThreshold", "HighMemUsageThreshold", "MemLowWaterMarkBytes", "MemHighWaterMarkBytes"):
            a[2], a[11], a[12], a[13], a[14] = 2, 10, 2, 1000, 3000
        if mod == "flow" and name in ("WarmUpPeriodSec", "WarmUpColdFactor"):
            a[2], a[4], a[8], a[9] = 1, rng.choice([5, 10]), 2, 3
        if mod == "flow" and name == "RefResource":
            a[5], a[6] = 1, 2
        b = list(a)
        if al is None:
            b[ix] = g.rid()
        else:
            vals = [v for v in al if v != a[ix]]
            b[ix] = rng.choice(vals)
        if supported(mod, a) and supported(mod, b):
            break
    pair = [a, b] if rng.random() < 0.5 else [b, a]
    extra = [g.mk(mod, 2)]
    A = [f"t {now}"] + ([f"mem {rng.choice([500, 2500, 5000])}"] if mod == "flow" else []) + [f"{mod}.load {enc(pair + extra)}"]
    def traffic(k):
        nonlocal now
        for _ in range(k):
            if rng.random() < 0.3:
                now += rng.choice([1, 100, 500, 1000])
                A.append(f"t {now}")
            x = rng.choice([1, 1, 1, 2])
            if mod == "hot":
                A.append(f"e {x} 0 {rng.choice(['4.5', '6.5', '4.5', '5', '4.5@3=8', '4.5@4=8', '6.7@3=5'])}")
            elif mod == "cb":
                A.append(f"e {x} {rng.choice([0, 1, 1])} 0 {rng.choice([0, 6, 51])}")
            else:
                A.append(f"e {x} 0")
    traffic(rng.randint(2, 7))
    for _ in range(rng.choice([1, 1, 2])):
        k = rng.random()
        if k < 0.35 and len(pair) == 2:
            pair = [pair[1]]                       # the first one is removed
        elif k < 0.5 and len(pair) == 2:
            pair = [pair[0]]
        elif k < 0.65 and len(pair) == 2:
            pair = [pair[1], pair[0]]
        elif k < 0.8:
            pair = pair + [g.mk(mod, 1, inert=True)]
        else:
            pair = [list(pair[-1])] + pair[1:]      # the first becomes a copy of the last (or stays, for a single rule)
        new = pair + extra
        A.append(f"{mod}.reload {enc(new)}" if rng.random() < 0.5 else f"{mod}.reloadres 1 {enc(pair)}")
        if mod != "cb":
            A.append(f"{mod}.rules 1")
        traffic(rng.randint(2, 6))
    return Case(cid, A + ["phase B"], tags=("pair-slice", f"{mod}.{name}"))


def gen_assoc(rng, cid):
    """associated-resource flow rules in reload sets: X is limited by the traffic of Y (and Z too, sometimes); Y has its own
    reject rule.  A reload drops / keeps / modifies the associated rule of X (X keeps another rule); the unchanged rules of Y
    (and Z) are probed in a later statistic window"""
    g = G(rng)
    now = T0 + rng.randint(0, 10 ** 6)
    X, Y, Z = 1, 2, 3
    assoc = [g.rid(), X, 0, rng.choice([0, 0, 1]), rng.choice([1, 2, 3]), 1, Y, rng.choice([0, 500]), 0, 0, rng.choice([0, 0, 2000, 3000])] + [0] * 4
    other = g.mk("flow", X)
    other[5], other[6] = 0, 0
    yrule = [g.rid(), Y, 0, 0, rng.choice([1, 2, 3]), 0, 0, 0, 0, 0, rng.choice([0, 0, 1000, 2000])] + [0] * 4
    zrule = [g.rid(), Z, 0, 0, rng.choice([1, 2]), 1, Y, 0, 0, 0, 0] + [0] * 4
    rules = [assoc, other, yrule] + ([zrule] if rng.random() < 0.5 else [])
    if rng.random() < 0.3:
        rng.shuffle(rules)
    A = [f"t {now}", f"flow.load {enc(rules)}"]
    def traffic(k):
        nonlocal now
        for _ in range(k):
            if rng.random() < 0.25:
                now += rng.choice([1, 100, 400, 600, 1000, 2500])
                A.append(f"t {now}")
            A.append(f"e {rng.choice([X, Y, Y, Y, Z])} 0")
    traffic(rng.randint(3, 8))
    for _ in range(rng.choice([1, 1, 2])):
        k = rng.random()
        new = [list(r) for r in rules]
        if k < 0.5:
            new = [r for r in new if r[0] != assoc[0]]                 # the associated rule of X is dropped, X keeps `other`
        elif k < 0.7:
            for r in new:
                if r[0] == assoc[0]:
                    r[4] += 1                                          # modified (threshold)
        elif k < 0.85:
            new = [r for r in new if r[0] != other[0]]                 # the plain rule of X is dropped, the associated one kept
        else:
            new.append(g.mk("flow", X, inert=True))
        A.append(f"flow.reload {enc(new)}" if rng.random() < 0.5 else f"flow.reloadres {X} {enc([r for r in new if r[1] == X])}")
        rules = new
        now += rng.choice([0, 500, 1000, 1500, 3000])                  # mostly a later window
        A.append(f"t {now}")
        traffic(rng.randint(3, 8))
    return Case(cid, A + ["phase B"], tags=("assoc-slice",))


def gen_wide(rng, cid):
    """a resource with 9-13 rules of one module (hotspot QPS reject / circuit breaker), the strict ones late in the list;
    state is built up, then a reload (mostly per-resource) leaves them unchanged and only adds / modifies a never-refusing
    rule at the end: every old controller, also the 9th and later, must be found again"""
    g = G(rng)
    now = T0 + rng.randint(0, 10 ** 6)
    mod = rng.choice(["hot", "hot", "cb"])
    n = rng.randint(9, 13)
    rules = []
    for i in range(n):
        strict = i >= rng.choice([7, 8, 8, n - 1])
        if mod == "hot":
            rules.append([g.rid(), 1, 1, 0, 0, 1 if strict else rng.choice([3, 5]), 0, rng.choice([0, 1]), rng.choice([1, 2, 10]),
                          rng.choice([0, 100]), rng.choice([0, 2]), 9, 7])
        else:
            rules.append([g.rid(), 1, 2, 60000, rng.choice([0, 1]), rng.choice([1000, 2000, 10000]), rng.choice([0, 1, 2]), 0,
                          1 if strict else rng.choice([3, 5]), rng.choice([0, 1])])
    inert = g.mk(mod, 1, inert=True)
    if rng.random() < 0.5:
        rules.append(inert)
    A = [f"t {now}", f"{mod}.load {enc(rules)}"]
    ent = (lambda: f"e 1 {rng.choice([0, 1, 1])}") if mod == "cb" else (lambda: f"e 1 0 {rng.choice([1, 1, 2])}")
    for _ in range(rng.randint(2, 5)):
        A.append(ent())
    new = [list(r) for r in rules]
    if inert in rules and rng.random() < 0.6:
        new[-1][3 if mod == "cb" else 5] += 1      # modify the never-refusing rule (cb: retry, hot: threshold)
    else:
        new.append(g.mk(mod, 1, inert=True))
    A.append(f"{mod}.reloadres 1 {enc(new)}" if rng.random() < 0.7 else f"{mod}.reload {enc(new)}")
    for _ in range(rng.randint(2, 6)):
        if rng.random() < 0.3:
            now += rng.choice([1, 100, 500])
            A.append(f"t {now}")
        A.append(ent())
    return Case(cid, A + ["phase B"], tags=("wide-slice",))


def gen_adaptive(rng, cid):
    """memory-adaptive flow rules (x throttling: the queue is state; x reject on an own statistic) under a `mem` reading
    below / between / above the water marks; the reload leaves the rule unchanged (something else changes), or modifies
    exactly one adaptive field"""
    g = G(rng)
    now = T0 + rng.randint(0, 10 ** 6)
    cb = rng.choice([1, 1, 0])
    a = [g.rid(), 1, 2, cb, 0, 0, 0, rng.choice([100, 500, 2000]) if cb else 0, 0, 0, rng.choice([0, 1000]) if cb else rng.choice([0, 3000]),
         rng.choice([5, 10]), rng.choice([1, 2, 3]), rng.choice([1000, 2000]), rng.choice([3000, 4000])]
    extra = [g.mk("flow", 2)]
    MEM = [500, 1000, 1500, 2500, 3000, 3500, 5000]
    A = [f"t {now}", f"mem {rng.choice(MEM)}", f"flow.load {enc([a] + extra)}"]
    def traffic(k):
        nonlocal now
        for _ in range(k):
            if rng.random() < 0.35:
                now += rng.choice([1, 50, 100, 200, 500, 1000])
                A.append(f"t {now}")
            if rng.random() < 0.1:
                A.append(f"mem {rng.choice(MEM)}")
            A.append("e 1 0")
    traffic(rng.randint(2, 8))
    for _ in range(rng.choice([1, 1, 2])):
        b = list(a)
        kind = rng.choice(["same", "same", "field"])
        if kind == "field":
            f = rng.choice([11, 12, 13, 14])
            b[f] = rng.choice([v for v in {11: [5, 10, 100], 12: [1, 2, 3], 13: [1000, 2000], 14: [3000, 4000]}[f] if v != b[f]])
        ex2 = [list(extra[0])]
        ex2[0][4] += 1
        new = rng.choice([[b] + ex2, ex2 + [b], [b, g.mk("flow", 1, inert=True)] + extra, [g.mk("flow", 3), b] + extra])
        A.append(f"flow.reload {enc(new)}" if rng.random() < 0.6 else f"flow.reloadres 1 {enc([r for r in new if r[1] == 1] + ([g.mk('flow', 1, inert=True)] if len([r for r in new if r[1] == 1]) == 1 else []))}")
        a, extra = b, [r for r in new if r[1] == 2][:1] or extra
        traffic(rng.randint(2, 8))
    return Case(cid, A + ["phase B"], tags=("adaptive-slice",))


def gen_conc(rng, cid):
    """hotspot concurrency rule with calls in flight across a reload that leaves the rule unchanged (nil items: stat-reuse
    path), modifies a field its decisions never look at (BurstCount / MaxQueueingTimeMs), or modifies the threshold"""
    g = G(rng)
    now = T0 + rng.randint(0, 10 ** 6)
    cb = rng.choice([0, 0, 1])
    items = rng.choice([0, 0, 2])
    thr = rng.choice([1, 2, 2, 3])
    a = [g.rid(), 1, 0, cb, 0, thr, 0, 0, rng.choice([0, 1]), rng.choice([0, 100]), items, 1 if items else 0, rng.choice([1, 2]) if items else 0]
    extra = [g.mk("hot", 2)] if rng.random() < 0.4 else []
    A = [f"t {now}", f"hot.load {enc([a] + extra)}"]
    live, nh = [], 0
    def traffic(k):
        nonlocal nh, now
        for _ in range(k):
            r = rng.random()
            if r < 0.6:
                nh += 1
                live.append(nh)
                A.append(f"in {nh} 1 {rng.choice([1, 1, 1, 2])}")
            elif r < 0.85 and live:
                A.append(f"out {live.pop(rng.randrange(len(live)))} 0")
            else:
                now += rng.choice([1, 100, 1000])
                A.append(f"t {now}")
    traffic(rng.randint(2, 6))
    for _ in range(rng.choice([1, 1, 2])):
        kind = rng.choice(["same", "neutral", "neutral", "thr"])
        b = list(a)
        if kind == "neutral":
            b[6 if cb else 7] = rng.choice([1, 5, 50])
        elif kind == "thr":
            b[5] = thr + rng.choice([1, 2])
        new = rng.choice([[b], [b] + extra, extra + [b], [b, g.mk("hot", 3)]])
        A.append(f"hot.reload {enc(new)}" if rng.random() < 0.5 else f"hot.reloadres 1 {enc([r for r in new if r[1] == 1])}")
        a = b
        traffic(rng.randint(2, 7))
    return Case(cid, A + ["phase B"], tags=("conc-slice",))


def gen(ctx, n):
    out = []
    for i in range(n):
        if i % 25 == 3:
            out.append(gen_conc(ctx.rng, f"c{ctx.seed}-{i}"))
        elif i % 50 == 11:
            out.append(gen_order(ctx.rng, f"o{ctx.seed}-{i}"))
        elif i % 10 == 9:
            out.append(gen_pair(ctx.rng, f"p{ctx.seed}-{i}"))
        elif i % 50 == 22:
            out.append(gen_assoc(ctx.rng, f"r{ctx.seed}-{i}"))
        elif i % 50 == 44:
            out.append(gen_adaptive(ctx.rng, f"a{ctx.seed}-{i}"))
        elif i % 50 == 36:
            out.append(gen_wide(ctx.rng, f"n{ctx.seed}-{i}"))
        elif i % 25 == 7:
            out.append(gen_steal(ctx.rng, f"k{ctx.seed}-{i}"))
        elif i % 25 == 16:
            out.append(gen_warm(ctx.rng, f"w{ctx.seed}-{i}"))
        else:
            out.append(gen_case(ctx.rng, f"g{ctx.seed}-{i}"))
    return out


def corpus():
    import glob, os
    from vlib.core import ROOT
    res = []
    for p in sorted(glob.glob(os.path.join(ROOT, "corpus", PROP, "*.ops"))):
        ops = [l.rstrip("\n") for l in open(p) if l.strip() and not l.startswith("#") and not l.startswith("case ")]
        res.append(Case(os.path.basename(p), ops, tags=("corpus",)))
    return res


def densify(ops, rng):
    """more probes: after random ops of phase A insert an entry on a random resource (mirrored in phase B)"""
    if "phase B" not in ops:
        return ops
    k = ops.index("phase B")
    A = []
    for o in ops[:k]:
        A.append(o)
        if rng.random() < 0.4 and not o.startswith("t "):
            A.append(f"e {rng.randint(1, 4)} {rng.choice([0, 0, 1])} {rng.choice([0, 1, 2])}")
    return A + ["phase B"]


def nontrivial(case, impl):
    seen_state = after = False
    reloaded = False
    for l in impl:
        op, _, r = l.partition(" => ")
        if op == "phase B":
            break
        if ".reload" in op:
            if seen_state:
                reloaded = True
        elif op.startswith(("e ", "in ")):
            if r.startswith("block") or "wait" in r:
                if reloaded:
                    after = True
                seen_state = True
    if reloaded and after:
        kinds = "".join(o[0] if not o.startswith(("cb.", "flow.", "hot.")) or o.split()[0].endswith(".rules") else o.split()[0][-1] for o in case.ops)
        return hash((tuple(o for o in case.ops if "load" in o), kinds))
    return None


META = {
    "technique": "Lean 4 proof (induction over the new rule list / over histories, generic reuse calculus instantiated with each module's "
                 "equality and stat-reusability field lists) + metamorphic double run (with / without reloads) of the real rule managers "
                 "and slot chain against the model",
    "level_text": ("Theorems in lean/Sentinel/Props/C14.lean, kernel-checked for every old controller list, every new rule list and both load "
                   "paths. The model (lean/Sentinel/Model/Reuse.lean) is the code's calculateReuseIndexFor/build* over controller identities "
                   "carrying their mutable state; it is tied to core/flow, core/circuitbreaker by running every case through the real "
                   "LoadRules/LoadRulesOfResource + api.Entry under a virtual clock and through the compiled Lean driver, comparing every "
                   "decision of both phases; the property itself is judged on the implementation's own two traces."),
    "level_note": ("Trusted: Lean kernel; axioms propext/Classical.choice/Quot.sound; Go harness (own recording clock: a requested Sleep is "
                   "reported, not applied), canonical printing. Modelled not verified: sequential traffic only; thresholds are integral; "
                   "rules with threshold >= 1e6 are treated as never refusing (used to make same-resource edits visible at decision level); "
                   "binary64 arithmetic of the throttling interval / warm-up is instantiated with Lean Float."),
    "design_ref": "DESIGN.md 6.C14",
}
