"""INT — the integrated default global slot chain: every built-in rule-check slot at once on the same resources.

An internal check (not a property): run as an extra phase of C16 (order / short-circuit) and C01 (accounting), whose
statements quantify over the built-in chain too.  `bin/check INT quick` works standalone and writes evidence/INT.json."""
import collections
import glob
import os
import struct

from vlib.core import Case, ROOT

PROP = "INT"
SPEC_MODE = "spec"
KEEP_PREFIX = 1            # the first `clock` creates the case's time base
SIZES = {"quick": 3000, "thorough": 60000}
BATCH = 1000
SHRINK_BUDGET = 250
EXTRA_MODULES = ("Sentinel.Lemmas.Pipeline", "Sentinel.Lemmas.PipelineHist", "Sentinel.Lemmas.PipelineCb", "Sentinel.Lemmas.PipelineCouple",
                 "Sentinel.Lemmas.PipelineShape", "Sentinel.Lemmas.PipelineFlow", "Sentinel.Lemmas.PipelineFlowHist",
                 "Sentinel.Lemmas.PipelineHotHist", "Sentinel.Lemmas.PipelineSysHist",
                 "Sentinel.Lemmas.PipelineIdle")
RULE = ("per case: `clock T0` (T0 = 1.9e12 + offsets on / around bucket and array-cycle boundaries), 2-4 resources, every resource "
        "gets 2-4 of the rule kinds {flow Direct/Reject (thresholds 0..5, fractional, NaN/Inf/negative slice; statistic intervals giving "
        "default view, derived view, own window; 20% associated rules on a view), isolation (thresholds 1..5, 0 = invalid; 1-2 rules), "
        "hotspot concurrency (ParamIndex 0/1/-1, ParamKey, general threshold 0..3, specific items, invalid slice), circuit breaker (all "
        "three strategies, 1-2 breakers per resource, retry 1..3000 ms, MinRequestAmount 0..5, bucket counts 0/1/2/5/10, ProbeNum 0..3)}, "
        "loaded in random order, a quarter of the flow / isolation / breaker / system loads in the middle of the traffic (hotspot rules always before it: C06's hypothesis); in 30% of the cases the first resource is mainly guarded by its breakers and 70% of the exits carry an error; in 55% of the cases 1-3 system rules (qps / concurrency / avgRT / load / cpu, "
        "BBR or not) with injected load / cpu readings around the triggers; then 30-120 ops: entries (inbound 60% when system rules "
        "exist; batch from {0,1,1,1,2,3,5}; 0-2 arguments from a pool of 3-5 values, optional attachment) weighted to a focus resource "
        "so that thresholds are reached, entries held open across others, exits in random order with / without error after 0..60 ms "
        "(slow calls around MaxAllowedRtMs), TraceError on live and on already exited entries, clock steps {0,1,5,50,100,499,500,501,"
        "1000,1001, retry-1/retry/retry+1, statistic interval, 10 s+} and snaps to bucket boundaries, sysmetric changes, observations "
        "(stat of resource / inbound, cbstate, log, order).  Thresholds are drawn so that different slots become the first blocker at "
        "different moments.  Non-trivial = the case has a pass and blocks by at least two different slots; distinct by (rule kinds per "
        "resource, sequence of decisions).")

T0 = 1_900_000_000_000
SHIFT_UNIT = 720_720_000          # go/internal/cint shifts cases by multiples of this: every array interval below divides it

GEN_STATS = collections.Counter()


def fb(x):
    return "f:%016x" % struct.unpack(">Q", struct.pack(">d", float(x)))[0]


VALS = ["i:1", "i:2", "l:1", "s:a", "s:b", "b:1", "s:1", "i:0"]
FLOW_THR = [0.0, 2.0, 3.0, 3.0, 5.0, 5.0, 8.0, 8.0, 12.0, 1.5, 2.9999999999999996, 100.0]
FLOW_THR_ODD = [fb(float("inf")), "f:7ff8000000000001", fb(-1.0), fb(-0.0), fb(0.1)]
IV_VIEW = [0, 0, 1000, 1000, 500, 2000, 2500, 5000, 10000]
IV_OWN = [1500, 3000, 3500, 4000, 7500, 100, 7, 750, 1250, 20000, 60000]     # all divide SHIFT_UNIT
CB_STAT = [10, 20, 100, 100, 200, 1000, 1000, 5000, 7, 33, 1001, 250, 15]    # all divide SHIFT_UNIT
for _iv in IV_OWN + CB_STAT + [x for x in IV_VIEW if x]:
    assert SHIFT_UNIT % _iv == 0, _iv


def flow_geom(iv):
    if iv in (0, 1000):
        return "view"
    if iv > 10000 or iv < 500:
        sc = 1
    elif iv % 500 == 0:
        sc = iv // 500
    else:
        sc = 1
    if 10000 % iv == 0 and (iv // sc) % 500 == 0:
        return "view"
    return "own"


class G:
    def __init__(self, rng, cid):
        self.rng, self.cid = rng, cid
        self.ops = []
        self.nres = rng.choice([2, 2, 3, 3, 4])
        self.res = list(range(1, self.nres + 1))
        self.pool = rng.sample(VALS, rng.choice([3, 4, 5]))
        self.kinds = {}
        self.nid = 0
        self.live = []          # (id, res, start) possibly live
        self.dead = []          # exited / blocked ids
        self.steps = [0, 1, 5, 50, 100, 499, 500, 501, 1000, 1001]
        self.maxrts = [0, 1, 5]
        self.sys_trig = {}

    # ---- rules -----------------------------------------------------------------------------
    def flow_rules(self, ress):
        rng, out = self.rng, []
        for r in ress:
            for _ in range(rng.choice([1, 1, 1, 2])):
                thr = fb(rng.choice(FLOW_THR)) if rng.random() < 0.9 else rng.choice(FLOW_THR_ODD)
                ref = "-"
                if rng.random() < 0.2:
                    ref = str(rng.randint(1, self.nres + 1))
                    iv = rng.choice(IV_VIEW)          # associated rules stay on a reused view (outside C02's known-finding region)
                else:
                    iv = rng.choice(IV_VIEW + IV_VIEW + IV_OWN)
                GEN_STATS["flow:" + flow_geom(iv) + ("/assoc" if ref != "-" else "")] += 1
                if iv:
                    self.steps += [iv, max(0, iv - 1), iv + 1]
                out.append(f"{r},{thr},{iv},{ref}")
        rng.shuffle(out)
        return "load flow " + " ".join(out)

    def iso_rules(self, ress):
        rng, out = self.rng, []
        for r in ress:
            for _ in range(rng.choice([1, 1, 1, 2])):
                out.append(f"{r}:{rng.choice([1, 2, 2, 3, 3, 4, 5, 8, 0])}")
        rng.shuffle(out)
        return "load iso " + " ".join(out)

    def hot_rules(self, ress):
        rng, out = self.rng, []
        for r in ress:
            for _ in range(rng.choice([1, 1, 2])):
                idx = rng.choice([0, 0, 0, 1, -1, -1])
                key = rng.choice(["", "", "", "k"])
                if key and idx > 0 and rng.random() < 0.8:
                    idx = 0
                thr = rng.choice([0, 1, 1, 1, 2, 2, 3]) if rng.random() < 0.95 else -1
                pmc = rng.choice([0, 0, 0, 4000])
                items = [f"{v}={rng.choice([0, 1, 2, 2, 5])}" for v in rng.sample(self.pool, rng.choice([0, 0, 1, 1, 2]))]
                out.append(f"r{r};c;{idx};{key};{thr};{pmc};{','.join(items)}")
        rng.shuffle(out)
        return "load hot " + " ".join(out)

    def cb_rules(self, ress):
        rng, out = self.rng, []
        for r in ress:
            for _ in range(rng.choice([1, 1, 1, 2])):
                kind = rng.choice([0, 1, 2])
                retry = rng.choice([1, 5, 20, 50, 100, 100, 500, 1000, 1000, 3000])
                minreq = rng.choice([0, 1, 1, 1, 2, 2, 3, 5])
                buckets = rng.choice([0, 1, 2, 5, 10])
                stat = rng.choice(CB_STAT)
                maxrt = rng.choice([0, 1, 5, 10, 50])
                thr = rng.choice([0, 1, 1, 2, 2, 3, 2.5, 0.5]) if kind == 2 else rng.choice([0.0, 0.1, 0.25, 0.5, 0.5, 0.75, 1.0])
                probe = rng.choice([0, 0, 1, 1, 3, 2])
                if rng.random() < 0.04:
                    retry = 0           # invalid: dropped
                self.steps += [retry, max(0, retry - 1), retry + 1, stat]
                self.maxrts += [maxrt, maxrt + 1]
                out.append(f"r{r},{kind},{retry},{minreq},{stat},{buckets},{maxrt},{fb(thr)},{probe}")
        rng.shuffle(out)
        return "load cb " + " ".join(out)

    def sys_rules(self):
        rng, out = self.rng, []
        for _ in range(rng.choice([1, 1, 2, 3])):
            metric = rng.choice([0, 1, 2, 2, 3, 3, 4])
            strategy = rng.choice([-1, -1, 1, 1]) if metric in (0, 4) else rng.choice([-1, -1, 1, 0])
            if metric == 3:
                t = rng.choice([1, 2, 3, 4, 5, 8]) + rng.choice([0, 0, 0.5])
            elif metric == 2:
                t = rng.choice([1, 2, 3, 4]) + rng.choice([0, 0, 0.5])
            elif metric == 1:
                t = rng.choice([1, 2, 5, 10, 20, 50]) + rng.choice([0, 0.5])
            elif metric == 0:
                t = rng.choice([0.5, 1, 2, 8])
            else:
                t = rng.choice([0.25, 0.5, 0.75, 0.9])
            if rng.random() < 0.04:
                t = -1.0            # invalid: dropped
            self.sys_trig[metric] = t
            GEN_STATS[f"sys:metric{metric}"] += 1
            out.append(f"{metric}/{strategy}/{fb(t)}")
        return "load sys " + " ".join(out)

    def sysmetric(self):
        rng = self.rng
        which = rng.choice(["load", "cpu"])
        m = 0 if which == "load" else 4
        t = self.sys_trig.get(m, 1.0 if m == 0 else 0.5)
        v = rng.choice([t, t + 0.25, t + 0.25, t - 0.25, 0.0, t * 2, -1.0])
        if which == "cpu":
            v = min(v, 1.0)
        return f"sysmetric {which} {fb(v)}"

    # ---- traffic ---------------------------------------------------------------------------
    def entry(self, res):
        rng = self.rng
        self.nid += 1
        inbound = rng.random() < (0.6 if self.has_sys else 0.25)
        batch = rng.choice([0, 1, 1, 1, 1, 2, 3, 5])
        n = rng.choice([0, 1, 1, 1, 2])
        toks = [rng.choice(self.pool) if rng.random() < 0.95 else "nil" for _ in range(n)]
        if rng.random() < 0.2:
            toks.append(f"@k={rng.choice(self.pool)}")
        self.live.append(self.nid)
        return " ".join([f"entry {self.nid} {res} {'in' if inbound else 'out'} {batch}"] + toks)

    def observe(self, p=0.35):
        rng = self.rng
        if rng.random() < p:
            self.ops.append(f"stat {rng.choice(self.res + ['inb'] + ([self.nres + 1] if rng.random() < 0.1 else []))}")
        if rng.random() < p * 0.6:
            self.ops.append("log")
        if rng.random() < p * 0.4:
            self.ops.append(f"cbstate {rng.choice(self.res)}")

    def build(self):
        rng = self.rng
        base = T0 + rng.choice([0, 1, 499, 500, 9999, 10000, rng.randint(0, 10 ** 9), rng.randint(0, 10 ** 5) * 500,
                                rng.randint(1, 10 ** 4) * 10000 - 1])
        now = base
        self.ops.append(f"clock {now}")
        # which kinds each resource gets
        per_kind = {"flow": [], "iso": [], "hot": [], "cb": []}
        breaker_case = rng.random() < 0.3       # the first resource is mainly guarded by its breakers: completions decide
        for r in self.res:
            ks = rng.sample(["flow", "iso", "hot", "cb"], rng.choice([2, 2, 3, 3, 4]))
            if breaker_case and r == self.res[0]:
                ks = ["cb"] + rng.sample(["flow", "iso", "hot"], rng.choice([1, 1, 2]))
            self.kinds[r] = sorted(ks)
            for k in ks:
                per_kind[k].append(r)
        self.has_sys = rng.random() < 0.55
        loads = []
        for k, f in (("flow", self.flow_rules), ("iso", self.iso_rules), ("hot", self.hot_rules), ("cb", self.cb_rules)):
            if per_kind[k]:
                loads.append(f(per_kind[k]))
        if self.has_sys:
            loads.append(self.sys_rules())
        rng.shuffle(loads)
        late = []
        for l in loads:
            # hotspot rules are loaded before the traffic (C06's hypothesis: the cells count from zero with nothing in flight)
            if rng.random() < 0.25 and not l.startswith("load hot"):
                late.append(l)
            else:
                self.ops.append(l)
        if self.has_sys and rng.random() < 0.7:
            self.ops.append(self.sysmetric())
        if rng.random() < 0.15:
            self.ops.append("order")
        focus = self.res[0] if breaker_case else rng.choice(self.res)
        nops = rng.randint(30, 120)
        p_exit = rng.choice([0.15, 0.25, 0.35])
        self.p_err = 0.7 if breaker_case else rng.choice([0.1, 0.4, 0.4, 0.7])
        for i in range(nops):
            if late and rng.random() < 0.05:
                self.ops.append(late.pop())
                continue
            if rng.random() < 0.03:
                p_exit = rng.choice([0.1, 0.25, 0.5, 0.8])
                focus = rng.choice(self.res + ([self.res[0]] * 3 if breaker_case else []))
            x = rng.random()
            if x < 0.22:
                d = rng.choice(self.steps + [rng.randint(0, 60), rng.randint(0, 1200), 1000, 1000, 2000, 3000, 10001, 20003])
                if rng.random() < 0.2:
                    m = rng.choice([500, 500, 1000, 10000])
                    d = (m - now % m) % m - rng.choice([0, 0, 1])
                now += max(0, d)
                self.ops.append(f"clock {now}")
            elif x < 0.22 + p_exit and self.live:
                j = rng.randrange(len(self.live)) if rng.random() < 0.7 else (len(self.live) - 1 if rng.random() < 0.5 else 0)
                eid = self.live.pop(j)
                if rng.random() < 0.4:          # a response time around the slow-call limits
                    now += rng.choice(self.maxrts + [0, 2, 60])
                    self.ops.append(f"clock {now}")
                self.ops.append(f"exit {eid}" + (" err" if rng.random() < self.p_err else ""))
                self.dead.append(eid)
                self.observe()
            elif x < 0.22 + p_exit + 0.05 and (self.live or self.dead):
                pool = self.live if (self.live and rng.random() < 0.75) else (self.dead or self.live)
                self.ops.append(f"trace {rng.choice(pool)}")
            elif x < 0.22 + p_exit + 0.08 and self.has_sys:
                self.ops.append(self.sysmetric())
            elif x < 0.22 + p_exit + 0.10 and self.dead:
                self.ops.append(f"exit {rng.choice(self.dead)}" + (" err" if rng.random() < 0.5 else ""))   # second exit: no-op
            else:
                res = focus if rng.random() < 0.65 else rng.choice(self.res + ([self.nres + 1] if rng.random() < 0.05 else []))
                self.ops.append(self.entry(res))
                self.observe(0.25)
        for l in late:
            self.ops.append(l)
        # drain: everything exits, then every resource is probed again after the longest window
        rng.shuffle(self.live)
        for eid in self.live[: rng.randint(0, len(self.live))]:
            self.ops.append(f"exit {eid}")
        self.ops.append("log")
        for r in self.res:
            self.ops.append(f"stat {r}")
            self.ops.append(f"cbstate {r}")
        self.ops.append("stat inb")
        tags = tuple("+".join(self.kinds[r]) for r in self.res) + (("sys",) if self.has_sys else ())
        return Case(self.cid, self.ops, tags=tags)


def gen(ctx, n):
    base = ctx.cov.get("traces_validated_against_impl", 0)
    cases = [G(ctx.rng, f"g{ctx.seed}-{base + i}").build() for i in range(n)]
    dist = ctx.cov.setdefault("rule_kinds_per_resource", {})
    for c in cases:
        for t in c.tags:
            dist[t] = dist.get(t, 0) + 1
    ctx.cov["generator_stats"] = GEN_STATS
    ctx.cov["decisions_by_slot"] = SLOT_STATS          # filled by `nontrivial` while the batches are compared
    return cases


def corpus():
    res = []
    for p in sorted(glob.glob(os.path.join(ROOT, "corpus", PROP, "*.ops"))):
        ops = [l.rstrip("\n") for l in open(p) if l.strip() and not l.startswith("#") and not l.startswith("case ")]
        res.append(Case(os.path.basename(p), ops, tags=("corpus",)))
    return res


def densify(ops, rng):
    """observe after every traffic op: node statistics of the resource and of the inbound total, breaker states, listener log"""
    out = []
    for o in ops:
        o = o.split(" => ")[0]
        out.append(o)
        t = o.split()
        if t[0] in ("entry", "exit", "clock", "trace") and rng.random() < 0.8:
            out.append("log")
            if t[0] == "entry":
                out.append(f"stat {t[2]}")
                out.append(f"cbstate {t[2]}")
            out.append("stat inb")
    return out


BLOCK_SLOTS = ("sys", "flow", "iso", "hot", "cb")
SLOT_STATS = collections.Counter()


def nontrivial(case, impl):
    decs = []
    for l in impl:
        op, _, r = l.partition(" => ")
        if op.startswith("entry "):
            f = r.split()
            decs.append("p" if f and f[0] == "pass" else (f[1] if len(f) > 1 else "?"))
    for d in decs:
        SLOT_STATS[d] += 1
    slots = {d for d in decs if d in BLOCK_SLOTS}
    if "p" in decs and len(slots) >= 2:
        return hash((case.tags, tuple(decs)))
    return None


META = {
    "technique": ("Lean 4 proof (non-interference of the rule-check slots over the product state, simulation lemmas per module, C01 ledger "
                  "theorems instantiated on the integrated history) + differential correspondence model/impl through api.Entry on the real "
                  "GLOBAL slot chain with system, flow, isolation, hotspot and circuit-breaker rules loaded together"),
    "level_text": ("Theorems in lean/Sentinel/Props/INT.lean about lean/Sentinel/Model/Pipeline.lean — the product of the module models "
                   "(Sentinel.System / FlowReject / Iso / HotConc / CB / Entry) composed along the built-in chain order: the decision is the "
                   "first block in the order system < flow < isolation < hotspot < circuit breaker of the modules' own verdict functions on the "
                   "state before the entry, later slots' states are untouched by a blocked entry, earlier slots' states change only as their "
                   "own model says for a passed check; every module component evolves by its own model's steps on the projected history (so "
                   "C04 cap, C03 open_rejects_until etc. transfer); C01's ledger theorems hold verbatim for the integrated history.  The model "
                   "is tied to the code by running the same op files through api.Entry on the global chain and the compiled Lean driver and "
                   "comparing every observation; the reference composition (each module's abstract reference, first block in order) is "
                   "evaluated against the implementation directly."),
    "level_note": ("Trusted: Lean kernel; axioms propext/Classical.choice/Quot.sound; Go harness (virtual clock with case shifting by "
                   "multiples of 720 720 000 ms, reflection read of the global chain's rule-check slice), Lean Float = Go float64 for the "
                   "system slot's and the breaker's float expressions.  Domain: flow rules Direct/Reject only (no throttling / warm-up), "
                   "hotspot concurrency rules without cache eviction, hashable arguments (no recovered panic), sequential API calls."),
    "design_ref": "DESIGN.md 6.C16, 6.C01 (integrated phase); notes/INT.md",
}
