"""C17 — metric log: searchable, bounded, survives truncation at any byte (core/log/metric on a temp directory)."""
import glob
import os
import shutil
import tempfile

from vlib import std
from vlib.core import Case, ROOT

PROP = "C17"
# the aggregator bridge (resource nodes -> per-second items -> writer; checks/AGG.py, notes/AGG.md) is an extra phase of
# this property: `bin/check C17 …` runs it afterwards and reports it under C17
ALSO = ["AGG"]
SPEC_MODE = "spec"
KEEP_PREFIX = 2                      # clock + log.new
SIZES = {"quick": 260, "thorough": 1500}
BATCH = 130
SHRINK_BUDGET = 200
RULE = ("write histories on a fresh temp directory: creation time (aligned / unaligned / just before midnight UTC), size limit from "
        "{1..100000} and file-count limit from {1..6} so that 0..12 size rolls, day rolls and removals happen; per-second batches of 1-4 items "
        "(second steps 0,0,1,1,2,5; occasionally backwards, ts 0, empty batch), resource names from a small pool (ASCII, UTF-8, one with '|') and, one item in eight, from a pool of awkward legal names "
        "(printf verbs %d %s %% %! %[1]d, URL-encoded, backslashes, blanks, tab, CJK, emoji, ':' ',' '[' - written as H<hex> tokens where the op "
        "line cannot carry them literally), "
        "counters boundary-heavy (0, 1, 2^32-1, 2^64-1, class +-2^31); one case in ten with resource names of 8000 .. 40000 bytes (token R<n>; line lengths exactly around the reader's 8192-byte buffer; "
        "single lines larger than the size limit), first / middle / last in a batch, found by name, by * and from-time, cuts around line ends and "
        "multiples of 8192; restarts of the writer on the same directory (log.reopen) at a later clock "
        "(same second .. past midnight) with other, mostly smaller, limits, followed by writes with log.files after each; queries FindByTimeAndResource / FindFromTimeWithMaxLines interleaved "
        "with the writes and at the end, on two long-lived searchers (position cache) and on fresh ones, begin/end on written seconds +-1 and "
        "unaligned; then a crash phase: quick = every cut offset inside the last 3 lines of the last data file and the last 3 entries of its "
        "index, thorough = every byte offset of both files, each followed by queries; after a third of the crash phases an odd phase: the last idx file removed (log.rmidx), then garbage appended to the last data / idx file "
        "(log.raw: empty lines, lines with too few fields, every column non-numeric / overflowing / signed, CR endings, no final LF, index "
        "entries with arbitrary seconds and offsets, torn entries) - outside the property, spec `?`, model must agree; 15% of the cases with the pid "
        "suffix in the file names, 25% with another application name (glob metacharacters [x] * ? \\, dots, blanks, unicode), 12% with foreign files / directories in the log directory (log.touch / log.mkdir), invalid limits, invalid "
        "searcher arguments; fixed slices inside each known-finding region. "
        "non-trivial = at least one roll and one non-empty result; distinct by (limits, op-kind sequence, number of cuts)")

B0 = 1_900_000_000_000
MIDNIGHT = 1_900_022_400_000          # 2030-03-18 00:00:00 UTC
NAMES = ["a", "a", "b", "b", "svc", "/api/x", "r-1", "été", "q_q"]
U64 = 2 ** 64 - 1


# legal names that stress the formatter / the line format: printf verbs, backslashes, blanks, unicode, separators of the op language
SPECIAL = ["%", "%d", "%s", "%%", "%!", "100%", "cpu>90%", "/a%20b%2Fc", "%v%+v", "%!d(MISSING)", "%[1]d", "%5.2f%%", "a\\b", "\\", "\\n",
           "C:\\dir\\f", "a b", " lead", "trail ", "tab\tx", "名前/リソース", "🙂", "a:b", "a,b", "[x]", "=>", "x|y%d", "%|%", "é%s", "H41", "R7x"]


def name_tok(name):
    """the op-line token of a resource name: literal if it can stand in an op line and a result line, else H<hex>"""
    bs = name.encode("utf-8")
    safe = bs and all(b >= 33 and b != 127 and chr(b) not in ":,[]" for b in bs)
    if safe and not (name[0] in "RH") and "=>" not in name:
        return name
    return "H" + bs.hex()


def enc_len(res):
    if res.startswith("R") and res[1:].isdigit():      # token R<n>: the deterministic name of n bytes
        return int(res[1:])
    if res.startswith("H") and len(res) % 2 == 1 and all(c in "0123456789abcdef" for c in res[1:]):
        return (len(res) - 1) // 2                     # token H<hex>
    return len(res.encode("utf-8"))


def line_len(ts, item):
    res, nums = item[0], item[1:]
    return len(str(ts)) + 1 + 19 + 1 + enc_len(res) + sum(1 + len(str(x)) for x in nums) + 1


def item_tok(item):
    return ":".join(str(x) for x in item)


class Sim:
    """what the generator needs to know about the writer: sizes of the current data / idx file"""

    def __init__(self, t0, max_size, max_files):
        self.latest = t0 // 1000
        self.max_size = max_size
        self.lines = []          # (length, sec) of the current file
        self.nidx = 0
        self.rolls = 0
        self.secs = [t0 // 1000]

    def roll(self):
        self.lines, self.nidx = [], 0
        self.rolls += 1

    def reopen(self, now, max_size):
        self.roll()
        self.max_size = max_size
        self.latest = now // 1000
        if self.latest not in self.secs:
            self.secs.append(self.latest)

    def write(self, ts, items):
        if not items or ts == 0:
            return
        sec = ts // 1000
        if sec < self.latest:
            return
        if sec > self.latest:
            self.nidx += 1
            if sec // 86400 > self.latest // 86400:
                self.roll()
        for it in items:
            self.lines.append((line_len(ts, it), sec))
        if sum(l for l, _ in self.lines) >= self.max_size:
            self.roll()
        self.latest = max(self.latest, sec)
        if sec not in self.secs:
            self.secs.append(sec)


def rand_num(rng, hi=U64):
    return rng.choice([0, 0, 0, 1, 1, 7, 42, 1234, rng.randint(0, 10 ** 6), hi])


def rand_item(rng):
    x = rng.random()
    res = rng.choice(NAMES) if x < 0.85 else (name_tok(rng.choice(SPECIAL)) if x < 0.97 else rng.choice(["x|y", ""]))
    return (res, rand_num(rng), rand_num(rng), rand_num(rng), rand_num(rng), rand_num(rng), rand_num(rng),
            rand_num(rng, 2 ** 32 - 1), rng.choice([0, 0, 0, 1, 2, -1, 2 ** 31 - 1, -2 ** 31]))


def rand_query(rng, sim, sid, now_sec):
    secs = sim.secs
    b = rng.choice(secs + [secs[0], secs[-1], now_sec]) * 1000 + rng.choice([0, 0, 0, 1, 999, -1000, 1000])
    b = max(b, 1)
    if rng.random() < 0.7:
        e = rng.choice([b, b + 1000, b + 3000, secs[-1] * 1000 + 999, 10 ** 14, max(1, b - 1000)])
        res = rng.choice(["*", "*", "a", "b", "svc", "nosuch", "été", name_tok(rng.choice(SPECIAL)), name_tok(rng.choice(SPECIAL))])
        return f"log.find {sid} {b} {e} {res}"
    return f"log.from {sid} {b} {rng.choice([0, 1, 2, 3, 5, 8, 100, 100000])}"


# application names: an opaque string for the log - glob metacharacters, dots (become dashes), blanks, unicode
APPS = ["orders[blue]", "[x]", "x[a-c]z", "a*b", "what?", "back\\slash", "my.app.v2", "app-1", "sp ace", "名前", "{a,b}", "tilde~", "(paren)", "%41pp", "a.b[c]*"]

FOREIGN = ["other.txt", "v-app-metrics.log.lck", "zzz-metrics.log.2030-03-17", "v-app-metrics.log", "README", "v-app-metrics.logx"]
FOREIGN_DIRS = ["sub", "v-app-metrics.log.d"]


def be8(n):
    return "%016x" % n


def odd_phase(rng, sim, ops):
    """after the crash: a missing idx file (still inside the property), then corruption other than truncation - garbage
    lines / index entries appended to the last files (outside the property: the spec says `?`, the model must still agree)"""
    ts = sim.latest * 1000
    total = sum(l for l, _ in sim.lines)
    secs = sim.secs
    n = [0]

    def queries(k):
        out = []
        for _ in range(k):
            b = rng.choice(secs + [secs[-1], secs[-1] + 1]) * 1000
            sid = rng.choice(["s1", f"o{len(ops)}-{n[0]}"])
            n[0] += 1
            if rng.random() < 0.7:
                out.append(f"log.find {sid} {b} {10 ** 14} " + rng.choice(["*", "*", "g", "a"]))
            else:
                out.append(f"log.from {sid} {b} {rng.choice([1, 3, 100])}")
        return out

    # both files complete again (an index that is not a whole number of entries would misalign the appended entries: arbitrary
    # offsets, beyond 2^63 or the file system's limit, are not modelled)
    ops += [f"log.cut data {total}", f"log.cut idx {sim.nidx * 16}"]
    gone = False
    if rng.random() < 0.5:
        ops.append("log.rmidx")
        ops += queries(2)
        ops.append("log.files")
        gone = True
        if rng.random() < 0.5:
            ops.append(f"log.cut idx {sim.nidx * 16}")          # the index is back
            gone = False
    torn = False
    if not gone and sim.nidx >= 1 and rng.random() < 0.4:
        # the cached index position is overwritten by another entry (isPositionInTimeFor must notice: it re-reads the second)
        last = sim.latest
        ops.append(f"log.find s1 {last * 1000} {10 ** 14} *")
        ops.append(f"log.cut idx {(sim.nidx - 1) * 16}")
        ops.append("log.raw idx " + be8(last + rng.choice([1, 2, 5])) + be8(rng.choice([0, total // 2, total])))
        ops.append(f"log.find s1 {(last + rng.choice([0, 1, 2, 6])) * 1000} {10 ** 14} *")
        ops.append(f"log.find s1 {last * 1000} {10 ** 14} *")
    lines = ["", "abc", "1|2|3|4|5|6|7|8", f"{ts}|t|g|1|2|3|4|5", f"x{ts}|t|g|1|2|3|4|5", f"{ts}|t|g|x|2|3|4|5", f"{ts}|t|g|1|x|3|4|5",
             f"{ts}|t|g|1|2|x|4|5", f"{ts}|t|g|1|2|3|x|5", f"{ts}|t|g|1|2|3|4|x", f"{ts}|t|g|1|2|3|4|5|x", f"{ts}|t|g|1|2|3|4|5|6|4294967296",
             f"{ts}|t|g|1|2|3|4|5|6|7|2147483648", f"{ts}|t|g|1|2|3|4|5|6|7|-2147483649", f"{ts}|t|g|1|2|3|4|5|6|7|+5", f"{ts}|t|g|1|2|3|4|5|6|7|-0",
             f"{ts}|t|g|1|2|3|4|5|6|7|-", f"{ts}|t|g|+1|2|3|4|5", f"{ts}|t|g|18446744073709551616|2|3|4|5",
             f"{ts}|t|g|18446744073709551615|2|3|4|5|6|7|8|9|10|11", f"{ts + 1000}|t|g|1|2|3|4|5", f"{ts}|t|g|1|2|3|4|5\r", "\r",
             f"{ts}|t||1|2|3|4|5", f"{ts}|t|g|01|002|3|4|5", f"{ts}|t|g|1|2|3|4|", f"{ts}|t|g|1|2|3|4"]
    for _ in range(rng.randint(1, 4)):
        chunk = ""
        for l in rng.sample(lines, rng.randint(1, 5)):
            chunk += l.replace("\\r", "\r") + "\n"
        if rng.random() < 0.3:
            chunk = chunk[:-1]                                   # no LF at the end
            if rng.random() < 0.3:
                chunk += "\r"
        if not chunk:
            chunk = "\n"
        ops.append("log.raw data " + chunk.encode().hex())
        ops += queries(rng.randint(1, 3))
        if rng.random() < 0.5 and not gone and not torn:
            ent = ""
            for _ in range(rng.randint(1, 3)):
                sec = rng.choice([sim.latest, sim.latest + 1, sim.latest + 5, 0, 2 ** 64 - 1, secs[0]])
                off = rng.choice([0, total // 2, total, total + 100, 2 ** 40])
                ent += be8(sec) + be8(off)
            if rng.random() < 0.4:
                ent += "".join("%02x" % rng.randrange(256) for _ in range(rng.randint(1, 15)))
                torn = True                                      # nothing may follow a torn entry
            ops.append("log.raw idx " + ent)
            ops += queries(rng.randint(1, 3))
    ops.append("log.files")


def gen_case(rng, cid, tier, forced=None):
    kind = forced or rng.choice(["plain", "plain", "cut", "cut", "cut", "first", "cache", "orphan", "torn", "reopen", "reopen"])
    r = rng.random()
    if r < 0.6:
        t0 = B0 + rng.randint(0, 50000) * 1000
    elif r < 0.8:
        t0 = B0 + rng.randint(0, 5 * 10 ** 7)
    else:
        t0 = MIDNIGHT - rng.choice([1, 2, 3, 5]) * 1000 + rng.choice([0, 0, 500])
    max_size = rng.choice([1, 60, 110, 120, 200, 300, 300, 500, 1000, 100000])
    max_files = rng.choice([1, 2, 2, 3, 4, 6])
    if kind == "orphan":
        max_size, max_files = rng.choice([60, 110, 200]), rng.choice([1, 2, 3])
    if kind == "torn":
        max_size = rng.choice([300, 1000, 100000])
    if kind == "reopen":
        max_size, max_files = rng.choice([1, 60, 110, 200]), rng.choice([3, 4, 6, 6])
    pid = rng.random() < 0.15
    app = (" app=" + name_tok(rng.choice(APPS))) if rng.random() < 0.25 else ""
    ops = [f"clock {t0}", f"log.new {max_size} {max_files}" + (" pid" if pid else "") + app]
    if rng.random() < 0.03:
        ops.insert(1, f"log.new {rng.choice([0, 5])} {rng.choice([0, 0, 3])}".replace("log.new 5 3", "log.new 0 3"))   # invalid limits: err
    if rng.random() < 0.03:
        ops.append("log.badsearcher")
    foreign = rng.random() < 0.12
    sim = Sim(t0, max_size, max_files)
    ts = t0
    nq = 0
    if kind == "first" or rng.random() < 0.3:
        # items in the creation second
        items = [rand_item(rng) for _ in range(rng.randint(1, 3))]
        ops.append(f"log.write {ts} {len(items)} " + " ".join(item_tok(i) for i in items))
        sim.write(ts, items)
    nwrites = rng.randint(3, 14) if kind != "reopen" else rng.randint(8, 16)
    reopen_at = set()
    if kind == "reopen":
        reopen_at = set(rng.sample(range(3, nwrites - 1), rng.choice([1, 1, 2])))
    elif rng.random() < 0.12:
        reopen_at = {rng.randrange(nwrites)}
    watch = 0                       # log.files after each of the next writes
    nreopen = 0
    for wi in range(nwrites):
        if wi in reopen_at:
            # restart of the writer on the same directory: later clock (sometimes past midnight), other limits
            base = max(ts, sim.latest * 1000)
            delta = rng.choice([0, 1, 999, 1000, 3000, 60000, 86400000, (86400000 - base % 86400000) + rng.choice([0, 1000])])
            now = base + delta
            if kind == "reopen":
                new_files = rng.choice([1, 2, 2, 3])
                new_size = rng.choice([1, 60, 110, 300, 100000])
            else:
                new_files, new_size = rng.choice([1, 2, 3, 6]), rng.choice([1, 60, 110, 300, 1000, 100000])
            ops += [f"clock {now}", f"log.reopen {new_size} {new_files}", "log.files"]
            sim.reopen(now, new_size)
            ts = now
            watch = rng.randint(2, 4)
            nreopen += 1
        step = rng.choice([0, 0, 1, 1, 1, 1, 2, 5]) if kind != "orphan" else rng.choice([0, 0, 0, 1, 1])
        ts += step * 1000 + (rng.choice([0, 0, 0, 1, 250]) if step else 0)
        x = rng.random()
        if x < 0.03:
            ops.append(f"log.write {max(1, ts - rng.choice([1000, 5000]))} 1 " + item_tok(rand_item(rng)))      # behind: ignored (or same second)
            sim.write(int(ops[-1].split()[1]), [tuple(ops[-1].split()[3].split(":"))])
            continue
        if x < 0.05:
            ops.append(rng.choice([f"log.write 0 1 " + item_tok(rand_item(rng)), f"log.write {ts} 0"]))
            continue
        items = [rand_item(rng) for _ in range(rng.randint(1, 4))]
        ops.append(f"log.write {ts} {len(items)} " + " ".join(item_tok(i) for i in items))
        sim.write(ts, items)
        if watch:
            ops.append("log.files")
            watch -= 1
        if rng.random() < 0.25:
            ops.append(rand_query(rng, sim, rng.choice(["s1", "s2", f"f{nq}"]), ts // 1000))
            nq += 1
        if rng.random() < 0.05:
            ops.append("log.files")
        if foreign and rng.random() < 0.3:
            ops.append(rng.choice([f"log.touch {rng.choice(FOREIGN)}", f"log.touch {rng.choice(FOREIGN)}", f"log.mkdir {rng.choice(FOREIGN_DIRS)}"]))
            ops.append("log.files")
    ops.append("log.files")
    nfinal = rng.randint(3, 8)
    for i in range(nfinal):
        if kind == "cache":
            sid = "s1"
        elif kind == "first":
            sid = f"f{nq}"
        else:
            sid = rng.choice(["s1", "s1", "s2", f"f{nq}"])
        q = rand_query(rng, sim, sid, ts // 1000)
        if kind == "first" and i == 0:
            q = f"log.find {sid} {t0} {10 ** 14} *"
        ops.append(q)
        nq += 1
    ncut = 0
    if kind in ("cut", "torn") or rng.random() < 0.2:
        total = sum(l for l, _ in sim.lines)
        if tier == "thorough" or kind == "torn":
            lo = 0 if tier == "thorough" else max(0, total - sum(l for l, _ in sim.lines[-2:]))
            data_cuts = list(range(lo, total + 1))
            idx_cuts = list(range(0 if tier == "thorough" else max(0, sim.nidx * 16 - 48), sim.nidx * 16 + 1))
        else:
            lo = total - sum(l for l, _ in sim.lines[-3:])
            data_cuts = list(range(lo, total + 1))
            idx_cuts = list(range(max(0, sim.nidx * 16 - 48), sim.nidx * 16 + 1))
        if tier != "thorough" and len(data_cuts) > 700:
            data_cuts = sorted(rng.sample(data_cuts, 700))
        lsecs = [s for _, s in sim.lines[-3:]] or [sim.latest]
        fsec = sim.lines[0][1] if sim.lines else sim.latest

        def cut_queries(tag, k):
            out = []
            b = rng.choice(lsecs + [fsec, lsecs[-1]]) * 1000
            out.append(f"log.find {tag}{k} {b} {10 ** 14} " + rng.choice(["*", "*", "*", "a", "b"]))
            y = rng.random()
            if y < 0.35:
                out.append(f"log.from {tag}{k}b {rng.choice(lsecs + [fsec]) * 1000} {rng.choice([1, 3, 100])}")
            elif y < 0.5:
                out.append(f"log.find s1 {rng.choice(sim.secs) * 1000} {10 ** 14} *")
            elif y < 0.6:
                out.append(f"log.find {tag}{k}c {sim.secs[0] * 1000} {10 ** 14} *")
            return out

        for k in data_cuts:
            ops.append(f"log.cut data {k}")
            ops += cut_queries("d", k)
            ncut += 1
        ops.append(f"log.cut data {total + 5}")
        for k in idx_cuts:
            ops.append(f"log.cut idx {k}")
            ops += cut_queries("i", k)
            ncut += 1
        if rng.random() < 0.5 and data_cuts and idx_cuts:
            for _ in range(6):
                ops.append(f"log.cut data {rng.choice(data_cuts)}")
                ops.append(f"log.cut idx {rng.choice(idx_cuts)}")
                ops += cut_queries("x", len(ops))
        ops.append("log.files")
        if rng.random() < 0.35:
            odd_phase(rng, sim, ops)
        if rng.random() < 0.1:
            ops.append(f"log.write {ts + 1000} 1 a:1:0:0:0:0:0:0:0")      # writer is dead: both sides say bad-op
    ops.append("log.end")
    return Case(cid, ops, tags=(kind, f"size={max_size}", f"files={max_files}", f"rolls={sim.rolls}", f"cuts={ncut}", f"reopens={nreopen}"))


LONG = [8000, 8150, 8176, 8192, 8208, 16400, 40000]


def gen_long(rng, cid, tier):
    """resource names longer than the reader's 8 KiB buffer (token R<n>), placed first / in the middle / last in a
    batch and followed by normal items; single lines larger than the size limit"""
    t0 = B0 + rng.randint(0, 50000) * 1000
    max_size = rng.choice([1, 300, 8192, 10000, 20000, 100000, 1000000])
    max_files = rng.choice([2, 3, 6])
    ops = [f"clock {t0}", f"log.new {max_size} {max_files}"]
    sim = Sim(t0, max_size, max_files)
    ts = t0
    nb = rng.randint(4, 8)
    long_at = set(rng.sample(range(nb), rng.choice([1, 2, 2, 3])))
    names = []
    for bi in range(nb):
        ts += rng.choice([0, 1, 1, 1, 2]) * 1000
        items = [rand_item(rng) for _ in range(rng.randint(1, 3))]
        if bi in long_at:
            it = list(rand_item(rng))
            if rng.random() < 0.35:
                # line length (with LF) exactly around the 8192-byte buffer
                it[0] = "R1"
                n = 1 + rng.choice([8190, 8191, 8192, 8193, 8193, 8194, 16384, 16385, 16385, 24577]) - line_len(ts, tuple(it))
            else:
                n = rng.choice(LONG) + rng.choice([0, 0, -16, 16, 1])
            it[0] = f"R{n}"
            names.append(it[0])
            pos = rng.choice([0, len(items) // 2, len(items)])
            if rng.random() < 0.2:
                items = []                       # the long item alone in its batch
            items.insert(min(pos, len(items)), tuple(it))
        ops.append(f"log.write {ts} {len(items)} " + " ".join(item_tok(i) for i in items))
        sim.write(ts, items)
        if rng.random() < 0.3:
            ops.append("log.files")
    ops.append("log.files")
    nq = 0
    for nm in names:
        ops.append(f"log.find l{nq} {t0} {10 ** 14} {nm}")
        nq += 1
    for _ in range(rng.randint(3, 6)):
        sid = rng.choice(["s1", "s1", f"f{nq}"])
        b = rng.choice(sim.secs) * 1000
        x = rng.random()
        if x < 0.4:
            ops.append(f"log.find {sid} {b} {10 ** 14} " + rng.choice(["*", "*", "a", "b"] + names))
        elif x < 0.6:
            ops.append(f"log.find {sid} {b} {b + rng.choice([0, 1000, 3000])} *")
        else:
            ops.append(f"log.from {sid} {b} {rng.choice([1, 2, 3, 5, 100])}")
        nq += 1
    ncut = 0
    if rng.random() < 0.5 and sim.lines:
        total = sum(l for l, _ in sim.lines)
        cuts = set()
        off = 0
        for l, _ in sim.lines:
            for d in (-1, 0, 1, 2):
                cuts.add(off + l + d)            # around every line end
            for m in range(off // 8192 * 8192, off + l + 1, 8192):
                cuts.update([m - 1, m, m + 1])   # around multiples of the buffer size
            cuts.add(off + rng.randint(0, l))
            off += l
        cuts = sorted(c for c in cuts if 0 <= c <= total)
        if len(cuts) > 40:
            cuts = sorted(rng.sample(cuts, 40))
        for k in cuts:
            ops.append(f"log.cut data {k}")
            ops.append(f"log.find d{k} {rng.choice(sim.secs) * 1000} {10 ** 14} " + rng.choice(["*", "*", "a"] + names))
            if rng.random() < 0.3:
                ops.append(f"log.from d{k}b {rng.choice(sim.secs) * 1000} {rng.choice([1, 3, 100])}")
            ncut += 1
        ops.append("log.files")
    ops.append("log.end")
    return Case(cid, ops, tags=("long", f"size={max_size}", f"files={max_files}", f"rolls={sim.rolls}", f"cuts={ncut}", "reopens=0"))


def gen(ctx, n):
    kinds = ["first", "cache", "orphan", "torn", "reopen"]
    out = []
    for i in range(n):
        forced = kinds[i % 5] if i % 10 < 5 and i // 10 % 2 == 0 else None
        if i % 10 == 7:
            out.append(gen_long(ctx.rng, f"g{ctx.seed}-{ctx.cov.get('traces_validated_against_impl', 0)}-{i}", ctx.tier))
            continue
        out.append(gen_case(ctx.rng, f"g{ctx.seed}-{ctx.cov.get('traces_validated_against_impl', 0)}-{i}", ctx.tier, forced))
    return out


def corpus():
    res = []
    for p in sorted(glob.glob(os.path.join(ROOT, "corpus", PROP, "*.ops"))):
        ops = [l.rstrip("\n") for l in open(p) if l.strip() and not l.startswith("#") and not l.startswith("case ")]
        res.append(Case(os.path.basename(p), ops, tags=("corpus",)))
    return res


def densify(ops, rng):
    """add queries on fresh searchers after every write / cut (used by the failing-input search)"""
    out = []
    secs = [int(o.split()[1]) // 1000 for o in ops if o.startswith("log.write ") or o.startswith("clock ")] or [B0 // 1000]
    n = 0
    for o in ops:
        if o == "log.end":
            continue
        out.append(o)
        if (o.startswith("log.write") or o.startswith("log.cut")) and rng.random() < 0.6:
            b = rng.choice(secs) * 1000
            out.append(f"log.find z{n} {b} {10 ** 14} *")
            out.append(f"log.from z{n}b {b} {rng.choice([1, 2, 100])}")
            n += 1
    out.append("log.files")
    out.append("log.end")
    return out


def nontrivial(case, impl):
    rolls = any(t.startswith("rolls=") and t != "rolls=0" for t in case.tags)
    nonempty = any(l.startswith(("log.find", "log.from")) and " => [" in l and not l.endswith("=> []") for l in impl)
    if rolls and nonempty:
        kinds = "".join(o.split()[0][4] for o in case.ops[2:] if o.startswith("log."))
        return hash((case.ops[1], kinds))
    return None


def _sweep():
    """remove temp directories of harness processes that are gone (never those of a live process:
    another check may be running concurrently)"""
    for d in glob.glob(os.path.join(tempfile.gettempdir(), "verif-c17-*")):
        parts = os.path.basename(d).split("-")
        if len(parts) >= 4 and parts[2].isdigit() and not os.path.exists(f"/proc/{parts[2]}"):
            shutil.rmtree(d, ignore_errors=True)


def run(ctx):
    try:
        return std.run(ctx, __import__("checks.C17", fromlist=["x"]))
    finally:
        _sweep()


META = {
    "technique": "Lean 4 proof (byte-level writer/index/searcher model, induction over write histories and over the cut offset) + differential "
                 "correspondence model/impl on real temp directories incl. exhaustive truncation",
    "level_text": ("Theorems in lean/Sentinel/Props/C17.lean about the definitions the driver executes (lean/Sentinel/Model/MetricLog.lean): item round trip "
                   "through ToFatString/MetricItemFromFatString, the reference answers are complete/ordered/duplicate-free, the file count never exceeds the "
                   "maximum for any history, for every cut offset the items read are exactly the items wholly before the cut plus what the one fragment parses to "
                   "(only possible with 8 fields), searching is total and returns only items parsed from retained files for any bytes / cache / cut, and - end to "
                   "end over every accepted write history with any number of size/day rolls and removals (writer invariants proved by induction) - a fresh "
                   "searcher's FindByTimeAndResource equals the reference whenever every retained item not before `begin` belongs to an indexed second. "
                   "The model is tied to core/log/metric by running the same op files through the real writer/searcher on a temp directory and through the "
                   "compiled model (every observation compared, incl. file names and sizes), with every cut offset of the last data/idx file exercised."),
    "level_note": ("Trusted: Lean kernel; axioms propext/Classical.choice/Quot.sound; Go harness (virtual clock, UTC), the OS file system for prefix truncation only. "
                   "Known findings (not repaired): metriclog-first-second, metriclog-cache-skip, metriclog-torn-line, metriclog-orphan-head. Not modelled: the "
                   "100000-item cap of ReadMetricsByEndTime, time zones other than UTC, years > 9999, concurrent writer/searcher interleavings inside one call."),
    "design_ref": "DESIGN.md 6.C17",
}
